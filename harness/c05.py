"""C05 — Adj, AdjT, Retr, +, Jinvp, Jr satisfy their defining tangent-space identities.

Model: lean/Pose/Model/Lie.lean (Adj/AdjT/Retr/Jinvp/so3Jr, Exp/Log, Jl/JlInv) + lean/Pose/Model/Tangent.lean
(`+`/add/add_ on group and algebra elements incl. ignored extra components and alpha, SO3Type.Jr);
theorems: lean/Proofs/Props/C05.lean.

Correspondence streams (real batched code vs the model's executable definitions in 192-bit arithmetic)
  ops    : Adj, AdjT, Retr, `+` / add / add_ / pp.add / pp.add_ (LieTensor and plain-tensor operands, extra
           trailing components, alpha), algebra `+`, Jinvp, so3.Jr / SO3.Jr on the four groups, broadcastable
           batch shapes incl. enlarged and empty ones, float32/float64; every item compared block-wise.
Deterministic streams that run FIRST and identically for every seed
  persistent / history : one group object, one algebra operand and one plain-tensor operand live through a fixed history in which
           every per-call argument changes and all three are updated in place between calls; each read must equal the same read
           on fresh clones bit for bit, leave its operands untouched and add no attributes to the objects or their ltype;
  views  : operands as strided / windowed / transposed / expanded views of larger buffers, in-place updates through a view (storage
           outside the view untouched), one storage passed as both arguments — reference: contiguous clones, bit for bit;
  dispatch: `c05.add` = the model's `lieAdd`: spelling (+, add, pp.add, add_, pp.add_, Retr, pp.Retr), alpha, both lshapes (broadcastable or not,
           enlarging, empty) and the width of `other` (short / exact / extra) are handled INSIDE the Lean model; same outcome class, lshape, items;
  corpus : fixed corner elements (eps-neighbourhoods, sqrt(eps), both hemispheres, pi, |w|~0, scales e^±40, translations 1e6) x fixed
           tangent vectors (zero .. angle 100, |tau| 1e6, sigma ±20) in ONE mixed-regime batched call per op: item-wise against the
           model, against the call on each item alone, the laws, and the exact adjoint / Jinvp / Jr oracles.
Oracles on the real code (the property's own statements)
  adj    : Adj / AdjT against the definition vee(M a^ M^-1) with M = matrix(X) of the real code, conjugation in 50 digits;
  laws   : X@Exp(a) = Exp(Adj(X,a))@X ; Exp(a)@X = X@Exp(AdjT(X,a)) ; Retr(X,a) = X+a = add = add_ = Exp(a)@X
           (extra components ignored, alpha, purity, in-place semantics, repeatability of a second call) ;
           algebra + is vector addition ;
  jinvp  : Jinvp(X,p) against the exact inverse left Jacobian at Log(X) (mpmath, 30 digits: J_l = ∫ exp(s·ad)ds by
           the block-matrix exponential, solved for p) — for Sim3 up to the documented Bernoulli truncation — and
           against the central finite difference of h ↦ Log(Exp(h·p)@X) on the real code;
  jr     : Jr(x) against the exact right Jacobian Σ(-K)^n/(n+1)! (mpmath), the defining first-order identity
           Exp(x+d) = Exp(x)@Exp(Jr(x)d) on the real code, Jr(0) = I exactly, SO3.Jr(X) = so3.Jr(Log X).
"""
from __future__ import annotations

import math

import torch

from . import common, util_lie as U
from .common import Ctx

META = {
    "rule": "group elements and tangent vectors from the structured generator of DESIGN §4 (rotation angle on the magnitude "
            "ladder incl. 0, the eps-neighbourhood, sqrt(eps), pi±, beyond pi up to 10; both quaternion hemispheres, |w|~eps, "
            "|v|~eps; translations 0..1e3; log-scales 0, ±eps-neighbourhood .. ±8; whole tangent vectors additionally scaled by "
            "1e-9/1e-17/1e-30 or zeroed), blocks varied independently; random broadcastable batch-shape pairs (rank<=2, extents "
            "0..3, incl. pairs that enlarge X), float32/float64, operands as LieTensor or plain Tensor, `other` with 0..2 "
            "extra trailing components, alpha in {1,-1,2,0.5,0}; 5% extreme-but-valid rows (scale e^±40, |t| 1e6, angle 100, sigma ±20); "
            "before the random part a deterministic part (history of long-lived objects, views/aliases, corner corpus with mixed-regime "
            "batches; since round 5: a poison history that interleaves every other public operation of the module on single items between "
            "two bit-identical evaluations, float16/bfloat16/complex64 operands and every dtype of `other`, exact power-of-two scale "
            "covariance, operands in the band between round-off and 1e-5, batches of 2^18+37 (thorough: 2^18+1, 2^20+1) with tail checks) "
            "runs identically for every seed; non-trivial = X not the identity or a != 0; distinct by "
            "(op, api, type, dtype, regime tags, shapes)",
    "trusted": ["floating-point round-off is measured against the property's tolerances, not proved",
                "mpmath (30 digits) matrix exponential / linear solve used as the truth of the Jinvp and Jr oracles",
                "SE3/Sim3 Jinvp with rotation angle of Log X <= 0.05 (series branch of calcQ): the correctness of the Q block rests on the "
                "mpmath oracle alone -- SE3_Jinvp_spec/_unique/_spec_valid hold for ANY matrix in the place of calcQ, and "
                "SE3_Jinvp_first_order (via C04's SE3Log_tangent) needs angle > 0.05; theorem-level only: series and closed-form "
                "coefficients differ by <= theta^6/300000 (calcQ_coef*_agree)"],
    "assumptions": ["group inputs are valid (unit quaternion to 1 ulp, positive scale)",
                    "Jinvp oracle: rotation angle of X below pi (principal Log), Sim3: ||ad(Log X)|| < 0.9*2*pi (radius of "
                    "convergence of the documented Bernoulli series)"],
    "partial": ["rounding: theorems are over exact reals; agreement of the float code within 64·eps·scale (algebraic ops), "
                "16·eps (rotation/scale blocks), 4·sqrt(eps)·scale (translation blocks, Jinvp, Jr) is measured",
                "Sim3 Jinvp: the model/code is the 4-term Bernoulli truncation; its distance to the exact inverse left Jacobian is now a theorem for "
                "||ad xi|| <= 1 in the row-sum norm (sim3JlInv_truncation_bound: ||P·J_l - 1|| <= ||ad||^6/7500, sim3JlInv_inverse_distance: "
                "||P - J_l^-1|| <= ||ad||^6/4700); for 1 < ||ad|| < 2pi the documented bound 2||ad||^6/30240/(1-(||ad||/2pi)^2) is measured by the "
                "mpmath oracle only",
                "adjoint identity on small-angle branches of the CODED Exp: SO3/RxSO3 exact for every a; SE3 Adj with 0<theta<=eps proved with an "
                "explicit bounded residual (SE3_Adj_identity_taylor_partial, SE3_AdjT_identity_taylor_partial, se3_taylor_defect_bounds, se3_taylor_defect_size, SE3_Adj/AdjT_taylor_distance: the translation blocks differ by at most "
                "theta^7 |t|/5760 + theta^6 |t|/720); Sim3 with "
                "0<theta<=eps or 0<|sigma|<=eps: only an exact algebraic unfolding (Sim3_Adj_residual_partial, no size bound), AdjT: no theorem. "
                "The matrix-level statements (*_hat_Adj/_AdjT, *_exp_Adj/_AdjT) hold for every input but are about matrix(X) and MATHLIB's "
                "exp of the hat matrix, not about the coded Exp; no theorem here combines them with C01 into a bound for the coded Exp on "
                "Taylor branches -- those inputs are covered by the 50-digit vee(M a^ M^-1) oracle only",
                "Jinvp as the first-order change of Log(Exp(tau)@X): SO3, RxSO3 (angle > eps) and SE3 (angle > max(eps, 0.05)) are theorems "
                "(SO3/RxSO3/SE3_Jinvp_first_order, through C04's Log/Retr tangent theorems), and at rotation angle exactly 0 for all four groups "
                "(SO3_Jinvp_first_order_one, SE3_Jinvp_first_order_translation: every pure translation, RxSO3_Jinvp_first_order_scale: every pure "
                "scaling, Sim3_Jinvp_first_order_one: the identity element); no derivative statement for 0 < angle <= eps; Sim3 away from the "
                "identity: truncation, distance theorems only; ||Log X|| <= eps: exact defect polynomial for "
                "SO3, SE3, RxSO3 (SO3/SE3/RxSO3_Jinvp_spec_taylor_partial, so3Jinvp_taylor_coef_bounds) and Jinvp(identity, p) = p for all four groups (*_Jinvp_one); otherwise finite differences "
                "and the mpmath oracle on the real code",
                "Jr = Jl(-x), R(Exp x)·Jr = Jl and the derivative form are proved for eps < ||x|| (and the value 1 at x = 0); on 0<||x||<=eps the "
                "code returns the identity, for which the clause Jr = Jl(-x) is FALSE (disclosed; so3Jr_small_angle states what it returns); by how much is a "
                "theorem: Jl(-x)v = Jr_code(x)v - (1/2 - n/24)(x×v) + (1/6 - n/120)x×(x×v) exactly (so3Jr_taylor_defect_partial), the two defect vectors "
                "are <= ||x|| ||v||/2 and <= ||x||^2 ||v||/6 (so3Jr_taylor_coef_bounds, so3Jr_taylor_defect_size)",
                "batching/broadcasting of Adj/AdjT/Jinvp/Jr (incl. the empty-batch `dim = a.shape[-1]` branch of Adj) is not modelled in Lean for "
                "C05 (C06's subject); covered by the correspondence check only (shape pairs incl. empty, large sizes, split consistency)"],
}

K_ALG = 64.0
JUDGE_IADD = False   # `X += a` (no LieTensor.__iadd__) is outside the property's observed entry points; see notes/C05.md
NEARTOL = 1e-6


def teps(dtype):
    return common.EPS[dtype]


def n2(v):
    return math.sqrt(sum(c * c for c in v))


def gparts(name, x):
    t = x[U.TSL[name]] if U.TSL[name] is not None else None
    q = x[U.QSL[name]]
    s = x[U.SIDX[name]] if U.SIDX[name] is not None else None
    return t, q, s


def aparts(name, a):
    tau = a[U.TAUSL[name]] if U.TAUSL[name] is not None else None
    phi = a[U.PHISL[name]]
    sg = a[U.SIGIDX[name]] if U.SIGIDX[name] is not None else None
    return tau, phi, sg


def near(v, eps):
    v = abs(v)
    return v > 0 and abs(v / eps - 1.0) < NEARTOL


def flag_alg(name, a, eps):
    tau, phi, sg = aparts(name, a)
    return near(n2(phi), eps) or (sg is not None and near(sg, eps))


def flag_grp(name, x, eps):
    _, q, s = gparts(name, x)
    vn = n2(q[:3])
    return near(vn, eps) or near(q[3], eps) or near(2 * vn, eps) or (s is not None and s > 0 and near(math.log(s), eps))


def eps_variants(eps, flagged):
    return [eps, eps * (1 - 2.0 ** -48), eps * (1 + 2.0 ** -48)] if flagged else [eps]


def mlines(op, eps, args, flagged):
    return [f"{op} " + common.wire_list([e] + list(args)) for e in eps_variants(eps, flagged)]


class Pending:
    """model request lines + the checker that consumes the replies (list of candidate results)"""

    def __init__(self, lines, fn):
        self.lines, self.fn = lines, fn


# Below these magnitudes intermediate products of the float code underflow (gradually or to zero), so "relative to the
# block's scale" is no longer meaningful in IEEE arithmetic: blocks are compared with this scale floor (absolute tolerance
# k·eps·floor ≈ 1e3·tiny).  This is a statement about the dtype's range, not a loosening of the property.
SCALE_FLOOR = {"float32": 16 * 1.1754944e-38 / 2.0 ** -23, "float64": 16 * 2.2250738585072014e-308 / 2.0 ** -52}


def amax(vals, default=0.0):
    """NaN-propagating maximum (lesson 38b): python's max() silently drops a NaN that is not the first element"""
    m = default
    for v in vals:
        if v != v:
            return math.nan
        if v > m:
            m = v
    return m


def nonfinite_fail(ctx, case, Zt, what, Xe=None, ae=None) -> bool:
    """lesson 38a: every result of the real code for a finite valid input is finite (on the unchanged tree no C05 entry point returns a
    non-finite value for any generated input, quick or thorough; neither the property text nor the documentation specifies a non-finite
    result anywhere).  Tested BEFORE any tolerance comparison; records the failing item; True if a failure was recorded."""
    Zt = Zt.tensor() if hasattr(Zt, "ltype") else Zt
    Zt = Zt.detach()
    if not Zt.numel() or not Zt.is_floating_point() or bool(torch.isfinite(Zt).all()):
        return False
    n = Xe.shape[0] if Xe is not None else (ae.shape[0] if ae is not None else 0)
    zf = Zt.double().reshape(n, -1) if n and Zt.numel() % n == 0 else Zt.double().reshape(1, -1)
    i = int((~torch.isfinite(zf)).any(-1).nonzero()[0])
    item = {"index": i, "result": [str(v) for v in zf[i].tolist()[:16]]}
    if Xe is not None and zf.shape[0] == n:
        item["X"] = Xe[i].double().tolist()
    if ae is not None and zf.shape[0] == n:
        item["a"] = ae[i].double().tolist()
    ctx.fail(case | {"item": item}, f"non-finite result: {what} returned {item['result']} at item {i} for the finite valid input "
                                    f"X={item.get('X')}, a={item.get('a')} ({case.get('type')}, {case.get('dtype')})")
    return True


def block_err(got, want, sl, scale, floor):
    return amax(abs(g - w) for g, w in zip(got[sl], want[sl])) / max(scale, floor)


def best(cands, errfn):
    """errors (dict block->(err, tol)) of the candidate with the smallest worst ratio"""
    out = None
    for w in cands:
        e = errfn(w)
        r = amax((v[0] / v[1] if v[1] > 0 else (0.0 if v[0] == 0 else math.inf)) for v in e.values()) if e else 0.0
        if out is None or r < out[0] or (out[0] != out[0] and r == r):      # a NaN ratio never beats a finite one
            out = (r, e)
    return out


# ----------------------------------------------------------------------------- case generation

def gen_alg_row(rng, name, eps, big=True):
    a, tag = U.gen_algebra(rng, name, eps, big=big)
    c = rng.random()
    if big and c > 0.95:   # large norm well beyond the usual range: angle up to 100, translation up to 1e6, log-scale up to ±20 (±8 float32)
        f64 = eps < 1e-10
        out = []
        if name in ("SE3", "Sim3"):
            out += U.vec(rng, 10 ** rng.uniform(3, 6))
        out += U.vec(rng, rng.choice([rng.uniform(10, 100), 100.0, 31.4]))
        if name in ("RxSO3", "Sim3"):
            out.append(rng.choice([-1, 1]) * rng.uniform(8, 20 if f64 else 8))
        return out, "extreme"
    if c < 0.07:
        a, tag = [0.0] * len(a), "zero"
    elif c < 0.2:
        f = rng.choice([1e-9, 1e-17, 1e-30])
        a, tag = [v * f for v in a], tag + f"*{f:g}"
    elif c < 0.26:   # a single non-zero block
        tau, phi, sg = aparts(name, a)
        keep = rng.choice(["phi", "tau", "sigma"])
        b = [0.0] * len(a)
        if keep == "phi" or (keep == "tau" and tau is None) or (keep == "sigma" and sg is None):
            b[U.PHISL[name]] = phi
        elif keep == "tau":
            b[U.TAUSL[name]] = tau
        else:
            b[U.SIGIDX[name]] = sg
        a, tag = b, tag + "/only-" + keep
    return a, tag


def gen_grp_row(rng, name, eps):
    c = rng.random()
    if c > 0.95:   # valid but extreme: scale e^±40 (e^±15 float32), translation up to 1e6
        f64 = eps < 1e-10
        q, _ = U.gen_unit_quat(rng, eps)
        out = []
        if name in ("SE3", "Sim3"):
            out += U.vec(rng, 10 ** rng.uniform(3, 6))
        out += q
        if name in ("RxSO3", "Sim3"):
            out.append(math.exp(rng.choice([-1, 1]) * rng.uniform(8, 40 if f64 else 15)))
        return out, "extreme"
    if c < 0.05:
        return {"SO3": [0, 0, 0, 1.], "SE3": [0, 0, 0, 0, 0, 0, 1.], "RxSO3": [0, 0, 0, 1., 1.],
                "Sim3": [0, 0, 0, 0, 0, 0, 1., 1.]}[name], "identity"
    if c < 0.30:  # tiny rotation, free translation / scale: the small-angle coefficient branches of Log / JlInv / Q
        th = rng.choice([0.0, 1e-30, eps / 2, eps, 2 * eps, 1e-14, 1e-13, 1e-12, 1e-11, 1e-10, 1e-9, 1e-8, 1e-7, 1e-6, 1e-5, 1e-4,
                         0.02, 0.04, 0.05 * (1 - 1e-3), 0.05 * (1 + 1e-3), 0.049, 0.051])
        if rng.random() < 0.4:
            th = 10 ** rng.uniform(math.log10(eps) - 0.5, -3)
        d = common.rand_dir(rng, 3)
        q = [d[0] * math.sin(th / 2), d[1] * math.sin(th / 2), d[2] * math.sin(th / 2), math.cos(th / 2)]
        if rng.random() < 0.3:
            q = [-v for v in q]
        out, tags = [], [f"tiny{common.sig_mag(th)}"]
        if name in ("SE3", "Sim3"):
            m = U.gen_mag(rng, eps, 1e3)
            out += U.vec(rng, m)
            tags.append(f"t{common.sig_mag(m)}")
        out += q
        if name in ("RxSO3", "Sim3"):
            s = U.gen_sigma(rng, eps, 8.0)
            out.append(math.exp(s))
            tags.append(f"s{common.sig_mag(s)}")
        return out, "/".join(tags)
    return U.gen_group(rng, name, eps)


SHAPES = [(), (1,), (2,), (3,), (1, 1), (1, 2), (2, 1), (2, 2), (3, 1), (1, 3), (2, 3), (0,), (0, 2), (2, 0), (1, 0)]


def gen_shapes(rng):
    """broadcastable pair (shape of X, shape of a); includes pairs where a enlarges X (D14) and empty batches"""
    for _ in range(100):
        sa, sb = rng.choice(SHAPES), rng.choice(SHAPES)
        try:
            so = tuple(torch.broadcast_shapes(sa, sb))
        except RuntimeError:
            continue
        return sa, sb, so
    return (), (), ()


OPS = ["Adj", "AdjT", "Retr", "add", "add", "Jinvp", "Jinvp", "Jr", "algadd"]
ADD_APIS = ["+", "add", "pp.add", "add_", "pp.add_", "add_alpha", "add__alpha"]


def gen_case(ctx: Ctx, ci: int):
    rng = ctx.rng
    name = rng.choice(U.GROUPS)
    dtype = rng.choice(["float64", "float64", "float32"])
    eps = teps(dtype)
    op = rng.choice(OPS)
    if op == "Jr":
        name = "SO3"
    sa, sb, so = gen_shapes(rng)
    G, A = U.GDIM[name], U.ADIM[name]
    case = {"stream": "ops", "op": op, "type": name, "dtype": dtype, "shape_X": list(sa), "shape_a": list(sb), "id": ci}
    tags = []
    if op == "Jr":
        case["api"] = rng.choice(["so3.Jr", "SO3.Jr", "pp.Jr"])
        if case["api"] == "SO3.Jr":
            rows = [gen_grp_row(rng, name, eps) for _ in range(int(math.prod(sa)))]
            case["X"] = [r[0] for r in rows]
        else:
            rows = [gen_alg_row(rng, name, eps) for _ in range(int(math.prod(sa)))]
            case["x"] = [r[0] for r in rows]
        tags = [r[1] for r in rows]
        case["tags"] = sorted(set(tags))[:4]
        case["grad"] = rng.choice(GRAD_MODES)
        return case
    if op == "algadd":
        rows = [gen_alg_row(rng, name, eps) for _ in range(int(math.prod(sa)))]
        case["x"] = [r[0] for r in rows]
        extra = rng.choice([0, 0, 1, 2])
        orows = [gen_alg_row(rng, name, eps)[0] + [rng.uniform(-9, 9) for _ in range(extra)] for _ in range(int(math.prod(sb)))]
        case["a"] = orows
        case["extra"] = extra
        case["api"] = rng.choice(["+", "add", "add_", "add_alpha", "+lt"])
        if case["api"] == "+lt":
            case["extra"] = 0
            case["a"] = [r[:A] for r in orows]
        case["alpha"] = rng.choice([-1.0, 2.0, 0.5, 0.0, 3.0]) if case["api"] == "add_alpha" else 1.0
        case["tags"] = sorted({r[1] for r in rows})[:4]
        case["grad"] = rng.choice(GRAD_MODES)
        if case["grad"] in ("X", "both") and case["api"] == "add_":
            case["grad"] = "no_grad"
        return case
    rows = [gen_grp_row(rng, name, eps) for _ in range(int(math.prod(sa)))]
    case["X"] = [r[0] for r in rows]
    tags += [r[1] for r in rows]
    arows = [gen_alg_row(rng, name, eps) for _ in range(int(math.prod(sb)))]
    tags += [r[1] for r in arows]
    case["a"] = [r[0] for r in arows]
    case["a_lt"] = rng.random() < 0.6     # operand passed as LieTensor (algebra type) or as a plain Tensor
    if op == "add":
        case["api"] = rng.choice(ADD_APIS)
        case["extra"] = rng.choice([0, 0, 1, 2])
        case["a_lt"] = False if case["extra"] else case["a_lt"]
        case["a"] = [r + [rng.uniform(-9, 9) for _ in range(case["extra"])] for r in case["a"]]
        case["alpha"] = rng.choice([-1.0, 2.0, 0.5, 0.0, 3.0]) if case["api"].endswith("alpha") else 1.0
    case["tags"] = sorted(set(tags))[:4]
    case["grad"] = rng.choice(GRAD_MODES)
    if case["grad"] in ("X", "both") and case.get("api", "").startswith(("add_", "pp.add_")):
        case["grad"] = "no_grad"      # in-place on a leaf that requires grad is only legal under no_grad (the optimizer pattern)
    return case


def tensors_of(case):
    """(X LieTensor | None, a tensor | None, x algebra LieTensor | None) in the case's dtype + their float64 images"""
    P = U.pp()
    name, D = case["type"], U.dt(case["dtype"])
    out = {}
    g = case.get("grad")
    rgX, rga = g in ("X", "both", "no_grad"), g in ("a", "both", "no_grad")
    if "X" in case:
        sa = tuple(case["shape_X"])
        t = torch.tensor(case["X"], dtype=torch.float64).reshape(sa + (U.GDIM[name],)).to(D)
        out["X"] = P.LieTensor(t, ltype=U.ltype(name)).requires_grad_(rgX)
        out["X64"] = t.double()
    if "x" in case:
        sa = tuple(case["shape_X"])
        t = torch.tensor(case["x"], dtype=torch.float64).reshape(sa + (U.ADIM[name],)).to(D)
        out["x"] = P.LieTensor(t, ltype=getattr(P, U.ALG[name] + "_type")).requires_grad_(rgX)
        out["x64"] = t.double()
    if "a" in case:
        sb = tuple(case["shape_a"])
        w = U.ADIM[name] + case.get("extra", 0)
        t = torch.tensor(case["a"], dtype=torch.float64).reshape(sb + (w,)).to(D)
        out["a"] = P.LieTensor(t.clone(), ltype=getattr(P, U.ALG[name] + "_type")) if case.get("a_lt") or case.get("api") == "+lt" else t.clone()
        out["a"].requires_grad_(rga)
        out["a64"] = t.double()
    return out


# ----------------------------------------------------------------------------- per-op scales / tolerances

def wnorm(name, sg):
    return 2.0 if name == "SE3" else 2.0 * max(1.0, math.exp(sg or 0.0))


def adj_errfn(name, dtype, x, a, transposed, got):
    e = teps(dtype)
    t, q, s = gparts(name, x)
    tau, phi, sg = aparts(name, a)
    tol = K_ALG * e
    nphi = n2(phi)
    sc_tau = None
    if tau is not None:
        tn = n2(t)
        if name == "SE3":
            sc_tau = n2(tau) + tn * nphi
        else:
            sc_tau = (s * n2(tau) + tn * (nphi + abs(sg))) if not transposed else (n2(tau) + tn * (nphi + abs(sg))) / s
        sc_tau *= 3

    fl = SCALE_FLOOR[dtype]

    def fn(want):
        out = {"phi": (block_err(got, want, U.PHISL[name], 3 * nphi, fl), tol)}
        if sc_tau is not None:
            out["tau"] = (block_err(got, want, U.TAUSL[name], sc_tau, fl), tol)
        if sg is not None:
            i = U.SIGIDX[name]
            out["sigma"] = (abs(got[i] - want[i]) / max(abs(sg), fl), 4 * e)
        return out
    return fn


def retr_errfn(name, dtype, x, a, got):
    e = teps(dtype)
    t, q, s = gparts(name, x)
    tau, phi, sg = aparts(name, a)
    tq = K_ALG * e * (1 + n2(phi))
    tsc = None
    if t is not None:
        wn = wnorm(name, sg)
        es = math.exp(sg) if sg is not None else 1.0
        # Exp's translation block: 4·sqrt(eps) allowance relative to its own scale; the product: algebraic
        tsc = (4 * math.sqrt(e) * wn * n2(tau) + K_ALG * e * (es * n2(t) * 3 + wn * n2(tau))) + K_ALG * e * SCALE_FLOOR[dtype]

    def fn(want):
        out = {"q": (math.sqrt(sum((g - w) ** 2 for g, w in zip(got[U.QSL[name]], want[U.QSL[name]]))), tq)}
        if tsc is not None:
            out["t"] = (amax(abs(g - w) for g, w in zip(got[U.TSL[name]], want[U.TSL[name]])), tsc)
        if s is not None:
            i = U.SIDX[name]
            out["s"] = (abs(got[i] - want[i]) / max(abs(want[i]), 1e-300), K_ALG * e * (1 + abs(sg)))
        return out
    return fn


def jinvp_scales(name, dtype, xi, p):
    """block scales of JlInv(xi)·p and the tolerance factors (xi = Log X as computed by the code, float64 list)"""
    e = teps(dtype)
    tau, phi, sg = aparts(name, xi)
    ptau, pphi, psg = aparts(name, p)
    th = n2(phi)
    ji = 1 + th / 2 + th * th / 8
    out = {"phi": (ji * n2(pphi) * 3, 4 * math.sqrt(e))}
    if name == "RxSO3":
        out["sigma"] = (abs(psg), K_ALG * e)
    if name == "SE3":
        qn = n2(tau) * (0.5 + (2 * th + th * th) / 6 + 5 * th * th / 24 + th ** 3 / 60)     # ||Q(tau, phi)|| term by term
        out["tau"] = (ji * n2(ptau) + ji * ji * qn * n2(pphi), 4 * math.sqrt(e))
    if name == "Sim3":
        na = abs(sg) + 2 * th + 3 * n2(tau)
        poly = 1 + na / 2 + na * na / 12 + na ** 4 / 720
        out["phi"] = ((1 + th / 2 + th * th / 12 + th ** 4 / 720) * n2(pphi) * 3, 4 * math.sqrt(e))
        out["tau"] = (3 * poly * max(abs(v) for v in p), 4 * math.sqrt(e))
        out["sigma"] = (abs(psg), K_ALG * e)
    return out


def jinvp_errfn(name, dtype, xi, p, got):
    sc = jinvp_scales(name, dtype, xi, p)
    fl = SCALE_FLOOR[dtype]

    def fn(want):
        out = {"phi": (block_err(got, want, U.PHISL[name], sc["phi"][0], fl), sc["phi"][1])}
        if "tau" in sc:
            out["tau"] = (block_err(got, want, U.TAUSL[name], sc["tau"][0], fl), sc["tau"][1])
        if "sigma" in sc:
            i = U.SIGIDX[name]
            out["sigma"] = (abs(got[i] - want[i]) / max(sc["sigma"][0], fl), sc["sigma"][1])
        return out
    return fn


def bad_blocks(errs):
    return {k: f"{v[0]:.3e}>{v[1]:.3e}" for k, v in errs.items() if not (v[0] <= v[1])}


# ----------------------------------------------------------------------------- ops stream: one case

def call_add(P, api, X, a, alpha):
    """returns (result, X_after) for the given spelling of `+`"""
    if api == "+":
        return X + a, X
    if api == "add":
        return X.add(a), X
    if api == "pp.add":
        return P.add(X, a), X
    if api == "add_alpha":
        return X.add(a, alpha=alpha), X
    Xc = X.clone()
    if api == "add_":
        r = Xc.add_(a)
    elif api == "pp.add_":
        r = P.add_(Xc, a)
    elif api == "add__alpha":
        r = Xc.add_(a, alpha=alpha)
    else:
        raise ValueError(api)
    return r, Xc


GRAD_MODES = [None, None, None, "X", "a", "both", "no_grad", "inference"]


def prepare(ctx: Ctx, case) -> list:
    """run the real code on `case` in the case's grad mode (operands requiring grad / no_grad / inference_mode): the VALUES are
    compared with the model exactly as for plain tensors"""
    import contextlib
    cm = {"no_grad": torch.no_grad, "inference": torch.inference_mode}.get(case.get("grad"), contextlib.nullcontext)
    with cm():
        return _prepare(ctx, case)


def _prepare(ctx: Ctx, case) -> list:
    """run the real code on `case`; returns the Pending model comparisons. Oracle-type failures are recorded directly."""
    P = U.pp()
    name, dtype, op = case["type"], case["dtype"], case["op"]
    eps = teps(dtype)
    D = U.dt(dtype)
    T = tensors_of(case)
    G, A = U.GDIM[name], U.ADIM[name]
    sa, sb = tuple(case["shape_X"]), tuple(case.get("shape_a", []))
    pend = []
    algT = getattr(P, U.ALG[name] + "_type")

    def type_ok(Z, lt, shape, what):
        if not isinstance(Z, P.LieTensor) or Z.ltype != lt or tuple(Z.shape) != tuple(shape) or Z.dtype != D:
            ctx.fail(case, f"type: {what} returned {type(Z).__name__} ltype={getattr(Z, 'ltype', None)} shape={tuple(Z.shape)} "
                           f"dtype={Z.dtype}, expected {lt} {tuple(shape)} {D}")
            return False
        return True

    try:
        if op == "Jr":
            api = case["api"]
            if api == "SO3.Jr":
                X = T["X"]
                J = X.Jr()
                items = T["X64"].reshape(-1, 4)
                mop = "SO3.Jr"
                flags = [flag_grp("SO3", r.tolist(), eps) for r in items]
                ths = [2 * math.atan2(n2(r.tolist()[:3]), abs(r.tolist()[3])) for r in items]
            else:
                x = T["x"]
                J = x.Jr() if api == "so3.Jr" else P.Jr(x)
                items = T["x64"].reshape(-1, 3)
                mop = "so3.Jr"
                flags = [flag_alg("SO3", r.tolist(), eps) for r in items]
                ths = [n2(r.tolist()) for r in items]
            if isinstance(J, P.LieTensor) or tuple(J.shape) != sa + (3, 3) or J.dtype != D:
                ctx.fail(case, f"type: {api} returned {type(J).__name__} {tuple(J.shape)} {J.dtype}")
                return pend
            if nonfinite_fail(ctx, case, J, api, Xe=items):
                return pend
            Jf = J.double().reshape(-1, 9)
            for i in range(items.shape[0]):
                got = Jf[i].tolist()
                th = ths[i]
                tol = 4 * math.sqrt(eps) * (1 + th)

                def chk(cands, got=got, tol=tol, i=i, th=th):
                    r, errs = best(cands, lambda w: {"J": (amax(abs(g - v) for g, v in zip(got, w)), tol)})
                    if bad_blocks(errs):
                        ctx.disagree("ops", case | {"item": {"index": i, "theta": th}}, f"{case['api']} {dtype} theta={th:.3e}: {bad_blocks(errs)}")
                pend.append(Pending(mlines(mop, eps, items[i].tolist(), flags[i]), chk))
            return pend

        if op == "algadd":
            x, a, alpha, api = T["x"], T["a"], case["alpha"], case["api"]
            so = tuple(torch.broadcast_shapes(sa, sb))
            xb = x.tensor().clone()
            if api in ("+", "+lt"):
                Z = x + a
            elif api == "add":
                Z = x.add(a)
            elif api == "add_alpha":
                Z = x.add(a, alpha=alpha)
            else:  # add_ : in place, the batch shape of x must already be the broadcast shape
                if so != sa:
                    return pend
                xc = x.clone()
                Z = xc.add_(a)
                if Z.data_ptr() != xc.data_ptr():
                    ctx.fail(case, "inplace: algebra add_ did not return its (modified) input")
            if api != "add_" and not torch.equal(x.tensor(), xb):
                ctx.fail(case, f"purity: algebra `{api}` modified its left operand")
            if not type_ok(Z, algT, so + (A,), f"algebra {api}"):
                return pend
            # the law itself: plain vector addition of the first m components
            ref = T["x64"].to(D) + (alpha * T["a64"].to(D))[..., :A]
            if not torch.equal(Z.tensor(), ref.expand(so + (A,))):
                err = float((Z.tensor().double() - ref.double()).abs().max()) if Z.numel() else 0.0
                if not (err <= 4 * eps * float(ref.abs().max() + 1)):
                    ctx.fail(case, f"algadd: algebra `{api}` is not x + alpha*other[..., :m] (max err {err:.3e}, {name}, {dtype})")
            xe = T["x64"].expand(so + (A,)).reshape(-1, A)
            ae = T["a64"].expand(so + (T["a64"].shape[-1],)).reshape(-1, T["a64"].shape[-1])
            if nonfinite_fail(ctx, case, Z, f"algebra {api}", Xe=xe, ae=ae):
                return pend
            Zf = Z.tensor().double().reshape(-1, A)
            for i in range(xe.shape[0]):
                xi_, ai_ = xe[i].tolist(), ae[i].tolist()
                got = Zf[i].tolist()
                sc = max(U.max_abs(xi_), abs(alpha) * U.max_abs(ai_), SCALE_FLOOR[dtype])

                def chk(cands, got=got, sc=sc, i=i):
                    r, errs = best(cands, lambda w: {"v": (amax(abs(g - v) for g, v in zip(got, w)) / sc, 4 * eps)})
                    if bad_blocks(errs):
                        ctx.disagree("ops", case | {"item": {"index": i}}, f"algebra add {name} {dtype}: {bad_blocks(errs)}")
                pend.append(Pending([f"{U.ALG[name]}.add " + common.wire_list([eps, alpha] + xi_ + ai_)], chk))
            return pend

        X, a = T["X"], T["a"]
        so = tuple(torch.broadcast_shapes(sa, sb))
        Xb, ab = X.tensor().clone(), torch.Tensor.as_subclass(a, torch.Tensor).clone()
        Xe = T["X64"].expand(so + (G,)).reshape(-1, G)
        wa = T["a64"].shape[-1]
        ae = T["a64"].expand(so + (wa,)).reshape(-1, wa)

        if op in ("Adj", "AdjT"):
            Z = X.Adj(a) if op == "Adj" else X.AdjT(a)
            if not type_ok(Z, algT, so + (A,), op) or nonfinite_fail(ctx, case, Z, op, Xe=Xe, ae=ae):
                return pend
            Z2 = X.Adj(a) if op == "Adj" else X.AdjT(a)
            if not torch.equal(Z.tensor(), Z2.tensor()):
                ctx.fail(case, f"repeat: second call of {op} on the same operands gives a different result ({name})")
            Zf = Z.tensor().double().reshape(-1, A)
            for i in range(Xe.shape[0]):
                x, av = Xe[i].tolist(), ae[i].tolist()
                fn = adj_errfn(name, dtype, x, av, op == "AdjT", Zf[i].tolist())

                def chk(cands, fn=fn, i=i):
                    r, errs = best(cands, fn)
                    if bad_blocks(errs):
                        ctx.disagree("ops", case | {"item": {"index": i}}, f"{op} {name} {dtype}: block errors {bad_blocks(errs)}")
                pend.append(Pending(mlines(f"{name}.{op}", eps, x + av, False), chk))

        elif op in ("Retr", "add"):
            alpha = case.get("alpha", 1.0)
            if op == "Retr":
                aL = a if isinstance(a, P.LieTensor) else P.LieTensor(a, ltype=algT)
                Z = X.Retr(aL) if case["id"] % 2 else P.Retr(X, aL)
                Xafter = X
                api = "Retr"
            else:
                api = case["api"]
                if api in ("add_", "pp.add_", "add__alpha") and so != sa:
                    return pend     # in-place on a smaller tensor is not defined
                Z, Xafter = call_add(P, api, X, a, alpha)
                if api in ("add_", "pp.add_", "add__alpha"):
                    if Z.data_ptr() != Xafter.data_ptr() or not torch.equal(Z.tensor(), Xafter.tensor()):
                        ctx.fail(case, f"inplace: {api} did not overwrite / return its input ({name})")
            if not torch.equal(X.tensor(), Xb):
                ctx.fail(case, f"purity: {api} modified the group operand X ({name})")
            if not torch.equal(torch.Tensor.as_subclass(a, torch.Tensor), ab):
                ctx.fail(case, f"purity: {api} modified the tangent operand ({name})")
            if not type_ok(Z, U.ltype(name), so + (G,), api) or nonfinite_fail(ctx, case, Z, api, Xe=Xe, ae=ae):
                return pend
            Zf = Z.tensor().double().reshape(-1, G)
            for i in range(Xe.shape[0]):
                x, av = Xe[i].tolist(), ae[i].tolist()
                aeff = [alpha * v for v in av[:A]]
                fn = retr_errfn(name, dtype, x, aeff, Zf[i].tolist())
                fl = flag_alg(name, aeff, eps)

                def chk(cands, fn=fn, i=i, api=api):
                    r, errs = best(cands, fn)
                    if bad_blocks(errs):
                        ctx.disagree("ops", case | {"item": {"index": i}}, f"{api} {name} {dtype}: block errors {bad_blocks(errs)}")
                if op == "Retr":
                    pend.append(Pending(mlines(f"{name}.Retr", eps, x + av[:A], fl), chk))
                else:
                    pend.append(Pending([f"{name}.add " + common.wire_list([e_, alpha] + x + av) for e_ in eps_variants(eps, fl)], chk))

        elif op == "Jinvp":
            Z = X.Jinvp(a) if case["id"] % 2 else P.Jinvp(X, a)
            if not type_ok(Z, algT, so + (A,), "Jinvp") or nonfinite_fail(ctx, case, Z, "Jinvp", Xe=Xe, ae=ae):
                return pend
            Zf = Z.tensor().double().reshape(-1, A)
            xis = X.Log().tensor().double().expand(so + (A,)).reshape(-1, A) if X.numel() else torch.zeros(0, A)
            for i in range(Xe.shape[0]):
                x, pv = Xe[i].tolist(), ae[i].tolist()
                xi = xis[i].tolist()
                got = Zf[i].tolist()
                fn = jinvp_errfn(name, dtype, xi, pv, got)
                t, q, s = gparts(name, x)
                item = {"index": i, "theta_log": n2(aparts(name, xi)[1]), "tnorm": n2(t) if t is not None else 0.0, "X": x, "p": pv}

                def chk(cands, fn=fn, item=item):
                    r, errs = best(cands, fn)
                    bb = bad_blocks(errs)
                    if bb:
                        ctx.disagree("ops", case | {"item": item}, f"Jinvp {name} {dtype}: block errors {bb} at rotation angle "
                                                                   f"{item['theta_log']:.3e}")
                pend.append(Pending(mlines(f"{name}.Jinvp", eps, x + pv, flag_grp(name, x, eps)), chk))
    except Exception as ex:  # the real code raised on a well-formed input
        ctx.fail(case, f"raises: {op}/{case.get('api', '')} on {name} {dtype} shapes {sa},{sb} raised {type(ex).__name__}: {str(ex)[:160]}")
    return pend


def flush(ctx: Ctx, pend):
    lines = [ln for p in pend for ln in p.lines]
    reps = ctx.driver.run(lines)
    k = 0
    for p in pend:
        rs = reps[k:k + len(p.lines)]
        k += len(p.lines)
        p.fn([U.fl(common.reply_nums(r)) for r in rs])


def run_ops(ctx: Ctx, n_cases: int):
    pend = []
    for ci in range(n_cases):
        case = gen_case(ctx, ci)
        nontrivial = not all(t in ("identity", "zero") for t in case.get("tags", []))
        ctx.count(f"ops.{case['op']}.{case['type']}.{case['dtype']}")
        ctx.count(f"ops.grad.{case.get('grad')}")
        ctx.count(f"shape.{tuple(case['shape_X'])}x{tuple(case.get('shape_a', []))}")
        if "api" in case:
            ctx.count(f"api.{case['api']}")
        for t in case.get("tags", []):
            ctx.count("regime." + t.split("/")[0].rstrip("-0123456789"))
        pend += prepare(ctx, case)
        ctx.note_case(("ops", case["op"], case.get("api"), case.get("grad"), case["type"], case["dtype"], tuple(case.get("tags", [])),
                       tuple(case["shape_X"]), tuple(case.get("shape_a", []))), nontrivial)
        ctx.sample({k2: case[k2] for k2 in ("op", "type", "dtype", "shape_X", "shape_a", "tags", "api") if k2 in case}, cap=10)
    flush(ctx, pend)


# ----------------------------------------------------------------------------- laws (the property on the real code)

def tdist_blocks(name, A_, B_):
    """per-item, per-block distances between two group tensors (float64): q sign-free abs, t max-abs, s relative;
    each value is a tensor over the batch shape (NaN-preserving)"""
    a, b = A_.double(), B_.double()
    qa, qb = a[..., U.QSL[name]], b[..., U.QSL[name]]
    out = {"q": torch.minimum((qa - qb).norm(dim=-1), (qa + qb).norm(dim=-1))}
    if U.TSL[name] is not None:
        out["t"] = (a[..., U.TSL[name]] - b[..., U.TSL[name]]).abs().amax(-1)
    if U.SIDX[name] is not None:
        i = U.SIDX[name]
        out["s"] = (a[..., i] - b[..., i]).abs() / b[..., i].abs()
    return out


def worst_bad(d, lim):
    """{block: 'err>tol@flat-index'} for blocks where some item violates ITS OWN tolerance (NaN counts as violation)"""
    bad = {}
    for k2, v in d.items():
        L = lim[k2]
        L = L if isinstance(L, torch.Tensor) else torch.full_like(v, float(L))
        viol = ~(v <= L)
        if bool(viol.any()):
            r = torch.where(viol, torch.nan_to_num(v / L.clamp_min(1e-300), nan=float("inf")), torch.zeros_like(v)).reshape(-1)
            j = int(r.argmax())
            bad[k2] = f"{float(v.reshape(-1)[j]):.3e}>{float(L.reshape(-1)[j]):.3e}@item{j}"
    return bad


def law_case(ctx: Ctx, case) -> bool:
    """Adj / AdjT / Retr-add identities on the real code for one (X, a) pair of batched operands (shapes broadcastable).
    Every item is judged against its own block tolerances (no batch-wide magnitude)."""
    P = U.pp()
    name, dtype = case["type"], case["dtype"]
    D, e = U.dt(dtype), teps(dtype)
    G, A = U.GDIM[name], U.ADIM[name]
    algT = getattr(P, U.ALG[name] + "_type")
    sa, sb = tuple(case.get("shape_X", [])), tuple(case.get("shape_a", []))
    so = tuple(torch.broadcast_shapes(sa, sb))
    X0 = torch.tensor(case["X"], dtype=torch.float64).reshape(sa + (G,)).to(D)
    X = P.LieTensor(X0.clone(), ltype=U.ltype(name))
    a = P.LieTensor(torch.tensor(case["a"], dtype=torch.float64).reshape(sb + (A,)).to(D), ltype=algT)
    if X.numel() == 0 or a.numel() == 0:
        return True
    g = case.get("grad")          # the laws must hold by VALUE for operands inside autograd too
    X.requires_grad_(g in ("X", "both"))
    a.requires_grad_(g in ("a", "both"))
    n0 = len(ctx.failures)
    Xe = X.tensor().detach().double().expand(so + (G,))
    ae = a.tensor().detach().double().expand(so + (A,))
    zero = torch.zeros(so, dtype=torch.float64)

    def nrm(t, sl):
        return t[..., sl].norm(dim=-1) if sl is not None else zero
    nphi, ntau, nt = nrm(ae, U.PHISL[name]), nrm(ae, U.TAUSL[name]), nrm(Xe, U.TSL[name])
    sX = Xe[..., U.SIDX[name]] if U.SIDX[name] is not None else zero + 1
    sg = ae[..., U.SIGIDX[name]] if U.SIGIDX[name] is not None else zero
    es, asg = sg.exp(), sg.abs()
    wn = (zero + 2.0) if name == "SE3" else 2.0 * torch.maximum(zero + 1, es)
    fl = SCALE_FLOOR[dtype]
    tq = K_ALG * e * (1 + nphi)
    tsr = K_ALG * e * (1 + asg)
    kt = 4 * math.sqrt(e) + K_ALG * e
    try:
        # X @ Exp(a) = Exp(Adj(X, a)) @ X
        for lab_, z_ in (("Adj", X.Adj(a)), ("AdjT", X.AdjT(a)), ("Retr", X.Retr(a))):
            if nonfinite_fail(ctx, case, z_, f"{name}.{lab_}", Xe=Xe.reshape(-1, G), ae=ae.reshape(-1, A)):
                return False
        lhs, rhs = X @ a.Exp(), X.Adj(a).Exp() @ X
        tsc = nt + sX * wn * ntau + wn * (sX * ntau + nt * (nphi + asg)) + es * nt
        bad = worst_bad(tdist_blocks(name, lhs.tensor(), rhs.tensor()), {"q": tq, "t": kt * (tsc + fl), "s": tsr})
        if bad:
            ctx.fail(case, f"adj-law: X@Exp(a) != Exp(Adj(X,a))@X for {name} ({dtype}, shapes {sa},{sb}): {bad}")
        # Exp(a) @ X = X @ Exp(AdjT(X, a))
        lhs, rhs = a.Exp() @ X, X @ X.AdjT(a).Exp()
        tsc = wn * ntau + es * nt + nt + wn * (ntau + nt * (nphi + asg))
        bad = worst_bad(tdist_blocks(name, lhs.tensor(), rhs.tensor()), {"q": tq, "t": kt * (tsc + fl), "s": tsr})
        if bad:
            ctx.fail(case, f"adjT-law: Exp(a)@X != X@Exp(AdjT(X,a)) for {name} ({dtype}, shapes {sa},{sb}): {bad}")
        # Retr(X,a) = X + a = add = add_ = Exp(a) @ X ; extra components ignored ; alpha
        ref = a.Exp() @ X
        at = a.tensor()
        junk = torch.tensor(case.get("junk", [7.0, -3.0]), dtype=D).expand(sb + (2,))
        forms = {
            "Retr(X,a)": X.Retr(a), "pp.Retr": P.Retr(X, a), "X+a(LieTensor)": X + a, "X+a(Tensor)": X + at,
            "X.add(a)": X.add(at), "pp.add": P.add(X, at), "X+cat(a,junk)": X + torch.cat([at, junk], -1),
            "add(0.5a,alpha=2)": X.add(0.5 * at, alpha=2), "Exp(a)*X": a.Exp() * X,
        }
        inplace = so == sa
        if inplace:
            Xc1, Xc2 = X.clone(), X.clone()
            forms["add_"] = Xc1.add_(at)
            forms["add_(cat(a,junk))"] = Xc2.add_(torch.cat([at, junk[..., :1]], -1))
        lim = {"q": 16 * e, "t": 16 * e * (wn * ntau + es * nt + fl), "s": 16 * e}
        for nm, v in forms.items():
            if not isinstance(v, P.LieTensor) or v.ltype != X.ltype or tuple(v.shape) != so + (G,) or v.dtype != D:
                ctx.fail(case, f"retr-type: {nm} returned {type(v).__name__} {getattr(v, 'ltype', None)} {tuple(v.shape)} for {name} "
                               f"(shapes {sa},{sb})")
                continue
            bad = worst_bad(tdist_blocks(name, v.tensor(), ref.tensor()), lim)
            if bad:
                ctx.fail(case, f"retr-law: {nm} != Exp(a)@X for {name} ({dtype}, shapes {sa},{sb}): {bad}")
        if not torch.equal(X.tensor(), X0):
            ctx.fail(case, f"purity: an out-of-place form of + modified X ({name})")
        if inplace:
            if not torch.equal(Xc1.tensor(), forms["add_"].tensor()) or forms["add_"].data_ptr() != Xc1.data_ptr():
                ctx.fail(case, f"inplace: add_ does not leave its result in the input ({name})")
            # second update on the same object composes: (X + a) + a = Exp(a)@Exp(a)@X
            Xc1.add_(at)
            ref2 = a.Exp() @ (a.Exp() @ X)
            lim2 = {"q": 32 * e, "t": 32 * e * (wn * ntau * (1 + es) + es * es * nt + fl), "s": 32 * e}
            bad = worst_bad(tdist_blocks(name, Xc1.tensor(), ref2.tensor()), lim2)
            if bad:
                ctx.fail(case, f"retr-history: second add_ on the same object != Exp(a)@Exp(a)@X for {name} ({dtype}): {bad}")
        # zero tangent vector is neutral
        z = torch.zeros(A, dtype=D)
        bad = worst_bad(tdist_blocks(name, (X + z).tensor(), X.tensor().expand(so + (G,))),
                        {"q": 4 * e, "t": 4 * e * (nt + fl), "s": 4 * e})
        if bad and so == sa:
            ctx.fail(case, f"retr-zero: X + 0 != X for {name} ({dtype}): {bad}")
    except Exception as ex:
        ctx.fail(case, f"raises: law evaluation on {name} (shapes {sa},{sb}) raised {type(ex).__name__}: {str(ex)[:160]}")
    return len(ctx.failures) == n0


def run_laws(ctx: Ctx, n_cases: int):
    rng = ctx.rng
    for ci in range(n_cases):
        name = rng.choice(U.GROUPS)
        dtype = rng.choice(["float64", "float64", "float32"])
        eps = teps(dtype)
        sa, sb = ((), ())
        if rng.random() < 0.4:
            sa, sb, _ = gen_shapes(rng)
        na, nb = int(math.prod(sa)), int(math.prod(sb))
        gs = [gen_grp_row(rng, name, eps) for _ in range(na)]
        as_ = [gen_alg_row(rng, name, eps) for _ in range(nb)]
        g = U.to_dtype_exact([r[0] for r in gs], dtype)[1].tolist() if na else []
        a = U.to_dtype_exact([r[0] for r in as_], dtype)[1].tolist() if nb else []
        case = {"stream": "laws", "type": name, "dtype": dtype, "shape_X": list(sa), "shape_a": list(sb), "X": g, "a": a,
                "junk": [rng.uniform(-9, 9), rng.uniform(-9, 9)], "grad": rng.choice([None, None, "X", "a", "both"])}
        ctx.count(f"laws.grad.{case['grad']}")
        law_case(ctx, case)
        tg = tuple(sorted({r[1] for r in gs}))[:2] + tuple(sorted({r[1] for r in as_}))[:2]
        ctx.note_case(("laws", name, dtype, tg, sa, sb), not all(t in ("identity", "zero") for t in tg))
        ctx.count(f"laws.{name}.{dtype}")
        ctx.count("laws.batched" if (sa or sb) else "laws.single")
    ctx.sample({"stream": "laws", "example": case}, cap=12)


# ----------------------------------------------------------------------------- Jinvp / Jr oracles (mpmath + finite differences)

def mp_mod():
    import mpmath
    mpmath.mp.dps = 30
    return mpmath


def mp_hat(mp, v):
    return mp.matrix([[0, -v[2], v[1]], [v[2], 0, -v[0]], [-v[1], v[0], 0]])


def mp_ad(mp, name, xi):
    """adjoint representation ad(xi) in PyPose storage order"""
    xi = [mp.mpf(v) for v in xi]
    tau, phi, sg = aparts(name, xi)
    n = U.ADIM[name]
    Ad = mp.zeros(n, n)
    Ph = mp_hat(mp, phi)
    if name == "SO3":
        return Ph
    if name == "RxSO3":
        for i in range(3):
            for j in range(3):
                Ad[i, j] = Ph[i, j]
        return Ad
    Ta = mp_hat(mp, tau)
    for i in range(3):
        for j in range(3):
            Ad[i, j] = Ph[i, j] + ((sg if i == j else 0) if name == "Sim3" else 0)
            Ad[i, 3 + j] = Ta[i, j]
            Ad[3 + i, 3 + j] = Ph[i, j]
        if name == "Sim3":
            Ad[i, 6] = -tau[i]
    return Ad


def mp_Jl(mp, Ad):
    """J_l = sum ad^n/(n+1)! = top-right block of exp([[ad, 1],[0, 0]])"""
    n = Ad.rows
    M = mp.zeros(2 * n, 2 * n)
    for i in range(n):
        for j in range(n):
            M[i, j] = Ad[i, j]
        M[i, n + i] = 1
    E = mp.expm(M)
    return E[0:n, n:2 * n]


def mp_norm_inf(Ad):
    return max(sum(abs(Ad[i, j]) for j in range(Ad.cols)) for i in range(Ad.rows))


def mp_hat4(mp, name, a):
    """generator matrix of a tangent vector: 3x3 for so3, 4x4 [[sigma*1 + phi^, tau],[0,0]] otherwise"""
    a = [mp.mpf(v) for v in a]
    tau, phi, sg = aparts(name, a)
    K = mp_hat(mp, phi)
    if name == "SO3":
        return K
    H = mp.zeros(4, 4)
    for i in range(3):
        for j in range(3):
            H[i, j] = K[i, j] + ((sg if i == j else 0) if sg is not None else 0)
        if tau is not None:
            H[i, 3] = tau[i]
    return H


def adj_oracle_case(ctx: Ctx, case, got=None) -> bool:
    """Adj(X,a) / AdjT(X,a) against the definition evaluated exactly: (Adj X a)^ = M a^ M^-1 (AdjT: M^-1 a^ M) with M = matrix(X) as
    returned by the real code, inverse and products in 30-digit arithmetic; algebraic tolerance 64*eps per block."""
    P = U.pp()
    mp = mp_mod()
    name, dtype, op = case["type"], case["dtype"], case["op"]
    D, e = U.dt(dtype), teps(dtype)
    algT = getattr(P, U.ALG[name] + "_type")
    n0 = len(ctx.failures)
    try:
        X = U.lt(name, case["X"], D)
        a = P.LieTensor(torch.tensor(case["a"], dtype=torch.float64).to(D), ltype=algT)
        if got is None:
            got = (X.Adj(a) if op == "Adj" else X.AdjT(a)).tensor().double().tolist()
        if nonfinite_fail(ctx, case, torch.tensor(got, dtype=torch.float64), f"{name}.{op}(X,a)", Xe=X.tensor().double().reshape(1, -1), ae=a.tensor().double().reshape(1, -1)):
            return False
        mp.mp.dps = 50
        Mf = X.matrix().double()
        if nonfinite_fail(ctx, case, Mf, f"{name}.matrix()", Xe=X.tensor().double().reshape(1, -1)):
            return False
        n = Mf.shape[-1]
        M = mp.matrix([[mp.mpf(float(Mf[i, j])) for j in range(n)] for i in range(n)])
        Mi = M ** -1
        H = mp_hat4(mp, name, a.tensor().double().tolist())
        C = (M * H * Mi) if op == "Adj" else (Mi * H * M)
        ref = [0.0] * U.ADIM[name]
        ps = U.PHISL[name]
        ref[ps.start], ref[ps.start + 1], ref[ps.start + 2] = float((C[2, 1] - C[1, 2]) / 2), float((C[0, 2] - C[2, 0]) / 2), float((C[1, 0] - C[0, 1]) / 2)
        if U.TAUSL[name] is not None:
            ts = U.TAUSL[name]
            for i in range(3):
                ref[ts.start + i] = float(C[i, 3])
        if U.SIGIDX[name] is not None:
            ref[U.SIGIDX[name]] = float((C[0, 0] + C[1, 1] + C[2, 2]) / 3)
        x = X.tensor().double().tolist()
        av = a.tensor().double().tolist()
        noise = 1e-38 * max(1.0, max(abs(float(C[i, j])) for i in range(n) for j in range(n)))   # 50-digit arithmetic
        ref = [g if abs(g - r) <= noise else r for g, r in zip(got, ref)]
        errs = adj_errfn(name, dtype, x, av, op == "AdjT", got)(ref)
        bb = bad_blocks(errs)
        if bb:
            ctx.fail(case, f"adj-exact: {name}.{op}(X,a) differs from vee(M a^ M^-1) (M = matrix(X), exact conjugation) ({dtype}): {bb}")
    except Exception as ex:
        ctx.fail(case, f"raises: adjoint oracle on {name} raised {type(ex).__name__}: {str(ex)[:160]}")
    finally:
        mp.mp.dps = 30
    return len(ctx.failures) == n0


def jinvp_oracle_case(ctx: Ctx, case, got=None) -> bool:
    """Jinvp(X,p) vs exact JlInv(Log X)·p (mpmath) and vs the finite difference of Log(Exp(h p)@X).
    `got`: the item's value taken from a batched call (search after a correspondence break), else computed here."""
    P = U.pp()
    mp = mp_mod()
    name, dtype = case["type"], case["dtype"]
    D, e = U.dt(dtype), teps(dtype)
    algT = getattr(P, U.ALG[name] + "_type")
    X = U.lt(name, case["X"], D)
    p = P.LieTensor(torch.tensor(case["p"], dtype=torch.float64).to(D), ltype=algT)
    n0 = len(ctx.failures)
    try:
        got = X.Jinvp(p).tensor().double().tolist() if got is None else got
        if nonfinite_fail(ctx, case, torch.tensor(got, dtype=torch.float64), f"{name}.Jinvp(X,p)", Xe=X.tensor().double().reshape(1, -1), ae=p.tensor().double().reshape(1, -1)):
            return False
        xi = X.Log().tensor().double().tolist()
        pv = p.tensor().double().tolist()
        Ad = mp_ad(mp, name, xi)
        na = float(mp_norm_inf(Ad))
        J = mp_Jl(mp, Ad)
        ref = [float(v) for v in mp.lu_solve(J, mp.matrix([mp.mpf(v) for v in pv]))]
        sc = jinvp_scales(name, dtype, xi, pv)
        trunc = 0.0
        if name == "Sim3":
            if na >= 0.9 * 2 * math.pi:
                return True
            trunc = 2 * na ** 6 / 30240 / (1 - (na / (2 * math.pi)) ** 2) * max(abs(v) for v in pv) * 3
        fl = SCALE_FLOOR[dtype]
        errs = {"phi": (block_err(got, ref, U.PHISL[name], sc["phi"][0], fl), sc["phi"][1] + (trunc / max(sc["phi"][0], fl)))}
        if "tau" in sc:
            errs["tau"] = (block_err(got, ref, U.TAUSL[name], sc["tau"][0], fl), sc["tau"][1] + trunc / max(sc["tau"][0], fl))
        if "sigma" in sc:
            i = U.SIGIDX[name]
            errs["sigma"] = (abs(got[i] - ref[i]) / max(sc["sigma"][0], fl), sc["sigma"][1] + trunc / max(sc["sigma"][0], fl))
        bb = bad_blocks(errs)
        t, q, s = gparts(name, X.tensor().double().tolist())
        item = {"theta_log": n2(aparts(name, xi)[1]), "tnorm": n2(t) if t is not None else 0.0}
        c2 = case | {"op": "Jinvp", "item": item}
        if bb:
            ctx.fail(c2, f"jinvp-exact: {name}.Jinvp differs from the exact inverse left Jacobian at Log(X) applied to p ({dtype}), "
                         f"rotation angle {item['theta_log']:.3e}: {bb}")
        # first-order change of Log(Exp(h p) @ X): float64, moderate magnitudes, away from the cut of Log
        th = item["theta_log"]
        pn = n2(pv)
        if dtype == "float64" and case.get("fd") and 0 < pn and th < 2.8:
            # step: balances the O(h²) truncation against the 4·sqrt(eps) translation allowance of Log divided by h
            h = 2e-3 / max(1.0, pn)
            hp = P.LieTensor(h * p.tensor(), ltype=algT)
            hm = P.LieTensor(-h * p.tensor(), ltype=algT)
            fd = ((hp.Exp() @ X).Log().tensor() - (hm.Exp() @ X).Log().tensor()) / (2 * h)
            xin = max(1.0, max(abs(v) for v in xi))
            scale = max(1.0, amax(abs(v) for v in got)) if all(v == v for v in got) else 1.0
            tol = 3e-4 * scale * xin + trunc
            err = float((fd.double() - torch.tensor(got)).abs().max())
            if err == err:
                ctx.hist["jinvp.fd.max_err_over_tol_percent"] = max(ctx.hist.get("jinvp.fd.max_err_over_tol_percent", 0), int(100 * min(err, 1e6) / tol))
            if not (err <= tol):
                ctx.fail(c2, f"jinvp-fd: {name}.Jinvp is not the first-order change of Log(Exp(tau)@X) in direction p: {err:.3e} > {tol:.3e}")
    except Exception as ex:
        ctx.fail(case, f"raises: Jinvp oracle on {name} raised {type(ex).__name__}: {str(ex)[:160]}")
    return len(ctx.failures) == n0


def run_jinvp_oracle(ctx: Ctx, n_cases: int):
    rng = ctx.rng
    for ci in range(n_cases):
        name = rng.choice(U.GROUPS)
        dtype = rng.choice(["float64", "float64", "float32"])
        eps = teps(dtype)
        fd = rng.random() < 0.5
        if fd:   # moderate region for the finite-difference form
            g, tg = U.gen_group(rng, name, eps, thi=3.0, shi=1.0)
            p, tp = U.gen_algebra(rng, name, eps, big=False, thi=3.0, shi=1.0)
        else:
            g, tg = gen_grp_row(rng, name, eps)
            if name == "Sim3":    # keep ||ad(Log X)|| inside the radius of convergence reasonably often
                g, tg = U.gen_group(rng, name, eps, thi=rng.choice([0.1, 0.5, 1.0]), shi=rng.choice([0.1, 0.5, 1.0])) if rng.random() < 0.7 else (g, tg)
            p, tp = gen_alg_row(rng, name, eps)
        g = U.to_dtype_exact([g], dtype)[1][0].tolist()
        p = U.to_dtype_exact([p], dtype)[1][0].tolist()
        q = g[U.QSL[name]]
        if 2 * math.atan2(n2(q[:3]), abs(q[3])) > 3.1:      # principal-Log assumption of the oracle
            continue
        case = {"stream": "jinvp", "type": name, "dtype": dtype, "X": g, "p": p, "fd": fd}
        jinvp_oracle_case(ctx, case)
        ctx.note_case(("jinvp", name, dtype, tg, tp, fd), True)
        ctx.count(f"jinvp.{name}.{dtype}" + (".fd" if fd else ""))
    ctx.sample({"stream": "jinvp", "example": case}, cap=14)


def jr_oracle_case(ctx: Ctx, case, got=None) -> bool:
    P = U.pp()
    mp = mp_mod()
    dtype = case["dtype"]
    D, e = U.dt(dtype), teps(dtype)
    x = P.so3(torch.tensor(case["x"], dtype=torch.float64).to(D))
    xv = x.tensor().double().tolist()
    th = n2(xv)
    n0 = len(ctx.failures)
    try:
        J = x.Jr() if got is None else torch.tensor(got, dtype=D).reshape(3, 3)
        if tuple(J.shape) != (3, 3) or not bool(torch.isfinite(J).all()):
            ctx.fail(case, f"jr-value: so3.Jr returned shape {tuple(J.shape)} / non-finite entries at theta={th:.3e} ({dtype})")
            return False
        got = J.double().reshape(-1).tolist()
        K = mp_hat(mp, [mp.mpf(v) for v in xv])
        ref = mp_Jl(mp, -K)
        refl = [float(ref[i, j]) for i in range(3) for j in range(3)]
        tol = 4 * math.sqrt(e) * (1 + th)
        err = amax(abs(g - r) for g, r in zip(got, refl))
        if not err <= tol:
            ctx.fail(case, f"jr-exact: so3.Jr differs from the right Jacobian sum (-K)^n/(n+1)! by {err:.3e} > {tol:.3e} at theta={th:.3e} ({dtype})")
        # SO3.Jr(X) = so3.Jr(Log X) whenever the angle is inside the principal range
        if th < 3.1:
            J2 = x.Exp().Jr().double().reshape(-1).tolist()
            err2 = amax(abs(g - r) for g, r in zip(J2, refl))
            if not err2 <= 2 * tol:
                ctx.fail(case, f"jr-group: SO3.Jr(Exp x) differs from the right Jacobian at x by {err2:.3e} > {2 * tol:.3e} at theta={th:.3e} ({dtype})")
        if th == 0.0 and not torch.equal(J, torch.eye(3, dtype=D)):
            ctx.fail(case, f"jr-zero: Jr(0) is not exactly the identity ({dtype})")
        # defining identity Exp(x+d) = Exp(x) @ Exp(Jr(x) d) + o(|d|)  (float64 only)
        if dtype == "float64" and th < 6.0:
            d = torch.tensor(case["d"], dtype=D)
            dn = float(d.norm())
            if dn > 0:
                d = d * (1e-5 / dn)
                lhs = P.so3(x.tensor() + d).Exp()
                rhs = x.Exp() @ P.so3((J @ d.unsqueeze(-1)).squeeze(-1)).Exp()
                dist = float(torch.minimum((lhs.tensor() - rhs.tensor()).norm(), (lhs.tensor() + rhs.tensor()).norm()))     # NaN-propagating
                if not (dist <= 1e-9 * (1 + th) + 4 * math.sqrt(e) * 1e-5):
                    ctx.fail(case, f"jr-law: Exp(x+d) != Exp(x)@Exp(Jr(x)d) to first order: {dist:.3e} for |d|=1e-5, theta={th:.3e}")
    except Exception as ex:
        ctx.fail(case, f"raises: Jr oracle raised {type(ex).__name__}: {str(ex)[:160]}")
    return len(ctx.failures) == n0


def run_jr_oracle(ctx: Ctx, n_cases: int):
    rng = ctx.rng
    for ci in range(n_cases):
        dtype = rng.choice(["float64", "float64", "float32"])
        eps = teps(dtype)
        x, tg = gen_alg_row(rng, "SO3", eps)
        x = U.to_dtype_exact([x], dtype)[1][0].tolist()
        case = {"stream": "jr", "type": "SO3", "dtype": dtype, "x": x, "d": common.rand_dir(rng, 3)}
        jr_oracle_case(ctx, case)
        ctx.note_case(("jr", dtype, tg), tg != "zero")
        ctx.count(f"jr.{dtype}")
    ctx.sample({"stream": "jr", "example": case}, cap=15)


# ----------------------------------------------------------------------------- deterministic corner corpus (runs first, seed independent)

def quat_of(angle, axis, neg=False):
    sn, w = math.sin(angle / 2), math.cos(angle / 2)
    q = [axis[0] * sn, axis[1] * sn, axis[2] * sn, w]
    return [-v for v in q] if neg else q


AX = [(0.0, 0.0, 1.0), (0.6, 0.0, 0.8), (1 / 3, -2 / 3, 2 / 3), (-0.8, 0.6, 0.0)]
DIRS = [(1.0, 0.0, 0.0), (0.48, -0.6, 0.64), (-2 / 7, 3 / 7, 6 / 7), (0.0, -1.0, 0.0)]


_CORNER_CACHE = {}


def corner_group_rows(name, dtype):
    """memoised (the tie searches cost 0.05-0.2 s per call and the rows are requested ~40 times per run); returns fresh lists"""
    if (name, dtype) not in _CORNER_CACHE:
        _CORNER_CACHE[(name, dtype)] = _corner_group_rows(name, dtype)
    return [(list(r), t) for r, t in _CORNER_CACHE[(name, dtype)]]


def _corner_group_rows(name, dtype):
    """fixed group elements: identity, the eps-neighbourhood, sqrt(eps), ordinary in both hemispheres, pi-, |w| ~ 0 on both
    sides, translations 0..1e6, scales e^±big with big beyond the 'documented' range (valid: any positive scale)"""
    e = teps(dtype)
    big = 40.0 if dtype == "float64" else 15.0
    spec = [  # (tag, angle | explicit quaternion, axis#, negated, |t|, dir#, log-scale)
        ("identity", 0.0, 0, False, 0.0, 0, 0.0),
        ("th=eps/2", e / 2, 1, False, 1.0, 1, e / 2),
        ("th=eps+", e * (1 + 2 ** -10), 2, True, 1e3, 2, -2 * e),
        ("th=1e-9", 1e-9 if dtype == "float64" else 1e-5, 3, False, 0.0, 0, 1e-9),
        ("th=sqrt(eps)", math.sqrt(e), 1, True, 3.0, 3, -math.sqrt(e)),
        ("th=0.05-", 0.05 * (1 - 1e-3), 2, False, 2.0, 0, -e * (1 + 2 ** -10)),
        ("th=0.05+", 0.05 * (1 + 1e-3), 3, True, 2.0, 2, e * (1 + 2 ** -10)),
        ("th=0.7", 0.7, 2, False, 2.0, 1, 0.7),
        ("th=2.2,w<0", 2.2, 3, True, 0.5, 2, -3.0),
        ("th=pi-1e-6", math.pi - 1e-6, 1, False, 1.0, 3, 0.1),
        ("w=+eps/2", [math.sqrt(1 - (e / 2) ** 2), e / 2], 2, False, 1.0, 0, 0.0),
        ("w=-eps/2", [math.sqrt(1 - (e / 2) ** 2), -e / 2], 0, False, 10.0, 1, 1.0),
        ("scale=e^+big,t=1e6", 1.2, 2, False, 1e6, 2, big),
        ("scale=e^-big,t=1e-3", 2.5, 3, True, 1e-3, 3, -big),
    ]
    rows = []
    D = U.dt(dtype)
    P = U.pp()
    s2 = float(torch.tensor(0.5, dtype=D).sqrt())
    # exact coincidences (class 20): |v| == |w| bit for bit (axis-aligned and generic, both hemispheres), log-scale == angle,
    # angle == eps exactly, Log angle == 0.05 exactly (the calcQ switch) where a neighbouring float realises it
    vg = (torch.tensor(AX[2], dtype=torch.float64) * s2).to(D)
    cg = float(torch.norm(vg, 2, dim=-1))
    ties = [("tie |v|==|w| axis", [s2, 0.0, 0.0, s2], 1.0, 1, 0.0), ("tie |v|==|w| axis,w<0", [0.0, -s2, 0.0, -s2], 2.0, 2, 0.5),
            ("tie |v|==|w| generic", [float(vg[0]), float(vg[1]), float(vg[2]), cg], 0.0, 0, -0.5),
            ("tie |v|==|w| generic,w<0", [float(vg[0]), float(vg[1]), float(vg[2]), -cg], 3.0, 3, 0.0),
            ("tie sigma==theta", quat_of(0.3, AX[0]), 1.0, 1, 0.3), ("tie sigma==-theta", quat_of(0.3, AX[0], True), 1.0, 2, -0.3)]
    x0 = torch.tensor(math.sin(0.025), dtype=D)
    target = float(torch.tensor(0.05, dtype=D))
    for kk in range(-60, 61):
        xk = x0.clone()
        for _ in range(abs(kk)):
            xk = torch.nextafter(xk, torch.tensor(2.0 if kk > 0 else -2.0, dtype=D))
        qk = torch.stack([xk, xk * 0, xk * 0, (1 - xk * xk).sqrt()])
        try:
            if float(P.LieTensor(qk, ltype=P.SO3_type).Log().tensor().norm()) == target:
                ties.append(("tie Log angle==0.05", [float(v) for v in qk], 2.0, 1, 0.0))
                break
        except Exception:
            break
    # lesson 38c: exact ties of every floating comparison in SO3_Log / so3_Jl(_inv) / rxso3_Ws, with exactly representable data
    # (appended last: the indices of the rows above are used by other streams)
    ties += [("tie |v|==eps", [e, 0.0, 0.0, 1.0], 1.0, 2, 0.0), ("tie |v|==eps,w<0", [0.0, -e, 0.0, -1.0], 2.0, 3, 0.3),
             ("tie |w|==eps", [1.0, 0.0, 0.0, e], 1.0, 1, 0.0), ("tie |w|==eps,w<0", [0.0, 0.0, -1.0, -e], 0.5, 0, -0.2),
             ("tie w==+0", [0.0, 1.0, 0.0, 0.0], 1.0, 3, 0.0), ("tie w==-0", [0.6, 0.0, 0.8, -0.0], 1.0, 2, 0.1),
             ("tie Log angle==eps", [e / 2, 0.0, 0.0, 1.0], 1.0, 0, 0.0)]
    for sgn in (1.0, -1.0):        # a scale whose logarithm is exactly ±eps in this dtype (the |sigma| > eps guard of rxso3_Ws / Log)
        s0 = torch.tensor(1.0 + sgn * e, dtype=D)
        for _ in range(8):
            if float(torch.log(s0)) == sgn * e:
                ties.append((f"tie log(scale)=={'+' if sgn > 0 else '-'}eps", quat_of(0.4, AX[1]), 1.0, 1, ("S", float(s0))))
                break
            s0 = torch.nextafter(s0, torch.tensor(1.0 + 4 * sgn * e, dtype=D))
    for tag, q, tm, dr, ls in ties:
        spec.append((tag, ("Q", q), 0, False, tm, dr, ls))
    for tag, ang, ax, neg, tm, dr, ls in spec:
        if isinstance(ang, tuple):
            q = list(ang[1])
        elif isinstance(ang, list):
            q = [AX[ax][0] * ang[0], AX[ax][1] * ang[0], AX[ax][2] * ang[0], ang[1]]
        else:
            q = quat_of(ang, AX[ax], neg)
        r = []
        if name in ("SE3", "Sim3"):
            r += [tm * c for c in DIRS[dr]]
        r += q
        if name in ("RxSO3", "Sim3"):
            r.append(ls[1] if isinstance(ls, tuple) else math.exp(ls))
        rows.append((r, tag))
    return rows


def corner_alg_rows(name, dtype):
    """fixed tangent vectors: zero, eps-neighbourhoods of both switches, sqrt(eps), ordinary, pi, 2pi-, 7, 100 (large norm),
    translations 0..1e6, log-scales 0, ±eps.., ±big"""
    e = teps(dtype)
    bigs = 20.0 if dtype == "float64" else 8.0
    spec = [  # (tag, angle, axis#, |tau|, dir#, sigma)
        ("zero", 0.0, 0, 0.0, 0, 0.0),
        ("th=eps/2,sg=eps/2", e / 2, 1, 1.0, 1, e / 2),
        ("th=eps+,sg=2eps", e * (1 + 2 ** -10), 2, 1e3, 2, 2 * e),
        ("th=1e-9,sg=1e-9", 1e-9 if dtype == "float64" else 1e-5, 3, 0.0, 0, 1e-9 if dtype == "float64" else 1e-5),
        ("th=sqrt(eps),sg=-sqrt(eps)", math.sqrt(e), 0, 2.0, 3, -math.sqrt(e)),
        ("th=0.5,sg=0.7", 0.5, 1, 1.0, 1, 0.7),
        ("th=pi,sg=-3", math.pi, 2, 3.0, 2, -3.0),
        ("th=2pi-1e-6,tau=1e6", 2 * math.pi - 1e-6, 3, 1e6, 3, 0.0),
        ("th=7", 7.0, 1, 0.1, 0, 1e-3),
        ("th=100,sg=+big", 100.0, 2, 1.0, 1, bigs),
        ("only-sigma=-big", 0.0, 0, 0.0, 0, -bigs),
        ("only-tau=1", 0.0, 0, 1.0, 2, 0.0),
    ]
    rows = []
    for tag, ang, ax, tm, dr, sg in spec:
        r = []
        if name in ("SE3", "Sim3"):
            r += [tm * c for c in DIRS[dr]]
        r += [ang * c for c in AX[ax]]
        if name in ("RxSO3", "Sim3"):
            r.append(sg)
        rows.append((r, tag))
    # exact ties (class 20) and sign / zero patterns that fool `max() == 0`, `sum() == 0`, `not any()` tests (class 26)
    def mk(tag, tau, phi, sg):
        r = []
        if name in ("SE3", "Sim3"):
            r += list(tau)
        r += list(phi)
        if name in ("RxSO3", "Sim3"):
            r.append(sg)
        rows.append((r, tag))
    mk("tie th==0.05", (1.0, -2.0, 0.5), (0.05, 0.0, 0.0), 0.0)
    mk("tie sigma==theta", (0.0, 1.0, 0.0), (0.0, 0.3, 0.0), 0.3)
    mk("tie sigma==-theta", (1.0, 0.0, 0.0), (0.0, 0.0, -0.3), -0.3)
    mk("tie th==eps,sg==eps", (1.0, 1.0, 1.0), (e, 0.0, 0.0), e)
    mk("tie th==eps,sg==-eps", (0.0, 2.0, 0.0), (0.0, -e, 0.0), -e)
    mk("all<=0 with a zero (max==0)", (-1.0, 0.0, -2.0), (-0.3, 0.0, -0.2), -0.4)
    mk("components sum to 0", (1.0, -1.0, 0.0), (0.3, -0.3, 0.0), 0.0)
    return rows


def single_vs_batched(ctx, case, name, dtype, op, X, a, Z, stride=1):
    """mixed-regime oracle on the real code: every item of the batched result equals the same call on that item alone"""
    P = U.pp()
    e = teps(dtype)
    fl = SCALE_FLOOR[dtype]
    sa, sb = tuple(X.shape[:-1]), tuple(a.shape[:-1])
    so = tuple(torch.broadcast_shapes(sa, sb))
    Xe = X.tensor().expand(so + X.shape[-1:]).reshape(-1, X.shape[-1])
    ae = torch.Tensor.as_subclass(a, torch.Tensor).expand(so + a.shape[-1:]).reshape(-1, a.shape[-1])
    Zf = Z.tensor().reshape(-1, Z.shape[-1])
    if nonfinite_fail(ctx, case, Zf, f"batched {op}", Xe=Xe, ae=ae):
        return False
    algT = getattr(P, U.ALG[name] + "_type")
    blocks = [sl for sl in ((U.PHISL[name], U.TAUSL[name], U.SIGIDX[name]) if Z.ltype == algT else
                            (U.QSL[name], U.TSL[name], U.SIDX[name])) if sl is not None]
    for i in range(0, Xe.shape[0], stride):     # a batch-level decision changes every item: a fixed subset suffices in the quick tier
        Xi = P.LieTensor(Xe[i].clone(), ltype=U.ltype(name))
        ai = P.LieTensor(ae[i].clone(), ltype=algT)
        zi = {"Adj": lambda: Xi.Adj(ai), "AdjT": lambda: Xi.AdjT(ai), "Retr": lambda: Xi.Retr(ai), "add": lambda: Xi + ai.tensor(),
              "Jinvp": lambda: Xi.Jinvp(ai)}[op]().tensor()
        if torch.equal(torch.nan_to_num(zi, nan=1.2345), torch.nan_to_num(Zf[i], nan=1.2345)):
            continue
        for sl in blocks:
            sl = slice(sl, sl + 1) if isinstance(sl, int) else sl
            d = float((zi[sl].double() - Zf[i][sl].double()).abs().max())
            sc = float(zi[sl].double().abs().max())
            if not d <= 16 * e * max(sc, fl):
                ctx.fail(case | {"item": {"index": i, "X": Xe[i].double().tolist(), "a": ae[i].double().tolist()}},
                         f"mixed-batch: {op} of a {tuple(so)} batch of {name} ({dtype}) differs at item {i} from the same call on that item "
                         f"alone by {d:.3e} (block scale {sc:.3e})")
                return False
    return True


def corpus_block(ctx: Ctx, pend, name, dtype, gr, ar, tag="corner", grads=(None, "X", "a", "both")):
    """every group row x every tangent row in ONE mixed-regime batched call per op: model, single-item call, laws, exact oracles"""
    P = U.pp()
    Xr = U.to_dtype_exact([r[0] for r in gr], dtype)[1].tolist()
    Ar = U.to_dtype_exact([r[0] for r in ar], dtype)[1].tolist()
    base = {"stream": "corpus", "type": name, "dtype": dtype, "shape_X": [len(Xr), 1], "shape_a": [len(Ar)], "X": Xr, "a": Ar,
            "tags": [tag], "id": 1}
    for oi, op in enumerate(("Adj", "AdjT", "Retr", "add", "Jinvp")):
        case = dict(base, op=op, a_lt=(op != "add"))
        if ctx.quick:        # quick tier: every op sees every group row and half of the tangent rows (alternating halves, so every row is used by some op)
            sub = Ar[(oi % 2)::2]
            case["a"], case["shape_a"] = sub, [len(sub)]
        if op == "add":
            case.update(api="+", extra=0, alpha=1.0)
        pend += prepare(ctx, case)
        ctx.note_case(("corpus", tag, op, name, dtype), True)
        ctx.count(f"corpus.{op}.{name}.{dtype}", len(Xr) * len(Ar))
        try:
            T = tensors_of(case)
            X, a = T["X"], T["a"]
            aL = a if isinstance(a, P.LieTensor) else P.LieTensor(a, ltype=getattr(P, U.ALG[name] + "_type"))
            Z = {"Adj": lambda: X.Adj(aL), "AdjT": lambda: X.AdjT(aL), "Retr": lambda: X.Retr(aL), "add": lambda: X + a,
                 "Jinvp": lambda: X.Jinvp(aL)}[op]()
            single_vs_batched(ctx, case, name, dtype, op, X, aL, Z, stride=(5 if ctx.quick else 1))
        except Exception as ex:
            ctx.fail(case, f"raises: corpus {op} on {name} {dtype} raised {type(ex).__name__}: {str(ex)[:160]}")
    for gm in grads:
        law_case(ctx, {"stream": "laws", "type": name, "dtype": dtype, "shape_X": [len(Xr), 1], "shape_a": [len(Ar)], "X": Xr, "a": Ar, "grad": gm})
    for i, x in enumerate(Xr):   # exact adjoint oracle on a fixed pairing (three tangent rows per group row)
        if ctx.quick and dtype == "float32" and i % 2 and not gr[i][1].startswith("tie"):
            continue      # quick tier, second dtype: every other non-tie row
        for j in (((5 * i) % len(Ar),) if ctx.quick else ((5 * i) % len(Ar), (5 * i + 4) % len(Ar), (5 * i + 8) % len(Ar))):
            for op in ("Adj", "AdjT"):
                adj_oracle_case(ctx, {"stream": "adj", "type": name, "dtype": dtype, "op": op, "X": x, "a": Ar[j]})
                ctx.count(f"corpus.adj-exact.{name}")
    for i, x in enumerate(Xr):   # exact Jinvp oracle on a fixed pairing
        q = x[U.QSL[name]]
        if 2 * math.atan2(n2(q[:3]), abs(q[3])) > 3.1:
            continue
        if ctx.quick and i % 2 and not gr[i][1].startswith("tie"):
            continue      # quick tier: the mpmath oracle (a 14x14 expm for Sim3) on every other non-tie row; all rows go through the 192-bit model
        jinvp_oracle_case(ctx, {"stream": "jinvp", "type": name, "dtype": dtype, "X": x, "p": Ar[(3 * i + 1) % len(Ar)], "fd": False})
        ctx.note_case(("corpus-jinvp", tag, name, dtype, i), True)


def run_corpus(ctx: Ctx):
    """deterministic corner corpus: every group row x every tangent row in ONE mixed-regime batched call per op, compared
    item-wise with the model, with the single-item call, and through the laws / exact oracles"""
    P = U.pp()
    pend = []
    for name in U.GROUPS:
        for dtype in ("float64", "float32"):
            gr, ar = corner_group_rows(name, dtype), corner_alg_rows(name, dtype)
            if ctx.quick and dtype == "float32" and name in ("SE3", "RxSO3"):
                continue      # quick tier: the second dtype on two groups (SO3, Sim3)
            if ctx.quick and dtype == "float32":      # quick tier: every other corner for the second dtype (the full grid runs in float64)
                gr, ar = gr[::3] + [r for r in gr[21:] if r not in gr[::3]][::2], ar[1::2]
            corpus_block(ctx, pend, name, dtype, gr, ar, grads=((None, "both") if ctx.quick else (None, "X", "a", "both")))
    for dtype in ("float64", "float32"):
        rows = corner_alg_rows("SO3", dtype)
        xs = U.to_dtype_exact([r[0] for r in rows], dtype)[1].tolist()
        for x in xs:
            jr_oracle_case(ctx, {"stream": "jr", "type": "SO3", "dtype": dtype, "x": x, "d": [0.48, -0.6, 0.64]})
        for api in ("so3.Jr", "SO3.Jr"):
            case = {"stream": "corpus", "op": "Jr", "api": api, "type": "SO3", "dtype": dtype, "shape_X": [len(xs)], "id": 0, "tags": ["corner"]}
            if api == "so3.Jr":
                case["x"] = xs
            else:
                gx = U.to_dtype_exact([r[0] for r in corner_group_rows("SO3", dtype)], dtype)[1].tolist()
                case["X"], case["shape_X"] = gx, [len(gx)]
            pend += prepare(ctx, case)
            # mixed batch vs single items
            try:
                T = tensors_of(case)
                obj = T["x"] if api == "so3.Jr" else T["X"]
                J = obj.Jr()
                for i in range(obj.shape[0]):
                    Ji = P.LieTensor(obj.tensor()[i].clone(), ltype=obj.ltype).Jr()
                    if not float((Ji.double() - J[i].double()).abs().max()) <= 16 * teps(dtype) * float(Ji.abs().max()):
                        ctx.fail(case | {"item": {"index": i}}, f"mixed-batch: {api} of a mixed batch differs at item {i} from the single call ({dtype})")
                        break
            except Exception as ex:
                ctx.fail(case, f"raises: corpus {api} raised {type(ex).__name__}: {str(ex)[:160]}")
    flush(ctx, pend)


# ----------------------------------------------------------------------------- history probe: object reuse, stale reads, attributes

def history_probe(ctx: Ctx):
    """ONE group object, ONE algebra operand object and ONE plain-tensor operand live through a fixed history in which every
    per-call argument changes (values, batch shape, LieTensor / Tensor, alpha) and all three are updated in place between calls;
    after every step each read must equal, bit for bit, the same read on fresh clones, must leave its arguments untouched, and
    must not add attributes to the objects.  Catches memoisation keyed by too little and stale state (deterministic)."""
    P = U.pp()
    import random as _r
    rng = _r.Random(505)
    for name in U.GROUPS:
        for dtype in (("float64", "float32") if (not ctx.quick or name in ("SO3", "Sim3")) else ("float64",)):   # quick tier: second dtype on two groups
            eps, D = teps(dtype), U.dt(dtype)
            G, A = U.GDIM[name], U.ADIM[name]
            algT = getattr(P, U.ALG[name] + "_type")

            def grp(k):
                return P.LieTensor(torch.tensor([U.gen_group(rng, name, eps, thi=2.0, shi=0.5)[0] for _ in range(k)], dtype=torch.float64).to(D),
                                   ltype=U.ltype(name))

            def alg(shape, extra=0):
                n = int(math.prod(shape))
                rows = [U.gen_algebra(rng, name, eps, big=False, thi=1.0, shi=0.3)[0] + [rng.uniform(-2, 2)] * extra for _ in range(n)]
                return torch.tensor(rows, dtype=torch.float64).reshape(tuple(shape) + (A + extra,)).to(D)
            st = {"X": grp(3), "a": P.LieTensor(alg((3,)), ltype=algT), "t": alg((1,), extra=1), "alpha": 1.0}
            case = {"stream": "history", "type": name, "dtype": dtype}

            def reads(o):
                X, a, t, al = o["X"], o["a"], o["t"], o["alpha"]
                r = {"Adj": lambda: X.Adj(a), "AdjT": lambda: X.AdjT(a), "Jinvp": lambda: X.Jinvp(a), "Retr": lambda: X.Retr(a),
                     "X+t": lambda: X + t, "add(t,alpha)": lambda: X.add(t, alpha=al), "a+t": lambda: a + t,
                     "Exp(a)@X": lambda: a.Exp() @ X}
                if name == "SO3":
                    r["X.Jr"] = lambda: X.Jr()
                    r["a.Jr"] = lambda: a.Jr()
                return r
            steps = [
                ("first reads", lambda: None),
                ("X.add_(new)", lambda: st["X"].add_(alg((3,)))),
                ("a.copy_(new)", lambda: st["a"].copy_(P.LieTensor(alg(tuple(st["a"].shape[:-1])), ltype=algT))),
                ("t.mul_(-2)", lambda: st["t"].mul_(-2.0)),
                ("X[1]=new", lambda: st["X"].__setitem__(1, grp(1)[0])),
                ("a[0]=new", lambda: st["a"].__setitem__(0, P.LieTensor(alg(()), ltype=algT))),
                ("new operand object, other batch shape", lambda: st.__setitem__("a", P.LieTensor(alg((1,)), ltype=algT))),
                ("alpha changes", lambda: st.__setitem__("alpha", -0.5)),
                ("X.copy_(new)", lambda: st["X"].copy_(grp(3))),
                ("a.add_(vector)", lambda: st["a"].add_(alg((1,)))),
                ("new plain operand, wider", lambda: st.__setitem__("t", alg((3,), extra=2))),
                ("a.tensor().mul_(0.5)", lambda: st["a"].tensor().mul_(0.5)),
                ("operand shape () ", lambda: st.__setitem__("a", P.LieTensor(alg(()), ltype=algT))),
                ("X.add_(t)", lambda: st["X"].add_(st["t"])),
                ("X.tensor()[2]=row0", lambda: st["X"].tensor().__setitem__(2, st["X"].tensor()[0].clone())),
            ]
            try:
                attrs0 = {k2: set(vars(st[k2]).keys()) for k2 in ("X", "a")}
                tattrs0 = {k2: set(vars(type(st[k2].ltype)).keys()) | set(vars(st[k2].ltype).keys()) for k2 in ("X", "a")}
                attr_reported = False
                for si, (lab, upd) in enumerate(steps):
                    upd()
                    ref = {"X": st["X"].clone(), "a": st["a"].clone(), "t": st["t"].clone(), "alpha": st["alpha"]}
                    r1, r2 = reads(st), reads(ref)
                    # the calls on the long-lived objects come first: whatever the previous step left behind is still in place
                    z1s = {key: fn() for key, fn in r1.items()}
                    if any(nonfinite_fail(ctx, case | {"step": si, "update": lab, "read": key, "X": st["X"].tensor().double().tolist(), "a": st["a"].tensor().double().tolist(), "t": st["t"].double().tolist()}, z_, f"{key} after step #{si} ({lab}) on X={st['X'].tensor().double().tolist()}") for key, z_ in z1s.items()):
                        raise StopIteration
                    for k2 in ("X", "a", "t"):
                        if not torch.equal(torch.Tensor.as_subclass(st[k2], torch.Tensor), torch.Tensor.as_subclass(ref[k2], torch.Tensor)):
                            ctx.fail(case | {"step": si}, f"purity: a read modified its operand `{k2}` ({name}, {dtype})")
                            raise StopIteration
                    z2s = {key: fn() for key, fn in r2.items()}
                    for key in r1:
                        z1, z2 = z1s[key], z2s[key]
                        z1 = z1.tensor() if hasattr(z1, "ltype") else z1
                        z2 = z2.tensor() if hasattr(z2, "ltype") else z2
                        ctx.note_case(("history", name, dtype, si, key), True)
                        ctx.count(f"history.{name}")
                        if z1.shape != z2.shape or not torch.equal(torch.nan_to_num(z1, nan=1.2345), torch.nan_to_num(z2, nan=1.2345)):
                            ctx.fail(case | {"step": si, "update": lab, "read": key},
                                     f"stale: {key} on long-lived {name} objects after step #{si} ({lab}) differs from the same call on fresh "
                                     f"clones ({dtype})")
                            raise StopIteration
                    for fn in r1.values():       # prime: the last call of every op is again on the long-lived objects
                        fn()
                    if si in (6, 12):
                        attrs0["a"] = set(vars(st["a"]).keys())
                    for k2 in ("X", "a"):
                        extra_attrs = (set(vars(st[k2]).keys()) - attrs0[k2]) | \
                                      ((set(vars(type(st[k2].ltype)).keys()) | set(vars(st[k2].ltype).keys())) - tattrs0[k2])
                        if extra_attrs and not attr_reported:
                            attr_reported = True
                            ctx.fail(case | {"step": si}, f"attributes: calls left new attributes {sorted(extra_attrs)} on the {k2} object / its "
                                                          f"ltype ({name}) — hidden state")
                    if st["X"].ltype != U.ltype(name) or st["a"].ltype != algT or st["X"].dtype != D:
                        ctx.fail(case | {"step": si}, f"attributes: ltype / dtype of a long-lived object changed ({name})")
                        raise StopIteration
            except StopIteration:
                pass
            except Exception as ex:
                ctx.fail(case, f"raises: history probe on {name} {dtype} raised {type(ex).__name__}: {str(ex)[:160]}")


# ----------------------------------------------------------------------------- views and aliases

def run_views(ctx: Ctx):
    """arguments that are strided slices of a larger buffer, last-dim windows, transposed, expanded; in-place updates through a
    view (values outside the view untouched); one storage passed as two arguments.  Reference: the same call on contiguous clones,
    bit for bit.  Deterministic."""
    P = U.pp()
    import random as _r
    rng = _r.Random(606)
    for name in U.GROUPS:
        for dtype in (("float64", "float32") if (not ctx.quick or name in ("SO3", "Sim3")) else ("float64",)):   # quick tier: second dtype on two groups
            eps, D = teps(dtype), U.dt(dtype)
            G, A = U.GDIM[name], U.ADIM[name]
            algT = getattr(P, U.ALG[name] + "_type")
            case = {"stream": "views", "type": name, "dtype": dtype}

            def gdata(*shape):
                n = int(math.prod(shape))
                return torch.tensor([gen_grp_row(rng, name, eps)[0] for _ in range(n)], dtype=torch.float64).reshape(shape + (G,)).to(D)

            def adata(*shape):
                n = int(math.prod(shape))
                return torch.tensor([U.gen_algebra(rng, name, eps, big=False, thi=2.0, shi=0.5)[0] for _ in range(n)],
                                    dtype=torch.float64).reshape(shape + (A,)).to(D)

            def views_of(data, width):
                """{kind: (buffer, view)} all holding `data` (2,3,width)"""
                out = {}
                buf = torch.full((2, 6, width), 0.25, dtype=D)
                buf[:, ::2] = data
                out["strided-batch"] = (buf, buf[:, ::2])
                wide = torch.full((2, 3, width + 3), -0.5, dtype=D)
                wide[..., 1:1 + width] = data
                out["last-dim-window"] = (wide, wide[..., 1:1 + width])
                tb = data.transpose(0, 1).contiguous()
                out["transposed"] = (tb, tb.transpose(0, 1))
                return out
            try:
                Xd, ad = gdata(2, 3), adata(2, 3)
                ops = {"Adj": lambda X, a: X.Adj(a), "AdjT": lambda X, a: X.AdjT(a), "Jinvp": lambda X, a: X.Jinvp(a),
                       "Retr": lambda X, a: X.Retr(P.LieTensor(a, ltype=algT)), "+": lambda X, a: X + a, "pp.add": lambda X, a: P.add(X, a)}
                Xc = P.LieTensor(Xd.clone(), ltype=U.ltype(name))
                want = {k2: f(Xc, ad.clone()).tensor() for k2, f in ops.items()}
                for k2, w_ in want.items():
                    nonfinite_fail(ctx, case | {"op": k2}, w_, f"{k2} on contiguous operands", Xe=Xd.reshape(-1, G), ae=ad.reshape(-1, A))
                xviews, aviews = views_of(Xd, G), views_of(ad, A)
                xviews["expanded"] = (Xd[:, :1].clone(), None)
                for xk, (xbuf, xv) in xviews.items():
                    for ak, (abuf, av) in list(aviews.items()) + [("contiguous", (ad.clone(), None))]:
                        if xk == "expanded":
                            Xv = P.LieTensor(xbuf.expand(2, 3, G), ltype=U.ltype(name))
                            wantx = {k2: f(P.LieTensor(xbuf.expand(2, 3, G).clone(), ltype=U.ltype(name)), ad.clone()).tensor() for k2, f in ops.items()}
                        else:
                            Xv, wantx = P.LieTensor(xv, ltype=U.ltype(name)), want
                        avv = av if av is not None else abuf
                        xb0, ab0 = xbuf.clone(), abuf.clone()
                        for k2, f in ops.items():
                            try:
                                z = f(Xv, avv).tensor()
                            except Exception as ex:
                                ctx.fail(case | {"X_view": xk, "a_view": ak, "op": k2},
                                         f"views: {k2} with X as a {xk} view and a as a {ak} view raised {type(ex).__name__}: {str(ex)[:120]} ({name}, {dtype})")
                                continue
                            ctx.note_case(("views", name, dtype, xk, ak, k2), True)
                            ctx.count(f"views.{xk}|{ak}")
                            if z.shape != wantx[k2].shape or not torch.equal(torch.nan_to_num(z, nan=1.2345), torch.nan_to_num(wantx[k2], nan=1.2345)):
                                ctx.fail(case | {"X_view": xk, "a_view": ak, "op": k2},
                                         f"views: {k2} with X as a {xk} view and a as a {ak} view differs from the call on contiguous copies ({name}, {dtype})")
                            if not torch.equal(xbuf, xb0) or not torch.equal(abuf, ab0):
                                ctx.fail(case | {"X_view": xk, "a_view": ak, "op": k2}, f"purity: {k2} wrote into the buffers behind its view arguments ({name})")
                # in-place update through a view: the view holds Retr, the rest of the buffer is untouched
                for api in ("add_", "pp.add_", "add_(alpha)"):
                    for xk in ("strided-batch", "last-dim-window", "transposed"):
                        for ak, (abuf, av) in list(views_of(ad, A).items())[:2] + [("contiguous", (ad.clone(), ad.clone()))]:
                            xbuf, xv = views_of(Xd, G)[xk]
                            Xv = P.LieTensor(xv, ltype=U.ltype(name))
                            al = 0.5 if api == "add_(alpha)" else 1.0
                            exp_view = P.LieTensor(Xd.clone(), ltype=U.ltype(name)).add(av.clone(), alpha=al).tensor()
                            expect = xbuf.clone()
                            if xk == "strided-batch":
                                expect[:, ::2] = exp_view
                            elif xk == "last-dim-window":
                                expect[..., 1:1 + G] = exp_view
                            else:
                                expect = exp_view.transpose(0, 1).contiguous()
                            a0 = abuf.clone()
                            try:
                                r = Xv.add_(av) if api == "add_" else (P.add_(Xv, av) if api == "pp.add_" else Xv.add_(av, alpha=al))
                            except Exception as ex:
                                ctx.fail(case | {"X_view": xk, "a_view": ak, "api": api},
                                         f"views-inplace: {api} through a {xk} view of a larger buffer raised {type(ex).__name__}: {str(ex)[:120]} ({name}, {dtype})")
                                continue
                            if not isinstance(r, P.LieTensor) or r.ltype != Xv.ltype:
                                ctx.fail(case | {"X_view": xk, "api": api}, f"views-inplace: {api} on a {xk} view returned {type(r).__name__}, not the "
                                                                             f"LieTensor it was called on ({name})")
                                r = Xv
                            ctx.note_case(("views-inplace", name, dtype, api, xk, ak), True)
                            ctx.count(f"views.inplace.{xk}")
                            if not torch.equal(torch.nan_to_num(xbuf, nan=1.2345), torch.nan_to_num(expect, nan=1.2345)):
                                inside = torch.equal(torch.nan_to_num(Xv.tensor(), nan=1.2345), torch.nan_to_num(exp_view, nan=1.2345))
                                ctx.fail(case | {"X_view": xk, "a_view": ak, "api": api},
                                         f"views-inplace: {api} through a {xk} view of a larger buffer: " +
                                         ("storage outside the view was modified" if inside else "the view does not hold Exp(a)@X afterwards") +
                                         f" ({name}, {dtype})")
                            if r.data_ptr() != Xv.data_ptr():
                                ctx.fail(case | {"X_view": xk, "api": api}, f"views-inplace: {api} did not return its (view) input ({name})")
                            if not torch.equal(abuf, a0):
                                ctx.fail(case | {"X_view": xk, "a_view": ak, "api": api}, f"purity: {api} modified the tangent operand's buffer ({name})")
                # aliases: one storage as both arguments
                Xa = P.LieTensor(Xd.clone(), ltype=U.ltype(name))
                alias = Xa.tensor()[..., :A]
                for k2, f in ops.items():
                    z = f(Xa, alias).tensor()
                    w = f(P.LieTensor(Xd.clone(), ltype=U.ltype(name)), Xd[..., :A].clone()).tensor()
                    if not torch.equal(torch.nan_to_num(z, nan=1.2345), torch.nan_to_num(w, nan=1.2345)):
                        ctx.fail(case | {"op": k2}, f"alias: {k2}(X, view of X's own storage) differs from the call on separate copies ({name}, {dtype})")
                Xa.add_(alias)
                w = P.LieTensor(Xd.clone(), ltype=U.ltype(name)).add_(Xd[..., :A].clone()).tensor()
                if not torch.equal(torch.nan_to_num(Xa.tensor(), nan=1.2345), torch.nan_to_num(w, nan=1.2345)):
                    ctx.fail(case | {"op": "add_"}, f"alias: X.add_(view of X's own storage) differs from the update with a separate copy ({name}, {dtype})")
                x = P.LieTensor(ad.clone(), ltype=algT)
                if not torch.equal((x + x).tensor(), 2 * ad) or not torch.equal(x.tensor(), ad):
                    ctx.fail(case | {"op": "x+x"}, f"alias: algebra x + x is not 2x / modified x ({name}, {dtype})")
                x.add_(x)
                if not torch.equal(x.tensor(), 2 * ad):
                    ctx.fail(case | {"op": "x.add_(x)"}, f"alias: algebra x.add_(x) is not 2x ({name}, {dtype})")
                ctx.note_case(("views-alias", name, dtype), True)
            except Exception as ex:
                ctx.fail(case, f"raises: views stream on {name} {dtype} raised {type(ex).__name__}: {str(ex)[:200]}")


# ----------------------------------------------------------------------------- grad modes, argument forms, atomicity, copies, ownership, sizes

import contextlib as _ctxlib


@_ctxlib.contextmanager
def default_dtype(dt_):
    """process-wide default dtype switched around a call (class 25) and restored"""
    old = torch.get_default_dtype()
    torch.set_default_dtype(dt_)
    try:
        yield
    finally:
        torch.set_default_dtype(old)


def _val(z):
    z = z.tensor() if hasattr(z, "ltype") else z
    return z.detach()


def _same(z1, z2):
    return z1.shape == z2.shape and z1.dtype == z2.dtype and torch.equal(torch.nan_to_num(z1, nan=1.2345), torch.nan_to_num(z2, nan=1.2345))


def spellings(P, name, algT):
    """every public spelling of the C05 operations as fn(X, a, aL) (a: plain tensor, aL: the same data as algebra LieTensor)"""
    sp = {
        "X.Adj(a)": lambda X, a, aL: X.Adj(a), "X.Adj(aL)": lambda X, a, aL: X.Adj(aL), "pp.Adj(X,aL)": lambda X, a, aL: P.Adj(X, aL),
        "X.AdjT(a)": lambda X, a, aL: X.AdjT(a), "pp.AdjT(X,aL)": lambda X, a, aL: P.AdjT(X, aL),
        "X.Jinvp(a)": lambda X, a, aL: X.Jinvp(a), "pp.Jinvp(X,aL)": lambda X, a, aL: P.Jinvp(X, aL),
        "X.Retr(aL)": lambda X, a, aL: X.Retr(aL), "pp.Retr(X,aL)": lambda X, a, aL: P.Retr(X, aL),
        "X+a": lambda X, a, aL: X + a, "X+aL": lambda X, a, aL: X + aL, "X.add(a)": lambda X, a, aL: X.add(a), "X.add(aL)": lambda X, a, aL: X.add(aL),
        "pp.add(X,a)": lambda X, a, aL: P.add(X, a), "X.add(a,alpha=0.5)": lambda X, a, aL: X.add(a, alpha=0.5),
        "X.add(a,0.5)": lambda X, a, aL: X.add(a, 0.5), "pp.add(X,a,alpha=-2)": lambda X, a, aL: P.add(X, a, alpha=-2),
        "X.add(other=a,alpha=3)": lambda X, a, aL: X.add(other=a, alpha=3), "Exp(aL)@X": lambda X, a, aL: aL.Exp() @ X,
        "X.add(a,alpha=np.float64(0.5))": lambda X, a, aL: X.add(a, alpha=__import__("numpy").float64(0.5)),
        "X.add(a,alpha=np.float32(-2))": lambda X, a, aL: X.add(a, alpha=__import__("numpy").float32(-2.0)),
        "X.add(a,alpha=-3)": lambda X, a, aL: X.add(a, alpha=-3), "X.add(a,alpha=0)": lambda X, a, aL: X.add(a, alpha=0),
        "Exp(aL)*X": lambda X, a, aL: aL.Exp() * X, "aL+a": lambda X, a, aL: aL + a, "aL.add(a,alpha=2)": lambda X, a, aL: aL.add(a, alpha=2),
    }
    if name == "SO3":
        sp["X.Jr()"] = lambda X, a, aL: X.Jr()
        sp["aL.Jr()"] = lambda X, a, aL: aL.Jr()
        sp["pp.Jr(aL)"] = lambda X, a, aL: P.Jr(aL)
    return sp


def mode_order_probe(ctx: Ctx):
    """class 23: a module-level cache filled under inference_mode / no_grad and reused by a later autograd call of the same key.  Batch
    sizes 11 / 13 / 17 are fresh in the process when this runs (it is the first stream); for each: first mode, then the other, then
    backward through the autograd result; values equal across modes and backward runs (the gradients themselves are C04's subject)."""
    P = U.pp()
    for name in U.GROUPS:
        for dtype in ("float64", "float32"):
            D = U.dt(dtype)
            algT = getattr(P, U.ALG[name] + "_type")
            sp = spellings(P, name, algT)
            keys = [k2 for k2 in ("X.Adj(a)", "X.AdjT(a)", "X.Jinvp(a)", "X.Retr(aL)", "X+a", "X.add(a,alpha=0.5)", "X.Jr()", "aL.Jr()", "aL+a") if k2 in sp]
            for n, first in ((11, torch.inference_mode), (13, torch.no_grad), (17, None)):
                Xt, at = big_operands(name, (n,), (n,), D, 4000 + n)
                case = {"stream": "modes", "type": name, "dtype": dtype, "batch": n, "first_mode": getattr(first, "__name__", "grad")}
                for k2 in keys:
                    ctx.count("modes.order-of-modes")
                    ctx.note_case(("mode-order", name, dtype, n, k2), True)
                    try:
                        def call(rg):
                            X = P.LieTensor(Xt.clone(), ltype=U.ltype(name)).requires_grad_(rg)
                            a = at.clone().requires_grad_(rg)
                            return X, a, sp[k2](X, a, P.LieTensor(a, ltype=algT))
                        if first is not None:
                            with first():
                                z1 = _val(call(False)[2]).clone()
                        X, a, z = call(True)
                        zt = z.tensor() if hasattr(z, "ltype") else z
                        nonfinite_fail(ctx, case | {"op": k2}, zt, k2, Xe=Xt, ae=at)
                        zt.sum().backward()
                        if first is None:
                            with torch.inference_mode():
                                z1 = _val(call(False)[2]).clone()
                        if not _same(_val(z), z1):
                            ctx.fail(case | {"op": k2}, f"mode-order: {k2} returns other values in autograd than under {case['first_mode'] if first else 'inference_mode'} "
                                                       f"for the same batch of {n} ({name}, {dtype})")
                    except Exception as ex:
                        ctx.fail(case | {"op": k2}, f"mode-order: {k2} in autograd after a {case['first_mode']} call of the same size raised {type(ex).__name__}: "
                                                   f"{str(ex)[:120]} ({name}, {dtype})")


def run_modes(ctx: Ctx):
    """(10) argument forms, (11) atomic error paths, (12) grad modes, (13) duck-typed operands, (14) copies, (15) results own their
    memory, (16) special batch sizes, (17) call order across types.  Deterministic; reference = the plain call (itself tied to
    the model and the oracles by the corpus)."""
    import copy
    import pickle
    P = U.pp()
    order_log = {}
    combos = [(n_, d_) for n_ in U.GROUPS for d_ in ("float64", "float32") if not (ctx.quick and d_ == "float32" and n_ in ("SE3", "RxSO3"))]
    fixed = {}
    for name, dtype in combos:
        e, D = teps(dtype), U.dt(dtype)
        G, A = U.GDIM[name], U.ADIM[name]
        algT = getattr(P, U.ALG[name] + "_type")
        gr, ar = corner_group_rows(name, dtype), corner_alg_rows(name, dtype)
        Xd = torch.tensor([gr[i][0] for i in (7, 3, 8)], dtype=torch.float64).to(D)          # ordinary, tiny angle, other hemisphere
        ad = torch.tensor([ar[i][0] for i in (5, 1, 8)], dtype=torch.float64).to(D)          # ordinary, eps-neighbourhood, angle 7
        fixed[(name, dtype)] = (Xd, ad)
        sp = spellings(P, name, algT)
        case = {"stream": "modes", "type": name, "dtype": dtype}

        UserType = type("User" + type(U.ltype(name)).__name__, (type(U.ltype(name)),), {})     # a user subclass of the shipped LieType

        def mk(rgX=False, rga=False, param=False, nonleaf=False, userlt=False, proplt=False):
            if proplt:     # class 33: both ltypes are user subclasses that override the dimension attributes as properties
                X = P.LieTensor(Xd.clone(), ltype=_proptype(U.ltype(name)))
                a = ad.clone()
                return X, a, P.LieTensor(a, ltype=_proptype(algT))
            X = P.LieTensor(Xd.clone(), ltype=UserType() if userlt else U.ltype(name))
            a = ad.clone()
            if param:
                X = P.Parameter(X)
                a = torch.nn.Parameter(a) if rga else a
            else:
                X.requires_grad_(rgX)
                a.requires_grad_(rga)
            if nonleaf:
                X = X.clone() if X.requires_grad else X
                a = a * 1.0 if a.requires_grad else a
            aL = P.LieTensor(a, ltype=algT)
            return X, a, aL
        try:
            base = {}
            X, a, aL = mk()
            for k2, f in sp.items():
                base[k2] = _val(f(X, a, aL))
                nonfinite_fail(ctx, case | {"op": k2}, base[k2], k2, Xe=Xd, ae=ad)
            order_log[(name, dtype)] = base
            for k2, al in (("X+a", 1.0), ("X+aL", 1.0), ("X.add(a)", 1.0), ("X.add(aL)", 1.0), ("pp.add(X,a)", 1.0), ("X.add(a,alpha=0.5)", 0.5),
                           ("X.add(a,0.5)", 0.5), ("pp.add(X,a,alpha=-2)", -2.0), ("X.add(other=a,alpha=3)", 3.0), ("X.Retr(aL)", 1.0),
                           ("pp.Retr(X,aL)", 1.0), ("Exp(aL)*X", 1.0), ("X.add(a,alpha=np.float64(0.5))", 0.5), ("X.add(a,alpha=np.float32(-2))", -2.0),
                           ("X.add(a,alpha=-3)", -3.0), ("X.add(a,alpha=0)", 0.0)):
                ref = _val(P.LieTensor(al * ad, ltype=algT).Exp() @ X)
                sgm = (al * ad[..., U.SIGIDX[name]]).double() if U.SIGIDX[name] is not None else torch.zeros(3, dtype=torch.float64)
                ntau_ = (al * ad[..., U.TAUSL[name]]).double().norm(dim=-1) if U.TAUSL[name] is not None else torch.zeros(3, dtype=torch.float64)
                nt_ = Xd[..., U.TSL[name]].double().norm(dim=-1) if U.TSL[name] is not None else torch.zeros(3, dtype=torch.float64)
                lim = {"q": 16 * e, "t": 16 * e * (2 * torch.maximum(sgm.exp(), torch.ones(3, dtype=torch.float64)) * ntau_ + sgm.exp() * nt_ + SCALE_FLOOR[dtype]),
                       "s": 16 * e}
                bad = worst_bad(tdist_blocks(name, base[k2], ref), lim)
                if bad:
                    ctx.fail(case | {"op": k2, "X": Xd.double().tolist(), "a": ad.double().tolist()},
                             f"add-forms: {k2} != Exp({al}*a)@X ({name}, {dtype}): {bad}")
            if not _same(base["aL+a"], ad + ad) or not _same(base["aL.add(a,alpha=2)"], ad + 2 * ad):
                ctx.fail(case | {"op": "algebra add"}, f"add-forms: algebra aL + a / aL.add(a, alpha=2) is not vector addition ({name}, {dtype})")
            # the spellings of + agree with Exp(a)@X by value (plain operands)
            # (12)/(13) grad modes and operand kinds: values must not depend on them
            import contextlib
            variants = [("requires_grad X", dict(rgX=True), contextlib.nullcontext), ("requires_grad a", dict(rga=True), contextlib.nullcontext),
                        ("requires_grad both", dict(rgX=True, rga=True), contextlib.nullcontext),
                        ("non-leaf graph operands", dict(rgX=True, rga=True, nonleaf=True), contextlib.nullcontext),
                        ("pp.Parameter X / nn.Parameter a", dict(param=True, rga=True), contextlib.nullcontext),
                        ("pp.Parameter X", dict(param=True), contextlib.nullcontext),
                        ("no_grad, requires_grad both", dict(rgX=True, rga=True), torch.no_grad),
                        ("no_grad, plain", dict(), torch.no_grad),
                        ("inference_mode, plain", dict(), torch.inference_mode),
                        ("inference_mode, requires_grad both", dict(rgX=True, rga=True), torch.inference_mode),
                        ("enable_grad inside no_grad, requires_grad X", dict(rgX=True), None),
                        ("default dtype float64", dict(), lambda: default_dtype(torch.float64)),
                        ("default dtype float64, requires_grad both", dict(rgX=True, rga=True), lambda: default_dtype(torch.float64)),
                        ("user subclass of the LieType", dict(userlt=True), contextlib.nullcontext),
                        ("user LieType subclasses overriding dimension/embedding/manifold as properties", dict(proplt=True), contextlib.nullcontext)]
            if ctx.quick and dtype == "float32":      # quick tier: the second dtype runs the mode variants that differ most
                variants = [v for v in variants if v[0] in ("requires_grad both", "inference_mode, plain", "default dtype float64")
                            or v[0].startswith("user LieType subclasses")]
            if ctx.quick and dtype == "float64":      # quick tier: variants that repeat a mode already present in another combination run in the thorough tier
                variants = [v for v in variants if v[0] not in ("requires_grad a", "non-leaf graph operands", "no_grad, plain", "inference_mode, requires_grad both",
                                                                "default dtype float64, requires_grad both")]
            for vlab, kw, cm in variants:
                X, a, aL = mk(**kw)
                for k2, f in sp.items():
                    ctx.note_case(("modes", name, dtype, vlab, k2), True)
                    ctx.count(f"modes.{vlab}")
                    try:
                        if cm is None:
                            with torch.no_grad():
                                with torch.enable_grad():
                                    z = f(X, a, aL)
                        else:
                            with cm():
                                z = f(X, a, aL)
                    except Exception as ex:
                        ctx.fail(case | {"mode": vlab, "op": k2}, f"grad-mode: {k2} with operands [{vlab}] raised {type(ex).__name__}: {str(ex)[:120]} ({name}, {dtype})")
                        continue
                    if hasattr(base[k2], "shape") and not _same(_val(z), base[k2]):
                        d = float((_val(z).double() - base[k2].double()).abs().max()) if _val(z).shape == base[k2].shape else float("nan")
                        ctx.fail(case | {"mode": vlab, "op": k2, "X": Xd.double().tolist(), "a": ad.double().tolist()},
                                 f"grad-mode: {k2} with operands [{vlab}] returns other VALUES than the plain call (max diff {d:.3e}) ({name}, {dtype})")
                    if hasattr(z, "ltype") != (k2 not in ("X.Jr()", "aL.Jr()", "pp.Jr(aL)")):
                        ctx.fail(case | {"mode": vlab, "op": k2}, f"grad-mode: {k2} with operands [{vlab}] returned {type(z).__name__} ({name})")
            # class 33 with operands that carry EXTRA trailing components: the width used by + / add / add_ comes from the (overridden) property
            Xp, ap, aLp = mk(proplt=True)
            Xs_, as_, aLs = mk()
            wide = torch.cat([ad, torch.full(ad.shape[:-1] + (2,), 9.0, dtype=D)], -1)
            for lab, f in (("X+wide", lambda X, aL: X + wide), ("X.add(wide,alpha=0.5)", lambda X, aL: X.add(wide, alpha=0.5)),
                           ("X.clone().add_(wide)", lambda X, aL: X.clone().add_(wide)), ("aL+wide", lambda X, aL: aL + wide),
                           ("aL.clone().add_(wide)", lambda X, aL: aL.clone().add_(wide)), ("aL.add(wide,alpha=-2)", lambda X, aL: aL.add(wide, alpha=-2))):
                ctx.note_case(("modes", name, dtype, "proplt-wide", lab), True)
                ctx.count("modes.property-subclass, wide operand")
                try:
                    z1, z0 = _val(f(Xp, aLp)), _val(f(Xs_, aLs))
                    if not _same(z1, z0):
                        ctx.fail(case | {"mode": "property subclass", "op": lab},
                                 f"grad-mode: {lab} (operand with 2 extra components) on LieTensors whose ltype overrides dimension/embedding/manifold as "
                                 f"properties returns other values / shape {tuple(z1.shape)} than on the shipped ltype {tuple(z0.shape)} ({name}, {dtype})")
                except Exception as ex:
                    ctx.fail(case | {"mode": "property subclass", "op": lab}, f"grad-mode: {lab} on property-overriding ltype raised {type(ex).__name__}: {str(ex)[:120]} ({name}, {dtype})")
            # in-place forms where they are legal: optimizer pattern (Parameter under no_grad), inference_mode, non-leaf clone
            for vlab, kw, cm in [("Parameter under no_grad", dict(param=True), torch.no_grad), ("requires_grad X under no_grad", dict(rgX=True), torch.no_grad),
                                 ("plain under inference_mode", dict(), torch.inference_mode), ("non-leaf clone, grad enabled", dict(rgX=True, nonleaf=True), contextlib.nullcontext)]:
                for api, call, ref in [("add_(a)", lambda X, a: X.add_(a), "X+a"), ("add_(a,alpha=0.5)", lambda X, a: X.add_(a, alpha=0.5), "X.add(a,alpha=0.5)"),
                                       ("pp.add_(X,a,-2)", lambda X, a: P.add_(X, a, -2), "pp.add(X,a,alpha=-2)")]:
                    X, a, aL = mk(**kw)
                    ctx.count("modes.inplace")
                    try:
                        with cm():
                            r = call(X, a.detach())
                    except Exception as ex:
                        ctx.fail(case | {"mode": vlab, "op": api}, f"grad-mode: {api} on [{vlab}] raised {type(ex).__name__}: {str(ex)[:120]} ({name}, {dtype})")
                        continue
                    if not _same(_val(X), base[ref]) or not _same(_val(r), base[ref]):
                        ctx.fail(case | {"mode": vlab, "op": api, "X": Xd.double().tolist(), "a": ad.double().tolist()},
                                 f"grad-mode: {api} on [{vlab}] leaves other VALUES than the plain out-of-place call ({name}, {dtype})")
            # `X += a` is not among the observed entry points (LieTensor has no __iadd__: it is Tensor's raw element-wise addition);
            # its behaviour is recorded in the evidence, not judged (set JUDGE_IADD to make it a failure)
            X, a, aL = mk()
            try:
                with torch.no_grad():
                    Y = X.clone()
                    Y += torch.cat([a, a[..., :1]], -1) if name != "SO3" else torch.cat([a, a[..., :1]], -1)
                retracts = _same(_val(Y), base["X+a"])
            except Exception:
                retracts = None
            ctx.count("modes.iadd." + ("retracts" if retracts else ("raises" if retracts is None else "raw-tensor-semantics")))
            if JUDGE_IADD and not retracts:
                ctx.fail(case | {"op": "X+=a"}, f"iadd: `X += a` is not Exp(a)@X ({'raises' if retracts is None else 'raw element-wise addition'}) ({name}, {dtype})")
            # (11) a failing call leaves the object exactly as it was, and the history continues as if it had not happened
            X, a, aL = mk()
            bads = [("too few components", lambda: X.add_(a[..., :A - 1])), ("non-broadcastable batch", lambda: X.add_(torch.cat([a, a], 0)[:2 if a.shape[0] != 2 else 3])),
                    ("operand of a wrong type", lambda: X.add_("tangent")), ("out-of-place, too few components", lambda: X + a[..., :A - 1]),
                    ("Adj with a short operand", lambda: X.Adj(a[..., :A - 1])), ("Jinvp with a non-broadcastable batch", lambda: X.Jinvp(torch.cat([a, a], 0)[:2])),
                    ("algebra add_ with too few components", lambda: aL.add_(a[..., :A - 1])), ("Retr with a plain tensor of wrong width", lambda: X.Retr(P.LieTensor(a[..., :A - 1], ltype=algT)))]
            for blab, bad in bads:
                x0, a0 = X.tensor().clone(), a.clone()
                raised = False
                try:
                    bad()
                except Exception:
                    raised = True
                ctx.count("modes.error-path" + (".raised" if raised else ".accepted"))
                if raised and (not torch.equal(X.tensor(), x0) or not torch.equal(a, a0)):
                    # the caller passed invalid input: what the object holds afterwards is an observation, not a verdict
                    ctx.count("modes.error-path.operands-modified-after-raise")
                    ctx.notes.append(f"observation: {blab} raised and left its operands modified ({name}, {dtype})")
                    X, a, aL = mk()
                elif not raised:
                    X, a, aL = mk()
            X.add_(a)
            if not _same(_val(X), base["X+a"]):
                ctx.fail(case, f"atomic: after caught failing calls the next add_ does not give Exp(a)@X of the untouched object ({name}, {dtype})")
            # (14) copies follow their own law
            X, a, aL = mk()
            for clab, mkcopy in [("copy.deepcopy", copy.deepcopy), ("pickle round trip", lambda o: pickle.loads(pickle.dumps(o))),
                                 ("copy.copy", copy.copy), ("deepcopy of pp.Parameter", None)]:
                try:
                    Xo = P.Parameter(P.LieTensor(Xd.clone(), ltype=U.ltype(name))) if mkcopy is None else P.LieTensor(Xd.clone(), ltype=U.ltype(name))
                    Xc = copy.deepcopy(Xo) if mkcopy is None else mkcopy(Xo)
                except Exception as ex:
                    ctx.count(f"modes.copy-unsupported.{clab}")
                    if clab != "pickle round trip":
                        ctx.fail(case | {"copy": clab}, f"copy: {clab} of a {name} LieTensor raised {type(ex).__name__}: {str(ex)[:100]}")
                    continue
                ctx.count("modes.copy")
                if not hasattr(Xc, "ltype") or type(Xc.ltype) is not type(Xo.ltype) or not _same(_val(Xc), _val(Xo)) or type(Xc) is not type(Xo):
                    ctx.fail(case | {"copy": clab}, f"copy: {clab} of a {name} LieTensor lost its type / ltype / values")
                    continue
                shares = Xc.data_ptr() == Xo.data_ptr()
                expected_share = {"copy.deepcopy": False, "pickle round trip": False, "copy.copy": True}.get(clab)   # as on the unchanged tree
                if expected_share is not None and shares != expected_share:
                    ctx.fail(case | {"copy": clab}, f"copy: {clab} of a {name} LieTensor " + ("shares its storage with the original" if shares else
                             "no longer shares the storage (copy.copy is a shallow copy)") + f" ({dtype})")
                    continue
                if clab == "deepcopy of pp.Parameter":
                    ctx.count("modes.copy.parameter-deepcopy-" + ("same-object" if Xc is Xo else ("shares" if shares else "independent")))
                with torch.no_grad():
                    for k2 in ("X.Adj(a)", "X.Jinvp(a)", "X+a"):
                        if not _same(_val(sp[k2](Xc, a, aL)), base[k2]):
                            ctx.fail(case | {"copy": clab, "op": k2}, f"copy: {k2} on a {clab} differs from the original's value ({name}, {dtype})")
                    Xc.add_(a)                      # update the copy, then the original with another vector, interleaved reads
                    exp_c = base["X+a"]
                    exp_o = exp_c if shares else Xd
                    if not _same(_val(Xc), exp_c) or not _same(_val(Xo), exp_o):
                        ctx.fail(case | {"copy": clab}, f"copy: add_ on a {clab} " + ("is not seen through the shared storage" if shares else "changed the original / did not update the copy") + f" ({name}, {dtype})")
                    for k2 in ("X.Adj(a)", "X.Jinvp(a)", "X.AdjT(a)"):
                        for lab, obj in (("copy", Xc), ("original", Xo)):
                            w = sp[k2](P.LieTensor(_val(obj).clone(), ltype=U.ltype(name)), a, aL)
                            if not _same(_val(sp[k2](obj, a, aL)), _val(w)):
                                ctx.fail(case | {"copy": clab, "op": k2}, f"copy: {k2} on the {lab} after interleaved updates differs from a fresh object with the same value ({name})")
            # (15) results own their memory (ordinary operands, and identity / zero where a shortcut might hand back an argument)
            ident = torch.tensor([gr[0][0]] * 3, dtype=torch.float64).to(D)
            for (Xo_, ao_) in ((Xd, ad), (ident, torch.zeros_like(ad))):
              X, a = P.LieTensor(Xo_.clone(), ltype=U.ltype(name)), ao_.clone()
              aL = P.LieTensor(a, ltype=algT)
              for k2, f in sp.items():
                z = f(X, a, aL)
                zt = torch.Tensor.as_subclass(z, torch.Tensor)
                ctx.count("modes.ownership")
                if any(st_ == 0 and sz_ > 1 for st_, sz_ in zip(zt.stride(), zt.shape)):
                    ctx.fail(case | {"op": k2}, f"ownership: the result of {k2} overlaps itself (stride 0): items share memory ({name}, {dtype})")
                    continue
                ptrs = {X.tensor().untyped_storage().data_ptr(), a.untyped_storage().data_ptr()}
                if zt.untyped_storage().data_ptr() in ptrs:
                    ctx.fail(case | {"op": k2}, f"ownership: the result of {k2} aliases the storage of an operand ({name}, {dtype})")
                    continue
                z1 = zt.clone()
                zt[0] = 7.5
                if not torch.equal(torch.nan_to_num(zt[1:]), torch.nan_to_num(z1[1:])) or not torch.equal(X.tensor(), Xo_) or not torch.equal(a, ao_) \
                        or not _same(_val(f(X, a, aL)), z1):
                    ctx.fail(case | {"op": k2}, f"ownership: writing into one item of the result of {k2} changed other items, an operand or a later call ({name}, {dtype})")
            # (16) special batch sizes in every batch position: batched = item by item
            rng_rows_X = [r[0] for r in gr]
            rng_rows_a = [r[0] for r in ar]
            size_list = [((3,), (3,)), ((3, 3), (3, 3)), ((G,), (G,)), ((A,), (A,)), ((5,), (5,)), ((7,), (1,)), ((1,), (7,)), ((3, 1), (1, 3)),
                         ((1, 3), (3, 1)), ((3,), ()), ((), (3,)), ((G, 3), (3,)), ((3, A), (3, A))]
            if ctx.quick and dtype == "float32":
                size_list = size_list[:2]
            for sa, sb in size_list:
                na, nb = int(math.prod(sa)), int(math.prod(sb))
                Xs = torch.tensor([rng_rows_X[(2 * i + len(sa)) % len(rng_rows_X)] for i in range(na)], dtype=torch.float64).reshape(sa + (G,)).to(D)
                As = torch.tensor([rng_rows_a[(3 * i + 1 + len(sb)) % len(rng_rows_a)] for i in range(nb)], dtype=torch.float64).reshape(sb + (A,)).to(D)
                XL, AL = P.LieTensor(Xs, ltype=U.ltype(name)), P.LieTensor(As, ltype=algT)
                c2 = case | {"shape_X": list(sa), "shape_a": list(sb), "X": Xs.double().reshape(-1, G).tolist(), "a": As.double().reshape(-1, A).tolist()}
                for op in ("Adj", "AdjT", "Retr", "add", "Jinvp"):
                    ctx.note_case(("sizes", name, dtype, sa, sb, op), True)
                    ctx.count(f"modes.sizes.{sa}x{sb}")
                    try:
                        Z = {"Adj": lambda: XL.Adj(AL), "AdjT": lambda: XL.AdjT(AL), "Retr": lambda: XL.Retr(AL), "add": lambda: XL + As, "Jinvp": lambda: XL.Jinvp(AL)}[op]()
                        so = tuple(torch.broadcast_shapes(sa, sb))
                        if tuple(Z.shape[:-1]) != so:
                            ctx.fail(c2 | {"op": op}, f"sizes: {op} on batch shapes {sa},{sb} returned batch shape {tuple(Z.shape[:-1])} ({name})")
                            continue
                        single_vs_batched(ctx, c2 | {"op": op}, name, dtype, op, XL, AL, Z)
                    except Exception as ex:
                        ctx.fail(c2 | {"op": op}, f"raises: {op} on batch shapes {sa},{sb} raised {type(ex).__name__}: {str(ex)[:120]} ({name}, {dtype})")
                if name == "SO3" and na:
                    for obj in (XL, P.LieTensor(As[..., :3] if nb else As, ltype=algT)):
                        if obj.numel() == 0:
                            continue
                        J = obj.Jr()
                        flat = obj.tensor().reshape(-1, obj.shape[-1])
                        for i in range(flat.shape[0]):
                            Ji = P.LieTensor(flat[i].clone(), ltype=obj.ltype).Jr()
                            if not float((Ji.double() - J.reshape(-1, 3, 3)[i].double()).abs().max()) <= 16 * e * float(Ji.abs().max()):
                                ctx.fail(c2 | {"op": "Jr", "item": i}, f"sizes: Jr on batch shape {tuple(obj.shape[:-1])} differs at item {i} from the single call ({dtype})")
                                break
        except Exception as ex:
            ctx.fail(case, f"raises: modes stream on {name} {dtype} raised {type(ex).__name__}: {str(ex)[:200]}")
    # (17) module-level state: the same calls in other orders across types and dtypes give the same values
    try:
        for olab, order in (("reversed", list(reversed(combos))), ("op-major interleaved", None)):
            got = {}
            if order is not None:
                for name, dtype in order:
                    Xd, ad = fixed[(name, dtype)]
                    algT = getattr(P, U.ALG[name] + "_type")
                    X, a = P.LieTensor(Xd.clone(), ltype=U.ltype(name)), ad.clone()
                    aL = P.LieTensor(a, ltype=algT)
                    for k2, f in reversed(list(spellings(P, name, algT).items())):
                        got[(name, dtype, k2)] = _val(f(X, a, aL))
            else:
                keys = list(spellings(P, "SO3", P.so3_type).keys())
                for k2 in keys:
                    for name, dtype in combos:
                        algT = getattr(P, U.ALG[name] + "_type")
                        f = spellings(P, name, algT).get(k2)
                        if f is None:
                            continue
                        Xd, ad = fixed[(name, dtype)]
                        X, a = P.LieTensor(Xd.clone(), ltype=U.ltype(name)), ad.clone()
                        got[(name, dtype, k2)] = _val(f(X, a, P.LieTensor(a, ltype=algT)))
            for (name, dtype, k2), z in got.items():
                ctx.count("modes.order")
                if not _same(z, order_log[(name, dtype)][k2]):
                    ctx.fail({"stream": "modes", "type": name, "dtype": dtype, "op": k2, "order": olab},
                             f"order: {k2} on {name} ({dtype}) returns other values when the calls on the eight (type, dtype) pairs are made in "
                             f"{olab} order — state shared across types")
    except Exception as ex:
        ctx.fail({"stream": "modes"}, f"raises: call-order probe raised {type(ex).__name__}: {str(ex)[:200]}")


# ----------------------------------------------------------------------------- dispatch stream: the spellings of + as ONE modelled function

DISPATCH_SPELLINGS = ["+", "add", "pp.add", "add_", "pp.add_", "Retr", "pp.Retr"]
ALL_SHAPES = SHAPES + [(3, 2), (2, 2, 1), (1, 2, 3), (4,), (2, 1, 3)]


def run_dispatch(ctx: Ctx, n_cases: int):
    """`c05.add` = the model's `lieAdd`: spelling, alpha, lshapes of both operands (broadcastable or not, enlarging, empty), width of
    `other` (too short, exact, extra components) all handled INSIDE the Lean model; compared with the real call: same outcome class
    (result / raises), same lshape, same last extent, same items."""
    P = U.pp()
    rng = ctx.rng
    lines, metas = [], []
    for ci in range(n_cases):
        name = rng.choice(U.GROUPS)
        dtype = rng.choice(["float64", "float64", "float32"])
        eps, D = teps(dtype), U.dt(dtype)
        G, A = U.GDIM[name], U.ADIM[name]
        sp = rng.choice(DISPATCH_SPELLINGS)
        sx, so = rng.choice(ALL_SHAPES), rng.choice(ALL_SHAPES)
        if rng.random() < 0.6:      # mostly broadcastable pairs
            sx, so, _ = gen_shapes(rng)
        w = rng.choice([A - 1, A, A, A, A + 1, A + 2]) if not sp.endswith("Retr") else rng.choice([A, A, A, A + 1, A - 1])
        alpha = rng.choice([1.0, 1.0, -1.0, 2.0, 0.5, 0.0, 3.0]) if sp in ("add", "pp.add", "add_", "pp.add_") else 1.0
        nx, no = int(math.prod(sx)), int(math.prod(so))
        Xr = [gen_grp_row(rng, name, eps)[0] for _ in range(nx)]
        Or = [(gen_alg_row(rng, name, eps)[0] + [rng.uniform(-9, 9), rng.uniform(-9, 9)])[:w] for _ in range(no)]
        Xt = torch.tensor(Xr, dtype=torch.float64).reshape(tuple(sx) + (G,)).to(D) if nx else torch.zeros(tuple(sx) + (G,), dtype=D)
        Ot = torch.tensor(Or, dtype=torch.float64).reshape(tuple(so) + (w,)).to(D) if no else torch.zeros(tuple(so) + (w,), dtype=D)
        case = {"stream": "dispatch", "type": name, "dtype": dtype, "spelling": sp, "shape_X": list(sx), "shape_o": list(so), "width": w,
                "alpha": alpha, "X": Xt.double().reshape(-1, G).tolist(), "o": Ot.double().reshape(-1, w).tolist()}
        ctx.count(f"dispatch.{sp}")
        ctx.note_case(("dispatch", name, dtype, sp, tuple(sx), tuple(so), w - A, alpha), True)
        # real code
        X = P.LieTensor(Xt.clone(), ltype=U.ltype(name))
        res, raised = None, None
        try:
            if sp == "+":
                res = X + Ot
            elif sp == "add":
                res = X.add(Ot, alpha=alpha)
            elif sp == "pp.add":
                res = P.add(X, Ot, alpha)
            elif sp == "add_":
                res = X.add_(Ot, alpha=alpha)
            elif sp == "pp.add_":
                res = P.add_(X, Ot, alpha)
            else:
                aL = P.LieTensor(Ot, ltype=getattr(P, U.ALG[name] + "_type"))
                res = X.Retr(aL) if sp == "Retr" else P.Retr(X, aL)
        except Exception as ex:
            raised = f"{type(ex).__name__}: {str(ex)[:80]}"
        toks = [name, sp, str(len(sx))] + [str(v) for v in sx] + [str(len(so))] + [str(v) for v in so] + [str(w)]
        nums = [eps, alpha] + [v for r in case["X"] for v in r] + [v for r in case["o"] for v in r]
        lines.append("c05.add " + " ".join(toks) + " " + common.wire_list(nums))
        metas.append((case, res, raised))
    reps = ctx.driver.run(lines)
    for rep, (case, res, raised) in zip(reps, metas):
        name, dtype, sp = case["type"], case["dtype"], case["spelling"]
        G, A = U.GDIM[name], U.ADIM[name]
        st, toks = common.parse_reply(rep)
        if st != "ok":
            ctx.count(f"dispatch.error.{toks}")
            if toks in ("arity", "spelling", "type") or toks.startswith("bad-"):
                raise common.InfraError(f"dispatch op: {rep}")
            if raised is None:
                ctx.disagree("dispatch", case, f"{sp} {name} shapes {case['shape_X']},{case['shape_o']} width {case['width']}: model rejects ({toks}), "
                                               f"implementation returned shape {tuple(res.shape)}")
            continue
        if raised is not None:
            ctx.disagree("dispatch", case, f"{sp} {name} shapes {case['shape_X']},{case['shape_o']} width {case['width']}: implementation raised "
                                           f"({raised}), model returns a result")
            continue
        vals = [float(common.from_wire(t)) for t in toks if t]
        rank = int(vals[0])
        shape = tuple(int(v) for v in vals[1:1 + rank])
        last = int(vals[1 + rank])
        data = vals[2 + rank:]
        if not isinstance(res, U.pp().LieTensor) or tuple(res.shape) != shape + (last,):
            ctx.fail(case, f"dispatch-shape: {sp} on lshapes {case['shape_X']},{case['shape_o']} returned {type(res).__name__} of shape {tuple(res.shape)}, "
                           f"documented broadcast gives {shape + (last,)} ({name})")
            continue
        if nonfinite_fail(ctx, case, res, sp):
            continue
        got = res.tensor().double().reshape(-1, G).tolist()
        so_ = shape
        Xe = torch.tensor(case["X"], dtype=torch.float64).reshape(tuple(case["shape_X"]) + (G,)).expand(so_ + (G,)).reshape(-1, G).tolist() if got else []
        Oe = torch.tensor(case["o"], dtype=torch.float64).reshape(tuple(case["shape_o"]) + (case["width"],)).expand(so_ + (case["width"],)).reshape(-1, case["width"]).tolist() if got else []
        for i, g in enumerate(got):
            want = data[i * G:(i + 1) * G]
            aeff = [case["alpha"] * v for v in Oe[i][:A]]
            errs = retr_errfn(name, dtype, Xe[i], aeff, g)(want)
            if bad_blocks(errs):
                ctx.disagree("dispatch", case | {"item": {"index": i}}, f"{sp} {name} {dtype}: item {i} block errors {bad_blocks(errs)}")
                break


# ----------------------------------------------------------------------------- large batches: chunk / block boundaries (class 19, 28)

def big_operands(name, shape_x, shape_a, D, seed):
    """deterministic valid operands built with torch ops (no python loops): mixed regimes, ordinary LAST item"""
    g = torch.Generator().manual_seed(seed)
    G, A = U.GDIM[name], U.ADIM[name]
    nx, na = int(math.prod(shape_x)), int(math.prod(shape_a))
    q = torch.randn(nx, 4, generator=g, dtype=torch.float64)
    small = torch.rand(nx, 1, generator=g, dtype=torch.float64) < 0.1          # 10 % tiny rotations
    q[:, :3] = torch.where(small, q[:, :3] * 1e-9, q[:, :3])
    q = q / q.norm(dim=-1, keepdim=True)
    t = torch.randn(nx, 3, generator=g, dtype=torch.float64) * 3
    sc = torch.exp(0.5 * torch.randn(nx, 1, generator=g, dtype=torch.float64))
    X = {"SO3": q, "SE3": torch.cat([t, q], -1), "RxSO3": torch.cat([q, sc], -1), "Sim3": torch.cat([t, q, sc], -1)}[name]
    a = torch.randn(na, A, generator=g, dtype=torch.float64)
    a = torch.where(torch.rand(na, 1, generator=g, dtype=torch.float64) < 0.05, a * 0, a)       # 5 % zero tangent vectors
    if nx:
        X[nx - 1] = X[nx - 1].clone()
    if na:
        a[na - 1] = torch.linspace(0.3, -0.7, A, dtype=torch.float64)                      # the LAST item is ordinary
    return X.reshape(tuple(shape_x) + (G,)).to(D), a.reshape(tuple(shape_a) + (A,)).to(D)


LARGE_OPS = ["Adj", "AdjT", "Jinvp", "Retr", "add", "add_", "Jr", "jr", "algadd"]


def large_call(P, name, op, Xt, at):
    algT = getattr(P, U.ALG[name] + "_type")
    if op == "algadd":
        return (P.LieTensor(at, ltype=algT) + at.flip(0)).tensor()
    if op == "jr":
        return P.LieTensor(at, ltype=algT).Jr()
    X = P.LieTensor(Xt, ltype=U.ltype(name))
    if op == "Adj":
        return X.Adj(at).tensor()
    if op == "AdjT":
        return X.AdjT(P.LieTensor(at, ltype=algT)).tensor()
    if op == "Jinvp":
        return X.Jinvp(at).tensor()
    if op == "Retr":
        return X.Retr(P.LieTensor(at, ltype=algT)).tensor()
    if op == "add":
        return (X + at).tensor()
    if op == "add_":
        so = tuple(torch.broadcast_shapes(Xt.shape[:-1], at.shape[:-1]))
        Y = P.LieTensor(Xt.expand(so + Xt.shape[-1:]).clone(), ltype=U.ltype(name))
        Y.add_(at, alpha=-0.5)
        return Y.tensor()
    if op == "Jr":
        return X.Jr()
    raise ValueError(op)


def large_case(ctx, name, dtype, op, sx, sa, seed, pend, cuts=None, tails=()):
    """one large call: split-consistency along every full-size batch axis, single-item calls for first / last / random items, the
    model on a sample that includes the LAST item"""
    P = U.pp()
    D, e = U.dt(dtype), teps(dtype)
    G, A = U.GDIM[name], U.ADIM[name]
    Xt, at = big_operands(name, sx, sa, D, seed)
    case = {"stream": "large", "type": name, "dtype": dtype, "op": op, "shape_X": list(sx), "shape_a": list(sa), "data_seed": seed}
    so = tuple(torch.broadcast_shapes(sx, sa))
    n = int(math.prod(so))
    ctx.note_case(("large", name, dtype, op, tuple(sx), tuple(sa)), True)
    ctx.count(f"large.{op}.{n}")
    try:
        Z = large_call(P, name, op, Xt, at)
        if not bool(torch.isfinite(Z).all()):
            bad = (~torch.isfinite(Z)).reshape(n, -1).any(-1).nonzero().flatten()[:3].tolist() if Z.numel() else []
            ctx.fail(case | {"items": bad}, f"large: {op} on {name} lshapes {sx},{sa} ({dtype}) returned non-finite values at flat items {bad} of {n}")
            return
        if op in ("Jr", "jr", "algadd"):
            src = Xt if op == "Jr" else at
            full = lambda lo, hi: large_call(P, name, op, Xt[lo:hi] if op == "Jr" else None, at[lo:hi] if op != "Jr" else at)
            n0 = src.shape[0]
            for cut in sorted(set(tails) & set(range(1, n0))):       # class 34: the LAST n - cut items alone (remainders of block-wise evaluation)
                if op == "algadd":
                    continue
                zt_ = full(cut, n0)
                if not torch.equal(Z[cut:], zt_):
                    j = cut + int((Z[cut:] != zt_).reshape(n0 - cut, -1).any(-1).nonzero()[0])
                    ctx.fail(case | {"cut": cut, "item": j}, f"large-tail: the last {n0 - cut} items of {op} on a batch of {n0} differ from the same call on those "
                                                             f"items alone (first at item {j}) ({name}, {dtype})")
                    return
            for cut in sorted((set(cuts) if cuts is not None else {1, n0 // 2, 1 << 14, n0 - 1}) & set(range(1, n0))):
                if op == "algadd":
                    continue      # the flip pairs items across the cut: single-item / model checks below cover it
                z2 = torch.cat([full(0, cut), full(cut, n0)], 0)
                if not torch.equal(Z, z2):
                    j = int((Z != z2).reshape(n0, -1).any(-1).nonzero()[0])
                    ctx.fail(case | {"cut": cut, "item": j}, f"large-split: {op} of a batch of {n0} differs from the two halves cut at {cut} (first at item {j}) ({name}, {dtype})")
                    return
            if op == "algadd":
                if not torch.equal(Z, at + at.flip(0)):
                    j = int((Z != at + at.flip(0)).reshape(n0, -1).any(-1).nonzero()[0])
                    ctx.fail(case | {"item": j}, f"large: algebra + on a batch of {n0} is not vector addition at item {j} ({name}, {dtype})")
            else:
                for i in sorted({0, n0 - 1, (1 << 14) - 1, 1 << 14} & set(range(n0))):
                    zi = full(i, i + 1)
                    if not torch.equal(zi[0], Z[i]):
                        ctx.fail(case | {"item": i}, f"large-item: item {i} of {op} on a batch of {n0} differs from the single call ({dtype})")
                        return
            return
        # split along every axis of the RESULT (each operand is cut along its own matching axis unless it broadcasts there)
        def cut_op(T_, shp, ax, lo, hi):
            k2 = ax - (len(so) - len(shp))          # the operand's axis that maps to result axis `ax`
            if k2 < 0 or shp[k2] == 1:
                return T_
            return T_.narrow(k2, lo, hi - lo)
        for ax, dimlen in enumerate(so):
            if dimlen < 2:
                continue
            for cut in sorted(set(tails) & set(range(1, dimlen))) if dimlen == max(so) else []:
                zt_ = large_call(P, name, op, cut_op(Xt, sx, ax, cut, dimlen), cut_op(at, sa, ax, cut, dimlen))
                zz = Z.narrow(ax, cut, dimlen - cut)
                if zt_.shape != zz.shape or not torch.equal(zz, zt_):
                    ctx.fail(case | {"cut": cut, "axis": ax},
                             f"large-tail: the last {dimlen - cut} items (result axis {ax}) of {op} on lshapes {sx},{sa} differ from the same call on those "
                             f"items alone ({name}, {dtype})")
                    return
            for cut in sorted((set(cuts) if cuts is not None and dimlen == max(so) else {1, dimlen // 2, 1 << 14, dimlen - 1}) & set(range(1, dimlen))):
                parts = [large_call(P, name, op, cut_op(Xt, sx, ax, 0, cut), cut_op(at, sa, ax, 0, cut)),
                         large_call(P, name, op, cut_op(Xt, sx, ax, cut, dimlen), cut_op(at, sa, ax, cut, dimlen))]
                z2 = torch.cat(parts, ax)
                if z2.shape != Z.shape or not torch.equal(Z, z2):
                    diff = (Z != z2).reshape(n, -1).any(-1).nonzero().flatten() if z2.shape == Z.shape else torch.tensor([-1])
                    ctx.fail(case | {"cut": cut, "axis": ax, "item": int(diff[0])},
                             f"large-split: {op} on lshapes {sx},{sa} differs from the concatenation of the two parts cut at {cut} along result axis {ax} "
                             f"(first at flat item {int(diff[0])} of {n}) ({name}, {dtype})")
                    return
        # single-item calls and the model on a sample
        Xe = Xt.expand(so + (G,)).reshape(n, G)
        ae = at.expand(so + (A,)).reshape(n, A)
        Zf = Z.reshape(n, -1)
        idx = sorted(({0, n - 1, n - 2, (1 << 14) - 1, 1 << 14, (7919 * seed) % n, (104729 * seed) % n} | {n - n % (1 << k) for k in (10, 16, 17, 18)}
                      | {n - n % (1 << k) - 1 for k in (16, 17, 18)}) & set(range(n)))
        for i in idx:
            zi = large_call(P, name, op, Xe[i:i + 1].clone(), ae[i:i + 1].clone()).reshape(-1)
            if not torch.equal(torch.nan_to_num(zi, nan=1.2345), torch.nan_to_num(Zf[i], nan=1.2345)):
                ctx.fail(case | {"item": i, "X": Xe[i].double().tolist(), "a": ae[i].double().tolist()},
                         f"large-item: item {i} of {op} on a batch of {n} (lshapes {sx},{sa}) differs from the same call on that item alone by "
                         f"{float((zi.double() - Zf[i].double()).abs().max()):.3e} ({name}, {dtype})")
                return
        for i in [n - 1, idx[len(idx) // 2]]:
            x, av, got = Xe[i].double().tolist(), ae[i].double().tolist(), Zf[i].double().tolist()
            c2 = case | {"item": {"index": i, "X": x, "a": av}}
            if op in ("Adj", "AdjT"):
                fn = adj_errfn(name, dtype, x, av, op == "AdjT", got)
                line = mlines(f"{name}.{op}", e, x + av, False)
            elif op in ("Retr", "add"):
                fn = retr_errfn(name, dtype, x, av, got)
                line = mlines(f"{name}.Retr", e, x + av, flag_alg(name, av, e))
            elif op == "add_":
                aeff = [-0.5 * v for v in av]
                fn = retr_errfn(name, dtype, x, aeff, got)
                line = [f"{name}.add " + common.wire_list([e, -0.5] + x + av)]
            else:
                xi = P.LieTensor(Xe[i:i + 1].clone(), ltype=U.ltype(name)).Log().tensor().double()[0].tolist()
                fn = jinvp_errfn(name, dtype, xi, av, got)
                line = mlines(f"{name}.Jinvp", e, x + av, flag_grp(name, x, e))

            def chk(cands, fn=fn, c2=c2, i=i):
                r, errs = best(cands, fn)
                if bad_blocks(errs):
                    ctx.disagree("large", c2, f"{op} {name} {dtype}: item {i} of a batch of {n}: block errors {bad_blocks(errs)}")
                    if op == "Jinvp":     # concrete failing input from the exact oracle with the batched value
                        jinvp_oracle_case(ctx, {"stream": "jinvp", "type": name, "dtype": dtype, "X": c2["item"]["X"], "p": c2["item"]["a"], "fd": False,
                                                "batched_from": {"shape_X": list(sx), "shape_a": list(sa), "data_seed": seed, "index": i}}, got=got)
                    elif op in ("Adj", "AdjT"):
                        adj_oracle_case(ctx, {"stream": "adj", "type": name, "dtype": dtype, "op": op, "X": c2["item"]["X"], "a": c2["item"]["a"]}, got=got)
            pend.append(Pending(line, chk))
    except Exception as ex:
        ctx.fail(case, f"raises: {op} on {name} lshapes {sx},{sa} ({dtype}) raised {type(ex).__name__}: {str(ex)[:160]}")


def run_large(ctx: Ctx):
    """batches of 2^14+1 / 2^16+1 (thorough: also 2^14, 2^14-1, 2^15+1, 2^16) items, given directly, as a 2-d lshape with that element
    count, and reached by broadcasting ((5,1) x (3277,), () x (n,)); plus sizes on both sides of small kernel switch-overs (32/33,
    128/129, 1024/1025).  Deterministic."""
    pend = []
    n1, n2 = (1 << 14) + 1, (1 << 16) + 1
    plans = []
    for name in U.GROUPS:
        for op in LARGE_OPS:
            if op in ("Jr", "jr") and name != "SO3":
                continue
            if ctx.quick and op == "add":
                continue      # quick tier: `+` runs through Retr's and add_'s kernels, both of which are in the list
            plans.append((name, "float64", op, (n1,), (n1,)))
            if op in (("Adj", "Jinvp") if ctx.quick else ("Adj", "Jinvp", "add", "AdjT")):
                plans.append((name, "float64", op, (5, 1), (3277,)))
            if (op == "Jinvp" or (op == "Adj" and not ctx.quick)) and name in ("SE3", "Sim3"):
                plans.append((name, "float64", op, (n2,), (n2,)))
                plans.append((name, "float32", op, (n1,), (n1,)))
                plans.append((name, "float32", op, (3277, 1), (1, 5)))
                plans.append((name, "float64", op, (), (n1,)))
                plans.append((name, "float64", op, (n1,), ()))
            if op == "Jinvp":
                for k in ((1025,) if ctx.quick else (33, 129, 1025)):
                    plans.append((name, "float32", op, (k,), (k,)))
            if not ctx.quick:
                for k in (1 << 14, (1 << 14) - 1, (1 << 15) + 1, 1 << 16):
                    plans.append((name, "float64", op, (k,), (k,)))
                plans.append((name, "float32", op, (n2,), (n2,)))
                plans.append((name, "float64", op, (127, 129), (129,)))
    for i, (name, dtype, op, sx, sa) in enumerate(plans):
        if ctx.quick and sx == (n2,):      # quick tier: 2^16+1 with the last item / last 2^14+1 items alone instead of three full splits
            large_case(ctx, name, dtype, op, sx, sa, 1000 + i, pend, cuts=set(), tails=[n2 - 1, n2 - 1 - (1 << 14)])
            continue
        if ctx.quick and max(tuple(torch.broadcast_shapes(sx, sa)), default=0) >= n1 - 1:
            # quick tier: one full split in the middle + the items from 2^14 on alone + the last item alone (thorough: four full splits)
            nn = max(tuple(torch.broadcast_shapes(sx, sa)))
            large_case(ctx, name, dtype, op, sx, sa, 1000 + i, pend, cuts={nn // 2}, tails=[1 << 14, nn - 1, 1])
            continue
        large_case(ctx, name, dtype, op, sx, sa, 1000 + i, pend)
    # class 34: sizes beyond 2^17.  quick: 2^18+37 for every entry point, the tails n % 2^k (k = 5, 6..17 -> 5 and 37 items) and the last item alone;
    # thorough: 2^18+1, 2^18+37, 2^20+1 with a full split at the 2^18 boundary and the tails
    big = [((1 << 18) + 37, None, "float64")] if ctx.quick else [((1 << 18) + 1, 1 << 17, "float64"), ((1 << 18) + 37, 1 << 18, "float64"),
                                                                   ((1 << 20) + 1, 1 << 18, "float64"), ((1 << 18) + 37, 1 << 18, "float32")]
    j = 0
    for nb, fullcut, dtype in big:
        for name in U.GROUPS:
            for op in LARGE_OPS:
                if op in ("Jr", "jr") and name != "SO3":
                    continue
                if dtype == "float32" and not ctx.quick and op not in ("Adj", "Jinvp", "Retr"):
                    continue
                if ctx.quick and (op in ("add", "algadd", "jr", "Retr", "add_", "AdjT") or (op == "Jinvp" and name == "Sim3")):
                    continue      # quick tier: Adj and Jinvp on every group; AdjT (= Adj of the inverse) and the spellings of + (shared kernels) on one group each
                j += 1
                tails = sorted({nb - nb % (1 << k) for k in (5, 10, 17, 18)} | {nb - 1})
                large_case(ctx, name, dtype, op, (nb,), (nb,), 3000 + j, pend, cuts=({fullcut} if fullcut else set()), tails=tails)
        flush(ctx, pend)
        pend = []
    flush(ctx, pend)


# ----------------------------------------------------------------------------- algebra + with operands narrower than the manifold dimension

def run_algshort(ctx: Ctx):
    """`x + other` on algebra elements with `other` of every width 0..m-1 (and m, m+2 as controls): the code's `x + other[..., :m]` is a
    plain torch addition, so width 1 broadcasts and widths 0, 2..m-1 raise; the model's `algAdd` must give the same outcome class and
    values.  (Observation, not a property clause: the property speaks about operands of at least the manifold dimension.)"""
    P = U.pp()
    lines, metas = [], []
    for name in U.GROUPS:
        A = U.ADIM[name]
        algT = getattr(P, U.ALG[name] + "_type")
        for dtype in ("float64", "float32"):
            D, e = U.dt(dtype), teps(dtype)
            xrow = [0.25 * (i + 1) * (-1) ** i for i in range(A)]
            for w in list(range(0, A)) + [A, A + 2]:
                orow = [1.5 - 0.5 * i for i in range(w)]
                for api in ("+", "add(alpha=-2)", "add_"):
                    alpha = -2.0 if api.startswith("add(") else 1.0
                    x = P.LieTensor(torch.tensor([xrow, xrow], dtype=D), ltype=algT)
                    o = torch.tensor([orow, orow], dtype=D).reshape(2, w)
                    case = {"stream": "algshort", "type": name, "dtype": dtype, "width": w, "api": api}
                    ctx.note_case(("algshort", name, dtype, w, api), True)
                    ctx.count(f"algshort.width{'<m' if w < A else '>=m'}")
                    try:
                        z = (x + o) if api == "+" else (x.add(o, alpha=alpha) if api.startswith("add(") else x.clone().add_(o))
                        got, raised = z.tensor().double()[0].tolist(), None
                    except Exception as ex:
                        got, raised = None, type(ex).__name__
                    lines.append(f"{U.ALG[name]}.add " + common.wire_list([e, alpha] + xrow + orow))
                    metas.append((case, got, raised))
    for rep, (case, got, raised) in zip(ctx.driver.run(lines), metas):
        st, toks = common.parse_reply(rep)
        if st != "ok":
            if raised is None:
                ctx.disagree("algshort", case, f"algebra {case['api']} with an operand of width {case['width']} ({case['type']}): model rejects, the code returns {got}")
            continue
        if raised is not None:
            ctx.disagree("algshort", case, f"algebra {case['api']} with an operand of width {case['width']} ({case['type']}): the code raised {raised}, the model returns a value")
            continue
        want = [float(common.from_wire(t)) for t in toks if t]
        if len(want) != len(got) or not (amax(abs(g - v) for g, v in zip(got, want)) <= 8 * teps(case["dtype"]) * 4):
            ctx.disagree("algshort", case, f"algebra {case['api']} width {case['width']} ({case['type']}, {case['dtype']}): {got} vs model {want}")


# ----------------------------------------------------------------------------- class 32 / 29: process-wide constants poisoned by OTHER operations

def _proptype(base):
    """class 33: a user subclass of a shipped LieType that overrides dimension / embedding / manifold / on_manifold as PROPERTIES and whose
    private buffers are None (code that reads `_manifold` instead of `manifold` breaks)"""
    vals = (base.dimension, base.embedding, base.manifold)
    cls = type("Prop" + type(base).__name__, (type(base),), {
        "dimension": property(lambda self: vals[0]), "embedding": property(lambda self: vals[1]),
        "manifold": property(lambda self: vals[2]), "on_manifold": property(lambda self: vals[0] == vals[2])})
    o = cls()
    o._dimension = o._embedding = o._manifold = None
    return o


def poison_probe(ctx: Ctx):
    """Between two identical evaluations of every C05 operation (batched, all four groups) EVERY other public operation of the module is
    run on degenerate shapes — a single unbatched item, lshape (1,), (1,1) — forward and backward; the second evaluation must equal the
    first bit for bit.  A module-level constant (cached identity, zeros, ltype attribute) that some operation fills in place when
    `.expand().contiguous()` does not copy poisons every later call of the dtype.  Must run FIRST in the process.  Deterministic.
    Also class 29: the reads use omitted optional arguments (alpha) after calls that passed them."""
    P = U.pp()
    reads_all = {}
    ops_by = {}
    for dtype in ("float64", "float32"):
        D = U.dt(dtype)
        for name in U.GROUPS:
            algT = getattr(P, U.ALG[name] + "_type")
            Xt, at = big_operands(name, (3,), (3,), D, 7700)
            Xt, at = Xt.clone(), at.clone()
            Xt[0] = Xt[2]
            at[1] = at[1] * 0 + torch.linspace(-0.4, 0.6, at.shape[-1], dtype=D)

            def reads(name=name, algT=algT, Xt=Xt, at=at):
                X = P.LieTensor(Xt.clone(), ltype=U.ltype(name))
                aL = P.LieTensor(at.clone(), ltype=algT)
                a = at.clone()
                r = {"X.Adj(aL)": X.Adj(aL), "X.AdjT(a)": X.AdjT(a), "X.Jinvp(aL)": X.Jinvp(aL), "X.Retr(aL)": X.Retr(aL), "X+a": X + a,
                     "X.add(a)": X.add(a), "X.add(a,alpha=-2)": X.add(a, alpha=-2), "X.clone().add_(a)": X.clone().add_(a),
                     "aL+a": aL + a, "Exp(aL)@X": aL.Exp() @ X, "X.matrix()": X.matrix(), "aL.matrix()": aL.matrix(), "X.Log()": X.Log(),
                     "X.Inv()@X": X.Inv() @ X, "X[:1].Adj(a[:1])": P.LieTensor(Xt[:1].clone(), ltype=U.ltype(name)).Adj(a[:1]),
                     "X[0].Jinvp(a[0])": P.LieTensor(Xt[0].clone(), ltype=U.ltype(name)).Jinvp(a[0])}
                if name == "SO3":
                    r["X.Jr()"] = X.Jr()
                    r["aL.Jr()"] = aL.Jr()
                return {k2: _val(v).clone() for k2, v in r.items()}
            reads_all[(name, dtype)] = reads

            def others(name=name, algT=algT, D=D):
                """label -> fn(lshape): one call of another public operation on a single item of that lshape"""
                def ops(sh):
                    Xs, as_ = big_operands(name, sh, sh, D, 7800 + len(sh))
                    mk = lambda rg=False: P.LieTensor(Xs.clone(), ltype=U.ltype(name)).requires_grad_(rg)
                    mka = lambda rg=False: P.LieTensor(as_.clone().requires_grad_(rg), ltype=algT)
                    p3 = torch.linspace(-1, 2, 3, dtype=D).expand(tuple(sh) + (3,)).clone()
                    p4 = torch.linspace(-1, 2, 4, dtype=D).expand(tuple(sh) + (4,)).clone()
                    bw = lambda z: (z.tensor() if hasattr(z, "ltype") else z).sum().backward()
                    o = {
                        "Adj": lambda: mk().Adj(mka()), "AdjT": lambda: mk().AdjT(mka()), "Jinvp": lambda: mk().Jinvp(mka()),
                        "Retr": lambda: mk().Retr(mka()), "+": lambda: mk() + as_, "add(alpha=-2)": lambda: mk().add(as_, alpha=-2),
                        "add_(alpha=3)": lambda: mk().add_(as_, alpha=3), "alg +": lambda: mka() + as_, "alg add_": lambda: mka().add_(as_),
                        "matrix": lambda: mk().matrix(), "alg matrix": lambda: mka().matrix(), "Log": lambda: mk().Log(), "Exp": lambda: mka().Exp(),
                        "Inv": lambda: mk().Inv(), "alg Inv": lambda: mka().Inv(), "Mul": lambda: mk() @ mk(), "Act3": lambda: mk().Act(p3),
                        "Act4": lambda: mk().Act(p4), "X*p3": lambda: mk() * p3, "rotation": lambda: mk().rotation(),
                        "translation": lambda: mk().translation(), "scale": lambda: mk().scale(), "euler": lambda: mk().euler(),
                        "identity_": lambda: mk().identity_(), "tensor": lambda: mk().tensor(), "Adj bwd": lambda: bw(mk(True).Adj(mka(True))),
                        "AdjT bwd": lambda: bw(mk(True).AdjT(mka(True))), "Jinvp bwd": lambda: bw(mk(True).Jinvp(mka(True))),
                        "Retr bwd": lambda: bw(mk(True).Retr(mka(True))), "Log bwd": lambda: bw(mk(True).Log()), "Exp bwd": lambda: bw(mka(True).Exp()),
                        "Inv bwd": lambda: bw(mk(True).Inv()), "Mul bwd": lambda: bw(mk(True) @ mk(True)), "Act3 bwd": lambda: bw(mk(True).Act(p3)),
                        "Act4 bwd": lambda: bw(mk(True).Act(p4)), "matrix bwd": lambda: bw(mk(True).matrix()),
                        "alg matrix bwd": lambda: bw(mka(True).matrix()), "add bwd": lambda: bw(mk(True) + as_),
                    }
                    if name == "SO3":
                        o["Jr"] = lambda: mk().Jr()
                        o["alg Jr"] = lambda: mka().Jr()
                        o["Jr bwd"] = lambda: bw(mk(True).Jr())
                    return o
                return ops
            ops_by[(name, dtype)] = others()
    first = {}
    try:
        for key, rd in reads_all.items():
            first[key] = rd()
            for k2, v in first[key].items():
                nonfinite_fail(ctx, {"stream": "poison", "type": key[0], "dtype": key[1], "read": k2}, v, f"{k2} (first evaluation)")
    except Exception as ex:
        ctx.fail({"stream": "poison"}, f"raises: first evaluation of the C05 operations raised {type(ex).__name__}: {str(ex)[:160]}")
        return

    def recheck(dtypes, what, case):
        for (nm, dt_), rd in reads_all.items():
            if dt_ not in dtypes:
                continue
            try:
                now = rd()
            except Exception as ex:
                ctx.fail(case | {"read_type": nm, "read_dtype": dt_},
                         f"poison: the C05 operations on a batch of 3 {nm} items ({dt_}) raise {type(ex).__name__}: {str(ex)[:120]} — they did not at "
                         f"their first evaluation in this process; in between: {what}")
                return False
            for k2, v in now.items():
                if not _same(v, first[(nm, dt_)][k2]):
                    d = float((v.double() - first[(nm, dt_)][k2].double()).abs().max()) if v.shape == first[(nm, dt_)][k2].shape else float("nan")
                    ctx.fail(case | {"read": k2, "read_type": nm, "read_dtype": dt_},
                             f"poison: {k2} on the SAME batch of 3 {nm} items ({dt_}) differs from its first evaluation in this process (max diff {d:.3e}) "
                             f"— state shared across calls; in between: {what}")
                    return False
        return True
    for (name, dtype), ops in ops_by.items():
        tabs = {sh: ops(sh) for sh in ((), (1,), (1, 1))}
        labels = list(tabs[()].keys())
        step = len(labels) if ctx.quick else 2
        for c0 in range(0, len(labels), step):
            chunk = labels[c0:c0 + step]
            case = {"stream": "poison", "type": name, "dtype": dtype, "other_ops": chunk}
            for lab in chunk:
                ctx.note_case(("poison", name, dtype, lab), True)
                ctx.count("poison.other-ops")
                for sh in ((), (1,), (1, 1)):
                    try:
                        tabs[sh][lab]()
                    except Exception:
                        ctx.count("poison.other-op-raised")     # e.g. translation() of SO3: not every accessor exists for every type
            if not recheck((dtype,), f"single-item calls (lshapes (), (1,), (1,1)) of {chunk} on {name} ({dtype})", case):
                return
    recheck(("float64", "float32"), "the whole history (both dtypes)", {"stream": "poison", "other_op": "all"})


# ----------------------------------------------------------------------------- class 30: every dtype the entry points accept

NARROW = {"float16": (torch.float16, 2.0 ** -10), "bfloat16": (torch.bfloat16, 2.0 ** -7), "complex64": (torch.complex64, 2.0 ** -23)}


def moderate_operands(name, n, seed):
    """well-conditioned float64 operands (angles 0.5..2.5, |t| <= 2, scale e^±0.5, tangent blocks O(1)): meaningful in 8-bit-mantissa dtypes"""
    g = torch.Generator().manual_seed(seed)
    ax = torch.randn(n, 3, generator=g, dtype=torch.float64)
    ax = ax / ax.norm(dim=-1, keepdim=True)
    ang = 0.5 + 2.0 * torch.rand(n, 1, generator=g, dtype=torch.float64)
    q = torch.cat([ax * torch.sin(ang / 2), torch.cos(ang / 2)], -1)
    q[1::2] = -q[1::2]
    t = 2 * (torch.rand(n, 3, generator=g, dtype=torch.float64) - 0.5) * 2
    sc = torch.exp(torch.rand(n, 1, generator=g, dtype=torch.float64) - 0.5)
    X = {"SO3": q, "SE3": torch.cat([t, q], -1), "RxSO3": torch.cat([q, sc], -1), "Sim3": torch.cat([t, q, sc], -1)}[name]
    phi = torch.randn(n, 3, generator=g, dtype=torch.float64)
    phi = phi / phi.norm(dim=-1, keepdim=True) * (0.3 + 1.2 * torch.rand(n, 1, generator=g, dtype=torch.float64))
    tau = 2 * (torch.rand(n, 3, generator=g, dtype=torch.float64) - 0.5)
    sg = torch.rand(n, 1, generator=g, dtype=torch.float64) - 0.5
    a = {"SO3": phi, "SE3": torch.cat([tau, phi], -1), "RxSO3": torch.cat([phi, sg], -1), "Sim3": torch.cat([tau, phi, sg], -1)}[name]
    return X, a


def run_dtypes(ctx: Ctx):
    """float16 / bfloat16 (all operations) and complex64 with zero imaginary part (where the unchanged code accepts it): the result must have
    the operand dtype, the documented ltype and shape, and the VALUE of the float64 call on the same (exactly converted) operands within
    the dtype's tolerance; algebra `+` with `other` of every torch dtype follows torch's type promotion exactly.  Deterministic."""
    P = U.pp()
    n = 6
    for name in U.GROUPS:
        algT = getattr(P, U.ALG[name] + "_type")
        X64, a64 = moderate_operands(name, n, 9100)
        ops = {"Adj": (lambda X, aL: X.Adj(aL), K_ALG, False), "AdjT": (lambda X, aL: X.AdjT(aL.tensor()), K_ALG, False),
               "Jinvp": (lambda X, aL: X.Jinvp(aL), None, False), "Retr": (lambda X, aL: X.Retr(aL), K_ALG, True),
               "X+a": (lambda X, aL: X + aL.tensor(), K_ALG, True), "X.add(a,alpha=-0.5)": (lambda X, aL: X.add(aL.tensor(), alpha=-0.5), K_ALG, True),
               "add_": (lambda X, aL: X.clone().add_(aL.tensor()), K_ALG, True), "aL+a": (lambda X, aL: aL + aL.tensor().flip(0), K_ALG, False)}
        if name == "SO3":
            ops["X.Jr()"] = (lambda X, aL: X.Jr(), None, False)
            ops["aL.Jr()"] = (lambda X, aL: aL.Jr(), None, False)
        for dn, (dt, e) in NARROW.items():
            Xd, ad = X64.to(dt), a64.to(dt)
            Xr = (Xd.real if dt.is_complex else Xd).to(torch.float64)
            ar = (ad.real if dt.is_complex else ad).to(torch.float64)
            for lab, (f, kk, grp) in ops.items():
                case = {"stream": "dtypes", "type": name, "dtype": dn, "op": lab, "X": Xr.tolist(), "a": ar.tolist()}
                ctx.note_case(("dtypes", name, dn, lab), True)
                ctx.count(f"dtypes.{dn}")
                ref = f(P.LieTensor(Xr.clone(), ltype=U.ltype(name)), P.LieTensor(ar.clone(), ltype=algT))
                try:
                    z = f(P.LieTensor(Xd.clone(), ltype=U.ltype(name)), P.LieTensor(ad.clone(), ltype=algT))
                except Exception as ex:
                    if dt.is_complex:
                        ctx.count(f"dtypes.observation.complex64-raises.{lab}")      # clean tree: Jinvp / Jr use torch.sign
                    elif name == "Sim3" and lab == "Jinvp":
                        ctx.count(f"dtypes.observation.{dn}-raises.Sim3.Jinvp")      # clean tree: Sim3_Log calls torch.linalg.inv (no half kernels)
                    else:
                        ctx.fail(case, f"dtype: {lab} on {name} operands of dtype {dn} raised {type(ex).__name__}: {str(ex)[:120]}")
                    continue
                zt, rt = _val(z), _val(ref)
                if zt.dtype != dt or zt.shape != rt.shape or getattr(z, "ltype", None) != getattr(ref, "ltype", None):
                    ctx.fail(case, f"dtype: {lab} on {name} operands of dtype {dn} returned dtype {zt.dtype}, shape {tuple(zt.shape)}, "
                                   f"ltype {getattr(z, 'ltype', None)} (expected {dt}, {tuple(rt.shape)}, {getattr(ref, 'ltype', None)})")
                    continue
                if dt.is_complex:
                    if float(zt.imag.abs().max()) != 0.0:
                        ctx.fail(case, f"dtype: {lab} on real-valued complex64 {name} operands returned a non-zero imaginary part")
                        continue
                    zt = zt.real
                zt = zt.to(torch.float64)
                tol = 16 * e      # moderate operands: the observed error on the unchanged code is <= 1.5 eps of the dtype
                zf, rf = zt.reshape(n, -1), rt.reshape(n, -1)
                for i in range(n):
                    if grp:        # group-valued: quaternion block to its own scale, translation / scale block to theirs
                        bl = [sl for sl in (U.QSL[name], U.TSL[name], U.SIDX[name]) if sl is not None]
                    elif lab in ("X.Jr()", "aL.Jr()"):
                        bl = [slice(0, 9)]
                    else:
                        bl = [sl for sl in (U.PHISL[name], U.TAUSL[name], U.SIGIDX[name]) if sl is not None]
                    for sl in bl:
                        sl = slice(sl, sl + 1) if isinstance(sl, int) else sl
                        d = float((zf[i][sl] - rf[i][sl]).abs().max())
                        sc_ = max(float(rf[i].abs().max()), 1.0)
                        if d == d and d != math.inf:
                            ctx.hist[f"dtypes.maxratio.{dn}"] = max(ctx.hist.get(f"dtypes.maxratio.{dn}", 0), round(d / (tol * sc_), 3))
                        if not d <= tol * sc_:
                            ctx.fail(case | {"item": i}, f"dtype: {lab} on {name} in {dn}: item {i} differs from the float64 value on the same operands by "
                                                         f"{d:.3e} > {tol * sc_:.3e}")
                            break
                    else:
                        continue
                    break
        # algebra + with `other` of every dtype: torch's promotion, exactly
        for xd in (torch.float64, torch.float32, torch.float16):
            x = P.LieTensor(a64.to(xd), ltype=algT)
            for od in (torch.float64, torch.float32, torch.float16, torch.bfloat16, torch.int64, torch.int32, torch.int16, torch.int8, torch.uint8, torch.bool):
                o = (a64.flip(0) * 3).to(od)
                # the documented semantics: `x + alpha·other` evaluated by torch (its promotion), stored in x's dtype (add = clone + add_)
                for lab, f, g2 in (("aL+o", lambda x, o: x + o, lambda xt, o: (xt + o).to(xt.dtype)),
                                   ("aL.add(o,alpha=2)", lambda x, o: x.add(o, alpha=2), lambda xt, o: (xt + 2 * o).to(xt.dtype)),
                                   ("aL.add_(o)", lambda x, o: x.clone().add_(o), lambda xt, o: (xt + o).to(xt.dtype))):
                    case = {"stream": "dtypes", "type": name, "dtype": str(xd)[6:], "other_dtype": str(od)[6:], "op": lab}
                    ctx.note_case(("dtypes-alg", name, str(xd), str(od), lab), True)
                    ctx.count("dtypes.algebra-promotion")
                    try:
                        want = g2(x.tensor().clone(), o)
                    except Exception:
                        continue
                    try:
                        z = f(x, o)
                    except Exception as ex:
                        ctx.fail(case, f"dtype: algebra {lab} ({name}, {xd}) with other of dtype {od} raised {type(ex).__name__}: {str(ex)[:100]}")
                        continue
                    zt = _val(z)
                    if zt.dtype != want.dtype or not torch.equal(zt, want) or getattr(z, "ltype", None) != algT:
                        ctx.fail(case, f"dtype: algebra {lab} ({name}, {xd}) with other of dtype {od} returned dtype {zt.dtype} / other values than "
                                       f"`x + alpha*other` in x's dtype ({want.dtype})")


# ----------------------------------------------------------------------------- class 36: hidden tolerances (allclose / isclose / clamp(min=eps) heuristics)

def band_rows(name, dtype):
    """operands in the band BETWEEN round-off and the usual 'helpful' tolerances (atol 1e-8, rtol 1e-5, clamp(min=eps), 1e-6, 1e-12):
    nearly the identity in one block or in all blocks at once, nearly zero tangent blocks, nearly equal / nearly cancelling operands"""
    e = teps(dtype)
    lad = [1e-4, 1e-5, 1e-6, 3e-7, 1e-10, 1e-12] if dtype == "float64" else [1e-3, 1e-4, 1e-5, 3e-6]
    gr, ar = [], []
    for i, th in enumerate(lad):
        for tm, ls in ((0.0, 0.0), (th, th), (1.0, -th), (lad[-1 - i], lad[(i + 2) % len(lad)])):
            r = []
            if name in ("SE3", "Sim3"):
                r += [tm * c for c in DIRS[i % 4]]
            r += quat_of(th, AX[(i + 1) % 4], neg=(i % 2 == 1))
            if name in ("RxSO3", "Sim3"):
                r.append(math.exp(ls))
            gr.append((r, f"band th={th:g},t={tm:g},ls={ls:g}"))
    for i, th in enumerate(lad):
        for tm, sg in ((0.0, 0.0), (th, -th), (1.0, th), (lad[-1 - i], 0.3)):
            r = []
            if name in ("SE3", "Sim3"):
                r += [tm * c for c in DIRS[(i + 1) % 4]]
            r += [th * c for c in AX[i % 4]]
            if name in ("RxSO3", "Sim3"):
                r.append(sg)
            ar.append((r, f"band th={th:g},tau={tm:g},sg={sg:g}"))
    ar.append((corner_alg_rows(name, dtype)[5][0], "ordinary"))
    gr.append((corner_group_rows(name, dtype)[7][0], "ordinary"))
    return gr, ar


def run_band(ctx: Ctx):
    """band rows through the whole corpus machinery (192-bit model, single-item calls, laws, 50-digit adjoint oracle, mpmath Jinvp oracle)"""
    pend = []
    for name in U.GROUPS:
        for dtype in (("float64",) if ctx.quick else ("float64", "float32")):
            gr, ar = band_rows(name, dtype)
            if ctx.quick:
                gr, ar = (gr[::3] + gr[-1:], ar[1::3] + ar[-1:]) if dtype == "float64" else (gr[1::5] + gr[-1:], ar[::5] + ar[-1:])
            corpus_block(ctx, pend, name, dtype, gr, ar, tag="band", grads=(None,))
    flush(ctx, pend)


def run_covariance(ctx: Ctx):
    """exact scale covariance with powers of two (no rounding is involved, so the comparison is bit for bit):
    (a) Adj, AdjT, Jinvp and algebra + are linear in the tangent operand: f(X, 2^k a) == 2^k f(X, a);
    (b) SE3 / Sim3: scaling the translation of X and the tau block of a by 2^k scales the tau (or translation) block of the result by 2^k and
        leaves the other blocks unchanged (Adj, AdjT, Jinvp, Retr, +).
    Any absolute tolerance (`allclose(a, 0)`, `clamp(min=eps)`, `isclose`) inside the code breaks one of the k.  Deterministic."""
    P = U.pp()
    for name in U.GROUPS:
        algT = getattr(P, U.ALG[name] + "_type")
        for dtype in ("float64", "float32"):
            D = U.dt(dtype)
            n = 48
            Xt, at = big_operands(name, (n,), (n,), D, 8800)
            Xm, am = moderate_operands(name, 16, 8801)
            gr, ar = band_rows(name, dtype)
            m = min(len(gr), len(ar))
            Xb = U.to_dtype_exact([r[0] for r in gr[:m]], dtype)[1].to(D)
            ab = U.to_dtype_exact([r[0] for r in ar[:m]], dtype)[1].to(D)
            Xt, at = torch.cat([Xt, Xm.to(D), Xb], 0), torch.cat([at, am.to(D), ab], 0)
            mkX = lambda T_: P.LieTensor(T_.clone(), ltype=U.ltype(name))
            mka = lambda T_: P.LieTensor(T_.clone(), ltype=algT)
            lin = {"Adj": lambda X, a: X.Adj(a).tensor(), "AdjT": lambda X, a: X.AdjT(a).tensor(), "Jinvp": lambda X, a: X.Jinvp(a).tensor(),
                   "aL+a": lambda X, a: (a + a.tensor().flip(0)).tensor(), "X.Adj(plain a)": lambda X, a: X.Adj(a.tensor()).tensor()}
            tr = dict(lin, **{"Retr": lambda X, a: X.Retr(a).tensor(), "X+a": lambda X, a: (X + a.tensor()).tensor(),
                              "X.add(a,alpha=-0.5)": lambda X, a: X.add(a.tensor(), alpha=-0.5).tensor()})
            tr.pop("aL+a")
            ks = (-60, -30, -10, 10, 30, 60) if dtype == "float64" else (-30, -10, 10, 30)
            for k in ks:
                c = 2.0 ** k
                for lab, f in lin.items():
                    case = {"stream": "covariance", "type": name, "dtype": dtype, "op": lab, "k": k, "kind": "linear in a"}
                    ctx.note_case(("cov", name, dtype, lab, k, "lin"), True)
                    ctx.count("covariance.linear")
                    try:
                        z1, z2 = f(mkX(Xt), mka(at * c)), f(mkX(Xt), mka(at)) * c
                    except Exception as ex:
                        ctx.fail(case, f"raises: {lab} with the tangent operand scaled by 2^{k} raised {type(ex).__name__}: {str(ex)[:120]} ({name}, {dtype})")
                        continue
                    if nonfinite_fail(ctx, case, z1, f"{lab} with a scaled by 2^{k}", Xe=Xt, ae=at * c) or nonfinite_fail(ctx, case, z2, lab, Xe=Xt, ae=at):
                        continue
                    bad = (z1 != z2).any(-1).nonzero().flatten()
                    if len(bad):
                        i = int(bad[0])
                        ctx.fail(case | {"item": i, "X": Xt[i].double().tolist(), "a": at[i].double().tolist()},
                                 f"covariance: {lab}(X, 2^{k}·a) != 2^{k}·{lab}(X, a) at item {i} ({name}, {dtype}): {z1[i].double().tolist()} vs "
                                 f"{z2[i].double().tolist()} — the operation is linear in a, powers of two commute with rounding")
                if U.TSL[name] is None:
                    continue
                Xs, as_ = Xt.clone(), at.clone()
                Xs[:, U.TSL[name]] *= c
                as_[:, U.TAUSL[name]] *= c
                for lab, f in tr.items():
                    grp = lab in ("Retr", "X+a", "X.add(a,alpha=-0.5)")
                    case = {"stream": "covariance", "type": name, "dtype": dtype, "op": lab, "k": k, "kind": "translation scale"}
                    ctx.note_case(("cov", name, dtype, lab, k, "tr"), True)
                    ctx.count("covariance.translation")
                    try:
                        z1, z2 = f(mkX(Xs), mka(as_)), f(mkX(Xt), mka(at)).clone()
                    except Exception as ex:
                        ctx.fail(case, f"raises: {lab} with translations scaled by 2^{k} raised {type(ex).__name__}: {str(ex)[:120]} ({name}, {dtype})")
                        continue
                    z2[:, U.TSL[name] if grp else U.TAUSL[name]] *= c
                    if nonfinite_fail(ctx, case, z1, f"{lab} with translations scaled by 2^{k}", Xe=Xs, ae=as_) or nonfinite_fail(ctx, case, z2, lab, Xe=Xt, ae=at):
                        continue
                    bad = (z1 != z2).any(-1).nonzero().flatten()
                    if len(bad):
                        i = int(bad[0])
                        ctx.fail(case | {"item": i, "X": Xt[i].double().tolist(), "a": at[i].double().tolist()},
                                 f"covariance: {lab} with the translation of X and the tau block of a scaled by 2^{k} is not the result with its "
                                 f"translation block scaled by 2^{k} at item {i} ({name}, {dtype}): {z1[i].double().tolist()} vs {z2[i].double().tolist()}")


# ----------------------------------------------------------------------------- classes 39 / 41: layout x regime-minority x size

LAYOUT_SHAPES = [(6, 4), (9, 5), (2, 3, 4), (4, 4, 4)]


def permuted_layout(T_, lshape, fortran=False):
    """the rows of T_ (n, d) as a tensor of shape lshape + (d,) whose BATCH strides are permuted: the storage is laid out in the reversed
    batch-dimension order and viewed back (fortran=True: the component dimension is reversed too, so it has the largest stride)"""
    k = len(lshape)
    A = T_.reshape(tuple(lshape) + (T_.shape[-1],))
    perm = list(reversed(range(k + 1))) if fortran else list(reversed(range(k))) + [k]
    inv = [perm.index(i) for i in range(k + 1)]
    return A.permute(perm).contiguous().permute(inv)


def degenerate_rows(name, X, a, block, ix, ia):
    """rows `ix` of X / `ia` of a made EXACTLY degenerate in one block (rotation / scale / translation / all)"""
    X, a = X.clone(), a.clone()
    q, t, s = U.QSL[name], U.TSL[name], U.SIDX[name]
    ph, ta, sg = U.PHISL[name], U.TAUSL[name], U.SIGIDX[name]
    one_q = torch.tensor([0.0, 0.0, 0.0, 1.0], dtype=X.dtype)
    for j, i in enumerate(ix):
        if block in ("rotation", "all"):
            X[i, q] = one_q if j % 2 == 0 else -one_q
        if block in ("scale", "all") and s is not None:
            X[i, s] = 1.0
        if block in ("translation", "all") and t is not None:
            X[i, t] = 0.0
    for i in ia:
        if block in ("rotation", "all"):
            a[i, ph] = 0.0
        if block in ("scale", "all") and sg is not None:
            a[i, sg] = 0.0
        if block in ("translation", "all") and ta is not None:
            a[i, ta] = 0.0
    return X, a


def blocks_close(name, z1, z2, grp, dtype, k=16.0):
    """per-block comparison of two result rows (group-valued: quaternion / translation / scale; algebra-valued: phi / tau / sigma); NaN fails"""
    e, fl = teps(dtype), SCALE_FLOOR[dtype]
    if z1.shape != z2.shape:
        return False
    if z1.dim() > 1 or z1.shape[-1] == 9:       # Jr: one block
        d = float((z1.double() - z2.double()).abs().max())
        return d <= k * e * max(float(z2.double().abs().max()), 1.0)
    sls = (U.QSL[name], U.TSL[name], U.SIDX[name]) if grp else (U.PHISL[name], U.TAUSL[name], U.SIGIDX[name])
    for sl in sls:
        if sl is None:
            continue
        sl = slice(sl, sl + 1) if isinstance(sl, int) else sl
        d = float((z1[sl].double() - z2[sl].double()).abs().max())
        if not (d <= k * e * max(float(z2[sl].double().abs().max()), fl)):
            return False
    return True


def layout_case(ctx, pend, name, dtype, lshape, block, frac, ci):
    """one batch with permuted batch strides in which one / a few (<= 1/8) / most items are exactly degenerate in `block` (group operand and
    tangent operand at different items): every entry point; (i) degenerate items and a sample of generic ones against the call on that item
    ALONE (contiguous clone), (ii) every item against the same batched call on contiguous copies, (iii) degenerate items against the
    192-bit model, turned into a failure of the property's own clause through the exact oracles when the model disagrees"""
    P = U.pp()
    D, e = U.dt(dtype), teps(dtype)
    G, A = U.GDIM[name], U.ADIM[name]
    n = int(math.prod(lshape))
    X0, a0 = moderate_operands(name, n, 9900 + ci)
    kdeg = {"one": 1, "few": max(1, n // 8), "most": n - max(1, n // 8)}[frac]
    ix = sorted({(7 * j + 3) % n for j in range(4 * n)}, key=lambda v: (7 * v + 5) % n)[:kdeg]
    ia = sorted({(5 * j + 1) % n for j in range(4 * n)}, key=lambda v: (11 * v + 2) % n)[:kdeg]
    X0, a0 = degenerate_rows(name, X0, a0, block, ix, ia)
    X0, a0 = X0.to(D), a0.to(D)
    Xp, ap = permuted_layout(X0, lshape, fortran=(ci % 3 == 2)), permuted_layout(a0, lshape, fortran=(ci % 3 == 1))
    Xc, ac = X0.reshape(tuple(lshape) + (G,)).clone(), a0.reshape(tuple(lshape) + (A,)).clone()
    base = {"stream": "layout", "type": name, "dtype": dtype, "lshape": list(lshape), "block": block, "fraction": frac, "degenerate_X_items": sorted(ix),
            "degenerate_a_items": sorted(ia), "data_seed": 9900 + ci, "strides_X": list(Xp.stride()), "strides_a": list(ap.stride())}
    special = sorted(set(ix) | set(ia))
    generic = [i for i in range(n) if i not in special]
    cap = 4 if ctx.quick else 10
    few_sp = special if len(special) <= cap else special[:cap // 2] + special[-(cap // 2):]
    few_ge = generic if len(generic) <= 3 else ([generic[0], generic[-1]] + [i for i in generic if (i - 1) in special or (i + 1) in special][:1] if ctx.quick else
                                               [generic[0], generic[1], generic[len(generic) // 2], generic[-2], generic[-1]] +
                                               [i for i in generic if (i - 1) in special or (i + 1) in special][:3])
    alone = sorted(set(few_sp) | set(few_ge))
    for op in LARGE_OPS:
        if op in ("Jr", "jr") and name != "SO3":
            continue
        case = base | {"op": op}
        ctx.note_case(("layout", name, dtype, tuple(lshape), block, frac, op), True)
        ctx.count(f"layout.{frac}.{block}")
        grp = op in ("Retr", "add", "add_")
        try:
            Z = large_call(P, name, op, Xp, ap)
            if nonfinite_fail(ctx, case, Z, f"{op} on permuted-stride operands", Xe=X0, ae=a0):
                continue
            if op == "algadd":
                want = ac + ac.flip(0)
                if not torch.equal(Z, want):
                    ctx.fail(case, f"layout: algebra + on lshape {lshape} operands with permuted batch strides is not vector addition ({name}, {dtype})")
                continue
            Zc = large_call(P, name, op, Xc, ac)
            k = Z.shape[len(lshape):]
            Zf, Zcf = Z.reshape((n,) + tuple(k)), Zc.reshape((n,) + tuple(k))
            for i in range(n):
                if not blocks_close(name, Zf[i], Zcf[i], grp, dtype):
                    ctx.fail(case | {"item": {"index": i, "X": X0[i].double().tolist(), "a": a0[i].double().tolist()}},
                             f"layout: {op} on an lshape {lshape} batch with PERMUTED batch strides ({frac} item(s) exactly degenerate in the {block} block: X items "
                             f"{sorted(ix)[:6]}, a items {sorted(ia)[:6]}) differs at item {i} from the same call on contiguous copies by "
                             f"{float((Zf[i].double() - Zcf[i].double()).abs().max()):.3e} ({name}, {dtype}); got {Zf[i].double().tolist()}, contiguous {Zcf[i].double().tolist()}")
                    break
            else:
                for i in alone:
                    zi = large_call(P, name, op, X0[i:i + 1].clone(), a0[i:i + 1].clone())
                    zi = zi.reshape(tuple(k))
                    if not blocks_close(name, Zf[i], zi, grp, dtype):
                        ctx.fail(case | {"item": {"index": i, "X": X0[i].double().tolist(), "a": a0[i].double().tolist()}},
                                 f"layout: item {i} of {op} on an lshape {lshape} batch with permuted batch strides ({frac} degenerate in {block}) differs from the "
                                 f"same call on that item alone by {float((Zf[i].double() - zi.double()).abs().max()):.3e} ({name}, {dtype})")
                        break
            if op in ("Jr", "jr"):
                continue
            Zl = Zf.double()
            for i in (few_sp[:2] + few_ge[:1]):
                x, av, got = X0[i].double().tolist(), a0[i].double().tolist(), Zl[i].tolist()
                c2 = case | {"item": {"index": i, "X": x, "a": av}}
                if op in ("Adj", "AdjT"):
                    fn = adj_errfn(name, dtype, x, av, op == "AdjT", got)
                    line = mlines(f"{name}.{op}", e, x + av, False)
                elif op in ("Retr", "add"):
                    fn = retr_errfn(name, dtype, x, av, got)
                    line = mlines(f"{name}.Retr", e, x + av, flag_alg(name, av, e))
                elif op == "add_":
                    fn = retr_errfn(name, dtype, x, [-0.5 * v for v in av], got)
                    line = [f"{name}.add " + common.wire_list([e, -0.5] + x + av)]
                else:
                    xi = P.LieTensor(X0[i:i + 1].clone(), ltype=U.ltype(name)).Log().tensor().double()[0].tolist()
                    fn = jinvp_errfn(name, dtype, xi, av, got)
                    line = mlines(f"{name}.Jinvp", e, x + av, flag_grp(name, x, e))

                def chk(cands, fn=fn, c2=c2, i=i, op=op, got=got):
                    r, errs = best(cands, fn)
                    if bad_blocks(errs):
                        ctx.disagree("layout", c2, f"{op} {name} {dtype}: item {i} of a permuted-stride lshape {lshape} batch: block errors {bad_blocks(errs)}")
                        # the property's own clause on the raw components of that item, with the batched value
                        if op == "Jinvp":
                            jinvp_oracle_case(ctx, {"stream": "jinvp", "type": name, "dtype": dtype, "X": c2["item"]["X"], "p": c2["item"]["a"], "fd": False,
                                                    "batched_from": base}, got=got)
                        elif op in ("Adj", "AdjT"):
                            adj_oracle_case(ctx, {"stream": "adj", "type": name, "dtype": dtype, "op": op, "X": c2["item"]["X"], "a": c2["item"]["a"],
                                                  "batched_from": base}, got=got)
                        else:
                            ctx.fail(c2, f"layout: item {i} of {op} on a permuted-stride lshape {lshape} batch is not Exp(alpha·a)@X of the 192-bit model: {bad_blocks(errs)} "
                                         f"({name}, {dtype}); X={c2['item']['X']}, a={c2['item']['a']}, got {got}")
                pend.append(Pending(line, chk))
        except Exception as ex:
            ctx.fail(case, f"raises: {op} on an lshape {lshape} batch with permuted batch strides raised {type(ex).__name__}: {str(ex)[:160]} ({name}, {dtype})")


def run_layout(ctx: Ctx):
    """classes 39 / 41.  Deterministic.  Every (block, fraction) combination on every group; the lshapes rotate through the combinations
    (thorough: every lshape for every combination, both dtypes)."""
    pend = []
    ci = 0
    for name in U.GROUPS:
        blocks = ["rotation", "all"] + (["scale"] if U.SIDX[name] is not None else []) + (["translation"] if U.TSL[name] is not None else [])
        for bi, block in enumerate(blocks):
            for fi, frac in enumerate(("few", "one", "most")):
                shapes = LAYOUT_SHAPES if not ctx.quick else [LAYOUT_SHAPES[(bi + fi + ci) % 4]]
                for lshape in shapes:
                    for dtype in (("float64", "float32") if (not ctx.quick or (frac == "few" and lshape == shapes[0])) else ("float64",)):
                        ci += 1
                        layout_case(ctx, pend, name, dtype, lshape, block, frac, ci)
        flush(ctx, pend)
        pend = []


# ----------------------------------------------------------------------------- entry points

def run(ctx: Ctx):
    from . import util_lie as _UL
    def _reads(name):
        import torch as _t
        def vec(o):
            d = _UL.ADIM[name]
            return _t.linspace(-0.7, 0.9, d, dtype=o.dtype).expand(o.shape[:-1] + (d,)).clone()
        r = {"Adj": lambda o: o.Adj(vec(o)), "AdjT": lambda o: o.AdjT(vec(o)), "Jinvp": lambda o: o.Jinvp(vec(o)),
             "Retr": lambda o: o.Retr(_UL.pp().LieTensor(vec(o), ltype=getattr(_UL.pp(), _UL.ALG[name] + "_type"))),
             "add": lambda o: o + vec(o)}
        if name == "SO3":
            r["Jr"] = lambda o: o.Jr()
        return r
    torch.set_num_threads(1)     # single intra-op thread: several threads are ~30x slower on small ops when the box is busy
    poison_probe(ctx)
    if ctx.failures:      # process-wide state is corrupted: every later comparison in this process would be against poisoned constants
        ctx.count("poison.stopped-after-poison")
        return
    mode_order_probe(ctx)
    _UL.persistent_probe(ctx, _reads)
    history_probe(ctx)
    run_views(ctx)
    run_modes(ctx)
    run_large(ctx)
    run_corpus(ctx)
    run_dispatch(ctx, ctx.pick(120, 2000))
    run_algshort(ctx)
    run_layout(ctx)
    run_dtypes(ctx)
    run_covariance(ctx)
    run_band(ctx)
    run_ops(ctx, ctx.pick(300, 7000))
    run_laws(ctx, ctx.pick(70, 5000))
    run_jinvp_oracle(ctx, ctx.pick(55, 2500))
    run_jr_oracle(ctx, ctx.pick(45, 2000))


def search(ctx: Ctx):
    """hunt for a concrete failing input on the real code after a proof / correspondence break"""
    # disagreeing ops cases re-evaluated through the oracles where one applies
    if not ctx.failures:
        for d in list(ctx.disagreements)[:200]:
            c = d["case"]
            it = c.get("item") or {}
            if c.get("op") in ("Adj", "AdjT") and "X" in c and "a" in c and "index" in it:
                try:
                    T = tensors_of(c)
                    so = tuple(torch.broadcast_shapes(tuple(c["shape_X"]), tuple(c["shape_a"])))
                    G_, A_ = U.GDIM[c["type"]], U.ADIM[c["type"]]
                    Z = (T["X"].Adj(T["a"]) if c["op"] == "Adj" else T["X"].AdjT(T["a"])).tensor().double().reshape(-1, A_)
                    xi_ = T["X64"].expand(so + (G_,)).reshape(-1, G_)[it["index"]].tolist()
                    ai_ = T["a64"].expand(so + (A_,)).reshape(-1, A_)[it["index"]].tolist()
                    adj_oracle_case(ctx, {"stream": "adj", "type": c["type"], "dtype": c["dtype"], "op": c["op"], "X": xi_, "a": ai_,
                                          "batched_from": {k2: c[k2] for k2 in ("shape_X", "shape_a")}}, got=Z[it["index"]].tolist())
                except Exception:
                    pass
            if c.get("op") in ("Adj", "AdjT", "Retr", "add") and "X" in c and "a" in c:
                A_ = U.ADIM[c["type"]]
                law_case(ctx, {"stream": "laws", "type": c["type"], "dtype": c["dtype"], "shape_X": c["shape_X"],
                               "shape_a": c["shape_a"], "X": c["X"], "a": [r[:A_] for r in c["a"]]})
            if c.get("op") == "Jinvp" and "X" in it:
                try:   # the item's value as produced by the batched call
                    T = tensors_of(c)
                    Z = T["X"].Jinvp(T["a"]).tensor().double().reshape(-1, U.ADIM[c["type"]])
                    got = Z[it["index"]].tolist()
                except Exception:
                    got = None
                jinvp_oracle_case(ctx, {"stream": "jinvp", "type": c["type"], "dtype": c["dtype"], "X": it["X"], "p": it["p"],
                                        "fd": got is None, "batched_from": {k2: c[k2] for k2 in ("shape_X", "shape_a", "X", "a")}}, got=got)
            if c.get("op") == "Jr" and c.get("api") == "SO3.Jr" and "X" in c:
                try:
                    T = tensors_of(c)
                    J = T["X"].Jr().double().reshape(-1, 9)
                    xs = T["X"].Log().tensor().double().reshape(-1, 3)
                    i = it.get("index", 0)
                    jr_oracle_case(ctx, {"stream": "jr", "type": "SO3", "dtype": c["dtype"], "x": xs[i].tolist(), "d": [1.0, 0.0, 0.0],
                                         "api": "SO3.Jr", "batched_from": {k2: c[k2] for k2 in ("shape_X", "X")}}, got=J[i].tolist())
                except Exception:
                    pass
            if c.get("op") == "Jr" and c.get("api") != "SO3.Jr" and "x" in c:
                try:
                    T = tensors_of(c)
                    J = (T["x"].Jr()).double().reshape(-1, 9)
                    i = it.get("index", 0)
                    jr_oracle_case(ctx, {"stream": "jr", "type": "SO3", "dtype": c["dtype"], "x": T["x64"].reshape(-1, 3)[i].tolist(),
                                         "d": [1.0, 0.0, 0.0], "batched_from": {k2: c[k2] for k2 in ("shape_X", "x")}}, got=J[i].tolist())
                except Exception:
                    pass
            if ctx.failures:
                break
    if not ctx.failures:
        run_laws(ctx, 1500)
    if not ctx.failures:
        run_jinvp_oracle(ctx, 500)
    if not ctx.failures:
        run_jr_oracle(ctx, 500)


def replay(ctx: Ctx, case) -> bool:
    c = case["case"]
    st = c.get("stream")
    n0 = len(ctx.failures)
    if st == "laws":
        ok = law_case(ctx, c)
    elif st == "jinvp":
        ok = jinvp_oracle_case(ctx, c)
    elif st == "jr":
        ok = jr_oracle_case(ctx, c)
    elif st == "adj":
        ok = adj_oracle_case(ctx, c)
    elif st in ("history", "views", "persistent", "modes", "large", "poison", "dtypes", "covariance", "layout"):   # deterministic streams: re-run the whole (seed independent) stream
        {"history": history_probe, "views": run_views, "modes": run_modes, "large": run_large, "poison": poison_probe, "dtypes": run_dtypes,
         "covariance": run_covariance, "layout": run_layout}.get(st, lambda cx: run(cx))(ctx)
        ok = len(ctx.failures) == n0
    else:
        pend = prepare(ctx, c)
        flush(ctx, pend)
        ok = len(ctx.failures) == n0 and not ctx.disagreements
    for f in ctx.failures[n0:] + ctx.known_hits:
        print("  fails:", f["what"])
    for d in ctx.disagreements[:5]:
        print("  model != implementation:", d["detail"][:300])
    return ok and not ctx.known_hits
