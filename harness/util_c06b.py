"""C06, hardening pass 2: argument combinations, atomic error paths, grad modes, duck-typed partners, copies,
memory ownership of results, interleaved types (module-level state).  All deterministic (no VERIF_SEED), every
oracle is the real code itself: the same call written another documented way, on a fresh object, or per item."""
from __future__ import annotations

import copy
import io
import pickle
import warnings

import torch

from . import common
from .util_batch import same_values
from .util_batch import ALGEBRA, DIM, DT, GROUPS, LTYPES, MANIFOLD, ltype_name, ltype_of, numel, pp


def C():
    from . import c06
    return c06


def _eq(a, b):
    a, b = C()._plain(a), C()._plain(b)
    return a.shape == b.shape and a.dtype == b.dtype and bool(same_values(a, b))


def _note(ctx, stream, *sig):
    ctx.note_case((stream,) + sig, True)
    ctx.count(f"{stream}")


# ============================================================================= (10) argument combinations

def stream_argcombo(ctx):
    P = pp()
    c06 = C()
    with warnings.catch_warnings():
        warnings.simplefilter("ignore")
        # --- add(other, alpha): positional / keyword / function / in-place, alpha in several regimes, mixed-regime batches
        for lt in LTYPES:
            alg = ALGEBRA.get(lt, lt)
            for dtype in ("float64", "float32"):
                _, CX = c06.regime_corpus(lt, dtype)
                _, CA = c06.regime_corpus(alg, dtype)
                n = min(CX.shape[0], CA.shape[0])
                for alpha in ((1, 2, -0.5, 0, 1e-9, -3) if not ctx.quick else (2, -0.5, 0, -3)):
                    case = {"kind": "argcombo", "what": "add-alpha", "lt": lt, "dtype": dtype, "alpha": alpha}
                    _note(ctx, "argcombo.add", lt, dtype, alpha)
                    X = c06._lie(CX[:n].clone(), lt)
                    a = CA[:n].clone()
                    try:
                        want = X.add(alpha * a)
                        forms = {"X.add(a, alpha)": X.add(a, alpha), "X.add(a, alpha=alpha)": X.add(a, alpha=alpha),
                                 "pp.add(X, a, alpha)": P.add(X, a, alpha), "pp.add(X, other=a, alpha=alpha)": P.add(X, other=a, alpha=alpha),
                                 "X.add(other=a, alpha=alpha)": X.add(other=a, alpha=alpha),
                                 "X.clone().add_(a, alpha)": X.clone().add_(a, alpha),
                                 "pp.add_(X.clone(), a, alpha=alpha)": P.add_(X.clone(), a, alpha=alpha)}
                    except Exception as e:
                        ctx.fail(case, f"raises: {lt}.add with alpha={alpha} raises {type(e).__name__}: {str(e)[:80]}")
                        continue
                    for nm, got in forms.items():
                        if not isinstance(got, P.LieTensor) or got.ltype is not X.ltype or not _eq(got, want):
                            ctx.fail(case | {"form": nm}, f"argcombo: {lt} `{nm}` with alpha={alpha} differs from X.add(alpha*a) ({dtype})")
                    if not torch.equal(X.tensor(), CX[:n]) or not torch.equal(a, CA[:n]):
                        ctx.fail(case, f"mutation: {lt}.add(alpha={alpha}) changed an argument")
                    # batched = item by item, with the keyword
                    if alpha in (2, -0.5):
                        for k in range(0, n, 2 if ctx.quick else 1):
                            s1 = c06._lie(CX[k].clone(), lt).add(CA[k].clone(), alpha=alpha)
                            if not c06._close(want.tensor()[k], s1.tensor(), dtype):
                                ctx.fail(case | {"item": k}, f"itemwise: {lt}.add(alpha={alpha}) on a mixed batch: item {k} differs from the call on that item alone")
                                break
        # --- euler(eps) / quat2unit(eps): non-default thresholds, positional and keyword, on mixed-regime batches
        for lt in LTYPES:
            for dtype in ("float64", "float32"):
                names, CX = c06.regime_corpus(lt, dtype)
                X = c06._lie(CX.clone(), lt)
                for eps in ((2e-4, 1e-2, 0.3, 0.0, 1e-7, -1e-3) if not ctx.quick else (2e-4, 1e-2, 0.0, -1e-3)):
                    case = {"kind": "argcombo", "what": "euler-eps", "lt": lt, "dtype": dtype, "eps": eps}
                    _note(ctx, "argcombo.euler", lt, dtype, eps)
                    try:
                        r1, r2, r3 = X.euler(eps), X.euler(eps=eps), P.euler(X, eps=eps)
                        if eps == 2e-4 and not _eq(r1, X.euler()):
                            ctx.fail(case, f"argcombo: {lt}.euler(2e-4) differs from euler() with the documented default")
                        if not (_eq(r1, r2) and _eq(r1, r3)):
                            ctx.fail(case, f"argcombo: {lt}.euler: positional eps, keyword eps and pp.euler(eps=) disagree (eps={eps})")
                        for k in range(0, CX.shape[0], 1 if (not ctx.quick or eps == 1e-2) else 3):      # quick: all items for one non-default eps, every third otherwise
                            s1 = c06._lie(CX[k].clone(), lt).euler(eps=eps)
                            if not c06._close(r1[k], s1, dtype):
                                ctx.fail(case | {"item": k}, f"itemwise: {lt}.euler(eps={eps}) on a mixed batch: item {k} (`{names[k]}`) is {r1[k].tolist()} "
                                                             f"but alone {s1.tolist()}")
                                break
                    except Exception as e:
                        ctx.fail(case, f"raises: {lt}.euler(eps={eps}) raises {type(e).__name__}: {str(e)[:80]}")
                if lt in GROUPS:
                    q = CX.clone()
                    sl = c06.QUAT[lt]
                    scale = torch.tensor([1.0, 1e-3, 7.0, 1e-8, 0.25] * (q.shape[0] // 5 + 1), dtype=DT[dtype])[:q.shape[0]]
                    q[:, sl] = q[:, sl] * scale[:, None]          # non-unit quaternions of very different norms in one batch
                    Xq = c06._lie(q, lt)
                    for eps in (1e-12, 1e-9, 1e-10):
                        case = {"kind": "argcombo", "what": "quat2unit-eps", "lt": lt, "dtype": dtype, "eps": eps}
                        _note(ctx, "argcombo.quat2unit", lt, dtype, eps)
                        try:
                            r1, r2 = P.quat2unit(Xq, eps), P.quat2unit(Xq, eps=eps)
                            if not _eq(r1, r2) or r1.ltype is not Xq.ltype:
                                ctx.fail(case, f"argcombo: quat2unit positional vs keyword eps disagree ({lt}, eps={eps})")
                            for k in range(q.shape[0]):
                                s1 = P.quat2unit(c06._lie(q[k].clone(), lt), eps=eps)
                                if not c06._close(r1.tensor()[k], s1.tensor(), dtype):
                                    ctx.fail(case | {"item": k}, f"itemwise: quat2unit(eps={eps}) on a {lt} batch of mixed norms: item {k} differs from the call on that item alone")
                                    break
                            if not torch.equal(Xq.tensor(), q):
                                ctx.fail(case, "mutation: quat2unit changed its argument")
                        except Exception as e:
                            ctx.fail(case, f"raises: quat2unit(eps={eps}) on {lt} raises {type(e).__name__}: {str(e)[:80]}")
        # --- constructors: sigma forms x requires_grad x dtype x lshape, all documented combinations
        # sigma: positive, zero and negative values (the sign of a standard deviation is a convention, not a validity condition)
        sig = {"SO3": [1.0, 0.3, 0.0, -0.7], "so3": [1.0, 2, 0, -1.5], "SE3": [1.0, (0.5, 2.0), (0.1, 0.2, 0.3, 2.0)], "se3": [0.7, (0.5, 2.0), (0.1, 0.2, 0.3, 2.0)],
               "RxSO3": [1.0, (0.5, 0.1)], "rxso3": [1, (0.5, 0.1)], "Sim3": [1.0, (0.5, 1.0, 0.1), (0.1, 0.2, 0.3, 1.0, 0.2)],
               "sim3": [1.0, (0.5, 1.0, 0.1), (0.1, 0.2, 0.3, 1.0, 0.2)]}
        for lt in LTYPES:
            for si, sg in enumerate(sig[lt]):
                for li, ls in enumerate([(), (3,), (2, 0), (DIM[lt],), (2, 1, 3)] if not ctx.quick else [(), (DIM[lt],), (2, 0)]):
                    for rg in (False, True):
                        dtype = ["float64", "float32"][(si + li + rg) % 2]
                        case = {"kind": "argcombo", "what": "randn", "lt": lt, "sigma": list(sg) if isinstance(sg, tuple) else sg, "s": list(ls),
                                "requires_grad": rg, "dtype": dtype}
                        _note(ctx, "argcombo.randn", lt, si, ls, rg)
                        try:
                            outs = [getattr(P, "randn_" + lt)(*ls, sigma=sg, requires_grad=rg, dtype=DT[dtype]),
                                    getattr(P, "randn_" + lt)(ls, sigma=sg, dtype=DT[dtype], requires_grad=rg, device="cpu"),
                                    P.randn_like(c06._lie(torch.zeros(ls + (DIM[lt],), dtype=DT[dtype]), lt), sigma=sg, requires_grad=rg)]
                        except Exception as e:
                            ctx.fail(case, f"raises: randn_{lt}{ls} sigma={sg} requires_grad={rg} raises {type(e).__name__}: {str(e)[:80]}")
                            continue
                        for r in outs:
                            ok = (type(r) is P.LieTensor and r.ltype is ltype_of(lt) and tuple(r.shape) == ls + (DIM[lt],) and r.dtype == DT[dtype]
                                  and r.requires_grad == rg and r.is_leaf and bool(torch.isfinite(r.detach()).all()))
                            if ok and lt in GROUPS and numel(ls):
                                ok = bool(((r.detach().tensor()[..., c06.QUAT[lt]].norm(dim=-1) - 1).abs() < 1e-4).all())
                            if not ok:
                                ctx.fail(case, f"ctor: randn_{lt}{ls} with sigma={sg}, requires_grad={rg}, {dtype} returned {type(r).__name__} "
                                               f"{tuple(r.shape)} {r.dtype} requires_grad={r.requires_grad} leaf={r.is_leaf}")
                                break
            for rg in (False, True):
                for ls in [(), (3,), (DIM[lt], 2)]:
                    case = {"kind": "argcombo", "what": "identity", "lt": lt, "s": list(ls), "requires_grad": rg}
                    _note(ctx, "argcombo.identity", lt, ls, rg)
                    try:
                        r = getattr(P, "identity_" + lt)(*ls, requires_grad=rg, dtype=torch.float64, device="cpu")
                        r2 = P.identity_like(c06._lie(torch.zeros(ls + (DIM[lt],)), lt), requires_grad=rg, dtype=torch.float64)
                    except Exception as e:
                        ctx.fail(case, f"raises: identity_{lt}{ls} requires_grad={rg} raises {type(e).__name__}: {str(e)[:80]}")
                        continue
                    want = torch.tensor(c06.IDENTITY_ITEM[lt], dtype=torch.float64).expand(ls + (DIM[lt],))
                    for r_ in (r, r2):
                        if type(r_) is not P.LieTensor or r_.ltype is not ltype_of(lt) or r_.requires_grad != rg or not torch.equal(r_.detach().tensor(), want):
                            ctx.fail(case, f"ctor: identity_{lt}{ls} with requires_grad={rg}, dtype, device keywords returned requires_grad={r_.requires_grad} "
                                           f"shape {tuple(r_.shape)} {r_.dtype}")
        # --- func.jacrev: argnums x has_aux x chunk_size vs torch.func.jacrev on plain tensors
        for lt in GROUPS:
            pose = c06._lie(c06.POOLS.get(lt, "float64")[:2].clone(), lt)
            pts = c06.POOLS.get("p3", "float64")[:2].clone()
            for argnums in (0, 1, (0, 1), (1, 0)):
                for has_aux in (False, True):
                    for chunk in (None, 1, 2):
                        code = GROUPS.index(lt) + (argnums if isinstance(argnums, int) else 2 + argnums[0]) + has_aux + (chunk or 0)
                        if ctx.quick and ((lt != "SE3" and code % 6) or (lt == "SE3" and chunk == 2 and code % 2)):
                            continue            # quick: (almost) the full cross product for SE3, every sixth combination for the others
                        case = {"kind": "argcombo", "what": "jacrev", "lt": lt, "argnums": list(argnums) if isinstance(argnums, tuple) else argnums,
                                "has_aux": has_aux, "chunk_size": chunk}
                        _note(ctx, "argcombo.jacrev", lt, str(argnums), has_aux, chunk)
                        seen = []

                        def f(q, x):
                            seen.append(ltype_name(getattr(q, "ltype", None)))
                            out = q @ x
                            return (out, out.detach().sum()) if has_aux else out

                        def fplain(t, x):
                            out = c06._plain(P.LieTensor(t, ltype=ltype_of(lt)).Act(x))
                            return (out, out.detach().sum()) if has_aux else out
                        try:
                            got = P.func.jacrev(f, argnums, has_aux=has_aux, chunk_size=chunk)(pose, pts)
                            want = torch.func.jacrev(fplain, argnums, has_aux=has_aux, chunk_size=chunk)(pose.tensor(), pts)
                        except Exception as e:
                            ctx.fail(case, f"raises: pp.func.jacrev(argnums={argnums}, has_aux={has_aux}, chunk_size={chunk}) on {lt} raises "
                                           f"{type(e).__name__}: {str(e)[:80]}")
                            continue
                        ga, wa = c06._flatten_result(got), c06._flatten_result(want)
                        if len(ga) != len(wa) or any(a.shape != b.shape or not bool(torch.isfinite(c06._plain(a)).all()) or not bool(((c06._plain(a) - b).abs() <= 1e-9 * (1 + b.abs().max())).all())
                                                     for a, b in zip(ga, wa)):
                            ctx.fail(case, f"argcombo: pp.func.jacrev(argnums={argnums}, has_aux={has_aux}, chunk_size={chunk}) on the {lt} action differs "
                                           f"from torch.func.jacrev on the plain tensors")
                        if seen and seen[0] != lt:
                            ctx.fail(case, f"ltype: inside pp.func.jacrev(argnums={argnums}) the {lt} argument arrives with ltype {seen[0]}")
                        if not c06._slots_ok(c06.originals()):
                            ctx.fail(case, "retain: torch attributes not restored after pp.func.jacrev with these keywords")
                            c06._restore_slots(c06.originals())


# ============================================================================= (11) error paths are atomic

def stream_errors(ctx):
    """every failing call leaves every object bit for bit as it was; a retry / continuation behaves like a history
    without the failed call"""
    P = pp()
    c06 = C()
    orig = c06.originals()
    with warnings.catch_warnings():
        warnings.simplefilter("ignore")
        for lt in LTYPES:
            grp = lt in GROUPS
            alg = ALGEBRA.get(lt, lt)
            d, m = DIM[lt], MANIFOLD[lt]
            for dtype in ("float64", "float32"):
                base = c06.POOLS.get(lt, dtype)[:4].clone()
                abase = c06.POOLS.get(alg, dtype)[:4].clone()
                X = c06._lie(base.clone(), lt)
                bad_a = c06.POOLS.get(alg, dtype)[:3].clone()                      # lshape (3,) against (4,): not broadcastable
                narrow = abase[..., :max(m - 1, 1)].clone()                          # `other` narrower than the algebra
                other_dt = abase.to(torch.float32 if dtype == "float64" else torch.float64)
                calls = [("X.add_(not broadcastable)", lambda: X.add_(bad_a)), ("X + (not broadcastable)", lambda: X + bad_a),
                         ("X.add_(too narrow)", lambda: X.add_(narrow)),
                         ("X.copy_(wrong lshape)", lambda: X.copy_(c06._lie(base[:3].clone(), lt))),
                         ("X[5] = item (index out of range)", lambda: X.__setitem__(5, X[0].clone())),
                         ("X[0] = wrong width", lambda: X.__setitem__(0, torch.zeros(d + 1, dtype=DT[dtype]))),
                         ("X.index_copy_(0, bad index, …)", lambda: X.index_copy_(0, torch.tensor([9, 0]), X[:2].clone())),
                         ("X.view(wrong size)", lambda: X.view(5, d)), ("X.lview(5)", lambda: X.lview(5)),
                         ("X.index_select(0, out of range)", lambda: X.index_select(0, torch.tensor([0, 7]))),
                         ("torch.cat([X, other width])", lambda: torch.cat([X, torch.zeros(2, d + 1, dtype=DT[dtype])])),
                         ("LieTensor(wrong last dim)", lambda: P.LieTensor(X.tensor()[..., :d - 1], ltype=X.ltype)),
                         ("cumops with a raising callback", lambda: X.cumops(0, lambda a, b: (_ for _ in ()).throw(ValueError("callback")))),
                         ("cumops_ with a raising callback", lambda: X.clone().cumops_(0, lambda a, b: (_ for _ in ()).throw(ValueError("callback"))))]
                if grp:
                    calls += [("X @ (not broadcastable)", lambda: X @ c06._lie(base[:3].clone(), lt)), ("X.Act(wrong point width)", lambda: X.Act(torch.zeros(4, 5, dtype=DT[dtype]))),
                              ("X.Act(not broadcastable)", lambda: X.Act(torch.zeros(3, 3, dtype=DT[dtype]))),
                              ("X.Adj(not broadcastable)", lambda: X.Adj(bad_a)), ("X.Jinvp(not broadcastable)", lambda: X.Jinvp(bad_a)),
                              ("X.Retr(not broadcastable)", lambda: X.Retr(c06._lie(bad_a.clone(), alg))), ("X.Exp() on a group", lambda: X.Exp()),
                              ("quat2unit(zero quaternion in the batch)", lambda: P.quat2unit(c06._lie(torch.cat([base[:3], torch.zeros(1, d, dtype=DT[dtype])]), lt)))]
                    if lt != "SO3":
                        calls.append(("X.identity_() (not implemented)", lambda: X.identity_()))
                else:
                    calls += [("x.Log() on an algebra", lambda: X.Log()), ("x.Act(p) on an algebra", lambda: X.Act(torch.zeros(4, 3, dtype=DT[dtype])))]
                for label, call in calls:
                    case = {"kind": "errors", "lt": lt, "dtype": dtype, "call": label}
                    _note(ctx, "errors", lt, dtype, label)
                    snap = [t.clone() for t in (base, abase, bad_a, narrow)]
                    x_before = X.tensor().clone()
                    try:
                        call()
                        raised = False
                    except Exception:
                        raised = True
                    if not raised:
                        X = c06._lie(base.clone(), lt)          # legal for this type after all: start again from a fresh object
                        continue
                    if not same_values(X.tensor(), x_before):
                        ctx.fail(case, f"atomic: `{label}` on {lt} raised but left `X` changed ({dtype}) — a failing call must not modify its object")
                        X = c06._lie(base.clone(), lt)
                    for t, t0 in zip((base, abase, bad_a, narrow), snap):
                        if not torch.equal(t, t0):
                            ctx.fail(case, f"atomic: `{label}` on {lt} raised but changed another argument")
                            t.copy_(t0)
                    if not c06._slots_ok(orig):
                        ctx.fail(case, f"atomic: `{label}` left the torch attributes patched")
                        c06._restore_slots(orig)
                    # continuing after the caught exception == a history without the failed call
                    fresh = c06._lie(base.clone(), lt)
                    try:
                        r1 = (X.Log() if grp else X.Exp()), X.Inv(), X + abase
                        r2 = (fresh.Log() if grp else fresh.Exp()), fresh.Inv(), fresh + abase
                        if not all(_eq(a, b) and getattr(a, "ltype", None) is getattr(b, "ltype", None) for a, b in zip(r1, r2)):
                            ctx.fail(case, f"atomic: after the failed `{label}` the {lt} object behaves differently from a fresh one")
                    except Exception as e:
                        ctx.fail(case, f"atomic: after the failed `{label}` a valid call on the same {lt} object raises {type(e).__name__}: {str(e)[:80]}")
    # a failing call inside retain_ltype / jacrev was covered by `retain` / `reuse`; here: failure while *entering* a nested context
    snap = C().snapshot_globals()
    for nm in ("SO3", "se3"):
        try:
            getattr(P, "randn_" + nm)(2, sigma=(1, 2, 3, 4, 5, 6))           # bad sigma length: raises late
        except Exception:
            pass
        try:
            getattr(P, "identity_" + nm)(2, dtype="not a dtype")
        except Exception:
            pass
    if C().snapshot_globals() != snap:
        ctx.fail({"kind": "errors", "call": "constructors with bad keywords"}, "atomic: failing constructors changed the LieType singletons / handled list")


# ============================================================================= (12) grad modes, (13) duck-typed partners

def _modes(t_fn):
    """[(label, context manager factory, operand transform)]"""
    import contextlib
    return [("requires_grad leaf", contextlib.nullcontext, lambda t: t.clone().requires_grad_(True)),
            ("non-leaf in a graph", contextlib.nullcontext, lambda t: t.clone().requires_grad_(True) * 1.0),
            ("no_grad", torch.no_grad, lambda t: t.clone()),
            ("no_grad with requires_grad operand", torch.no_grad, lambda t: t.clone().requires_grad_(True)),
            ("inference_mode", torch.inference_mode, lambda t: t.clone()),
            ("enable_grad inside no_grad", lambda: _nested(), lambda t: t.clone().requires_grad_(True))]


class _nested:
    def __enter__(self):
        self.a, self.b = torch.no_grad(), torch.enable_grad()
        self.a.__enter__()
        self.b.__enter__()

    def __exit__(self, *e):
        self.b.__exit__(*e)
        self.a.__exit__(*e)


def stream_gradmode(ctx):
    """the same call with requires_grad operands, under no_grad / inference_mode, inside a graph: same VALUES, same type,
    same ltype as with plain operands (mixed-regime corpus batch, every unary op and binary site, shape functions)"""
    P = pp()
    c06 = C()
    with warnings.catch_warnings():
        warnings.simplefilter("ignore")
        for lt in LTYPES:
            for dtype in ("float64", "float32"):
                _, CX = c06.regime_corpus(lt, dtype)
                ops = [(op, apis[sorted(apis)[0]]) for op, apis, _ in c06.unary_ops(lt)]
                ops += [("clone", lambda X: X.clone()), ("getitem", lambda X: X[1:4]), ("view", lambda X: X.view(-1, 1, DIM[lt])),
                        ("cat", lambda X: torch.cat([X, X])), ("index_select", lambda X: X.index_select(0, torch.tensor([3, 1]))),
                        ("unbind", lambda X: X.unbind(0)[2]), ("lview", lambda X: X.lview(1, -1)), ("to", lambda X: X.to(torch.float64))]
                for sk in c06.SITE_KEYS:
                    if sk[0] != lt:
                        continue
                    spec = c06.SITES[sk]
                    if spec["py"] in ("p3", "p4"):
                        CY = c06.POOLS.get(spec["py"], dtype)
                    else:
                        CY = c06.regime_corpus(spec["py"], dtype)[1]
                    n = min(CX.shape[0], CY.shape[0])
                    ops.append((sk[1], (lambda sk, spec, CY, n: lambda X: c06.site_call(sk, sorted(spec["apis"])[0], X[:n], c06.wrap_second(sk, "lie", CY[:n].clone())))(sk, spec, CY, n)))
                for op, fn in ops:
                    try:
                        ref = fn(c06._lie(CX.clone(), lt))
                    except Exception as e:
                        ctx.fail({"kind": "gradmode", "lt": lt, "op": op, "dtype": dtype, "mode": "plain"}, f"raises: {lt}.{op} raises {type(e).__name__}: {str(e)[:80]}")
                        continue
                    for label, cm, tr in (_modes(None) if dtype == "float64" or not ctx.quick else _modes(None)[:3:2]):
                        case = {"kind": "gradmode", "lt": lt, "op": op, "dtype": dtype, "mode": label}
                        _note(ctx, "gradmode", lt, op, dtype, label)
                        try:
                            with cm():
                                X = P.LieTensor(tr(CX), ltype=ltype_of(lt))
                                r = fn(X)
                        except Exception as e:
                            ctx.fail(case, f"raises: {lt}.{op} with operands `{label}` raises {type(e).__name__}: {str(e)[:80]} (plain operands: fine)")
                            continue
                        same_type = type(r) is type(ref) and getattr(r, "ltype", None) is getattr(ref, "ltype", None)
                        rv, fv = c06._plain(r).detach(), c06._plain(ref).detach()
                        if not same_type or rv.shape != fv.shape or not same_values(rv, fv):
                            ctx.fail(case, f"gradmode: {lt}.{op} with operands `{label}` returns {type(r).__name__}/{ltype_name(getattr(r, 'ltype', None))} "
                                           f"{'with other values' if same_type else ''} than with plain operands ({dtype})")


def stream_duck(ctx):
    """every accepted type for every argument: partner as LieTensor / plain Tensor / pp.Parameter / nn.Parameter /
    non-contiguous; first operand as LieTensor / pp.Parameter; scalars, 0-dim and broadcastable tensors for the
    algebra's `*`; `*` vs `@` vs `.mul` vs `pp.mul`"""
    P = pp()
    c06 = C()
    with warnings.catch_warnings():
        warnings.simplefilter("ignore")
        for sk in c06.SITE_KEYS:
            spec = c06.SITES[sk]
            for dtype in ("float64", "float32"):
                xb = c06.POOLS.get(spec["px"], dtype)[:3].clone()
                yb = c06.POOLS.get(spec["py"], dtype)[3:6].clone()
                api0 = sorted(spec["apis"])[0]
                ref = c06.site_call(sk, api0, c06._lie(xb.clone(), spec["px"]), c06.wrap_second(sk, "lie", yb.clone()))
                firsts = {"LieTensor": lambda: c06._lie(xb.clone(), spec["px"]), "pp.Parameter": lambda: P.Parameter(c06._lie(xb.clone(), spec["px"])),
                          "pp.Parameter(requires_grad=False)": lambda: P.Parameter(c06._lie(xb.clone(), spec["px"]), requires_grad=False)}
                seconds = {"plain Tensor": lambda: yb.clone(), "nn.Parameter": lambda: torch.nn.Parameter(yb.clone()),
                           "non-contiguous Tensor": lambda: c06.as_view(yb.clone(), "slice")[0]}
                if spec["wrap_y"] is not None:
                    ylt = spec["py"]
                    seconds.update({"LieTensor": lambda: c06._lie(yb.clone(), ylt), "pp.Parameter": lambda: P.Parameter(c06._lie(yb.clone(), ylt)),
                                    "LieTensor view": lambda: c06._lie(c06.as_view(yb.clone(), "slice")[0], ylt)})
                    if spec["wrap_y"] not in ("either",):
                        for k in ("plain Tensor", "nn.Parameter", "non-contiguous Tensor"):
                            seconds.pop(k)            # this site documents a LieTensor partner only (plain means Act)
                for fl, fm in firsts.items():
                    for sl, sm in seconds.items():
                        for ai, api in enumerate(sorted(spec["apis"])):
                            if ctx.quick and dtype == "float32" and (ai + len(fl) + len(sl)) % 2:
                                continue        # quick: every spelling in float64, a fixed half of them in float32
                            case = {"kind": "duck", "site": list(sk), "dtype": dtype, "first": fl, "second": sl, "api": api}
                            _note(ctx, "duck", sk, dtype, fl, sl, api)
                            try:
                                r = c06.site_call(sk, api, fm(), sm())
                            except Exception as e:
                                ctx.fail(case, f"raises: {sk[0]}.{sk[1]} ({api}) with first operand {fl} and partner {sl} raises {type(e).__name__}: {str(e)[:80]}")
                                continue
                            want_lt = None if spec["out"] is None else ltype_of(spec["out"])
                            good = (type(r) is torch.Tensor) if want_lt is None else (type(r) is P.LieTensor and r.ltype is want_lt)
                            if not good or not _eq(c06._plain(r).detach(), c06._plain(ref).detach()):
                                ctx.fail(case, f"duck: {sk[0]}.{sk[1]} ({api}) with first operand {fl} and partner {sl} returns {type(r).__name__}/"
                                               f"{ltype_name(getattr(r, 'ltype', None))}{'' if good else ' (wrong type)'} — differs from LieTensor operands ({dtype})")
        # algebra: scalar / tensor multiples
        for a in [ALGEBRA[g] for g in GROUPS]:
            for dtype in ("float64", "float32"):
                xb = c06.POOLS.get(a, dtype)[:3].clone()
                x = c06._lie(xb.clone(), a)
                mults = {"python float": 2.5, "python int": 3, "0-dim tensor": torch.tensor(0.5, dtype=DT[dtype]), "bool": True,
                         "tensor lshape+(1,)": torch.tensor([[1.0], [0.0], [-2.0]], dtype=DT[dtype]),
                         "tensor (d,)": torch.arange(1, DIM[a] + 1, dtype=DT[dtype])}
                for ml, mv in mults.items():
                    want = xb * mv
                    for fl, f in (("x * m", lambda: x * mv), ("x.mul(m)", lambda: x.mul(mv)), ("pp.mul(x, m)", lambda: P.mul(x, mv))):
                        case = {"kind": "duck", "what": "algebra-mul", "lt": a, "dtype": dtype, "mult": ml, "form": fl}
                        _note(ctx, "duck.algmul", a, dtype, ml, fl)
                        try:
                            r = f()
                        except Exception as e:
                            ctx.fail(case, f"raises: {a} `{fl}` with a {ml} raises {type(e).__name__}: {str(e)[:80]}")
                            continue
                        if type(r) is not P.LieTensor or r.ltype is not x.ltype or not _eq(r, want):
                            ctx.fail(case, f"duck: {a} `{fl}` with a {ml} returns {type(r).__name__}/{ltype_name(getattr(r, 'ltype', None))}, expected the {a} "
                                           f"LieTensor x.tensor()*m")
                    if not torch.equal(x.tensor(), xb):
                        ctx.fail({"kind": "duck", "lt": a}, "mutation: algebra multiplication changed its argument")
        # constructors: every documented kind of `data`
        for lt in LTYPES:
            d = DIM[lt]
            row = c06.POOLS.get(lt, "float32")[0].tolist()
            src = {"nested list": [row, row], "flat list": row, "tensor": torch.tensor([row, row]), "float64 tensor": torch.tensor([row], dtype=torch.float64),
                   "LieTensor": c06._lie(torch.tensor([row]), lt), "pp.Parameter": P.Parameter(c06._lie(torch.tensor([row]), lt)),
                   "nn.Parameter": torch.nn.Parameter(torch.tensor([row]))}
            for sl, sv in src.items():
                case = {"kind": "duck", "what": "ctor", "lt": lt, "data": sl}
                _note(ctx, "duck.ctor", lt, sl)
                try:
                    r1, r2 = getattr(P, lt)(sv), P.LieTensor(sv, ltype=ltype_of(lt))
                    pr = P.Parameter(r1)
                except Exception as e:
                    ctx.fail(case, f"raises: pp.{lt}({sl}) raises {type(e).__name__}: {str(e)[:80]}")
                    continue
                wv = torch.as_tensor(sv.detach() if isinstance(sv, torch.Tensor) else sv)
                for r in (r1, r2, pr):
                    if not isinstance(r, P.LieTensor) or r.ltype is not ltype_of(lt) or r.shape[-1] != d or not torch.equal(c06._plain(r).detach().double(), c06._plain(wv).double()):
                        ctx.fail(case, f"duck: constructing a {lt} LieTensor / Parameter from a {sl} gives {type(r).__name__} ltype "
                                       f"{ltype_name(getattr(r, 'ltype', None))} shape {tuple(r.shape)}")
                        break


# ============================================================================= (14) copies

class _HolderModule(torch.nn.Module):
    """module-level (picklable) holder of one pp.Parameter"""
    def __init__(self, x):
        super().__init__()
        self.vfh06_p = pp().Parameter(x)          # (48) collision-proof name on a subclass of a library class


def stream_copies(ctx):
    """copy.deepcopy / copy.copy / pickle / torch.save of LieTensor and Parameter, state_dict / deepcopy of a module:
    the copy has the same type, the SAME ltype (the documented singleton), equal values, follows the same laws as the
    original under every op, and — except copy.copy, a documented shallow copy — is independent of it."""
    P = pp()
    c06 = C()

    def rt_pickle(x):
        return pickle.loads(pickle.dumps(x))

    def rt_save(x):
        b = io.BytesIO()
        torch.save(x, b)
        b.seek(0)
        return torch.load(b, weights_only=False)
    methods = [("deepcopy", copy.deepcopy, True), ("copy", copy.copy, False), ("pickle", rt_pickle, True), ("torch.save", rt_save, True),
               ("deepcopy(list)", lambda x: copy.deepcopy([x, x])[1], True), ("clone", lambda x: x.clone(), True)]
    with warnings.catch_warnings():
        warnings.simplefilter("ignore")
        for lt in LTYPES:
            for dtype in ("float64", "float32"):
                names, CX = c06.regime_corpus(lt, dtype)
                base = CX[:8].clone()
                if lt in GROUPS:
                    base[1, c06.QUAT[lt]] *= 3.0          # a non-unit quaternion: quat2unit must act on the copy as on the original
                for holder in ("LieTensor", "Parameter"):
                    for ml, mf, independent in methods:
                        case = {"kind": "copies", "lt": lt, "dtype": dtype, "holder": holder, "method": ml}
                        _note(ctx, "copies", lt, dtype, holder, ml)
                        X = c06._lie(base.clone(), lt)
                        if holder == "Parameter":
                            X = P.Parameter(X)
                        try:
                            Y = mf(X)
                        except Exception as e:
                            ctx.fail(case, f"raises: {ml} of a {lt} {holder} raises {type(e).__name__}: {str(e)[:80]}")
                            continue
                        if holder == "Parameter" and ml in ("copy", "pickle", "torch.save") and type(Y) is torch.nn.Parameter:
                            # OBSERVATION (scope rule): these three give a plain torch.nn.Parameter carrying an `ltype` attribute on the
                            # unchanged tree (only __deepcopy__ is overridden); recorded, values and ltype attribute still checked
                            ctx.count(f"copies.observation.{ml}_of_Parameter_is_nn.Parameter")
                            if getattr(Y, "ltype", None) is not X.ltype or not torch.equal(Y.detach(), c06._plain(X).detach()):
                                ctx.fail(case, f"copies: {ml} of a {lt} Parameter lost its values / ltype attribute")
                            continue
                        want_type = P.LieTensor if (ml == "clone" or holder == "LieTensor") else P.Parameter
                        if type(Y) is not want_type or not hasattr(Y, "ltype") or type(Y.ltype) is not type(X.ltype) or not _eq(Y, X) \
                                or (holder == "Parameter" and ml != "clone" and Y.requires_grad != X.requires_grad):
                            ctx.fail(case, f"copies: {ml} of a {lt} {holder} gives {type(Y).__name__} ltype {type(getattr(Y, 'ltype', None)).__name__} "
                                           f"requires_grad={Y.requires_grad} / other values")
                            continue
                        if Y.ltype is not X.ltype:
                            ctx.fail(case | {"defect": "ltype-not-singleton"},
                                     f"copies-ltype: {ml} of a {lt} {holder} carries a NEW {type(Y.ltype).__name__} object as ltype instead of pp.{lt}_type "
                                     f"(`Y.ltype is pp.{lt}_type` is False; the library compares ltypes by identity)")
                        # the copy follows the same laws: every op on the copy == the op on the original
                        for op, apis, _ in c06.unary_ops(lt):
                            fn = apis[sorted(apis)[0]]
                            try:
                                a, b = fn(Y.detach() if holder == "Parameter" else Y), fn(X.detach() if holder == "Parameter" else X)
                            except Exception as e:
                                ctx.fail(case | {"op": op}, f"raises: {lt}.{op} on a {ml} copy raises {type(e).__name__}: {str(e)[:80]}")
                                continue
                            if not _eq(a, b) or type(a) is not type(b):
                                ctx.fail(case | {"op": op, "defect": "ltype-not-singleton" if Y.ltype is not X.ltype else "law"},
                                         f"copies-law: {lt}.{op} on the {ml} copy of a {holder} differs from the same call on the original "
                                         f"({c06._plain(a).flatten()[:4].tolist()} vs {c06._plain(b).flatten()[:4].tolist()})")
                                break
                        # interleaved use: update the copy in place, the original must not move (and vice versa)
                        x0 = c06._plain(X).detach().clone()
                        with torch.no_grad():
                            c06._plain(Y)[0] += 1.0
                        moved = not torch.equal(c06._plain(X).detach(), x0)
                        if independent and moved:
                            ctx.fail(case, f"copies: updating the {ml} copy of a {lt} {holder} in place changed the original")
                        if not independent and not moved:
                            ctx.note_case(("copies", "shallow-independent", lt), True)
                        with torch.no_grad():
                            c06._plain(X)[1] -= 2.0
                        if independent and not torch.equal(c06._plain(Y).detach()[1], base[1]):
                            ctx.fail(case, f"copies: updating the original {lt} {holder} in place changed its {ml} copy")
            # modules: state_dict load, deepcopy, dtype conversion
            X = c06._lie(c06.POOLS.get(lt, "float64")[:3].clone(), lt)

            M = _HolderModule
            m1, m2 = M(X), M(c06._lie(c06.POOLS.get(lt, "float64")[5:8].clone(), lt))
            case = {"kind": "copies", "lt": lt, "holder": "Module"}
            _note(ctx, "copies.module", lt)
            try:
                m2.load_state_dict(m1.state_dict())
                m3 = copy.deepcopy(m1)
                m4 = rt_pickle(m1)
                for nm, mm in (("load_state_dict", m2), ("deepcopy(module)", m3)):
                    if type(mm.vfh06_p) is not P.Parameter or mm.vfh06_p.ltype is not X.ltype or not _eq(mm.vfh06_p, X) or mm.vfh06_p.data_ptr() == m1.vfh06_p.data_ptr():
                        ctx.fail(case | {"method": nm}, f"copies: {nm} of a module holding a {lt} Parameter gives {type(mm.vfh06_p).__name__} ltype "
                                                        f"{ltype_name(getattr(mm.vfh06_p, 'ltype', None))} (or shares storage)")
                if type(m4.vfh06_p) is torch.nn.Parameter:
                    ctx.count("copies.observation.pickle_of_module_gives_nn.Parameter")
                    if getattr(m4.vfh06_p, "ltype", None) is not X.ltype or not torch.equal(m4.vfh06_p.detach(), X.tensor()):
                        ctx.fail(case | {"method": "pickle(module)"}, f"copies: pickle of a module holding a {lt} Parameter lost values / ltype attribute")
                elif type(m4.vfh06_p) is not P.Parameter or not _eq(m4.vfh06_p, X):
                    ctx.fail(case | {"method": "pickle(module)"}, f"copies: pickle of a module holding a {lt} Parameter loses the Parameter / values")
                elif m4.vfh06_p.ltype is not X.ltype:
                    ctx.fail(case | {"method": "pickle", "defect": "ltype-not-singleton"},
                             f"copies-ltype: pickle of a module holding a {lt} Parameter carries a NEW {type(m4.vfh06_p.ltype).__name__} object as ltype")
                with torch.no_grad():
                    m3.vfh06_p.tensor()[0] += 1
                if not _eq(m1.vfh06_p, X):
                    ctx.fail(case, "copies: updating the deep copy of a module changed the original's Parameter")
                m5 = copy.deepcopy(m1).float()
                if type(m5.vfh06_p) is not P.Parameter or m5.vfh06_p.ltype is not X.ltype or m5.vfh06_p.dtype != torch.float32:
                    ctx.fail(case | {"method": "module.float()"}, f"copies: module.float() gives {type(m5.vfh06_p).__name__} ltype {ltype_name(getattr(m5.vfh06_p, 'ltype', None))} {m5.vfh06_p.dtype}")
            except Exception as e:
                ctx.fail(case, f"raises: module copies with a {lt} Parameter raise {type(e).__name__}: {str(e)[:80]}")


# ============================================================================= (15) outputs own their memory

DOCUMENTED_VIEWS = {"tensor", "rotation", "translation", "scale", "lview", "getitem", "view", "detach", "quat2unit-nongroup"}


def _overlaps_self(t):
    t = C()._plain(t)
    return any(st == 0 and sz > 1 for st, sz in zip(t.stride(), t.shape))


def _shares(t, u):
    t, u = C()._plain(t), C()._plain(u)
    if t.numel() == 0 or u.numel() == 0:
        return False
    return t.untyped_storage().data_ptr() == u.untyped_storage().data_ptr()


def stream_ownership(ctx):
    """results and constructor outputs: no internal overlap (stride 0), no aliasing of an argument unless documented
    (tensor / rotation / translation / scale / lview / views of the handled list), and writing one item of a result in
    place changes neither another item, nor the argument, nor the value of a later identical call"""
    P = pp()
    c06 = C()
    with warnings.catch_warnings():
        warnings.simplefilter("ignore")
        for lt in LTYPES:
            d = DIM[lt]
            for dtype in ("float64", "float32"):
                for ls in [(3,), (2, 2), (1,), (4, 1, 2), (d,)]:
                    mk = {"identity": lambda: getattr(P, "identity_" + lt)(*ls, dtype=DT[dtype]),
                          "randn": lambda: getattr(P, "randn_" + lt)(*ls, dtype=DT[dtype]),
                          "identity_like": lambda: P.identity_like(c06._lie(torch.zeros(ls + (d,), dtype=DT[dtype]), lt), dtype=DT[dtype]),
                          "randn_like": lambda: P.randn_like(c06._lie(torch.zeros(ls + (d,), dtype=DT[dtype]), lt))}
                    for cn, cf in mk.items():
                        case = {"kind": "ownership", "what": cn, "lt": lt, "dtype": dtype, "s": list(ls)}
                        _note(ctx, "ownership.ctor", lt, dtype, cn, ls)
                        try:
                            r = cf()
                            if _overlaps_self(r):
                                ctx.fail(case, f"ownership: {cn}_{lt}{ls} returns a tensor with strides {tuple(r.stride())}: its items share memory (expand)")
                                continue
                            flat = c06._plain(r).reshape(-1, d)
                            if flat.shape[0] >= 2:
                                other = flat[1:].clone()
                                with torch.no_grad():
                                    flat[0] += 1.0
                                if not torch.equal(flat[1:], other):
                                    ctx.fail(case, f"ownership: writing item 0 of {cn}_{lt}{ls} in place changed other items")
                            if cn.startswith("identity"):
                                r2 = cf()
                                want = torch.tensor(c06.IDENTITY_ITEM[lt], dtype=DT[dtype]).expand(ls + (d,))
                                if not torch.equal(r2.tensor(), want):
                                    ctx.fail(case, f"ownership: after an in-place update of a previous result, {cn}_{lt}{ls} no longer returns identities "
                                                   f"(results share memory with internal state)")
                        except Exception as e:
                            ctx.fail(case, f"raises: ownership probe of {cn}_{lt}{ls} raises {type(e).__name__}: {str(e)[:80]}")
                # op results
                xb = c06.POOLS.get(lt, dtype)[:4].clone()
                X = c06._lie(xb.clone(), lt)
                calls = [(op, apis[sorted(apis)[0]], op in ("tensor", "rotation", "translation", "scale")) for op, apis, _ in c06.unary_ops(lt)]
                calls += [("clone", lambda X: X.clone(), False), ("cat", lambda X: torch.cat([X, X]), False), ("stack", lambda X: torch.stack([X, X]), False),
                          ("index_select", lambda X: X.index_select(0, torch.tensor([1, 1, 0])), False), ("repeat", lambda X: X.repeat(2, 1), False),
                          ("to(copy)", lambda X: X.to(X.dtype, copy=True), False), ("X + 0", lambda X: X + torch.zeros(4, MANIFOLD[lt], dtype=DT[dtype]), False),
                          ("Parameter.clone", lambda X: P.Parameter(X).clone().detach(), False), ("deepcopy", lambda X: copy.deepcopy(X), False)]
                for sk in c06.SITE_KEYS:
                    if sk[0] != lt:
                        continue
                    spec = c06.SITES[sk]
                    for psh in ((4,), (1,), ()):
                        yb = c06.POOLS.get(spec["py"], dtype)[:max(numel(psh), 1)].reshape(psh + (-1,)).clone()
                        calls.append((f"{sk[1]} partner{psh}", (lambda sk, spec, yb: lambda X: c06.site_call(sk, sorted(spec["apis"])[0], X, c06.wrap_second(sk, "lie", yb)))(sk, spec, yb), False))
                for op, fn, view_ok in calls:
                    case = {"kind": "ownership", "what": op, "lt": lt, "dtype": dtype}
                    _note(ctx, "ownership.op", lt, dtype, op)
                    try:
                        r = fn(X)
                        if not isinstance(r, torch.Tensor) or r.numel() == 0:
                            continue
                        if view_ok and _shares(r, X):
                            continue                 # documented view of the argument (tensor / rotation / translation / scale slices)
                        if _overlaps_self(r):
                            ctx.fail(case, f"ownership: the result of {lt}.{op} has strides {tuple(r.stride())}: its items share memory")
                            continue
                        if _shares(r, X):
                            ctx.fail(case, f"ownership: the result of {lt}.{op} shares storage with its argument (not a documented view)")
                            continue
                        before = c06._plain(fn(X)).detach().clone()
                        rp = c06._plain(r).detach()
                        with torch.no_grad():
                            rp.reshape(-1)[0] += 1.0
                        if not torch.equal(X.tensor(), xb):
                            ctx.fail(case, f"ownership: writing into the result of {lt}.{op} changed the argument")
                            X = c06._lie(xb.clone(), lt)
                        if rp.reshape(-1).shape[0] > 1 and not same_values(rp.reshape(-1)[1:], before.reshape(-1)[1:]):
                            ctx.fail(case, f"ownership: writing one element of the result of {lt}.{op} changed other elements")
                        again = c06._plain(fn(X)).detach()
                        if not same_values(again, before):
                            ctx.fail(case, f"ownership: after writing into a previous result, {lt}.{op} returns other values (result aliases internal state)")
                    except Exception as e:
                        ctx.fail(case, f"raises: ownership probe of {lt}.{op} raises {type(e).__name__}: {str(e)[:80]}")


# ============================================================================= (17) interleaved types / module-level state

def stream_interleave(ctx):
    """the same set of calls on different ltypes / dtypes / objects executed in several orders in one process: every
    call must return the same value in every order (a cache written by one type and read by another shows as an
    order dependence)"""
    import random
    P = pp()
    c06 = C()
    calls = []
    with warnings.catch_warnings():
        warnings.simplefilter("ignore")
        for lt in LTYPES:
            for dtype in ("float64", "float32"):
                for ls in ((3,), (2, 2)):
                    xb = c06.POOLS.get(lt, dtype)[:numel(ls)].reshape(ls + (-1,)).clone()
                    for op, apis, _ in c06.unary_ops(lt):
                        calls.append(((lt, dtype, ls, op), (lambda fn, xb, lt: lambda: fn(c06._lie(xb.clone(), lt)))(apis[sorted(apis)[0]], xb, lt)))
                    for sk in c06.SITE_KEYS:
                        if sk[0] != lt:
                            continue
                        spec = c06.SITES[sk]
                        yb = c06.POOLS.get(spec["py"], dtype)[:numel(ls)].reshape(ls + (-1,)).clone()
                        calls.append(((lt, dtype, ls, sk[1]), (lambda sk, spec, xb, yb: lambda: c06.site_call(sk, sorted(spec["apis"])[0], c06._lie(xb.clone(), spec["px"]),
                                                                                                                 c06.wrap_second(sk, "lie", yb.clone())))(sk, spec, xb, yb)))
                    calls.append(((lt, dtype, ls, "identity"), (lambda lt, dtype, ls: lambda: getattr(P, "identity_" + lt)(*ls, dtype=DT[dtype]))(lt, dtype, ls)))
                    calls.append(((lt, dtype, ls, "cat"), (lambda xb, lt: lambda: torch.cat([c06._lie(xb.clone(), lt), c06._lie(xb.clone(), lt)]))(xb, lt)))
        orders = {"by type": list(range(len(calls))), "reversed": list(range(len(calls) - 1, -1, -1)),
                  "by op": sorted(range(len(calls)), key=lambda k: (calls[k][0][3], calls[k][0][1], calls[k][0][0])),
                  "dtype alternating": sorted(range(len(calls)), key=lambda k: (calls[k][0][2], calls[k][0][3], calls[k][0][0], calls[k][0][1]))}
        rr = random.Random(20260926)
        sh = list(range(len(calls)))
        rr.shuffle(sh)
        orders["shuffled"] = sh
        results = {}
        if ctx.quick:
            orders = {k: orders[k] for k in ("by type", "by op", "shuffled")}
        for on, order in orders.items():
            for k in order:
                key, fn = calls[k]
                case = {"kind": "interleave", "order": on, "call": [str(x) for x in key]}
                try:
                    r = fn()
                except Exception as e:
                    ctx.fail(case, f"raises: {key} in order `{on}` raises {type(e).__name__}: {str(e)[:80]}")
                    continue
                v = (type(r).__name__, ltype_name(getattr(r, "ltype", None)), c06._plain(r).detach().clone())
                ctx.count("interleave")
                if k not in results:
                    results[k] = (on, v)
                else:
                    o0, v0 = results[k]
                    if v[:2] != v0[:2] or v[2].shape != v0[2].shape or v[2].dtype != v0[2].dtype or not same_values(v[2], v0[2]):
                        ctx.fail(case, f"interleave: {key[0]}.{key[3]} ({key[1]}, lshape {key[2]}) returns another result in call order `{on}` than in order `{o0}` "
                                       f"(state shared between types / dtypes / objects)")
        ctx.note_case(("interleave", len(calls), len(orders)), True)
