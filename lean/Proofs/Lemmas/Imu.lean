import Proofs.Lemmas.Quat
import Proofs.Lemmas.So3Exp
import Proofs.Props.C12
import Pose.Model.Imu
/-!
# Helper lemmas for C16 (IMU preintegration): materialisation, the scan, the shift law of the recursion
-/
namespace PP.Imu
open PP Vec3 Quat

/-! ## materialisation -/

theorem tab_size {β : Type} (n : Nat) (f : Nat → β) : (tab n f).size = n := by simp [tab]

theorem getD_tab {β : Type} (n : Nat) (f : Nat → β) (d : β) (j : Nat) (hj : j < n) : (tab n f).getD j d = f j := by
  rw [Array.getD_eq_getD_getElem?]
  simp [tab, hj]

theorem getD_tab_ge {β : Type} (n : Nat) (f : Nat → β) (d : β) (j : Nat) (hj : n ≤ j) : (tab n f).getD j d = d := by
  rw [Array.getD_eq_getD_getElem?]
  simp [tab, hj]

theorem qAt_tab (n : Nat) (f : Nat → Quat ℝ) (j : Nat) (hj : j < n) : qAt (tab n f) j = f j := getD_tab n f _ j hj
theorem vAt_tab (n : Nat) (f : Nat → Vec3 ℝ) (j : Nat) (hj : j < n) : vAt (tab n f) j = f j := getD_tab n f _ j hj
theorem sAt_tab (n : Nat) (f : Nat → ℝ) (j : Nat) (hj : j < n) : sAt (tab n f) j = f j := getD_tab n f _ j hj

theorem getD_push_lt {β} (a : Array β) (x d : β) (j : Nat) (h : j < a.size) : (a.push x).getD j d = a.getD j d := by
  simp [Array.getD_eq_getD_getElem?, Array.getElem?_push_lt h, Array.getElem?_eq_getElem h]
theorem getD_push_eq {β} (a : Array β) (x d : β) : (a.push x).getD a.size d = x := by
  simp [Array.getD_eq_getD_getElem?]

theorem cumsumArrV_spec (v : Nat → Vec3 ℝ) (n : Nat) :
    (cumsumArrV n v).size = n + 1 ∧ ∀ j, j ≤ n → vAt (cumsumArrV n v) j = cumsumV v j := by
  induction n with
  | zero =>
    refine ⟨by simp [cumsumArrV], ?_⟩
    intro j hj
    have : j = 0 := by omega
    subst this
    simp [cumsumArrV, vAt, cumsumV]
  | succ n ih =>
    obtain ⟨hs, he⟩ := ih
    have hstep : cumsumArrV (n+1) v = (cumsumArrV n v).push ((vAt (cumsumArrV n v) n).add (v (n+1))) := by
      unfold cumsumArrV
      rw [List.range_succ, List.foldl_append]
      rfl
    refine ⟨by rw [hstep, Array.size_push, hs], ?_⟩
    intro j hj
    rw [hstep]
    by_cases hjn : j ≤ n
    · unfold vAt
      rw [getD_push_lt _ _ _ _ (by omega)]
      exact he j hjn
    · have hj' : j = (cumsumArrV n v).size := by omega
      unfold vAt
      rw [hj', getD_push_eq, hs]
      simp only [cumsumV]
      rw [← he n (le_refl n)]; rfl

theorem cumsumArrS_spec (v : Nat → ℝ) (n : Nat) :
    (cumsumArrS n v).size = n + 1 ∧ ∀ j, j ≤ n → sAt (cumsumArrS n v) j = cumsumS v j := by
  induction n with
  | zero =>
    refine ⟨by simp [cumsumArrS], ?_⟩
    intro j hj
    have : j = 0 := by omega
    subst this
    simp [cumsumArrS, sAt, cumsumS]
  | succ n ih =>
    obtain ⟨hs, he⟩ := ih
    have hstep : cumsumArrS (n+1) v = (cumsumArrS n v).push (sAt (cumsumArrS n v) n + v (n+1)) := by
      unfold cumsumArrS
      rw [List.range_succ, List.foldl_append]
      rfl
    refine ⟨by rw [hstep, Array.size_push, hs], ?_⟩
    intro j hj
    rw [hstep]
    by_cases hjn : j ≤ n
    · unfold sAt
      rw [getD_push_lt _ _ _ _ (by omega)]
      exact he j hjn
    · have hj' : j = (cumsumArrS n v).size := by omega
      unfold sAt
      rw [hj', getD_push_eq, hs]
      simp only [cumsumS]
      rw [← he n (le_refl n)]; rfl

/-! ## the rotation scan = sequential product -/

/-- `ΔR` after `n` frames: `1 · Exp(w₀dt₀) ⋯ Exp(w_{n-1}dt_{n-1})` -/
noncomputable def seqR (eps : ℝ) (fr : Nat → Frame ℝ) : Nat → Quat ℝ
  | 0 => Quat.one
  | n+1 => (seqR eps fr n).mul (dr eps (fr n))

theorem seg_wSeq (eps : ℝ) (fr : Nat → Frame ℝ) (j : Nat) :
    Scan.seg Quat.mul (wSeq eps fr) 0 j = seqR eps fr j := by
  induction j with
  | zero => simp [Scan.seg, wSeq, seqR]
  | succ n ih => simp only [Scan.seg, seqR, ih, Nat.zero_add, wSeq]

/-- `incre_r[j]` (the C12 scan over `F+1` items) is the sequential product, for every `F` and `j ≤ F` -/
theorem incR_eq (eps : ℝ) (fr : Nat → Frame ℝ) (F j : Nat) (hj : j ≤ F) :
    qAt (incRArr eps fr F) j = seqR eps fr j := by
  unfold qAt incRArr
  have h1 := @Scan.cumopsArr_eq (Quat ℝ) Quat.mul ⟨Quat.one⟩ (tab (F+1) (wSeq eps fr)) j (by rw [tab_size]; omega)
  have hd : (@default (Quat ℝ) ⟨Quat.one⟩) = Quat.one := rfl
  rw [hd] at h1
  rw [h1, tab_size, Scan.cumops_spec Quat.mul Quat.mul_assoc' (F+1) _ j (by omega)]
  rw [← seg_wSeq]
  -- the two index functions agree on 0..j
  have key : ∀ (u w : Nat → Quat ℝ) (n : Nat), (∀ i, i ≤ n → u i = w i) →
      Scan.seg Quat.mul u 0 n = Scan.seg Quat.mul w 0 n := by
    intro u w n
    induction n with
    | zero => intro h; simp [Scan.seg, h 0 (le_refl 0)]
    | succ n ih =>
      intro h
      simp only [Scan.seg, Nat.zero_add]
      rw [ih (fun i hi => h i (by omega)), h (n+1) (le_refl _)]
  apply key
  intro i hi
  exact getD_tab (F+1) (wSeq eps fr) _ i (by omega)

/-! ## `integrate` entry by entry = the documented recursion -/

theorem vadd_assoc' (a b c : Vec3 ℝ) : (a.add b).add c = a.add (b.add c) := by ext <;> lie_unfold <;> ring

theorem preSeq_dR (eps : ℝ) (g : Vec3 ℝ) (R0 : Quat ℝ) (fr : Nat → Frame ℝ) (n : Nat) :
    (preSeq eps g R0 fr n).dR = seqR eps fr n := by
  induction n with
  | zero => rfl
  | succ n ih => simp only [preSeq, preStep, seqR, ih]

theorem preSeq_succ (eps : ℝ) (g : Vec3 ℝ) (R0 : Quat ℝ) (fr : Nat → Frame ℝ) (n : Nat) :
    preSeq eps g R0 fr (n+1) = preStep eps g R0 (preSeq eps g R0 fr n) (fr n) := rfl

/-- gravity-free acceleration of frame `j` (uses the rotation after the step) -/
noncomputable def aSeq (eps : ℝ) (g : Vec3 ℝ) (R0 : Quat ℝ) (fr : Nat → Frame ℝ) (j : Nat) : Vec3 ℝ :=
  removeG g R0 (seqR eps fr (j+1)) (fr j)

theorem integ_a (eps : ℝ) (g : Vec3 ℝ) (R0 : Quat ℝ) (fr : Nat → Frame ℝ) (F j : Nat) (hj : j < F) :
    vAt (integrate eps g R0 fr F).a j = aSeq eps g R0 fr j := by
  show vAt (aArr g R0 (incRArr eps fr F) fr F) j = _
  unfold aArr
  rw [vAt_tab _ _ _ hj, incR_eq eps fr F (j+1) (by omega)]
  rfl

theorem integ_ra (eps : ℝ) (g : Vec3 ℝ) (R0 : Quat ℝ) (fr : Nat → Frame ℝ) (F j : Nat) (hj : j < F) :
    vAt (raArr (incRArr eps fr F) (integrate eps g R0 fr F).a F) j = (seqR eps fr j).act (aSeq eps g R0 fr j) := by
  unfold raArr
  rw [vAt_tab _ _ _ hj, incR_eq eps fr F j (by omega), integ_a eps g R0 fr F j hj]

theorem preSeq_dv_succ (eps : ℝ) (g : Vec3 ℝ) (R0 : Quat ℝ) (fr : Nat → Frame ℝ) (n : Nat) :
    (preSeq eps g R0 fr (n+1)).dv =
      (preSeq eps g R0 fr n).dv.add (((seqR eps fr n).act (aSeq eps g R0 fr n)).smul (fr n).dt) := by
  simp only [preSeq, preStep, aSeq, seqR, preSeq_dR]

theorem preSeq_dp_succ (eps : ℝ) (g : Vec3 ℝ) (R0 : Quat ℝ) (fr : Nat → Frame ℝ) (n : Nat) :
    (preSeq eps g R0 fr (n+1)).dp =
      ((preSeq eps g R0 fr n).dp.add ((preSeq eps g R0 fr n).dv.smul (fr n).dt)).add
        ((((seqR eps fr n).act (aSeq eps g R0 fr n)).smul (q 1 2)).smul ((fr n).dt * (fr n).dt)) := by
  simp only [preSeq, preStep, aSeq, seqR, preSeq_dR]

theorem preSeq_t_succ (eps : ℝ) (g : Vec3 ℝ) (R0 : Quat ℝ) (fr : Nat → Frame ℝ) (n : Nat) :
    (preSeq eps g R0 fr (n+1)).t = (preSeq eps g R0 fr n).t + (fr n).dt := by
  simp only [preSeq, preStep]

theorem integ_incV (eps : ℝ) (g : Vec3 ℝ) (R0 : Quat ℝ) (fr : Nat → Frame ℝ) (F j : Nat) (hj : j ≤ F) :
    vAt (integrate eps g R0 fr F).incV j = (preSeq eps g R0 fr j).dv := by
  show vAt (cumsumArrV F (dvSeq (raArr (incRArr eps fr F) (integrate eps g R0 fr F).a F) fr)) j = _
  rw [(cumsumArrV_spec _ F).2 j hj]
  induction j with
  | zero => rfl
  | succ n ih =>
    rw [cumsumV, ih (by omega), preSeq_dv_succ]
    simp only [dvSeq]
    rw [integ_ra eps g R0 fr F n (by omega)]

theorem integ_incP (eps : ℝ) (g : Vec3 ℝ) (R0 : Quat ℝ) (fr : Nat → Frame ℝ) (F j : Nat) (hj : j ≤ F) :
    vAt (integrate eps g R0 fr F).incP j = (preSeq eps g R0 fr j).dp := by
  show vAt (cumsumArrV F (dpSeq (integrate eps g R0 fr F).incV
      (raArr (incRArr eps fr F) (integrate eps g R0 fr F).a F) fr)) j = _
  rw [(cumsumArrV_spec _ F).2 j hj]
  induction j with
  | zero => rfl
  | succ n ih =>
    rw [cumsumV, ih (by omega), preSeq_dp_succ]
    simp only [dpSeq]
    rw [integ_ra eps g R0 fr F n (by omega), integ_incV eps g R0 fr F n (by omega), vadd_assoc']

theorem cumsumS_dt (eps : ℝ) (g : Vec3 ℝ) (R0 : Quat ℝ) (fr : Nat → Frame ℝ) (j : Nat) :
    cumsumS (fun j => (fr j).dt) j = (preSeq eps g R0 fr (j+1)).t := by
  induction j with
  | zero => simp [cumsumS, preSeq, preStep, Pre.init]
  | succ n ih => rw [cumsumS, ih, preSeq_t_succ eps g R0 fr (n+1)]

theorem integ_incT (eps : ℝ) (g : Vec3 ℝ) (R0 : Quat ℝ) (fr : Nat → Frame ℝ) (F j : Nat) (hj : j < F) :
    sAt (integrate eps g R0 fr F).incT j = (preSeq eps g R0 fr (j+1)).t := by
  show sAt (cumsumArrS (F - 1) fun j => (fr j).dt) j = _
  rw [(cumsumArrS_spec _ (F-1)).2 j (by omega), cumsumS_dt eps g R0 fr j]

theorem integ_incR (eps : ℝ) (g : Vec3 ℝ) (R0 : Quat ℝ) (fr : Nat → Frame ℝ) (F j : Nat) (hj : j ≤ F) :
    qAt (integrate eps g R0 fr F).incR j = (preSeq eps g R0 fr j).dR := by
  show qAt (incRArr eps fr F) j = _
  rw [incR_eq eps fr F j hj, preSeq_dR]

/-- **parallel = sequential**, frame by frame -/
theorem predictAt_eq (eps : ℝ) (g p0 : Vec3 ℝ) (R0 : Quat ℝ) (v0 : Vec3 ℝ) (fr : Nat → Frame ℝ) (F j : Nat)
    (hj : j < F) :
    predictAt p0 R0 v0 (integrate eps g R0 fr F) j = compose p0 R0 v0 (preSeq eps g R0 fr (j+1)) := by
  unfold predictAt compose
  rw [integ_incR eps g R0 fr F (j+1) (by omega), integ_incV eps g R0 fr F (j+1) (by omega),
    integ_incP eps g R0 fr F (j+1) (by omega), integ_incT eps g R0 fr F j hj]

/-! ## the shift law: continuing from the state after `m` frames -/

theorem seqR_unit (eps : ℝ) (fr : Nat → Frame ℝ) (N : Nat) (hu : ∀ i, i < N → (dr eps (fr i)).normSq = 1) :
    ∀ n, n ≤ N → (seqR eps fr n).normSq = 1 := by
  intro n
  induction n with
  | zero => intro _; simp only [seqR]; lie_unfold; ring
  | succ n ih => intro h; rw [seqR, Quat.normSq_mul, ih (by omega), hu n (by omega)]; ring

theorem seqR_shift (eps : ℝ) (fr : Nat → Frame ℝ) (m j : Nat) :
    seqR eps fr (m + j) = (seqR eps fr m).mul (seqR eps (fun i => fr (m + i)) j) := by
  induction j with
  | zero => simp only [seqR, Nat.add_zero, Quat.mul_one']
  | succ n ih => rw [show m + (n+1) = (m+n)+1 from rfl, seqR, ih, seqR, Quat.mul_assoc']

theorem aSeq_shift (eps : ℝ) (g : Vec3 ℝ) (R0 : Quat ℝ) (fr : Nat → Frame ℝ) (m j : Nat) :
    aSeq eps g (R0.mul (seqR eps fr m)) (fun i => fr (m + i)) j = aSeq eps g R0 fr (m + j) := by
  unfold aSeq removeG
  rw [show m + j + 1 = m + (j+1) from rfl, seqR_shift eps fr m (j+1), Quat.mul_assoc']

/-- the recursion restarted from the state after `m` frames reproduces the recursion from the start -/
theorem preSeq_shift (eps : ℝ) (g : Vec3 ℝ) (R0 : Quat ℝ) (fr : Nat → Frame ℝ) (N : Nat)
    (hu : ∀ i, i < N → (dr eps (fr i)).normSq = 1) (m : Nat) :
    ∀ j, m + j ≤ N →
      (preSeq eps g R0 fr (m+j)).dv = (preSeq eps g R0 fr m).dv.add
          ((seqR eps fr m).act (preSeq eps g (R0.mul (seqR eps fr m)) (fun i => fr (m + i)) j).dv) ∧
      (preSeq eps g R0 fr (m+j)).dp = ((preSeq eps g R0 fr m).dp.add
          ((preSeq eps g R0 fr m).dv.smul (preSeq eps g (R0.mul (seqR eps fr m)) (fun i => fr (m + i)) j).t)).add
          ((seqR eps fr m).act (preSeq eps g (R0.mul (seqR eps fr m)) (fun i => fr (m + i)) j).dp) ∧
      (preSeq eps g R0 fr (m+j)).t = (preSeq eps g R0 fr m).t +
          (preSeq eps g (R0.mul (seqR eps fr m)) (fun i => fr (m + i)) j).t := by
  intro j
  induction j with
  | zero =>
    intro _
    simp only [Nat.add_zero, preSeq, Pre.init, Quat.act_zero]
    refine ⟨?_, ?_, ?_⟩
    · ext <;> lie_unfold <;> ring
    · ext <;> lie_unfold <;> ring
    · simp
  | succ n ih =>
    intro hN
    obtain ⟨h2, h3, h4⟩ := ih (by omega)
    have hRm : (seqR eps fr m).normSq = 1 := seqR_unit eps fr N hu m (by omega)
    have hu' : ∀ i, i < N - m → (dr eps (fr (m + i))).normSq = 1 := fun i hi => hu (m+i) (by omega)
    have hRn : (seqR eps (fun i => fr (m + i)) n).normSq = 1 :=
      seqR_unit eps (fun i => fr (m + i)) (N - m) hu' n (by omega)
    have ha := aSeq_shift eps g R0 fr m n
    rw [show m + (n+1) = (m+n)+1 from rfl]
    refine ⟨?_, ?_, ?_⟩
    · rw [preSeq_dv_succ, preSeq_dv_succ, h2, ha, seqR_shift eps fr m n, Quat.act_mul _ _ hRm hRn,
        Quat.act_add, Quat.act_smul, vadd_assoc']
    · rw [preSeq_dp_succ, preSeq_dp_succ, preSeq_t_succ, h3, h2, ha, seqR_shift eps fr m n,
        Quat.act_mul _ _ hRm hRn]
      simp only [Quat.act_add, Quat.act_smul]
      ext <;> simp only [Vec3.add, Vec3.smul] <;> ring
    · rw [preSeq_t_succ, preSeq_t_succ, h4]; ring

/-- composed outputs: the stream continued from the carried state equals the stream from the start -/
theorem compose_shift (eps : ℝ) (g p0 : Vec3 ℝ) (R0 : Quat ℝ) (v0 : Vec3 ℝ) (fr : Nat → Frame ℝ) (N : Nat)
    (hR0 : R0.normSq = 1) (hu : ∀ i, i < N → (dr eps (fr i)).normSq = 1) (m j : Nat) (hmj : m + j ≤ N) :
    let s := compose p0 R0 v0 (preSeq eps g R0 fr m)
    compose s.pos s.rot s.vel (preSeq eps g s.rot (fun i => fr (m + i)) j)
      = compose p0 R0 v0 (preSeq eps g R0 fr (m + j)) := by
  obtain ⟨h2, h3, h4⟩ := preSeq_shift eps g R0 fr N hu m j hmj
  have hRm : (seqR eps fr m).normSq = 1 := seqR_unit eps fr N hu m (by omega)
  simp only [compose]
  rw [preSeq_dR, preSeq_dR, preSeq_dR, h2, h3, h4, seqR_shift eps fr m j]
  congr 1
  · rw [Quat.mul_assoc']
  · rw [Quat.act_mul _ _ hR0 hRm]
    simp only [Quat.act_add]
    ext <;> simp only [Vec3.add, Vec3.smul] <;> ring
  · rw [Quat.act_mul _ _ hR0 hRm]
    simp only [Quat.act_add, Quat.act_smul]
    ext <;> simp only [Vec3.add, Vec3.smul] <;> ring

end PP.Imu
