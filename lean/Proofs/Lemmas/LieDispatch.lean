import Proofs.Lemmas.LogExp
import Pose.Model.LieDispatch
/-!
# Lemmas about the dispatch glue of C02 (`Pose/Model/LieDispatch.lean`)
-/
namespace PP

/-! ## storage order round trips -/

theorem quatAt_toList (q : Quat ℝ) (rest : List ℝ) : quatAt (q.toList ++ rest) 0 = q := by
  cases q; simp [quatAt, lget, Quat.toList]
theorem vec3At_toList (v : Vec3 ℝ) (rest : List ℝ) : vec3At (v.toList ++ rest) 0 = v := by
  cases v; simp [vec3At, lget, Vec3.toList]
theorem SE3.ofList_toList (X : SE3 ℝ) : SE3.ofList X.toList = X := by
  obtain ⟨⟨a, b, c⟩, ⟨x, y, z, w⟩⟩ := X
  simp [SE3.ofList, SE3.toList, vec3At, quatAt, lget, Vec3.toList, Quat.toList]
theorem RxSO3.ofList_toList (X : RxSO3 ℝ) : RxSO3.ofList X.toList = X := by
  obtain ⟨⟨x, y, z, w⟩, s⟩ := X
  simp [RxSO3.ofList, RxSO3.toList, quatAt, lget, Quat.toList]
theorem Sim3.ofList_toList (X : Sim3 ℝ) : Sim3.ofList X.toList = X := by
  obtain ⟨⟨a, b, c⟩, ⟨x, y, z, w⟩, s⟩ := X
  simp [Sim3.ofList, Sim3.toList, vec3At, quatAt, lget, Vec3.toList, Quat.toList]
theorem se3.ofList_toList (x : se3 ℝ) : se3.ofList x.toList = x := by
  obtain ⟨⟨a, b, c⟩, ⟨d, e, f⟩⟩ := x
  simp [se3.ofList, se3.toList, vec3At, lget, Vec3.toList]
theorem rxso3.ofList_toList (x : rxso3 ℝ) : rxso3.ofList x.toList = x := by
  obtain ⟨⟨a, b, c⟩, s⟩ := x
  simp [rxso3.ofList, rxso3.toList, vec3At, lget, Vec3.toList]
theorem sim3.ofList_toList (x : sim3 ℝ) : sim3.ofList x.toList = x := by
  obtain ⟨⟨a, b, c⟩, ⟨d, e, f⟩, s⟩ := x
  simp [sim3.ofList, sim3.toList, vec3At, lget, Vec3.toList]

theorem Quat.toList_length (q : Quat ℝ) : q.toList.length = 4 := rfl
theorem Vec3.toList_length (v : Vec3 ℝ) : v.toList.length = 3 := rfl
theorem SE3.toList_length (X : SE3 ℝ) : X.toList.length = 7 := rfl
theorem RxSO3.toList_length (X : RxSO3 ℝ) : X.toList.length = 5 := rfl
theorem Sim3.toList_length (X : Sim3 ℝ) : X.toList.length = 8 := rfl
theorem se3.toList_length (x : se3 ℝ) : x.toList.length = 6 := rfl
theorem rxso3.toList_length (x : rxso3 ℝ) : x.toList.length = 4 := rfl
theorem sim3.toList_length (x : sim3 ℝ) : x.toList.length = 7 := rfl

/-! ## `mapE`, `chunks` -/

theorem mapE_ok_length {β γ : Type} (f : β → Except String γ) :
    ∀ (xs : List β) (ys : List γ), mapE f xs = .ok ys → ys.length = xs.length
  | [], ys, h => by simp [mapE] at h; subst h; rfl
  | x :: xs, ys, h => by
    unfold mapE at h
    cases hx : f x with
    | error e => simp [hx] at h
    | ok y =>
      cases hr : mapE f xs with
      | error e => simp [hx, hr] at h
      | ok zs =>
        simp [hx, hr] at h
        subst h
        simp [mapE_ok_length f xs zs hr]

/-- item-wise: the `i`-th row of a successful batched call is the op applied to the `i`-th row of the input -/
theorem mapE_ok_getElem {β γ : Type} (f : β → Except String γ) :
    ∀ (xs : List β) (ys : List γ), mapE f xs = .ok ys → ∀ (i : Nat) (x : β), xs[i]? = some x → ∃ y, ys[i]? = some y ∧ f x = .ok y
  | [], ys, _, i, x, hx => by simp at hx
  | a :: xs, ys, h, i, x, hx => by
    unfold mapE at h
    cases ha : f a with
    | error e => simp [ha] at h
    | ok y =>
      cases hr : mapE f xs with
      | error e => simp [ha, hr] at h
      | ok zs =>
        simp [ha, hr] at h
        subst h
        cases i with
        | zero => simp at hx; subst hx; exact ⟨y, by simp, ha⟩
        | succ j =>
          simp at hx
          obtain ⟨y', h1, h2⟩ := mapE_ok_getElem f xs zs hr j x hx
          exact ⟨y', by simpa using h1, h2⟩

/-- a refusal of any row refuses the whole call (no partial result) -/
theorem mapE_error_of_mem {β γ : Type} (f : β → Except String γ) :
    ∀ (xs : List β) (x : β), x ∈ xs → (∃ e, f x = .error e) → ∃ e, mapE f xs = .error e
  | [], x, hm, _ => by simp at hm
  | a :: xs, x, hm, he => by
    unfold mapE
    cases ha : f a with
    | error e => exact ⟨e, rfl⟩
    | ok y =>
      rcases List.mem_cons.mp hm with h | h
      · subst h; obtain ⟨e, he⟩ := he; rw [ha] at he; cases he
      · obtain ⟨e, hr⟩ := mapE_error_of_mem f xs x h he
        simp [hr]

theorem mapE_rows_length {β γ : Type} (f : β → Except String (List γ)) (w : Nat)
    (hf : ∀ x y, f x = .ok y → y.length = w) :
    ∀ (xs : List β) (ys : List (List γ)), mapE f xs = .ok ys → ys.flatten.length = xs.length * w
  | [], ys, h => by simp [mapE] at h; subst h; simp
  | a :: xs, ys, h => by
    unfold mapE at h
    cases ha : f a with
    | error e => simp [ha] at h
    | ok y =>
      cases hr : mapE f xs with
      | error e => simp [ha, hr] at h
      | ok zs =>
        simp [ha, hr] at h
        subst h
        simp [mapE_rows_length f w hf xs zs hr, hf a y ha]
        ring

theorem chunksAux_length {β : Type} (w : Nat) (hw : 0 < w) :
    ∀ (fuel n : Nat) (l : List β), l.length = n * w → n ≤ fuel → (chunksAux w fuel l).length = n
  | 0, n, l, hl, hn => by
    have : n = 0 := Nat.le_zero.mp hn
    subst this; simp [chunksAux]
  | fuel + 1, 0, l, hl, _ => by
    have : l = [] := List.length_eq_zero_iff.mp (by simpa using hl)
    subst this; simp [chunksAux]
  | fuel + 1, n + 1, l, hl, hn => by
    have hne : l ≠ [] := by
      intro h; subst h; simp at hl
      omega
    have hw0 : (w == 0) = false := by simp; omega
    have hie : l.isEmpty = false := by simp [hne]
    unfold chunksAux
    simp only [hie, hw0, Bool.or_self, Bool.false_eq_true, if_false, List.length_cons]
    rw [chunksAux_length w hw fuel n (l.drop w) (by rw [List.length_drop, hl]; rw [Nat.add_mul]; omega) (by omega)]

theorem chunks_length {β : Type} (w n : Nat) (hw : 0 < w) (l : List β) (hl : l.length = n * w) :
    (chunks w l).length = n := by
  unfold chunks
  exact chunksAux_length w hw l.length n l hl (by rw [hl]; exact Nat.le_mul_of_pos_right n hw)

end PP
