import Proofs.Lemmas.Batch
import Pose.Gen.Handled
import Pose.Gen.LTypes
import Pose.Gen.Purity
import Pose.Gen.Globals
/-!
# C06 — batching, broadcasting and views are transparent; patching is undone

Clause-carrying theorems only.  Proofs of the long ones, corollaries, table facts and restatements live in
`Proofs/Lemmas/Batch.lean` (primed names).  Core Lean, no Mathlib.  Axioms used: ⊆ {propext, Classical.choice, Quot.sound}
(`Classical.choice` enters through `simp` / `omega` / `decide` on `Nat` and `List`; no theorem states a classical axiom).
The model is `Pose/Model/Batch.lean`; `Pose/Gen/*.lean` are regenerated from `/repo` on every run.

Not covered by an item-wise THEOREM (they do not go through the modelled `binop` site; batched = item-wise is decided for them by
the `regime` / `unary` / `large` streams against the same call on single items): `matrix`, `Jr`, `euler`, `rotation` /
`translation` / `scale`, the conversions of `convert.py`, `cumops` (C12).  `Retr` and the algebra's `add` are covered below.
Views: slices, `select`, `expand` and `permute` / `transpose` have theorems (section "views are transparent").
-/
namespace PP.Batch

/-! ## row-major indexing -/

/-- `unravel ∘ ravel = id` on every valid multi-index of every shape (any rank, any extents). -/
theorem unravel_ravel (s : Shape) (i : List Nat) (h : inb s i) : unravel s (ravel s i) = i :=
  unravel_ravel' h

/-- `ravel ∘ unravel = id` on every valid flat index of every shape. -/
theorem ravel_unravel (s : Shape) (k : Nat) (h : k < numel s) : ravel s (unravel s k) = k :=
  ravel_unravel' h

/-- valid flat indices are exactly the images of valid multi-indices -/
theorem ravel_bound (s : Shape) (i : List Nat) (h : inb s i) : ravel s i < numel s := ravel_lt h

theorem unravel_valid (s : Shape) (k : Nat) (h : k < numel s) : inb s (unravel s k) := unravel_inb h

/-- flat and multi-indices are in bijection: `ravel` is injective on valid multi-indices -/
theorem ravel_injective (s : Shape) (i j : List Nat) (hi : inb s i) (hj : inb s j) (h : ravel s i = ravel s j) : i = j := by
  rw [← unravel_ravel' hi, ← unravel_ravel' hj, h]

example : unravel [2, 3, 4] (ravel [2, 3, 4] [1, 2, 3]) = [1, 2, 3] ∧ ravel [2, 3, 4] [1, 2, 3] = 23 := by decide

/-! ## broadcasting of binary op sites -/

/-- Broadcasting is symmetric. -/
theorem broadcast_comm (a b : Shape) : broadcastShapes a b = broadcastShapes b a := broadcastShapes_comm a b

/-- The broadcast of two scalar batches only: a scalar result forces both operands to be scalar batches
(this is when the code substitutes `shape = (1,)`). -/
theorem broadcast_nil {a b : Shape} (h : broadcastShapes a b = some []) : a = [] ∧ b = [] :=
  broadcast_nil' h

/-- The projections used for pairing address real items of both operands. -/
theorem proj_valid {a b out : Shape} (h : broadcastShapes a b = some out) (i : List Nat) (hi : inb out i) :
    inb a (proj a i) ∧ inb b (proj b i) := ⟨proj_inb_left h hi, proj_inb_right h hi⟩

/-- **Broadcast = item by item.** For every pair of broadcastable lshapes (any rank including none, any
extents including 0), every item-level kernel `f` and every output multi-index `i`:
the op site returns lshape `broadcastShapes …`, and `out[i] = f (x[π₁ i]) (y[π₂ i])` with `π` the torch
broadcasting projections; the last extent is the kernel's `dOut` (the declared fall-back `dDecl` only when
the batch is empty). -/
theorem broadcast_itemwise {α β γ : Type} (f : α → β → γ) (dOut dDecl : Nat) (hd : 0 < dOut)
    (x : T α) (y : T β) (out : Shape) (h : broadcastShapes x.shape y.shape = some out) :
    ∃ r, binop f dOut dDecl x y = some r ∧ r.shape = out ∧
      r.last = (if numel out = 0 then dDecl else dOut) ∧
      ∀ i, inb out i → r.get i = f (x.get (proj x.shape i)) (y.get (proj y.shape i)) :=
  broadcast_itemwise' f dOut dDecl hd x y out h

/-- Corollary in the form the op sites use it (`dDecl = dOut`): the last extent is always the documented one,
including for empty batches (the `dim = … else p.shape[-1]` branch). -/
theorem broadcast_lastdim {α β γ : Type} (f : α → β → γ) (d : Nat) (hd : 0 < d)
    (x : T α) (y : T β) (out : Shape) (h : broadcastShapes x.shape y.shape = some out) :
    ∃ r, binop f d d x y = some r ∧ r.shape = out ∧ r.last = d :=
  broadcast_lastdim' f d hd x y out h

/-- a shape broadcasts with itself to itself (the same-shape call is the un-broadcast op) -/
theorem broadcast_self (s : Shape) : broadcastShapes s s = some s := by
  unfold broadcastShapes; simp [padTo_self, bzip_self]

/-- same-shape operands: the pairing is the identity, `out[i] = f x[i] y[i]` -/
theorem broadcast_same_shape {α β γ : Type} (f : α → β → γ) (d : Nat) (hd : 0 < d) (x : T α) (y : T β)
    (h : x.shape = y.shape) :
    ∃ r, binop f d d x y = some r ∧ r.shape = x.shape ∧ ∀ i, inb x.shape i → r.get i = f (x.get i) (y.get i) := by
  have hb : broadcastShapes x.shape y.shape = some x.shape := by rw [← h]; exact broadcast_self _
  obtain ⟨r, h1, h2, _, h4⟩ := broadcast_itemwise f d d hd x y x.shape hb
  refine ⟨r, h1, h2, ?_⟩
  intro i hi
  rw [h4 i hi, proj_self hi, ← h, proj_self hi]

/-- Non-broadcastable lshapes: the op site raises (and never returns a value). -/
theorem broadcast_raises {α β γ : Type} (f : α → β → γ) (dOut dDecl : Nat) (x : T α) (y : T β)
    (h : broadcastShapes x.shape y.shape = none) : binop f dOut dDecl x y = none := by
  unfold binop broadcastInputs; simp [h]

/-- What `broadcastShapes` is, dimension by dimension (the torch rule, aligned at the trailing end):
the result has the larger rank and, on each aligned dimension, both extents are equal to the result or 1. -/
theorem broadcast_spec {a b out : Shape} (h : broadcastShapes a b = some out) :
    out.length = max a.length b.length ∧
    ∀ k, k < out.length →
      ((padTo out.length a).getD k 0 = out.getD k 0 ∨ (padTo out.length a).getD k 0 = 1) ∧
      ((padTo out.length b).getD k 0 = out.getD k 0 ∨ (padTo out.length b).getD k 0 = 1) ∧
      (out.getD k 0 = (padTo out.length a).getD k 0 ∨ out.getD k 0 = (padTo out.length b).getD k 0) := by
  unfold broadcastShapes at h
  simp only at h
  have hl := (bzip_length h).1
  rw [padTo_length (Nat.le_max_left _ _)] at hl
  refine ⟨hl, ?_⟩
  rw [hl]
  intro k hk
  exact bzip_spec h k (by omega)

example : broadcastShapes [2, 1, 3] [4, 1] = some [2, 4, 3] ∧ broadcastShapes [] [] = some [] ∧
    broadcastShapes [0, 3] [3] = some [0, 3] ∧ broadcastShapes [2] [3] = none ∧
    broadcastShapes [1] [0] = some [0] ∧ proj [4, 1] [1, 3, 2] = [3, 0] := by decide

/-- **The torch rule characterises the result** (converse of `broadcast_spec`): an lshape of the larger rank that agrees,
dimension by dimension (aligned at the trailing end), with each operand or meets a 1 there IS the broadcast. -/
theorem broadcast_iff (a b out : Shape) :
    broadcastShapes a b = some out ↔
      out.length = max a.length b.length ∧ ∀ k, k < out.length →
        ((padTo out.length a).getD k 0 = out.getD k 0 ∨ (padTo out.length a).getD k 0 = 1) ∧
        ((padTo out.length b).getD k 0 = out.getD k 0 ∨ (padTo out.length b).getD k 0 = 1) ∧
        (out.getD k 0 = (padTo out.length a).getD k 0 ∨ out.getD k 0 = (padTo out.length b).getD k 0) := by
  constructor
  · exact broadcast_spec
  · rintro ⟨hl, h⟩
    unfold broadcastShapes
    simp only
    rw [← hl]
    exact bzip_of_spec _ _ out (by rw [padTo_length]; rw [hl]; exact Nat.le_max_left _ _)
      (by rw [padTo_length]; rw [hl]; exact Nat.le_max_right _ _) h

/-- the item dimension rides along: broadcasting the full shapes `lshape ++ [d]` is broadcasting the lshapes -/
theorem broadcast_append_last (a b : Shape) (d : Nat) :
    broadcastShapes (a ++ [d]) (b ++ [d]) = (broadcastShapes a b).map (· ++ [d]) := by
  rw [broadcastShapes_eq_bcastRev _ _ _ rfl, broadcastShapes_eq_bcastRev _ a b rfl]
  simp only [List.reverse_append, List.reverse_cons, List.reverse_nil, List.nil_append, List.singleton_append, bcastRev]
  have : bdim d d = some d := by simp [bdim]
  rw [this]
  cases bcastRev a.reverse b.reverse <;> simp

/-! ## batched = the op on the single pair -/

/-- batched = the op on the single item: a one-item (scalar-batch) call on `x[π₁ i]`, `y[π₂ i]` returns `out[i]` -/
theorem binop_single {α β γ : Type} (f : α → β → γ) (d : Nat) (hd : 0 < d) (x : T α) (y : T β) (out : Shape)
    (h : broadcastShapes x.shape y.shape = some out) (i : List Nat) (hi : inb out i) :
    ∃ r r1, binop f d d x y = some r ∧
      binop f d d ⟨[], fun _ => x.get (proj x.shape i)⟩ ⟨[], fun _ => y.get (proj y.shape i)⟩ = some r1 ∧
      r1.shape = [] ∧ r1.get [] = r.get i := by
  obtain ⟨r, h1, _, _, h4⟩ := broadcast_itemwise f d d hd x y out h
  obtain ⟨r1, g1, g2, _, g4⟩ := broadcast_itemwise f d d hd (⟨[], fun _ => x.get (proj x.shape i)⟩ : T α)
    (⟨[], fun _ => y.get (proj y.shape i)⟩ : T β) [] (show broadcastShapes [] [] = some [] by decide)
  refine ⟨r, r1, h1, g1, g2, ?_⟩
  rw [g4 [] (by simp [inb]), h4 i hi]
  simp [T.get]

example : (binop (fun a b => (a, b)) 3 3 ⟨[2, 1], fun k => k⟩ ⟨[3], fun k => k⟩).map
    (fun r => (r.shape, r.last, (List.range 6).map r.data)) =
    some ([2, 3], 3, [(0, 0), (0, 1), (0, 2), (1, 0), (1, 1), (1, 2)]) := by decide

example : (binop (fun (a b : Nat) => (a, b)) 3 3 ⟨[0, 1], fun k => k⟩ ⟨[3], fun k => k⟩).map (fun r => (r.shape, r.last)) =
    some ([0, 3], 3) ∧
    (binop (fun (a b : Nat) => (a, b)) 3 3 ⟨[], fun k => k⟩ ⟨[], fun k => k⟩).map (fun r => (r.shape, r.last, r.data 0)) =
    some ([], 3, (0, 0)) := by decide

/-! ## `LieTensor.add` (the D14 repair: expand, clone, in-place retraction) -/

/-- `X.add(a)` / `X + a` for a group type equals the retraction applied item by item under broadcasting of
the two lshapes, and returns the broadcast lshape — for every broadcastable pair. -/
theorem add_itemwise {α β : Type} (retr : β → α → α) (d : Nat) (hd : 0 < d) (x : T α) (a : T β) (out : Shape)
    (h : broadcastShapes x.shape a.shape = some out) :
    ∃ r, addOp retr d x a = some r ∧ r.shape = out ∧ r.last = d ∧
      ∀ i, inb out i → r.get i = retr (a.get (proj a.shape i)) (x.get (proj x.shape i)) := by
  have h2 : broadcastShapes a.shape (expandClone x out).shape = some out := broadcastShapes_absorb h
  obtain ⟨r, hr, hs, hl, hv⟩ := broadcast_itemwise retr d d hd a (expandClone x out) out h2
  have hl' : r.last = d := by rw [hl]; split <;> rfl
  refine ⟨r, ?_, hs, hl', ?_⟩
  · unfold addOp
    simp only [h, hr, hs, hl', and_self, if_true]
  · intro i hi
    rw [hv i hi]
    congr 1
    show (expandClone x out).data (ravel out (proj out i)) = _
    rw [proj_self hi]
    simp only [expandClone, flatExpand]
    rw [unravel_ravel' hi]

theorem add_raises {α β : Type} (retr : β → α → α) (d : Nat) (x : T α) (a : T β)
    (h : broadcastShapes x.shape a.shape = none) : addOp retr d x a = none := by
  unfold addOp; simp [h]

/-- `X.add(a, alpha)`: the scaled retraction item by item — `alpha` multiplies `other` before anything else (for every
`alpha`, negative and zero included: `scale` is any item-level map) -/
theorem add_alpha_itemwise {α β : Type} (retr : β → α → α) (scale : β → β) (d : Nat) (hd : 0 < d) (x : T α) (a : T β) (out : Shape)
    (h : broadcastShapes x.shape a.shape = some out) :
    ∃ r, addAlphaOp retr scale d x a = some r ∧ r.shape = out ∧ r.last = d ∧
      ∀ i, inb out i → r.get i = retr (scale (a.get (proj a.shape i))) (x.get (proj x.shape i)) := by
  obtain ⟨r, h1, h2, h3, h4⟩ := add_itemwise retr d hd x ⟨a.shape, fun k => scale (a.data k)⟩ out h
  exact ⟨r, h1, h2, h3, fun i hi => by rw [h4 i hi]; rfl⟩

/-- the algebra's `x + a` (`input.copy_(other1 + other2[..., :m])` on the expanded clone): plain torch broadcasting, item by item -/
theorem alg_add_itemwise {α β : Type} (plus : α → β → α) (d : Nat) (hd : 0 < d) (x : T α) (a : T β) (out : Shape)
    (h : broadcastShapes x.shape a.shape = some out) :
    ∃ r, algAddOp plus d x a = some r ∧ r.shape = out ∧ r.last = d ∧
      ∀ i, inb out i → r.get i = plus (x.get (proj x.shape i)) (a.get (proj a.shape i)) := by
  have h2 : broadcastShapes (expandClone x out).shape a.shape = some out := by
    show broadcastShapes out a.shape = some out
    rw [broadcastShapes_comm]; exact broadcastShapes_absorb h
  obtain ⟨r, hr, hs, hl, hv⟩ := broadcast_itemwise plus d d hd (expandClone x out) a out h2
  have hl' : r.last = d := by rw [hl]; split <;> rfl
  refine ⟨r, ?_, hs, hl', ?_⟩
  · unfold algAddOp
    simp only [h, hr, hs, hl', and_self, if_true]
  · intro i hi
    rw [hv i hi]
    congr 1
    show (expandClone x out).data (ravel out (proj out i)) = _
    rw [proj_self hi]
    simp only [expandClone, flatExpand]
    rw [unravel_ravel' hi]

/-- `X.Retr(a)` = `a.Exp() * X`: `Exp` on every item of `a`, then the product site — item by item under broadcasting -/
theorem retr_itemwise {α β γ : Type} (exp : β → γ) (mul : γ → α → α) (d : Nat) (hd : 0 < d) (x : T α) (a : T β) (out : Shape)
    (h : broadcastShapes a.shape x.shape = some out) :
    ∃ r, retrOp exp mul d x a = some r ∧ r.shape = out ∧ r.last = d ∧
      ∀ i, inb out i → r.get i = mul (exp (a.get (proj a.shape i))) (x.get (proj x.shape i)) := by
  obtain ⟨r, h1, h2, h3, h4⟩ := broadcast_itemwise mul d d hd ⟨a.shape, (unop exp d a).data⟩ x out h
  exact ⟨r, h1, h2, by rw [h3]; split <;> rfl, fun i hi => by rw [h4 i hi]; rfl⟩

/-! ## `__torch_function__`: ltype propagation -/

/-- A handled function returning something: every plain tensor of the result tree becomes a LieTensor with
the ltype of the first LieTensor among the (flattened positional and keyword) arguments; LieTensors already in the result (in-place
functions returning `self`) and non-tensors are left alone. -/
theorem wrap_ltype (handled : List String) (name : String) (args res : List Leaf) (lt : Nat)
    (hn : name ∈ handled) (hres : res ≠ []) (hl : firstLtype args = some lt) :
    ∃ out, torchFunction handled name args res = some out ∧ out.length = res.length ∧
      ∀ k (hk : k < res.length) (hk' : k < out.length),
        (res[k] = Leaf.tensor → out[k] = Leaf.lie lt) ∧ (res[k] ≠ Leaf.tensor → out[k] = res[k]) := by
  refine ⟨res.map (wrapLeaf lt), ?_, by simp, ?_⟩
  · unfold torchFunction; simp [hn, hres, hl]
  · intro k hk hk'
    simp only [List.getElem_map]
    constructor
    · intro h; rw [h]; rfl
    · intro h
      cases hc : res[k] with
      | tensor => exact absurd hc h
      | lie t => rfl
      | other => rfl

/-- No tensor of a handled function's result is left without an ltype. -/
theorem wrap_total (handled : List String) (name : String) (args res out : List Leaf)
    (hn : name ∈ handled) (hres : res ≠ []) (h : torchFunction handled name args res = some out) :
    Leaf.tensor ∉ out := by
  unfold torchFunction at h
  simp only [hres, hn, ne_eq, not_false_eq_true, and_self, if_true] at h
  cases hl : firstLtype args with
  | none => simp [hl] at h
  | some lt =>
    simp only [hl, Option.some.injEq] at h
    subst h
    intro hm
    obtain ⟨l, _, hl'⟩ := List.mem_map.mp hm
    cases l <;> simp [wrapLeaf] at hl'

/-- A function that is not in the list returns what torch returned (plain tensors). -/
theorem unhandled_plain (handled : List String) (name : String) (args res : List Leaf)
    (hn : name ∉ handled) : torchFunction handled name args res = some res := by
  unfold torchFunction; simp [hn]

/-- The error branch of the code: with no LieTensor at all among the flattened positional and keyword
arguments the `[...][0]` raises IndexError.  (Before the D22 repair only positional arguments were flattened and
this branch was reached by every keyword-only call.)  Conversely a LieTensor anywhere in `args` excludes it. -/
theorem handled_no_lietensor_raises (handled : List String) (name : String) (args res : List Leaf)
    (hn : name ∈ handled) (hres : res ≠ []) (hl : firstLtype args = none) :
    torchFunction handled name args res = none := by
  unfold torchFunction; simp [hn, hres, hl]

/-- `firstLtype` finds a LieTensor wherever it sits in the flattened arguments (positional or keyword). -/
theorem firstLtype_isSome (args : List Leaf) (t : Nat) (h : Leaf.lie t ∈ args) : (firstLtype args).isSome = true := by
  induction args with
  | nil => simp at h
  | cons a rest ih =>
    cases a with
    | lie u => simp [firstLtype]
    | tensor =>
      simp only [firstLtype]
      exact ih (by simpa using h)
    | other =>
      simp only [firstLtype]
      exact ih (by simpa using h)

example : torchFunction ["cat"] "cat" [.other, .tensor, .lie 2, .lie 5] [.tensor, .other] = some [.lie 2, .other] := by
  decide

/-- with a `pp.Parameter` among the operands a handled in-place function no longer returns its own `self` object: the
LieTensor it returns is wrapped again (same ltype when `self` is the first LieTensor argument) -/
theorem param_operand_rewraps (handled : List String) (name : String) (t p : Nat) (rest : List Obj)
    (hn : name ∈ handled) :
    torchFunctionCls handled name (.lie t :: .param p :: rest) [.lie t] = some [(.lie t, false)] ∧
    torchFunctionCls handled name (.lie t :: .lie p :: []) [.lie t] = some [(.lie t, true)] := by
  simp [torchFunctionCls, hn, firstLtype, Obj.erase, clsIsParam, wrapObj]

/-! ## the handled-function list (regenerated from the source) -/

/-- Every entry of the library's `HANDLED_FUNCTIONS` — the list as it is in `/repo` right now — has a semantics
in the model's table.  A finite table, so `decide` is a proof, not a sample. -/
theorem handled_classified : ∀ n ∈ PP.Gen.handled, (semOf n).isSome = true := by decide

/-- Every shape-only function the property text names is in the library's list. -/
theorem handled_required : ∀ n ∈ required, n ∈ PP.Gen.handled := by decide

/-- the in-place entries of the regenerated list are exactly the names the property's convention marks (trailing underscore /
`__setitem__`); proof in `Proofs/Lemmas/Batch.lean` -/
theorem handled_inplace_names : ∀ n ∈ PP.Gen.handled,
    ((semOf n).map effectOf = some Effect.inplace) = (inplaceName n = true) := handled_inplace_iff_name

/-! ## shape-only functions are gathers of items -/

/-- **One step is a gather.** If torch accepts the step (`apply = some`), the result holds, at every valid
output multi-index `i`, exactly the input item at the valid input multi-index `g i`. -/
theorem step_gather {α : Type} (x : T α) (st : Step) (s' : Shape) (g : List Nat → List Nat)
    (h : st.apply x.shape = some (s', g)) :
    ∃ m, (IMap.id x.shape).step st = some m ∧ m.out = s' ∧
      ∀ i, inb s' i → inb x.shape (g i) ∧ (m.gather x).get i = x.get (g i) := by
  refine ⟨⟨s', fun k => ravel x.shape (g (unravel s' k))⟩, ?_, rfl, ?_⟩
  · simp [IMap.step, IMap.id, h]
  · intro i hi
    refine ⟨step_inb h hi, ?_⟩
    simp only [IMap.gather, T.get]
    rw [unravel_ravel' hi]

/-- **Pipelines of steps are gathers**: every output item of any accepted pipeline (any length) is an input
item with an in-range flat index. -/
theorem steps_valid (n0 : Nat) : ∀ (sts : List Step) (m m' : IMap), m.Valid n0 → m.steps sts = some m' → m'.Valid n0
  | [], m, m', hv, h => by simp [IMap.steps] at h; subst h; exact hv
  | st :: rest, m, m', hv, h => by
    simp only [IMap.steps] at h
    cases hs : m.step st with
    | none => simp [hs] at h
    | some m1 =>
      simp only [hs] at h
      apply steps_valid n0 rest m1 m' _ h
      unfold IMap.step at hs
      cases ha : st.apply m.out with
      | none => simp [ha] at hs
      | some sg =>
        obtain ⟨s', g⟩ := sg
        simp only [ha, Option.some.injEq] at hs
        subst hs
        intro k hk
        apply hv
        exact ravel_lt (step_inb ha (unravel_inb hk))

theorem pipeline_gather (s : Shape) (sts : List Step) (m : IMap) (h : (IMap.id s).steps sts = some m) :
    m.Valid (numel s) :=
  steps_valid (numel s) sts (IMap.id s) m (fun _ hk => hk) h

/-- **Pipelines have multi-index semantics.** For every accepted pipeline there is a map `G` on multi-indices
(the composition of the steps' maps) such that every valid output index reads the valid input index `G i`. -/
theorem pipeline_multi {α : Type} (x : T α) : ∀ (sts : List Step) (m : IMap) (G : List Nat → List Nat),
    (∀ i, inb m.out i → inb x.shape (G i) ∧ m.src (ravel m.out i) = ravel x.shape (G i)) →
    ∀ m', m.steps sts = some m' →
      ∃ G' : List Nat → List Nat, ∀ i, inb m'.out i → inb x.shape (G' i) ∧ (m'.gather x).get i = x.get (G' i)
  | [], m, G, hG, m', h => by
    simp [IMap.steps] at h; subst h
    refine ⟨G, fun i hi => ⟨(hG i hi).1, ?_⟩⟩
    simp only [IMap.gather, T.get]
    rw [(hG i hi).2]
  | st :: rest, m, G, hG, m', h => by
    simp only [IMap.steps] at h
    cases hs : m.step st with
    | none => simp [hs] at h
    | some m1 =>
      simp only [hs] at h
      unfold IMap.step at hs
      cases ha : st.apply m.out with
      | none => simp [ha] at hs
      | some sg =>
        obtain ⟨s', g⟩ := sg
        simp only [ha, Option.some.injEq] at hs
        subst hs
        apply pipeline_multi x rest _ (fun i => G (g i)) _ m' h
        intro i hi
        have hgi := step_inb ha hi
        refine ⟨(hG _ hgi).1, ?_⟩
        simp only
        rw [unravel_ravel' hi]
        exact (hG _ hgi).2

/-- the corollary from the identity map: `X.f₁(…).f₂(…)…` holds at `i` the input item at `G i` -/
theorem pipeline_items {α : Type} (x : T α) (sts : List Step) (m : IMap) (h : (IMap.id x.shape).steps sts = some m) :
    ∃ G : List Nat → List Nat, ∀ i, inb m.out i → inb x.shape (G i) ∧ (m.gather x).get i = x.get (G i) :=
  pipeline_multi x sts (IMap.id x.shape) (fun i => i) (fun _ hi => ⟨hi, rfl⟩) m h

/-- `reshape`-family functions keep the row-major order of the items (flat identity). -/
theorem reshape_flat (s s' : Shape) (hn : numel s' = numel s) :
    ∃ m, (IMap.id s).step (.reshape s') = some m ∧ m.out = s' ∧ ∀ k, k < numel s' → m.src k = k := by
  refine ⟨_, by simp [IMap.step, IMap.id, Step.apply, hn]; rfl, rfl, ?_⟩
  intro k hk
  simp only
  rw [ravel_unravel' hk, ravel_unravel' (by omega)]

/-- `cat`-family: every output item is an item of one of the inputs, at a valid index of that input. -/
theorem cat_gather (ss : List Shape) (dim : Nat) (out : Shape) (g : List Nat → Nat × List Nat)
    (h : catMap ss dim = some (out, g)) (i : List Nat) (hi : inb out i) :
    (g i).1 < ss.length ∧ inb (ss.getD (g i).1 []) (g i).2 := cat_valid h hi

/-- where a concatenation position comes from: block `t` at offset `r` with `j = Σ_{u<t} L_u + r` -/
theorem cat_offsets (ls : List Nat) (j : Nat) (h : j < ls.sum) :
    (locate ls j).1 < ls.length ∧ (locate ls j).2 < ls.getD (locate ls j).1 0 ∧
    j = (ls.take (locate ls j).1).sum + (locate ls j).2 := locate_spec ls j h

/-- `index_copy` / `select_scatter` / `index_put` / `__setitem__`-family: every output item is the item of
`self` at the same index (position not addressed) or the item of `src` whose index entry addresses it. -/
theorem overwrite_gather (s : Shape) (dim : Nat) (idx : List Nat) (out : Shape) (g : List Nat → Nat × List Nat)
    (h : overwriteMap s dim idx = some (out, g)) (i : List Nat) (hi : inb out i) :
    out = s ∧ (((g i).1 = 0 ∧ (g i).2 = i ∧ ¬ i.getD dim 0 ∈ idx) ∨
      ((g i).1 = 1 ∧ inb (s.set dim idx.length) (g i).2 ∧ idx.getD ((g i).2.getD dim 0) 0 = i.getD dim 0 ∧
        ∀ k, k ≠ dim → (g i).2.getD k 0 = i.getD k 0)) := overwrite_valid h hi

/-- `gather` / `take_along_dim` with an item-constant index: output item `i` is the input item with the
coordinate along `dim` replaced by `index[i]`. -/
theorem gather_gather (s si : Shape) (dim : Nat) (index : Nat → Nat) (out : Shape) (g : List Nat → List Nat)
    (h : gatherMap s si dim index = some (out, g)) (i : List Nat) (hi : inb out i) :
    out = si ∧ inb s (g i) ∧ (g i).getD dim 0 = index (ravel si i) ∧ ∀ k, k ≠ dim → (g i).getD k 0 = i.getD k 0 :=
  gather_valid h hi

/-- `scatter` with an item-constant index: every output item is `self`'s item at the same index or an item
of `src` whose index entry addresses it. -/
theorem scatter_gather (s si ssrc : Shape) (dim : Nat) (index : Nat → Nat) (hd : dim < s.length)
    (hsi : si.length = s.length) (hsrc : ssrc.length = s.length)
    (hle : ∀ k, k < s.length → si.getD k 0 ≤ ssrc.getD k 0) (i : List Nat) (hi : inb s i) :
    ((scatterMap s si dim index i).1 = 0 ∧ (scatterMap s si dim index i).2 = i) ∨
    ((scatterMap s si dim index i).1 = 1 ∧ inb ssrc (scatterMap s si dim index i).2 ∧
      inb si (scatterMap s si dim index i).2 ∧
      index (ravel si (scatterMap s si dim index i).2) = i.getD dim 0 ∧
      ∀ k, k ≠ dim → (scatterMap s si dim index i).2.getD k 0 = i.getD k 0) :=
  scatter_valid hd hsi hsrc hle hi

example : ((IMap.id [2, 3]).steps [.permute [1, 0], .index 0 [2, 0], .reshape [4]]).map
    (fun m => (m.out, (List.range 4).map m.src)) = some ([4], [2, 5, 0, 3]) := by decide

example : (catFlat [[2, 1], [2, 2]] 1).map (fun r => (r.1, (List.range 6).map r.2)) =
    some ([2, 3], [(0, 0), (1, 0), (1, 1), (0, 1), (1, 2), (1, 3)]) := by decide

/-! non-vacuity of the hypotheses above: every kind of step / map is accepted on concrete non-trivial shapes -/

example : ((Step.reshape [3, 2]).apply [2, 3]).map (·.1) = some [3, 2] ∧
    ((Step.permute [2, 0, 1]).apply [2, 3, 4]).map (·.1) = some [4, 2, 3] ∧
    ((Step.index 1 [2, 2, 0]).apply [2, 3]).map (·.1) = some [2, 3] ∧
    ((Step.expand [4, 2, 3]).apply [2, 1]).map (·.1) = some [4, 2, 3] ∧
    ((Step.repeat_ [2, 1, 2]).apply [2, 3]).map (·.1) = some [2, 2, 6] ∧
    ((Step.expand [2, 2]).apply [2, 3]).map (·.1) = none ∧ ((Step.index 0 [2]).apply [2, 3]).map (·.1) = none := by decide

example : (overwriteFlat [2, 3] 1 [2, 0]).map (fun r => (r.1, (List.range 6).map r.2)) =
    some ([2, 3], [(1, 1), (0, 1), (1, 0), (1, 3), (0, 4), (1, 2)]) := by decide

example : (gatherFlat [2, 3] [1, 3] 0 (fun k => [1, 0, 1].getD k 0)).map (fun r => (r.1, (List.range 3).map r.2)) =
    some ([1, 3], [3, 1, 5]) := by decide

example : (List.range 6).map (scatterFlat [2, 3] [1, 3] [1, 3] 0 (fun k => [1, 0, 1].getD k 0)) =
    [(0, 0), (1, 1), (0, 2), (1, 0), (0, 4), (1, 2)] := by decide

/-! ## the LieType table regenerated from the source -/

/-- the generated LieType table of `/repo` is the documented one (names, dimension, embedding, manifold; all eight) -/
theorem ltypes_table : PP.Gen.ltypes.length = 8 ∧ ∀ t ∈ LT.all, (t.className, t.dims.1, t.dims.2.1, t.dims.2.2) ∈ PP.Gen.ltypes := by
  decide

/-! ## static lint over tables emitted by `harness/extract.py` (python `ast`; the extractor is TRUSTED, these are `decide`
over its output: they say "this source text passes the lint", not more) -/

/-- (static lint) **No public function of the anchored files without a trailing underscore writes in place through anything that may
alias one of its arguments** — a finite table regenerated from `/repo`'s source on every run (python `ast`; the alias rules
are those of `harness/extract.py`), so `decide` is a proof about exactly this source text. -/
theorem source_purity : ∀ f ∈ PP.Gen.functions, f.2.2.1 = true → f.2.2.2.1 = false → f.2.2.2.2 = [] := by decide +kernel

/-- the table is not vacuous: it does see the in-place API (`add_`, `identity_`, `cumops_`, …) -/
theorem source_inplace_seen : ∃ f ∈ PP.Gen.functions, f.2.1 = "LieTensor.add_" ∧ f.2.2.2.2 ≠ [] := by decide +kernel

/-! The dtype table of the tensor-creating calls (`Pose/Gen/Creations.lean`, still generated) and the no-device table are NOT proof
obligations any more (pass 9): a purely syntactic "this creator names no dtype / device" fires on harmless rewrites (a 0-dim constant
used as a scalar operand of `torch.where` is dtype- and device-neutral: rewrite C05-6/H1).  They are reported as observations by the
`static` stream; the `defaults` (float64 default dtype) and `devices` (meta operands) streams decide. `creationOk` stays as the
classification the observation uses. -/
example : creationOk ("lietensor/lietensor.py", "so3Type.Jr", "torch.eye(3, device=X.device)", "implicit") = false ∧
    creationOk ("lietensor/lietensor.py", "so3Type.Jr", "torch.eye(3, device=X.device, dtype=X.dtype)", "dtype") = true := by decide

/-- (static lint) **No shared module-level tensor state is written**: the anchored files have no cached (`lru_cache` / `cache`) function
outside the reviewed list, and no in-place write, anywhere, goes through something that may alias a cached function's result or a
module-level tensor constant — also not through a helper that returns such an alias (`eye_like(…, writable=True)` of seed C01-5:
`_eye(n).expand(…).contiguous()` IS the cached tensor for a single item).  Mutable default arguments are all reviewed. -/
theorem shared_state_clean :
    (∀ c ∈ PP.Gen.cachedFunctions, c ∈ reviewedCaches) ∧ PP.Gen.sharedStateWrites = [] ∧
    (∀ d ∈ PP.Gen.mutableDefaults, d ∈ reviewedDefaults) := by decide

/-! ## views are transparent (pass 7)

An operand that is a VIEW reaches the op as base storage + offset + strides (`View`); every op site first calls `.contiguous()`
(`broadcast_inputs`: `expand(...).reshape(-1, d).contiguous()`).  The theorems: `.contiguous()` of ANY view holds exactly the viewed
items in row-major order; torch's stride rules for slices (`X[a:b:c]`, `narrow`), `select` (`X[k]`) and `expand` address exactly the
items the index maps of the shape-only functions (`Step.index`, `proj`) name.  So an op on such a view is the op on the gathered
items, to which `broadcast_itemwise` etc. apply.  `permute` / `transpose` / `movedim` views: `view_permute` (pass 10), for a permutation
given as a `List.Perm` of `0 … rank-1`. -/

/-- a contiguous tensor, addressed through its own row-major strides, is itself -/
theorem view_of_contiguous {α : Type} (t : T α) (i : List Nat) (h : inb t.shape i) : (View.ofT t).get i = t.get i :=
  view_ofT_get' t i h

/-- **`.contiguous()` is transparent**: for every view (any base, offset, strides — overlapping or not) the contiguous copy holds at
every valid multi-index the item the view addresses there -/
theorem contiguous_of_view {α : Type} (v : View α) (i : List Nat) (h : inb v.shape i) : v.contiguous.get i = v.get i :=
  view_contiguous_get' v i h

/-- round trip: view of a contiguous tensor, made contiguous again, is the tensor (every flat position) -/
theorem contiguous_roundtrip {α : Type} (t : T α) (k : Nat) (h : k < numel t.shape) : (View.ofT t).contiguous.data k = t.data k :=
  contiguous_ofT' t k h

/-- **slices are index maps**: the view `v[..., start::step, ...]` (offset `+ start·stride`, stride `·step`) addresses at `i` the item
`v` addresses at `i` with position `i[dim]` replaced by `start + i[dim]·step` — exactly `Step.index dim [start, start+step, …]` -/
theorem view_slice {α : Type} (v : View α) (dim start step len : Nat) (i : List Nat) (h : i.length = v.strides.length) :
    (v.slice dim start step len).get i = v.get (i.modify dim (fun j => start + j * step)) := by
  have := dot_slice start step dim i v.strides h
  simp only [View.slice, View.get]
  congr 1
  omega

/-- `select` (an integer index): the dimension disappears, the item is the one at `idx` there -/
theorem view_select {α : Type} (v : View α) (dim idx : Nat) (i : List Nat) (hd : dim < v.strides.length)
    (h : i.length + 1 = v.strides.length) : (v.select dim idx).get i = v.get (i.insertIdx dim idx) := by
  have := dot_select idx dim i v.strides hd h
  simp only [View.select, View.get]
  congr 1
  omega

/-- **`expand` views are the broadcasting projection**: stride 0 on new / expanded dimensions addresses the item at `proj shape i` —
the same projection `broadcast_itemwise` pairs operands with -/
theorem view_expand {α : Type} (v : View α) (s' : Shape) (i : List Nat) (hi : i.length = s'.length) :
    (v.expand s').get i = v.get (proj v.shape i) := by
  simp only [View.expand, View.get, proj, dot_replicate_zero, dot_expandEq, hi]

/-- the chain the harness exercises: a slice of a contiguous tensor, made contiguous for the op, holds the items of the tensor at the
sliced positions (whenever those positions exist in `x`) -/
theorem slice_then_contiguous {α : Type} (x : T α) (dim start step len : Nat) (i : List Nat)
    (hi : inb (x.shape.set dim len) i) (hx : inb x.shape (i.modify dim (fun j => start + j * step))) :
    ((View.ofT x).slice dim start step len).contiguous.get i = x.get (i.modify dim (fun j => start + j * step)) := by
  have hlen : i.length = (View.ofT x).strides.length := by
    have h1 := inb_length hx
    have h2 : (cstrides x.shape).length = x.shape.length := by
      generalize x.shape = s
      induction s with
      | nil => rfl
      | cons _ _ ih => simp [cstrides, ih]
    simp [View.ofT, h2] at h1 ⊢
    exact h1
  rw [contiguous_of_view _ _ (by simpa [View.slice, View.ofT] using hi), view_slice _ _ _ _ _ _ hlen, view_of_contiguous _ _ hx]

/-- **`permute` / `transpose` / `movedim` views are index permutations**: for a permutation `p` of the dimensions (given as a list that is a
`List.Perm` of `0 … rank-1`) the view with permuted strides addresses at `i` the item `v` addresses at `unpermute p i` (`j[p[k]] = i[k]`) —
the index map of `Step.permute` -/
theorem view_permute {α : Type} (v : View α) (p i : List Nat) (hp : p.Perm (List.range v.strides.length)) (hi : i.length = p.length) :
    (v.permute p).get i = v.get (unpermute p i) := by
  simp only [View.permute, View.get, dot_permute p i v.strides hp hi]

/-- **`permute` views = the handled function `permute`, under the model's own acceptance test**: whenever `Step.permute p` is accepted on the
view's lshape (`isPerm`, the boolean test of the model of the shape-only functions), the view with permuted strides has the step's
output lshape and addresses at every index of full rank the item the step's index map names — no further hypothesis on `p` -/
theorem view_permute_step {α : Type} (v : View α) (hv : v.strides.length = v.shape.length) (p : List Nat) (s' : Shape) (g : List Nat → List Nat)
    (h : Step.apply v.shape (.permute p) = some (s', g)) (i : List Nat) (hi : i.length = p.length) :
    (v.permute p).shape = s' ∧ (v.permute p).get i = v.get (g i) := by
  simp only [Step.apply] at h
  split at h
  · rename_i hp
    simp only [Option.some.injEq, Prod.mk.injEq] at h
    refine ⟨by simpa [View.permute] using h.1, ?_⟩
    rw [← h.2]
    exact view_permute v p i (hv ▸ isPerm_perm hp) hi
  · simp at h

/-- the chain the harness exercises with its `perm` layout: a permuted view of a contiguous tensor, made contiguous for the op, holds the
items of the tensor at the permuted positions -/
theorem permute_then_contiguous {α : Type} (x : T α) (p i : List Nat) (hp : isPerm p x.shape.length = true)
    (hi : inb (p.map (fun a => x.shape.getD a 0)) i) (hx : inb x.shape (unpermute p i)) :
    ((View.ofT x).permute p).contiguous.get i = x.get (unpermute p i) := by
  have h2 : (cstrides x.shape).length = x.shape.length := by
    generalize x.shape = s
    induction s with
    | nil => rfl
    | cons _ _ ih => simp [cstrides, ih]
  have hlen : i.length = p.length := by simpa using inb_length hi
  have hshape : ((View.ofT x).permute p).shape = p.map (fun a => x.shape.getD a 0) := rfl
  rw [contiguous_of_view _ _ (by rw [hshape]; exact hi),
    view_permute _ _ _ (by simpa [View.ofT, h2] using isPerm_perm hp) hlen, view_of_contiguous _ _ hx]

/-- **`expand` views = the handled function `expand`, under the model's own acceptance test** (pass 11, the analogue of `view_permute_step`):
whenever `Step.expand s'` is accepted on the view's lshape, the stride-0 view has the step's output lshape and addresses at every index
of full rank the item the step's index map (`proj`) names -/
theorem view_expand_step {α : Type} (v : View α) (s' s'' : Shape) (g : List Nat → List Nat)
    (h : Step.apply v.shape (.expand s') = some (s'', g)) (i : List Nat) (hi : i.length = s'.length) :
    (v.expand s').shape = s'' ∧ (v.expand s').get i = v.get (g i) := by
  simp only [Step.apply] at h
  split at h
  · simp only [Option.some.injEq, Prod.mk.injEq] at h
    refine ⟨by simpa [View.expand] using h.1, ?_⟩
    rw [← h.2]
    exact view_expand v s' i hi
  · simp at h

/-- the chain the harness exercises with its `expand` layout (and what `broadcast_inputs` does to each operand): an expanded view of a
contiguous tensor, made contiguous for the op, holds at every valid index `i` of the target lshape the item of `x` at the broadcasting
projection `proj x.shape i` — which is a valid index of `x` (no hypothesis besides torch's own acceptance of the expand) -/
theorem expand_then_contiguous {α : Type} (x : T α) (s' : Shape) (hb : broadcastShapes x.shape s' = some s') (i : List Nat) (hi : inb s' i) :
    inb x.shape (proj x.shape i) ∧ ((View.ofT x).expand s').contiguous.get i = x.get (proj x.shape i) := by
  have hx := (proj_valid hb i hi).1
  refine ⟨hx, ?_⟩
  have hshape : ((View.ofT x).expand s').shape = s' := rfl
  rw [contiguous_of_view _ _ (by rw [hshape]; exact hi), view_expand _ _ _ (inb_length hi)]
  exact view_of_contiguous x _ hx

/-! non-vacuity: `x` of lshape (4, 3) with items numbered row-major; `x[1::2]` at (1, 2) is item (3, 2) = 11; `x[:, 1]` at (2) is item
(2, 1) = 7; a (1, 3) tensor expanded to (2, 2, 3) at (1, 1, 2) is item (0, 2) = 2 -/
example : (((View.ofT (⟨[4, 3], id⟩ : T Nat)).slice 0 1 2 2).contiguous.get [1, 2]) = 11 := by decide
example : inb ([4, 3].set 0 2) [1, 2] ∧ inb [4, 3] ([1, 2].modify 0 (fun j => 1 + j * 2)) := by simp [inb, List.modify]
example : (((View.ofT (⟨[4, 3], id⟩ : T Nat)).select 1 1).contiguous.get [2]) = 7 := by decide
example : (((View.ofT (⟨[1, 3], id⟩ : T Nat)).expand [2, 2, 3]).contiguous.get [1, 1, 2]) = 2 := by decide
/-! `x.transpose(0, 1)` of lshape (4, 3) at (2, 1) is item (1, 2) = 5; `movedim(0, -1)` of (2, 3, 4) (p = [1, 2, 0]) at (2, 3, 1) is item (1, 2, 3) = 23;
the hypotheses of `view_permute` / `permute_then_contiguous` hold for them -/
example : (((View.ofT (⟨[4, 3], id⟩ : T Nat)).permute [1, 0]).contiguous.get [2, 1]) = 5 := by decide
example : (((View.ofT (⟨[2, 3, 4], id⟩ : T Nat)).permute [1, 2, 0]).contiguous.get [2, 3, 1]) = 23 := by decide
/-! pass 11: the (1, 3) tensor expanded to (2, 2, 3) is accepted by `Step.expand` and by `broadcastShapes`; index (1, 1, 2) is valid -/
example : broadcastShapes [1, 3] [2, 2, 3] = some [2, 2, 3] ∧ (Step.apply [1, 3] (.expand [2, 2, 3])).isSome = true := by decide
example : inb [2, 2, 3] [1, 1, 2] ∧ proj [1, 3] [1, 1, 2] = [0, 2] := by simp [inb, proj, projEq]
example : [1, 2, 0].Perm (List.range 3) ∧ [1, 0].Perm (List.range 2) ∧ isPerm [1, 2, 0] 3 = true ∧ unpermute [1, 2, 0] [2, 3, 1] = [1, 2, 3] := by decide

/-! ## `retain_ltype` / `func.jacrev`

Generic development (any home policy `H`, a set iteration order per context, try/except in bodies) in
`Proofs/Lemmas/Batch.lean`.  The code as it is (since the D44 repair) is the policy `homeSlot`: saved `(module, name, function)`
triples, wrap in place, restore in place.  `homeCur` is the code before D44 (restoring by `(__module__, __name__)` look-ups after
rewriting `_add_batch_dim.__module__`); its instance theorems are kept because reverting D44 is a rehearsed mutation. -/
namespace Retain

/-- **`retain_restores`.** For every body — any number of wrapped calls, any nesting of further contexts (each with its own
order), try/except around any part, returning or raising at any point, even an exception inside the patch loop (`failAt`) —
EVERY slot, the three patched ones and anything else in the touched modules, holds after the context exactly what it held
before.  No hypothesis on the table: whatever sits in the slots (originals, wrappers of an enclosing context, somebody else's
monkey-patch) comes back. -/
theorem retain_restores (ord : List Nat) (hord : ∀ s ∈ ord, s < 3) (t : Table) (body : Body) (hb : body.ok)
    (failAt : Option Nat) : ∀ q, (retain homeSlot ord t body failAt).1 q = t q :=
  retain_restores_all_bySlot' ord hord t body hb failAt

/-- **No state leaks between calls**: any history of contexts (reuse of the decorator / of one jacrev wrapper), each with its
own order, body and outcome, leaves every slot as it was before the first -/
theorem retain_history : ∀ (hist : List (List Nat × Body × Option Nat)) (t : Table),
    (∀ e ∈ hist, (∀ s ∈ e.1, s < 3) ∧ e.2.1.ok) → ∀ q, history homeSlot t hist q = t q
  | [], _, _, _ => rfl
  | (ord, b, fa) :: rest, t, hh, q => by
    simp only [history]
    have he := hh (ord, b, fa) List.mem_cons_self
    have h1 := retain_restores ord he.1 t b he.2 fa
    have : (retain homeSlot ord t b fa).1 = t := funext h1
    rw [this]
    exact retain_history rest t (fun e hm => hh e (List.mem_cons_of_mem _ hm)) q

/-- **A failing call is atomic**: a context that failed in any way, followed by a second one, IS the second one alone —
same table, same outcome, same call log -/
theorem retain_atomic (ord1 ord2 : List Nat) (h1 : ∀ s ∈ ord1, s < 3) (t : Table) (b1 b2 : Body) (hb1 : b1.ok) (fa : Option Nat) :
    retain homeSlot ord2 (retain homeSlot ord1 t b1 fa).1 b2 none = retain homeSlot ord2 t b2 none := by
  have : (retain homeSlot ord1 t b1 fa).1 = t := funext (retain_restores ord1 h1 t b1 hb1 fa)
  rw [this]

/-- **Inside the context every call finds a wrapper** — entered with any table and any full order: at any nesting depth
(a nested context wraps the wrapper once more), under try/except, before or after inner contexts exited or raised -/
theorem retain_calls_wrapped (ord : List Nat) (hord : okOrd ord) (t : Table) (body : Body) (hb : body.ok) :
    ∀ f ∈ (retain homeSlot ord t body none).2.2, ∃ g, f = Fn.wrap g := by
  have hw : Wrapped (patch homeSlot t (captured t ord)) := by
    intro s hs
    -- slot s occurs in the order, and by-slot patching writes `wrap (·)` into it
    have gen : ∀ (l : List Nat) (u : Table), s ∈ l → ∃ g, patch homeSlot u (captured t l) s = Fn.wrap g := by
      intro l
      induction l with
      | nil => intro u h; simp at h
      | cons a rest ih =>
        intro u h
        simp only [captured, List.map_cons, patch, homeSlot]
        by_cases hr : s ∈ rest
        · exact ih _ hr
        · have ha : s = a := by rcases List.mem_cons.mp h with h | h; exact h; exact absurd h hr
          subst ha
          have hno : ∀ c ∈ List.map (fun q => (q, t q)) rest, homeSlot c.1 c.2 ≠ s := by
            intro c hc
            obtain ⟨q, hq, rfl⟩ := List.mem_map.mp hc
            simp only [homeSlot]
            intro e; subst e; exact hr hq
          have := patch_other homeSlot (List.map (fun q => (q, t q)) rest) (u.set s (Fn.wrap (t s))) s hno
          show ∃ g, patch homeSlot (u.set s (Fn.wrap (t s))) (List.map (fun q => (q, t q)) rest) s = Fn.wrap g
          rw [this]
          exact ⟨t s, by simp [Table.set]⟩
    exact gen ord t (hord.2 s hs)
  have := (run_log_wrappers' homeSlot body _ hw hb).2
  unfold retain
  simp only
  exact this

/-- **Why D44 was a defect (the reverted code, `homeCur`)**: one context nested in another — whatever the two iteration orders —
left `torch._functorch.vmap.wrapper` (slot 4) holding the outer wrapper after both had exited, although the three patched slots
were back.  Reproduced on the pre-D44 implementation (`hasattr(torch._functorch.vmap, 'wrapper')` False → True); the revert of
D44 is a rehearsed mutation of the check. -/
theorem nested_leaks_cur : ∀ o1 ∈ orders, ∀ o2 ∈ orders,
    (retain homeCur o1 pristine (.nest o2 .ret .ret) none).1 4 = Fn.wrap (Fn.orig 2) ∧
    (retain homeCur o1 pristine (.nest o2 .ret .ret) none).1 4 ≠ pristine 4 ∧
    ∀ q, q < 3 → (retain homeCur o1 pristine (.nest o2 .ret .ret) none).1 q = pristine q := nested_leaks_cur'

/-- the reverted code still restored the three patched slots (that is all the old check looked at) -/
theorem retain_restores_slots_cur (ord : List Nat) (hord : ∀ s ∈ ord, s < 3) (t : Table) (hw : WellHomed homeCur t) (body : Body)
    (hb : body.ok) (failAt : Option Nat) : ∀ q, q < 3 → (retain homeCur ord t body failAt).1 q = t q :=
  retain_restores' homeCur homeCur_wrapOk ord hord t hw body hb failAt

example : (retain homeSlot [2, 0, 1] pristine (.call 0 (.nest [1, 2, 0] (.call 1 .raise) .ret)) none).2 =
      (Outcome.raised, [Fn.wrap (Fn.orig 0), Fn.wrap (Fn.wrap (Fn.orig 1))]) ∧
    (retain homeSlot [2, 0, 1] pristine (.try_ (.nest [0, 1, 2] (.call 2 .raise) .ret) (.call 1 .ret) .ret) none).2 =
      (Outcome.ok, [Fn.wrap (Fn.wrap (Fn.orig 2)), Fn.wrap (Fn.orig 1)]) ∧
    (List.range 5).map (retain homeSlot [2, 0, 1] pristine (nestN [1, 0, 2] 7 (.call 1 .raise)) none).1 = (List.range 5).map pristine ∧
    (List.range 5).map (retain homeCur [2, 0, 1] pristine (nestN [1, 0, 2] 7 (.call 1 .raise)) none).1 =
      [Fn.orig 0, Fn.orig 1, Fn.orig 2, Fn.wrap (Fn.orig 0), Fn.wrap (Fn.orig 2)] := by
  decide

end Retain

end PP.Batch
