import Pose.Model.Lie
/-!
# Batch-level model of the masked assignments in `so3_Exp.forward`, `so3_Jl`, `rxso3_Ws` (C01)

The code computes boolean masks from the whole batch, evaluates the closed-form and the Taylor expressions on the
masked sub-batches and scatters them into one output (`out[idx] = …; out[~idx] = …`).  `maskSelect` models that
scatter; the `*Batch` functions follow the code's batch-level data flow.  `Proofs/Props/C01.lean` proves that they
are the item-wise maps of the item-level models — for every mixture of regimes inside one batch.
-/
namespace PP
variable {α : Type} [Scalar α]

/-- `out[m] = a[m]; out[~m] = b[~m]` -/
def maskSelect {β : Type} : List Bool → List β → List β → List β
  | c :: m, x :: a, y :: b => (if c then x else y) :: maskSelect m a b
  | _, _, _ => []

/-- closed-form branch of `so3_Exp.forward` -/
def so3ExpClosed (x : Vec3 α) : Quat α :=
  let th := x.norm
  Quat.mk' (x.smul (Scalar.sin (q 1 2 * th) / th)) (Scalar.cos (q 1 2 * th))
/-- Taylor branch of `so3_Exp.forward` -/
def so3ExpTaylor (x : Vec3 α) : Quat α :=
  let th := x.norm
  let th2 := th * th
  let th4 := th2 * th2
  Quat.mk' (x.smul (q 1 2 - q 1 48 * th2 + q 1 3840 * th4)) (k 1 - q 1 8 * th2 + q 1 384 * th4)

/-- `so3_Exp.forward` on a batch: `idx = theta > eps`, both expressions, scatter -/
def so3ExpBatch (eps : α) (xs : List (Vec3 α)) : List (Quat α) :=
  maskSelect (xs.map fun x => Scalar.lt eps x.norm) (xs.map so3ExpClosed) (xs.map so3ExpTaylor)

/-- the four condition masks of `rxso3_Ws` on a batch of `(θ, σ)` and the scattered coefficients `(A, B, C)` -/
def wsCoefBatch (eps : α) (ts : List (α × α)) : List (α × α × α) :=
  let sl := ts.map fun p => Scalar.lt eps (sabs p.2)
  let tl := ts.map fun p => Scalar.lt eps p.1
  let C := maskSelect sl (ts.map fun p => (Scalar.exp p.2 - k 1) / p.2) (ts.map fun _ => k 1)
  let c1 := ts.map fun _ => ((q 1 2 : α), (q 1 6 : α))
  let c2 := ts.map fun p => ((k 1 - Scalar.cos p.1) * (k 1 / (p.1 * p.1)), (p.1 - Scalar.sin p.1) / (p.1 * p.1 * p.1))
  let c3 := ts.map fun p =>
    let scale := Scalar.exp p.2; let em1 := scale - k 1; let s2 := p.2 * p.2
    ((p.2 * scale - em1) / s2, (q 1 2 * s2 * scale + em1 - p.2 * scale) / (s2 * p.2))
  let c4 := ts.map fun p =>
    let th := p.1; let sigma := p.2
    let scale := Scalar.exp sigma; let em1 := scale - k 1; let s2 := sigma * sigma; let t2 := th * th
    let Cv := em1 / sigma
    let a := scale * Scalar.sin th
    let sh := Scalar.sin (q 1 2 * th)
    let bm1 := em1 * Scalar.cos th - k 2 * (sh * sh)
    let c := t2 + s2
    ((a * sigma - bm1 * th) / (th * c), (Cv - (bm1 * sigma + a * th) / c) * (k 1 / t2))
  -- A[cond1], A[cond2], A[cond3], A[cond4] — the masks partition the batch
  let AB := maskSelect sl (maskSelect tl c4 c3) (maskSelect tl c2 c1)
  List.zipWith (fun ab c => (ab.1, ab.2, c)) AB C


/-! ## Objects, copies, failing calls (model of caller-held algebra LieTensors)

A store of named objects, each holding a batch.  `setitem` is an in-place item assignment, `deepcopy` gives the
destination its own data, `failing` is a call that raises (e.g. `Exp` of a tensor of the wrong width), `read` is
`Exp()` / `matrix()` in any grad mode.  Only the first two change the store. -/

inductive ObjOp (β : Type) where
  | setitem (n i : Nat) (y : β)
  | deepcopy (dst src : Nat)
  | failing (n : Nat)
  | read (n : Nat)

abbrev Store (β : Type) := Nat → List β

def ObjOp.step {β : Type} (s : Store β) : ObjOp β → Store β
  | .setitem n i y => fun m => if m = n then (s n).set i y else s m
  | .deepcopy dst src => fun m => if m = dst then s src else s m
  | .failing _ => s
  | .read _ => s

def ObjOp.changes {β : Type} : ObjOp β → Bool
  | .setitem .. => true
  | .deepcopy .. => true
  | _ => false

def runOps {β : Type} (s : Store β) (ops : List (ObjOp β)) : Store β := ops.foldl ObjOp.step s

/-- what `Exp` (item-level function `f`) returns for object `n` in store `s` -/
def readObj {β γ : Type} (f : β → γ) (s : Store β) (n : Nat) : List γ := (s n).map f

end PP
