"""C06 — batching, broadcasting and views are transparent; pure ops never mutate inputs; the temporary
patching done by retain_ltype / func.jacrev is undone on every exit path.

Model: lean/Pose/Model/Batch.lean; theorems: lean/Proofs/Props/C06.lean (broadcast_itemwise, broadcast_lastdim,
broadcast_raises, add_itemwise, unop_itemwise, wrap_ltype, handled_classified, handled_required, step_gather,
pipeline_gather, cat_gather, overwrite_gather, gather_gather, scatter_gather, retain_restores, …).
The list HANDLED_FUNCTIONS is regenerated from the source on every run (harness/extract.py).

Correspondence streams (implementation vs the model's own definitions run by drv_c06, all exact/discrete)
  regen      source literal (ast) == runtime list == list compiled into the driver; every name has a semantics
  binputs    operation.broadcast_inputs on every broadcastable lshape pair (rank<=3, extents 0..3): flattened
             operands row by row, n, out_shape
  bcast      every binary op site x group on tagged operands: lshape, last extent, which items met (pairing)
  bcast-err  non-broadcastable pairs: both raise
  unary      every unary op on every lshape: lshape and item-wise value
  regime     (oracle only) ONE batch mixing special-regime items (gimbal lock +-, angle 0 / pi / tiny, w<0) with ordinary
             ones, every unary op and every binary site: each output item == the same function on that item alone
  ctor       identity_* / randn_* / *_like / lview / LieTensor() shape assertion / Parameter / new_empty
  handled    every function of the regenerated list on element-tagged LieTensors: type, ltype, dtype, lshape and
             exactly which input item sits where (index maps of the model)
  tf         __torch_function__ wrapping (handled / not handled / mixed plain+Lie arguments)
  retain     random bodies: k wrapped calls, nested contexts, raise at any point; jacrev of raising functions
Oracles on the real code (independent of the model): torch.broadcast_tensors on tag tensors + the same op applied
item by item (scalar batch), element tags for views, `is` identity of the three torch attributes, and the purity
monitor (bit-for-bit snapshot of every tensor argument) over all public non-underscore functions.
"""
from __future__ import annotations

import copy
import itertools
import math
import os
import random
import re
import traceback
import warnings

import torch

from . import common, extract
from .common import Ctx
from .util_batch import same_values  # noqa: E402
from .util_batch import (ALGEBRA, DIM, DT, GROUPS, LTYPES, MANIFOLD, Pools, all_shapes, decode_items, elem_tagged,
                         ltype_name, ltype_of, make_tagged, numel, parse_out, pp, py_broadcast, wl)

META = {
    "rule": "lshape pairs: ALL 7225 ordered pairs of lshapes of rank<=3 with extents in {0,1,2,3} (2479 broadcastable, "
            "4746 not) — broadcast_inputs on every pair every run; op sites: a deterministic corpus (every site x every pair of 10 core lshapes, lshapes of rank 4-6 / extents 5-7) then every pair with 1 of the 8 group ops (+ alg_add on every fourth pair) per run, group and op "
            "chosen by (pair, op, seed) rotation plus all 36 sites on a core set of pairs (quick), the full cross product "
            "(thorough); unary / constructors: all 85 lshapes x 8 ltypes; handled functions: every name of the regenerated "
            "list x several call recipes x random lshape (rank 0..3, extents 0..3) x rotating ltype/dtype; regime: a fixed corner "
            "corpus (18 special-regime + 5 ordinary items per ltype) in ONE batch, several layouts, every unary op and binary "
            "site vs the same function on each item alone, identical for every seed, plus random permutations; retain: random "
            "bodies (calls, nesting <= 3, raise at a random point) + exhaustive small bodies. round 5: a process-start baseline (values and gradients of every "
            "unary op / binary site on 3 fixed items, both dtypes) re-evaluated after every op ran on single-item / all-1 batches forward and "
            "backward, and again after the whole run; every handled function and the class's own container operations on int64/32/16/8, uint8, "
            "bool, float16, bfloat16, complex64; batches of 2^17+37 items (quick: all cheap entries, a sixth of the expensive ones per seed; "
            "thorough: also 2^18+1, 2^18+37, 2^20+1 for every entry). A case is non-trivial when the "
            "result has >= 2 items or an empty/scalar batch branch is exercised; distinct by (stream, op/function, ltype, "
            "lshapes, dtype).",
    "trusted": ["torch's own shape functions / broadcasting (external kernel): their index maps are model definitions "
                "compared with the real functions on every run",
                "the syntactic alias rules of harness/extract.py behind lean/Pose/Gen/Purity.lean (conservative may-alias "
                "analysis of the anchored sources; `source_purity` is a theorem about that table)",
                "python `ast` extraction of HANDLED_FUNCTIONS (harness/extract.py)",
                "the syntactic shared-state table lean/Pose/Gen/Globals.lean (cached tensor factories, module-/class-level tensor constants "
                "and containers, in-place writes through their possible aliases, mutable defaults): `shared_state_clean` is a theorem about "
                "that table, the extractor is trusted"],
    "assumptions": ["axioms of the theorems: ⊆ {propext, Classical.choice, Quot.sound}",
                    "retain_restores (code since D44: restoring by saved (module, name, function) triples) needs no hypothesis on the "
                    "table; the pre-D44 policy `homeCur` is kept as the model of the reverted code (policy read from the source)",
                    "item-level kernels are treated as opaque functions f: the theorems are about pairing/shape, the "
                    "values of f are the business of C01-C05"],
    "partial": ["non-mutation of arguments is a statement about side effects of Python code; the functional model is pure by "
                "construction, so this clause is decided by the purity monitor (exploration over synthesised arguments), "
                "not by a theorem",
                "handled functions: the theorems say each modelled index map selects valid input items (and which); that "
                "torch's functions ARE these maps is checked by sampling on tagged tensors, not proved",
                "device: only cpu is exercised (no CUDA on this machine); `cuda` of the handled list is skipped"],
}

POOLS = Pools()
SHAPES = all_shapes()


# ============================================================================= regeneration + list consistency

def stream_regen(ctx: Ctx):
    """DESIGN §2.2(b): re-read HANDLED_FUNCTIONS from the source, rewrite lean/Pose/Gen/Handled.lean when it
    changed (and rebuild C06's own targets so the obligation is re-checked in this very run)."""
    try:
        names, changed = extract.regenerate()
    except extract.ExtractError as e:
        ctx.disagree("regen", {"kind": "regen"}, f"HANDLED_FUNCTIONS cannot be read from the source: {e}")
        from pypose.lietensor import lietensor as L
        return list(L.HANDLED_FUNCTIONS)
    ctx.count("regen.entries", len(names))
    if changed:
        ctx.notes.append("lean/Pose/Gen/Handled.lean rewritten from the source; rebuilding Proofs.Props.C06 drv_c06")
        ok, log = common.lake_build(["Proofs.Props.C06", "drv_c06"])
        if not ok:
            import re
            bad = re.findall(r"error: (\S+\.lean:\d+:\d+: .*)", log)
            ctx.disagree("regen", {"kind": "regen", "names": names},
                         "obligation over the regenerated list no longer checks: " + "; ".join(bad[:4]) + log[-300:])
    from pypose.lietensor import lietensor as L
    runtime = list(L.HANDLED_FUNCTIONS)
    if runtime != names:
        ctx.disagree("regen", {"kind": "regen", "source": names, "runtime": runtime},
                     "the list the code uses at run time differs from the source literal")
    rep = ctx.driver.run(["c06.handled"])[0]
    st, toks = common.parse_reply(rep)
    if (st != "ok" or toks != names) and not changed:
        # generated file up to date but the binary is older (e.g. the file was regenerated outside a run): rebuild once
        ctx.notes.append("drv_c06 was built from another HANDLED list; rebuilding")
        common.lake_build(["Proofs.Props.C06", "drv_c06"])
        rep = ctx.driver.run(["c06.handled"])[0]
        st, toks = common.parse_reply(rep)
    if st != "ok" or toks != names:
        ctx.disagree("regen", {"kind": "regen", "source": names, "driver": toks},
                     "the list compiled into the model driver differs from the source literal (stale build?)")
    # every name needs a semantics in the model table and a call recipe here
    reps = ctx.driver.run([f"c06.sem {n}" for n in sorted(set(names))])
    for n, rep in zip(sorted(set(names)), reps):
        st, toks = common.parse_reply(rep)
        if st != "ok":
            ctx.disagree("regen", {"kind": "regen", "name": n}, f"handled function `{n}` has no semantics in the model table")
        elif n not in RECIPES and n not in NO_CALLABLE:
            ctx.disagree("regen", {"kind": "regen", "name": n}, f"handled function `{n}` has no call recipe in the harness")
    ctx.note_case(("regen", len(names)), True)
    return names


# ============================================================================= binary op sites

def algebra_lt(g):
    return ltype_of(ALGEBRA[g])


def _lie(t, name):
    return pp().LieTensor(t, ltype=ltype_of(name))


# site -> (pool of first operand, pool of second operand, out kind, callables by api variant)
def binop_sites():
    S = {}
    for g in GROUPS:
        a = ALGEBRA[g]
        S[(g, "mul")] = dict(px=g, py=g, out=g, wrap_y=g, apis={
            "op*": lambda X, Y: X * Y, "op@": lambda X, Y: X @ Y, "m.mul": lambda X, Y: X.mul(Y),
            "pp.mul": lambda X, Y: pp().mul(X, Y), "pp.Mul": lambda X, Y: pp().Mul(X, Y)})
        S[(g, "act3")] = dict(px=g, py="p3", out=None, wrap_y=None, apis={
            "m.Act": lambda X, p: X.Act(p), "op@": lambda X, p: X @ p, "op*": lambda X, p: X * p,
            "pp.Act": lambda X, p: pp().Act(X, p)})
        S[(g, "act4")] = dict(px=g, py="p4", out=None, wrap_y=None, apis={
            "m.Act": lambda X, p: X.Act(p), "op@": lambda X, p: X @ p, "pp.Act": lambda X, p: pp().Act(X, p)})
        for op, fn in (("adj", "Adj"), ("adjT", "AdjT"), ("jinvp", "Jinvp")):
            S[(g, op)] = dict(px=g, py=a, out=a, wrap_y="either", apis={
                "m." + fn: (lambda fn: lambda X, y: getattr(X, fn)(y))(fn),
                "pp." + fn: (lambda fn: lambda X, y: getattr(pp(), fn)(X, y))(fn)})
        S[(g, "retr")] = dict(px=g, py=a, out=g, wrap_y=a, apis={
            "m.Retr": lambda X, y: X.Retr(y), "pp.Retr": lambda X, y: pp().Retr(X, y)})
        S[(g, "add")] = dict(px=g, py=a, out=g, wrap_y="either", apis={
            "op+": lambda X, y: X + y, "m.add": lambda X, y: X.add(y), "pp.add": lambda X, y: pp().add(X, y)})
        S[(a, "alg_add")] = dict(px=a, py=a, out=a, wrap_y="either", apis={
            "op+": lambda X, y: X + y, "m.add": lambda X, y: X.add(y), "pp.add": lambda X, y: pp().add(X, y)})
    return S


SITES = binop_sites()
SITE_KEYS = sorted(SITES)
_TABLES = {}


def out_dim(site):
    g, op = site
    return {"mul": DIM[g], "act3": 3, "act4": 4, "adj": MANIFOLD[g], "adjT": MANIFOLD[g], "jinvp": MANIFOLD[g],
            "retr": DIM[g], "add": DIM[g], "alg_add": DIM[g]}[op]


def site_call(site, api, X, y):
    return SITES[site]["apis"][api](X, y)


def wrap_second(site, ycase, t):
    w = SITES[site]["wrap_y"]
    if w is None:
        return t
    if w == "either":
        return _lie(t, SITES[site]["py"]) if ycase == "lie" else t
    return _lie(t, w)


def ref_table(ctx, site, dtype):
    """T[i, j] = op(poolX[i], poolY[j]) from one same-shape flat batch (no broadcasting involved); a sample of the
    entries is re-computed item by item (scalar batch) — in the thorough tier all of them for a rotating site."""
    key = (site, dtype)
    if key in _TABLES:
        return _TABLES[key]
    spec = SITES[site]
    px, py = POOLS.get(spec["px"], dtype), POOLS.get(spec["py"], dtype)
    K = px.shape[0]
    ii, jj = torch.meshgrid(torch.arange(K), torch.arange(K), indexing="ij")
    X = _lie(px[ii.flatten()].clone(), spec["px"])
    y = wrap_second(site, "lie", py[jj.flatten()].clone())
    api = sorted(spec["apis"])[0]
    with warnings.catch_warnings():
        warnings.simplefilter("ignore")
        T = site_call(site, api, X, y)
    T = torch.Tensor.as_subclass(T, torch.Tensor).detach().reshape(K, K, -1)
    if not bool(torch.isfinite(T).all()):      # pass 7 (38a): pool items are finite valid operands; a non-finite entry would also turn the
        bad = (~torch.isfinite(T)).reshape(K, K, -1).any(-1).nonzero()[0].tolist()     # table's max-based tolerance into inf / NaN
        ctx.fail({"kind": "table", "site": list(site), "dtype": dtype, "i": bad[0], "j": bad[1]},
                 f"non-finite result: {site[0]}.{site[1]} of pool items ({bad[0]},{bad[1]}) = {px[bad[0]].tolist()} with {py[bad[1]].tolist()} is {T[bad[0], bad[1]].flatten()[:4].tolist()}")
    # item-by-item validation of sampled entries
    nval = K * K if (not ctx.quick and dtype == "float64") else 12
    tol = 256 * common.EPS[dtype]
    for _ in range(nval) if nval < K * K else [None]:
        pairs = [(ctx.rng.randrange(K), ctx.rng.randrange(K))] if nval < K * K else list(itertools.product(range(K), range(K)))
        for i, j in pairs:
            Xi = _lie(px[i].clone(), spec["px"])
            yj = wrap_second(site, "lie", py[j].clone())
            with warnings.catch_warnings():
                warnings.simplefilter("ignore")
                r = torch.Tensor.as_subclass(site_call(site, api, Xi, yj), torch.Tensor)
            if r.shape != T[i, j].shape or not bool(((r - T[i, j]).abs() <= tol * (1 + T[i, j].abs().max())).all()):
                case = {"kind": "table", "site": list(site), "dtype": dtype, "i": i, "j": j}
                ctx.fail(case, f"itemwise: {site[0]}.{site[1]} on a flat batch differs from the same op on the single items "
                               f"({i},{j}): {r.flatten()[:4].tolist()} vs {T[i, j].flatten()[:4].tolist()}")
                break
    _TABLES[key] = T
    return T


def as_view(t, mode):
    """the same values as a non-contiguous view: rows embedded in a wider buffer ('slice'), batch dimensions stored
    in reverse order ('perm'); returns (view, base buffer)"""
    if mode == "slice":
        buf = torch.full(t.shape[:-1] + (t.shape[-1] + 2,), 9.0, dtype=t.dtype)
        buf[..., 1:-1] = t
        return buf[..., 1:-1], buf
    if mode == "perm" and t.dim() >= 3:
        r = t.dim() - 1
        perm = list(range(r))[::-1] + [r]
        base = t.permute(perm).contiguous()
        return base.permute(perm), base          # reversing twice restores the order
    if mode == "expand" and t.dim() >= 2 and t.shape[0] >= 1:
        base = t[:1].clone()                     # stride-0 view: the first slice repeated along dim 0
        return base.expand(t.shape), base
    return t, t


def view_tags(tags, shape, mode):
    """tags of the items actually held by `as_view(make_tagged(...), mode)`"""
    if mode == "expand" and len(shape) >= 1 and shape[0] >= 1:
        return tags.reshape(shape)[:1].expand(shape).reshape(-1)
    return tags


def torch_pairing(sa, sb):
    """oracle on the real library: which flat items meet, from torch.broadcast_tensors on tag tensors"""
    ta = torch.arange(numel(sa)).reshape(sa)
    tb = torch.arange(numel(sb)).reshape(sb)
    ea, eb = torch.broadcast_tensors(ta, tb)
    return tuple(ea.shape), ea.flatten(), eb.flatten()


_MODEL_PAIR = {}


def model_pairs(ctx, pairs):
    """model's binop on tagged operands for every lshape pair (cached)"""
    todo = [p for p in pairs if p not in _MODEL_PAIR]
    if todo:
        reps = ctx.driver.run([f"c06.bcast 4 4 {wl(a)} {wl(b)}" for a, b in todo])
        for p, rep in zip(todo, reps):
            _MODEL_PAIR[p] = parse_out(rep)
    return _MODEL_PAIR


_MODEL_ADD = {}


def model_add_pairs(ctx, pairs):
    """model's `addOp` (expand, clone, in-place retraction) on tagged operands: pairs (tag of a, tag of x)"""
    todo = [p for p in pairs if p not in _MODEL_ADD]
    if todo:
        reps = ctx.driver.run([f"c06.add 4 {wl(a)} {wl(b)}" for a, b in todo])
        for p, rep in zip(todo, reps):
            m = parse_out(rep)
            if m is not None:       # same layout as binop's answer: (x tag, y tag)
                v = m["vals"]
                m["vals"] = [v[k ^ 1] for k in range(len(v))]
            _MODEL_ADD[p] = m
    return _MODEL_ADD


def check_bcast(ctx: Ctx, case) -> bool:
    """one (site, api, lshape pair, dtype) case on the real code: result type/ltype/lshape/last/dtype and the
    pairing of items (vs torch's own broadcasting and vs the item-by-item table)."""
    site = tuple(case["site"])
    spec = SITES[site]
    sa, sb, dtype = tuple(case["sa"]), tuple(case["sb"]), case["dtype"]
    px, py = POOLS.get(spec["px"], dtype), POOLS.get(spec["py"], dtype)
    K = px.shape[0]
    xt, tx = make_tagged(px, sa, case["ox"])
    yt, ty = make_tagged(py, sb, case["oy"])
    wide = site[1] in ("add", "alg_add") and case.get("wide") and case["ycase"] == "plain" and not case.get("yview")
    if wide:
        yt = torch.cat([yt, torch.full(yt.shape[:-1] + (1,), 7.0, dtype=yt.dtype)], dim=-1)  # documented: wider `other`
    xt, xbase = as_view(xt, case.get("xview"))
    yt, ybase = as_view(yt, case.get("yview"))
    tx, ty = view_tags(tx, sa, case.get("xview")), view_tags(ty, sb, case.get("yview"))
    X = _lie(xt, spec["px"])
    y = wrap_second(site, case["ycase"], yt)
    x0, y0 = xbase.clone(), ybase.clone()
    expect_shape = py_broadcast(sa, sb)
    tag = f"{site[0]}.{site[1]}"
    try:
        with warnings.catch_warnings():
            warnings.simplefilter("ignore")
            r = site_call(site, case["api"], X, y)
    except Exception as e:
        if expect_shape is None:
            case["_raised"] = True
            return True
        ctx.fail(case, f"raises: {tag} ({case['api']}) raises on broadcastable lshapes {sa} x {sb}: "
                       f"{type(e).__name__}: {str(e)[:100]}")
        return False
    ok = True
    if not torch.equal(xbase, x0) or not torch.equal(ybase, y0):
        ctx.fail(case, f"mutation: {tag} ({case['api']}) changed an argument")
        ok = False
    if expect_shape is None:
        ctx.fail(case, f"no-raise: {tag} ({case['api']}) returned a value for non-broadcastable lshapes {sa} x {sb} "
                       f"(shape {tuple(r.shape)})")
        return False
    d = out_dim(site)
    P = pp()
    want_lt = None if spec["out"] is None else ltype_of(spec["out"])
    if want_lt is None:
        good_type = type(r) is torch.Tensor
    else:
        good_type = type(r) is P.LieTensor and getattr(r, "ltype", None) is want_lt
    if not good_type:
        ctx.fail(case, f"type: {tag} ({case['api']}) returned {type(r).__name__} ltype={ltype_name(getattr(r, 'ltype', None))} "
                       f"instead of {'Tensor' if want_lt is None else 'LieTensor ' + spec['out']}")
        ok = False
    if tuple(r.shape) != expect_shape + (d,):
        ctx.fail(case, f"shape: {tag} ({case['api']}) on lshapes {sa} x {sb} returned shape {tuple(r.shape)}, "
                       f"documented {expect_shape + (d,)}")
        return False
    if r.dtype != DT[dtype] or r.device.type != "cpu":
        ctx.fail(case, f"dtype: {tag} ({case['api']}) returned {r.dtype}/{r.device} for {dtype}/cpu operands")
        ok = False
    n = numel(expect_shape)
    if n:
        T = ref_table(ctx, site, dtype)
        _, p1, p2 = torch_pairing(sa, sb)
        exp = T[tx[p1], ty[p2]]
        got = torch.Tensor.as_subclass(r, torch.Tensor).detach().reshape(n, d)
        tol = 256 * common.EPS[dtype]
        bad = ~((got - exp).abs() <= tol * (1 + exp.abs().amax(dim=-1, keepdim=True))).all(dim=-1)
        if bool(bad.any()):
            k = int(bad.nonzero()[0])
            ctx.fail(case, f"pairing: {tag} ({case['api']}) on lshapes {sa} x {sb}: output item {k} is not op(x[{int(p1[k])}], "
                           f"y[{int(p2[k])}]) (got {got[k, :3].tolist()}, item-by-item {exp[k, :3].tolist()})")
            ok = False
        case["_got"] = got
    return ok


def compare_bcast_model(ctx: Ctx, case, model):
    """implementation vs model for one executed case"""
    site = tuple(case["site"])
    sa, sb = tuple(case["sa"]), tuple(case["sb"])
    got = case.pop("_got", None)
    raised = case.pop("_raised", False)
    if model is None:
        if not raised:
            ctx.disagree("bcast-err", case, f"model raises for lshapes {sa} x {sb}, implementation returned")
        return
    if raised:
        ctx.disagree("bcast-err", case, f"implementation raised for lshapes {sa} x {sb}, model returns {model['shape']}")
        return
    if got is None:
        return
    spec = SITES[site]
    dtype = case["dtype"]
    T = ref_table(ctx, site, dtype)
    px, py = POOLS.get(spec["px"], dtype), POOLS.get(spec["py"], dtype)
    K = px.shape[0]
    n = numel(model["shape"])
    v = torch.tensor(model["vals"], dtype=torch.long).reshape(n, 2)
    tx = view_tags((torch.arange(numel(sa)) + case["ox"]) % K, sa, case.get("xview"))
    ty = view_tags((torch.arange(numel(sb)) + case["oy"]) % K, sb, case.get("yview"))
    exp = T[tx[v[:, 0]], ty[v[:, 1]]]
    tol = 256 * common.EPS[dtype]
    if got.shape != exp.shape or not bool(((got - exp).abs() <= tol * (1 + exp.abs().amax(dim=-1, keepdim=True))).all()):
        ctx.disagree("bcast", case, f"{site[0]}.{site[1]} lshapes {sa} x {sb}: implementation items differ from the model's pairing")


def stream_binputs(ctx: Ctx, pairs):
    """operation.broadcast_inputs itself, on every broadcastable pair (and the `y is None` route on every shape)"""
    from pypose.lietensor.operation import broadcast_inputs
    model = model_pairs(ctx, pairs)
    for (sa, sb) in pairs:
        case = {"kind": "binputs", "sa": list(sa), "sb": list(sb)}
        dx, dy = 3, 2
        x = torch.arange(numel(sa) * dx, dtype=torch.float64).reshape(sa + (dx,))
        y = torch.arange(numel(sb) * dy, dtype=torch.float64).reshape(sb + (dy,)) + 0.5
        x0, y0 = x.clone(), y.clone()
        m = model[(sa, sb)]
        try:
            (xf, yf), out_shape = broadcast_inputs(x, y)
        except Exception as e:
            ctx.fail(case, f"binputs-raises: broadcast_inputs raises on broadcastable lshapes {sa} x {sb}: {type(e).__name__}: {str(e)[:80]}")
            continue
        ctx.note_case(("binputs", sa, sb), numel(py_broadcast(sa, sb)) != 1 or sa == () == sb)
        ctx.count("binputs")
        if not torch.equal(x, x0) or not torch.equal(y, y0):
            ctx.fail(case, "mutation: broadcast_inputs changed an argument")
        want = py_broadcast(sa, sb)
        n = max(numel(want), 1) if want == () else numel(want)
        _, p1, p2 = torch_pairing(sa, sb)
        good = (tuple(out_shape) == want and tuple(xf.shape) == (n, dx) and tuple(yf.shape) == (n, dy)
                and xf.is_contiguous() and yf.is_contiguous()
                and torch.equal(xf, x.reshape(-1, dx)[p1]) and torch.equal(yf, y.reshape(-1, dy)[p2]))
        if not good:
            ctx.fail(case, f"binputs: broadcast_inputs on lshapes {sa} x {sb} returned out_shape {tuple(out_shape)}, operands "
                           f"{tuple(xf.shape)}/{tuple(yf.shape)}; expected {want}, ({n},{dx})/({n},{dy}) rows paired as torch broadcasts")
        if m is None or tuple(m["shape"]) != tuple(out_shape) or (n and [int(v) for v in
                torch.stack([xf[:, 0] / dx, (yf[:, 0] - 0.5) / dy], dim=1).flatten().tolist()] != m["vals"]):
            ctx.disagree("binputs", case, f"broadcast_inputs on {sa} x {sb}: implementation (out {tuple(out_shape)}) vs model {m and m['shape']}")
    reps = ctx.driver.run([f"c06.unflat 3 3 {wl(s)}" for s in SHAPES])
    for s, rep in zip(SHAPES, reps):
        case = {"kind": "binputs1", "s": list(s)}
        x = torch.arange(numel(s) * 3, dtype=torch.float64).reshape(s + (3,))
        (xf,), out_shape = broadcast_inputs(x, None)
        m = parse_out(rep)
        ctx.note_case(("binputs1", s), True)
        if tuple(out_shape) != s or tuple(xf.shape) != (numel(s), 3) or not torch.equal(xf, x.reshape(-1, 3)):
            ctx.fail(case, f"binputs: broadcast_inputs(x, None) on lshape {s} returned {tuple(out_shape)} / {tuple(xf.shape)}")
        if m is None or m["shape"] != s or m["vals"][0::2] != list(range(numel(s))):
            ctx.disagree("binputs", case, f"broadcast_inputs(x, None) on {s}: model {m}")


CORE = [(), (0,), (1,), (3,), (2, 1), (1, 3), (2, 3), (0, 2), (2, 1, 3), (1, 1, 1)]
# beyond the exhaustive range of the quantifier (rank <= 3, extents <= 3): the clause says "every batch rank"
BIG = [(5,), (7, 2), (6, 1), (2, 1, 3, 2), (4, 1, 1, 2), (1, 1, 1, 1, 2), (2, 2, 2, 2, 2), (3, 1, 2, 1, 2, 1), (0, 1, 2, 3, 1)]
VIEWS = [None, "slice", "perm", "expand"]


def sizes_for(lt):
    """lshapes whose extents coincide with small special numbers: the item width d and the manifold dimension m of the
    ltype itself (batch axis mistaken for the item axis), 3 and 4 (points / quaternions / torch.cross), a prime"""
    d, m = DIM[lt], MANIFOLD[lt]
    out = []
    for s_ in [(d,), (m,), (3,), (4,), (d, d), (3, d), (d, 3), (4, 3), (1, d), (11,)]:
        if s_ not in out:
            out.append(s_)
    return out


def det_rng():
    """generator of the deterministic corner corpora: the same cases for every VERIF_SEED"""
    return random.Random(20260925)


def mk_bcast(rng, site, sa, sb, k=None):
    spec = SITES[site]
    apis = sorted(spec["apis"])
    return {"kind": "bcast", "site": list(site), "sa": list(sa), "sb": list(sb),
            "api": apis[k % len(apis)] if k is not None else rng.choice(apis), "ycase": rng.choice(["lie", "plain"]),
            "dtype": "float64" if rng.random() < 0.7 else "float32",
            "ox": rng.randrange(Pools.K), "oy": rng.randrange(Pools.K),
            "wide": rng.random() < 0.25,
            "xview": rng.choice(VIEWS + [None]), "yview": rng.choice(VIEWS + [None])}


def corpus_bcast(full=True):
    """deterministic corner corpus: every op site x every broadcastable pair of the core lshapes, and pairs of
    lshapes beyond rank 3 / extent 3 with rotating sites"""
    rng = det_rng()
    cases = []
    core_pairs = [(a, b) for a in CORE for b in CORE if py_broadcast(a, b) is not None]
    for si, site in enumerate(SITE_KEYS):
        for pi, (sa, sb) in enumerate(core_pairs):
            if (si + pi) % 4 == 0 or full:      # quick: every fourth core pair per site (fixed, not seeded)
                cases.append(mk_bcast(rng, site, sa, sb, k=si + pi))
    big_pairs = [(a, b) for a in BIG + CORE[:6] for b in BIG if py_broadcast(a, b) is not None]
    big_pairs += [(b, a) for a in CORE[:6] for b in BIG if py_broadcast(a, b) is not None]
    for pi, (sa, sb) in enumerate(big_pairs):
        for j in range(3 if full else 2):
            cases.append(mk_bcast(rng, SITE_KEYS[(pi * 3 + j * 13) % len(SITE_KEYS)], sa, sb, k=pi + j))
    for si, site in enumerate(SITE_KEYS):            # special sizes, in both batch positions, for every site
        for zi, s_ in enumerate(sizes_for(site[0])):
            kinds = [(s_, s_), (s_, ()), ((), s_), (s_, s_[-1:]), (s_[-1:], s_)]
            for j in (0, 1 + (si + zi) % 4):
                sa, sb = kinds[j]
                if py_broadcast(sa, sb) is not None and (full or zi < 4 or (si + zi + j) % 3 == 0):
                    cases.append(mk_bcast(rng, site, sa, sb, k=si + zi + j))
    for pi, (sa, sb) in enumerate([((2,), (3,)), ((2, 3), (2,)), ((5,), (7, 2)), ((2, 1, 3, 2), (3, 1)), ((0,), (2,)), ((3,), (0,))]):
        for j in range(6):
            cases.append(mk_bcast(rng, SITE_KEYS[(pi * 7 + j * 5) % len(SITE_KEYS)], sa, sb, k=j))
    return cases, big_pairs


def gen_bcast_cases(ctx: Ctx, good_pairs, bad_pairs):
    rng = ctx.rng
    cases, _ = corpus_bcast(full=not ctx.quick)
    ops_g = ["mul", "act3", "act4", "adj", "adjT", "jinvp", "retr", "add"]
    if ctx.quick:
        # every broadcastable pair meets one of the eight group ops (op and group rotating with pair and seed)
        for pi, (sa, sb) in enumerate(good_pairs):
            if (pi + ctx.seed) % 4:
                continue            # every fourth pair per run (binputs still sees every pair every run; thorough: all)
            for oi, op in enumerate(ops_g):
                g = GROUPS[(pi + oi + ctx.seed) % 4]
                if (pi * 5 + oi + ctx.seed) % 8 >= 1:
                    continue
                cases.append(mk_bcast(rng, (g, op), sa, sb))
            if (pi + ctx.seed) % 4 == 0:
                cases.append(mk_bcast(rng, (ALGEBRA[GROUPS[(pi + ctx.seed) % 4]], "alg_add"), sa, sb))
        for (sa, sb) in rng.sample(bad_pairs, 120):
            cases.append(mk_bcast(rng, rng.choice(SITE_KEYS), sa, sb))
    else:
        for site in SITE_KEYS:
            for (sa, sb) in good_pairs:
                cases.append(mk_bcast(rng, site, sa, sb))
        for (sa, sb) in bad_pairs:
            cases.append(mk_bcast(rng, rng.choice(SITE_KEYS), sa, sb))
    return cases


def stream_bcast(ctx: Ctx):
    good = [(a, b) for a in SHAPES for b in SHAPES if py_broadcast(a, b) is not None]
    bad = [(a, b) for a in SHAPES for b in SHAPES if py_broadcast(a, b) is None]
    ctx.count("pairs.broadcastable", len(good))
    ctx.count("pairs.not_broadcastable", len(bad))
    # the reference of broadcastability itself against torch
    for (a, b) in ctx.rng.sample(good + bad, 400):
        try:
            t = tuple(torch.broadcast_shapes(a, b))
        except RuntimeError:
            t = None
        if t != py_broadcast(a, b):
            raise common.InfraError(f"harness reference py_broadcast disagrees with torch on {a} x {b}")
    stream_binputs(ctx, corpus_bcast()[1] + good)
    cases = gen_bcast_cases(ctx, good, bad)
    model = model_pairs(ctx, sorted({(tuple(c["sa"]), tuple(c["sb"])) for c in cases}))
    model_add = model_add_pairs(ctx, sorted({(tuple(c["sa"]), tuple(c["sb"])) for c in cases if c["site"][1] == "add"}))
    for (a, b) in corpus_bcast()[1] + good:
        m = model.get((a, b))
        if m is not None and (m["shape"] != py_broadcast(a, b) or m["last"] != 4):
            ctx.disagree("bcast", {"kind": "bshape", "sa": list(a), "sb": list(b)},
                         f"model lshape {m['shape']} / last {m['last']} vs torch.broadcast_shapes {py_broadcast(a, b)} / 4")
    for c in cases:
        site = tuple(c["site"])
        sa, sb = tuple(c["sa"]), tuple(c["sb"])
        check_bcast(ctx, c)
        out = py_broadcast(sa, sb)
        ctx.note_case(("bcast", site, sa, sb, c["dtype"]), out is None or numel(out) != 1 or (sa == () and sb == ()))
        ctx.count(f"bcast.{site[1]}")
        ctx.count("bcast.kind." + ("error" if out is None else "empty" if numel(out) == 0 else "scalar" if out == () else "batched"))
        compare_bcast_model(ctx, c, (model_add if site[1] == "add" else model)[(sa, sb)])
        if len(ctx.samples) < 3 and out and numel(out) > 1:
            ctx.sample({k: v for k, v in c.items() if not k.startswith("_")})


# ============================================================================= handled functions

from . import util_handled as UH  # noqa: E402

RECIPES = {n: True for n in UH.ALL}
NO_CALLABLE = {"copy"}     # no torch function/method has __name__ == 'copy' (checked at run time)
PROPERTY_NAMED = ["__getitem__", "view", "reshape", "permute", "cat", "stack", "split", "clone", "detach", "to",
                  "expand", "gather", "scatter", "index_select", "unbind", "chunk", "squeeze", "unsqueeze", "transpose",
                  "repeat", "select", "narrow", "index_copy", "copy_", "__setitem__", "float", "double", "cpu"]


def _plain(t):
    return torch.Tensor.as_subclass(t, torch.Tensor) if isinstance(t, torch.Tensor) else t


def _flatten_result(r):
    if isinstance(r, torch.Tensor):
        return [r]
    if isinstance(r, (tuple, list)):
        out = []
        for x in r:
            out += _flatten_result(x)
        return out
    return []


def exec_handled(ctx: Ctx, case):
    """run one handled-function case on the real code; oracle = the same torch call on plain tensors + type /
    ltype / dtype / purity. Returns (pieces, model_lines, build) for the model comparison, or None."""
    P = pp()
    b = UH.build(case)
    name = case["name"]
    lt = ltype_of(case["lt"])
    d = DIM[case["lt"]]
    ins = [t for t, _ in b["inputs"]]
    vbase = None
    if case.get("xview") and isinstance(ins[0], P.LieTensor):
        # the LieTensor argument is a non-contiguous view into a larger buffer (sentinel columns on both sides)
        v, vbase = as_view(_plain(ins[0]).clone(), "slice")
        ins[0] = _lie(v, case["lt"])
    elif case.get("param") and b["post"] is None:
        ins[0] = P.Parameter(ins[0], requires_grad=False)
    before = [_plain(t).clone() for t in ins]
    ref_ins = [_plain(t).clone() for t in ins]
    try:
        ref = b["call"](ref_ins)
    except Exception as e:
        raise common.InfraError(f"harness recipe for {name} is not a valid torch call: {case}: {type(e).__name__}: {e}")
    with warnings.catch_warnings(record=True) as wlist:
        warnings.simplefilter("always")
        try:
            r = b["call"](ins)
        except Exception as e:
            ctx.fail(case, f"handled-raises: {name} on a {case['lt']} LieTensor of lshape {tuple(case['s'])} raises "
                           f"{type(e).__name__}: {str(e)[:100]} (the same call on plain tensors succeeds)")
            return None
    shape_warn = [w for w in wlist if "Tensor Shape Invalid" in str(w.message)]
    ok = True
    post = b["post"]
    if post == "self-none":
        if r is not None:
            ctx.fail(case, f"handled-result: {name} returned {type(r).__name__}, expected None")
        r, ref = ins[0], ref_ins[0]
    elif post == "self":
        if r is not ins[0]:
            ctx.fail(case, f"handled-result: in-place {name} did not return its own argument")
            ok = False
        ref = ref_ins[0]
    # purity: out-of-place functions change nothing; in-place ones change only `self`
    for k, (t, t0) in enumerate(zip(ins, before)):
        if post is not None and k == 0:
            continue
        if not torch.equal(_plain(t), t0):
            ctx.fail(case, f"mutation: {name} changed its tensor argument #{k}")
            ok = False
    if vbase is not None and not (bool((vbase[..., 0] == 9.0).all()) and bool((vbase[..., -1] == 9.0).all())):
        ctx.fail(case, f"mutation: {name} on a LieTensor that is a view into a larger buffer wrote outside the view")
        ok = False
    outs, refs = _flatten_result(r), _flatten_result(ref)
    if len(outs) != len(refs) or (isinstance(ref, (tuple, list)) != isinstance(r, (tuple, list))):
        ctx.fail(case, f"handled-result: {name} returned {len(outs)} tensors, the plain call {len(refs)}")
        return None
    elementwise = b["mode"] == "elements"
    for k, (o, rf) in enumerate(zip(outs, refs)):
        if not isinstance(o, P.LieTensor) or getattr(o, "ltype", None) is not lt:
            ctx.fail(case, f"ltype: {name} on a {case['lt']} LieTensor returned {type(o).__name__} with ltype "
                           f"{ltype_name(getattr(o, 'ltype', None))} (output #{k})")
            ok = False
            continue
        if type(o) is not P.LieTensor and post is None and o is not ins[0]:
            ctx.fail(case, f"ltype: {name} returned a {type(o).__name__}, documented LieTensor (output #{k})")
            ok = False
        if o.shape != rf.shape or o.dtype != rf.dtype or o.dtype != b["out_dtype"] or o.device != rf.device:
            ctx.fail(case, f"shape: {name} returned shape {tuple(o.shape)} dtype {o.dtype}; plain torch call gives "
                           f"{tuple(rf.shape)} {rf.dtype} (output #{k})")
            ok = False
            continue
        if not torch.equal(_plain(o), rf):
            ctx.fail(case, f"items: {name} on a LieTensor holds other values than the same call on the plain tensor (output #{k})")
            ok = False
        if not elementwise and o.shape[-1:] != (d,):
            ctx.fail(case, f"shape: {name} (item-preserving call) lost the item dimension: {tuple(o.shape)}")
            ok = False
    if shape_warn and not elementwise:
        ctx.fail(case, f"warning: {name} warned 'Tensor Shape Invalid' on an item-preserving call")
    # model requests
    lines = b["model"]
    if b["mode"] == "pieces":
        pc = b["pieces"]
        dim, s = pc["dim"], list(case["s"])
        lens = pc["lengths"]
        got_lens = [int(o.shape[dim]) if not pc["drop"] else 1 for o in outs]
        if lens is None:
            lens = got_lens
        if got_lens != lens:
            ctx.fail(case, f"pieces: {name} returned pieces of lengths {got_lens} along dim {dim}, documented {lens}")
            return None
        lines, a = [], 0
        for ln in lens:
            st = [f"I {dim} " + wl(range(a, a + ln))]
            if pc["drop"]:
                st.append("R " + wl(s[:dim] + s[dim + 1:]))
            lines.append("c06.steps " + wl(s) + " " + " ".join(st))
            a += ln
        if a != s[dim]:
            ctx.fail(case, f"pieces: {name} pieces cover {a} of {s[dim]} positions along dim {dim}")
    return {"outs": [_plain(o).detach() for o in outs], "lines": lines or [], "b": b, "before": before, "ok": ok}


def compare_handled(ctx: Ctx, case, ex, reps):
    b, name = ex["b"], case["name"]
    d = DIM[case["lt"]]
    mode = b["mode"]
    outs = ex["outs"]
    if mode == "expect":
        shape, want = b["expect"]
        okd, got = decode_items(outs[0], d)
        if not okd or got != want or list(outs[0].shape[:-1]) != shape:
            ctx.fail(case, f"items: {name} with item-aligned positions returned {got[:6]} of shape {tuple(outs[0].shape)}, expected {want[:6]}")
        return
    if mode == "elements":
        want = torch.cat([torch.arange(k * d, (k + 1) * d, dtype=torch.float64) for k in b["expect"]]) if b["expect"] else torch.zeros(0, dtype=torch.float64)
        if outs[0].dim() != 1 or not torch.equal(outs[0].to(torch.float64), want):
            ctx.fail(case, f"items: {name} with an item-constant mask did not return the selected items' scalars in order")
        return
    for k, (o, rep) in enumerate(zip(outs, reps)):
        m = parse_out(rep)
        if m is None:
            ctx.disagree("handled", case, f"{name}: model rejects the call (raise), implementation returned shape {tuple(o.shape)}")
            continue
        if tuple(o.shape[:-1]) != m["shape"]:
            ctx.disagree("handled", case, f"{name}: implementation lshape {tuple(o.shape[:-1])} vs model {m['shape']} (output #{k})")
            continue
        if mode == "accumulate":
            self0, src = ex["before"][0].reshape(-1, d).to(torch.float64), ex["before"][1].reshape(-1, d).to(torch.float64)
            v = m["vals"]
            want = self0.clone()
            for j in range(len(v) // 2):
                if v[2 * j] == 1:
                    want[j] += src[v[2 * j + 1]]
            if not torch.equal(o.reshape(-1, d).to(torch.float64), want):
                ctx.disagree("handled", case, f"{name}: implementation != self + scattered src items of the model")
            continue
        okd, got = decode_items(o, d)
        if mode in ("src", "pieces"):
            want = [(0, v) for v in m["vals"]]
        elif mode == "src1":
            want = [(1, v) for v in m["vals"]]
        else:
            want = list(zip(m["vals"][0::2], m["vals"][1::2]))
        if not okd:
            ctx.fail(case, f"items: {name} returned rows that are not whole input items (output #{k})")
        elif got != want:
            bad = next(i for i, (a, c) in enumerate(zip(got, want)) if a != c) if len(got) == len(want) else -1
            ctx.disagree("handled", case, f"{name}: output #{k} item {bad}: implementation holds input item "
                                          f"{got[bad] if bad >= 0 else len(got)}, model says {want[bad] if bad >= 0 else len(want)}")


def gen_handled_cases(ctx: Ctx, names):
    todo = sorted(set(names) | set(PROPERTY_NAMED))
    cases = []
    # deterministic corpus first (the same recipes for every seed), then the seeded random recipes
    for rng, per, det in ((det_rng(), 5, True), (ctx.rng, ctx.pick(8, 200), False)):
        UH.EXTENTS = [0, 1, 2, 3, 3, 4, 5, 7, 8] if det else [0, 1, 2, 3, 2, 3]     # corpus: extents equal to item widths, 4, a prime
        for n in todo:
            if n in NO_CALLABLE or n not in RECIPES:
                continue
            if n == "cuda" and not torch.cuda.is_available():
                if det:
                    ctx.count("handled.skipped.cuda")
                continue
            for k in range(per if n not in ("__getitem__", "__setitem__") else 3 * per):
                c = UH.gen(rng, n)
                c["kind"] = "handled"
                c["lt"] = LTYPES[(len(cases) + (0 if det else ctx.seed)) % 8] if rng.random() < 0.7 else rng.choice(LTYPES)
                c["dtype"] = "float64" if rng.random() < 0.6 else "float32"
                c["param"] = rng.random() < 0.12
                c["xview"] = rng.random() < 0.3
                cases.append(c)
    return cases


def stream_handled(ctx: Ctx, names):
    P = pp()
    # no torch callable is called `copy`: the entry cannot be exercised (and none must appear unnoticed)
    for n in NO_CALLABLE:
        found = [k for k in dir(torch.Tensor) if getattr(getattr(torch.Tensor, k, None), "__name__", None) == n]
        found += [k for k in dir(torch) if getattr(getattr(torch, k, None), "__name__", None) == n]
        if found:
            ctx.disagree("handled", {"kind": "regen", "name": n}, f"torch now has a callable named `{n}` ({found[:3]}) but the harness has no recipe")
    cases = gen_handled_cases(ctx, names)
    execd, lines = [], []
    for c in cases:
        ex = exec_handled(ctx, c)
        n_out = numel(c["s"])
        ctx.note_case(("handled", c["name"], c.get("variant"), c["lt"], tuple(c["s"]), c["dtype"]), True)
        ctx.count(f"handled.{c['name']}")
        ctx.count("handled.rank%d" % len(c["s"]))
        if n_out == 0:
            ctx.count("handled.empty")
        if ex is None:
            continue
        execd.append((c, ex, len(lines), len(ex["lines"])))
        lines += ex["lines"]
    reps = ctx.driver.run(lines)
    for c, ex, a, n in execd:
        compare_handled(ctx, c, ex, reps[a:a + n])
    for c in cases[:2]:
        ctx.sample({"stream": "handled", **c})


# ============================================================================= unary ops and constructors

def unary_ops(lt):
    """[(op, {api: callable}, out)]; out = ('lie', ltype, d) | ('tensor', trailing shape)"""
    P = pp()
    grp = lt in GROUPS
    base = lt if grp else [g for g, a in ALGEBRA.items() if a == lt][0]
    mat = (3, 3) if base == "SO3" else (4, 4)
    ops = []

    def both(fn):
        return {"m." + fn: (lambda X: getattr(X, fn)()), "pp." + fn: (lambda X: getattr(P, fn)(X))}
    if grp:
        ops.append(("Log", both("Log"), ("lie", ALGEBRA[lt], DIM[ALGEBRA[lt]])))
        ops.append(("quat2unit", {"pp.quat2unit": lambda X: P.quat2unit(X)}, ("lie", lt, DIM[lt])))
    else:
        ops.append(("Exp", both("Exp"), ("lie", base, DIM[base])))
    ops.append(("Inv", both("Inv"), ("lie", lt, DIM[lt])))
    ops.append(("matrix", both("matrix"), ("tensor", mat)))
    ops.append(("rotation", both("rotation"), ("lie", "SO3", 4)))
    ops.append(("translation", both("translation"), ("tensor", (3,))))
    ops.append(("scale", both("scale"), ("tensor", (1,))))
    ops.append(("euler", both("euler"), ("tensor", (3,))))
    ops.append(("tensor", both("tensor"), ("tensor", (DIM[lt],))))
    if base == "SO3":
        ops.append(("Jr", both("Jr"), ("tensor", (3, 3))))
    return ops


_UTAB = {}


def unary_table(ctx, lt, op, fn, dtype):
    key = (lt, op, dtype)
    if key in _UTAB:
        return _UTAB[key]
    pool = POOLS.get(lt, dtype)
    with warnings.catch_warnings():
        warnings.simplefilter("ignore")
        T = _plain(fn(_lie(pool.clone(), lt))).detach()
        if not bool(torch.isfinite(T).all()):          # pass 7 (38a)
            i = int((~torch.isfinite(T)).reshape(T.shape[0], -1).any(-1).nonzero()[0])
            ctx.fail({"kind": "utable", "lt": lt, "op": op, "dtype": dtype, "i": i},
                     f"non-finite result: {lt}.{op} of the finite valid pool item {i} = {pool[i].tolist()} is {T[i].flatten()[:4].tolist()}")
        tol = 256 * common.EPS[dtype]
        for i in ctx.rng.sample(range(pool.shape[0]), 6 if ctx.quick else pool.shape[0]):
            r = _plain(fn(_lie(pool[i].clone(), lt)))
            if r.shape != T[i].shape or not bool(((r - T[i]).abs() <= tol * (1 + T[i].abs().max())).all()):
                ctx.fail({"kind": "utable", "lt": lt, "op": op, "dtype": dtype, "i": i},
                         f"itemwise: {lt}.{op} on a flat batch differs from the same op on single item {i}")
                break
    _UTAB[key] = T
    return T


def check_unary(ctx: Ctx, case) -> bool:
    P = pp()
    lt, op, api, dtype, s = case["lt"], case["op"], case["api"], case["dtype"], tuple(case["s"])
    spec = {o: (apis, out) for o, apis, out in unary_ops(lt)}[op]
    fn = spec[0][api]
    pool = POOLS.get(lt, dtype)
    xt, tags = make_tagged(pool, s, case["ox"])
    xt, xbase = as_view(xt, case.get("xview"))
    tags = view_tags(tags, s, case.get("xview"))
    X = _lie(xt, lt)
    x0 = xbase.clone()
    try:
        with warnings.catch_warnings():
            warnings.simplefilter("ignore")
            r = fn(X)
    except Exception as e:
        ctx.fail(case, f"raises: {lt}.{op} ({api}) raises on lshape {s}: {type(e).__name__}: {str(e)[:100]}")
        return False
    ok = True
    if not torch.equal(xbase, x0):
        ctx.fail(case, f"mutation: {lt}.{op} ({api}) changed its argument")
        ok = False
    out = spec[1]
    trail = (out[2],) if out[0] == "lie" else tuple(out[1])
    if out[0] == "lie":
        good = type(r) is P.LieTensor and getattr(r, "ltype", None) is ltype_of(out[1])
    else:
        good = type(r) is torch.Tensor
    if not good:
        ctx.fail(case, f"type: {lt}.{op} ({api}) returned {type(r).__name__} ltype={ltype_name(getattr(r, 'ltype', None))}, "
                       f"documented {'LieTensor ' + out[1] if out[0] == 'lie' else 'Tensor'}")
        ok = False
    if tuple(r.shape) != s + trail or r.dtype != DT[dtype] or r.device.type != "cpu":
        ctx.fail(case, f"shape: {lt}.{op} ({api}) on lshape {s} returned shape {tuple(r.shape)} {r.dtype}, documented {s + trail} {dtype}")
        return False
    if numel(s):
        T = unary_table(ctx, lt, op, fn, dtype)
        exp = T[tags].reshape((numel(s), -1))
        got = _plain(r).reshape((numel(s), -1))
        tol = 256 * common.EPS[dtype]
        if not bool(((got - exp).abs() <= tol * (1 + exp.abs().amax(dim=-1, keepdim=True))).all()):
            ctx.fail(case, f"itemwise: {lt}.{op} ({api}) on lshape {s} differs from the op applied item by item")
            ok = False
    return ok


def stream_unary(ctx: Ctx):
    def mk(rng, lt, op, apis, s, k=None):
        a = sorted(apis)
        return {"kind": "unary", "lt": lt, "op": op, "api": a[k % len(a)] if k is not None else rng.choice(a), "s": list(s),
                "dtype": "float64" if rng.random() < 0.7 else "float32", "ox": rng.randrange(Pools.K),
                "xview": rng.choice(VIEWS + [None])}
    cases = []
    rng = det_rng()
    for li, lt in enumerate(LTYPES):            # corner corpus: every op on the core / beyond-range lshapes
        for si, s in enumerate(CORE + BIG + (sizes_for(lt)[:6] if ctx.quick else sizes_for(lt))):
            for oi, (op, apis, out) in enumerate(unary_ops(lt)):
                if ctx.quick and (li + si + oi) % 2:
                    continue            # quick: a fixed half of the corpus (not seeded); thorough: all of it
                cases.append(mk(rng, lt, op, apis, s, k=li + si + oi))
    rng = ctx.rng
    for li, lt in enumerate(LTYPES):
        ops = unary_ops(lt)
        for si, s in enumerate(SHAPES):
            if ctx.quick and s in CORE:
                continue
            chosen = ops if not ctx.quick else [ops[(si + li + k * 3 + ctx.seed) % len(ops)] for k in range(1)]
            for op, apis, out in chosen:
                cases.append(mk(rng, lt, op, apis, s))
    for case in cases:
        check_unary(ctx, case)
        s = tuple(case["s"])
        ctx.note_case(("unary", case["lt"], case["op"], s, case["dtype"]), numel(s) != 1 or s == ())
        ctx.count(f"unary.{case['op']}")


IDENTITY_ITEM = {"SO3": [0, 0, 0, 1.], "so3": [0, 0, 0.], "SE3": [0, 0, 0, 0, 0, 0, 1.], "se3": [0.] * 6,
                 "RxSO3": [0, 0, 0, 1., 1.], "rxso3": [0.] * 4, "Sim3": [0, 0, 0, 0, 0, 0, 1., 1.], "sim3": [0.] * 7}
QUAT = {"SO3": slice(0, 4), "SE3": slice(3, 7), "RxSO3": slice(0, 4), "Sim3": slice(3, 7)}


def check_ctor(ctx: Ctx, case) -> bool:
    P = pp()
    lt, s, dtype, what = case["lt"], tuple(case["s"]), case["dtype"], case["what"]
    L = ltype_of(lt)
    d = DIM[lt]
    kw = {"dtype": DT[dtype]}
    try:
        with warnings.catch_warnings():
            warnings.simplefilter("ignore")
            if what == "identity":
                r = getattr(P, "identity_" + lt)(*s, **kw)
            elif what == "randn":
                r = getattr(P, "randn_" + lt)(*s, **kw)
            elif what == "randn_tuple":
                r = getattr(P, "randn_" + lt)(s, sigma=0.5, **kw)
            elif what == "randn_grad":
                r = getattr(P, "randn_" + lt)(*s, requires_grad=True, **kw)
            elif what in ("identity_like", "randn_like"):
                X = _lie(torch.zeros(s + (d,), dtype=DT[dtype]), lt)
                r = getattr(P, what)(X)
            elif what in ("identity_like_kw", "randn_like_kw"):
                X = _lie(torch.zeros(s + (d,), dtype=torch.float32 if dtype == "float64" else torch.float64), lt)
                r = getattr(P, what[:-3])(X, dtype=DT[dtype])
            elif what == "lview":
                X = _lie(elem_tagged(s, d, 0, DT[dtype]), lt)
                r = X.lview(*case["s2"])
            elif what == "ltype_ctor":
                r = P.LieTensor(torch.zeros(s + (d,), dtype=DT[dtype]), ltype=L)
            elif what == "alias_ctor":
                r = getattr(P, lt)(torch.zeros(s + (d,), dtype=DT[dtype]))
            elif what == "new_empty":
                X = _lie(torch.zeros(s + (d,), dtype=DT[dtype]), lt)
                r = X.new_empty(tuple(case["s2"]) + (d,))
            else:
                raise KeyError(what)
    except Exception as e:
        ctx.fail(case, f"raises: {what} for {lt} lshape {s} raises {type(e).__name__}: {str(e)[:100]}")
        return False
    want_shape = tuple(case["s2_out"]) if "s2_out" in case else s
    if what == "identity_like":
        # documented: "dtype … Default: if None, uses a global default"
        dtype = {torch.float32: "float32", torch.float64: "float64"}[torch.get_default_dtype()]
    if what == "randn_like" and type(r) is P.LieTensor and getattr(r, "ltype", None) is L and tuple(r.shape) == want_shape + (d,) \
            and r.dtype != DT[dtype]:
        # documented: "dtype … Default: if None, defaults to the dtype of input"
        case["input_dtype"], case["result_dtype"] = dtype, str(r.dtype)
        ctx.fail(case, f"like-dtype: randn_like of a {dtype} {lt} LieTensor returns {r.dtype}; its docstring says the dtype "
                       f"defaults to the dtype of input (= randn_{lt}(x.lshape, dtype=x.dtype, …))")
        return False
    if type(r) is not P.LieTensor or getattr(r, "ltype", None) is not L or tuple(r.lshape) != want_shape or \
            tuple(r.shape) != want_shape + (d,) or r.dtype != DT[dtype] or r.device.type != "cpu":
        ctx.fail(case, f"ctor: {what} for {lt} lshape {s} returned {type(r).__name__} ltype={ltype_name(getattr(r, 'ltype', None))} "
                       f"shape {tuple(r.shape)} {r.dtype}; documented LieTensor {lt} {want_shape + (d,)} {dtype}")
        return False
    ok = True
    if what in ("identity", "identity_like", "identity_like_kw"):
        want = torch.tensor(IDENTITY_ITEM[lt], dtype=DT[dtype]).expand(s + (d,))
        if not torch.equal(r.tensor(), want):
            ctx.fail(case, f"ctor: {what} for {lt} lshape {s} is not the identity item everywhere")
            ok = False
    if what.startswith("randn") and numel(s):
        t = r.tensor().detach()
        if not bool(torch.isfinite(t).all()):
            ctx.fail(case, f"ctor: {what} for {lt} lshape {s} returned non-finite values")
            ok = False
        elif lt in QUAT and not bool(((t[..., QUAT[lt]].norm(dim=-1) - 1).abs() < 1e-4).all()):
            ctx.fail(case, f"ctor: {what} for {lt} lshape {s} returned non-unit quaternions")
            ok = False
        if what == "randn_grad" and not r.requires_grad:
            ctx.fail(case, f"ctor: {what} ignored requires_grad")
            ok = False
    if what == "lview":
        if not torch.equal(r.tensor().reshape(-1), elem_tagged(s, d, 0, DT[dtype]).reshape(-1)):
            ctx.fail(case, f"ctor: lview{tuple(case['s2'])} of {lt} lshape {s} does not hold the same items in the same order")
            ok = False
    return ok


def stream_ctor(ctx: Ctx):
    P = pp()
    rng = ctx.rng
    whats = ["identity", "randn", "randn_tuple", "randn_grad", "identity_like", "randn_like", "ltype_ctor", "alias_ctor",
             "identity_like_kw", "randn_like_kw"]
    for li, lt in enumerate(LTYPES):            # corner corpus: everything on the core / beyond-range lshapes, both dtypes
        for si, s in enumerate(CORE + BIG + (sizes_for(lt)[:6] if ctx.quick else sizes_for(lt))):
            for wi, w in enumerate(whats):
                if ctx.quick and (li + si + wi) % 2:
                    continue            # quick: a fixed half of the corpus (not seeded); thorough: all of it
                case = {"kind": "ctor", "lt": lt, "s": list(s), "dtype": ["float64", "float32"][(li + si + wi // 2) % 2], "what": w}
                check_ctor(ctx, case)
                ctx.note_case(("ctor", lt, w, s), True)
                ctx.count(f"ctor.{w}")
    for li, lt in enumerate(LTYPES):
        for si, s in enumerate(SHAPES):
            ws = whats if not ctx.quick else [whats[(si + li + ctx.seed + 3 * k) % len(whats)] for k in range(1)]
            if ctx.quick and s in CORE:
                ws = []
            for w in ws:
                case = {"kind": "ctor", "lt": lt, "s": list(s), "dtype": rng.choice(["float64", "float32"]), "what": w}
                check_ctor(ctx, case)
                ctx.note_case(("ctor", lt, w, s), True)
                ctx.count(f"ctor.{w}")
            # lview / new_empty with another lshape
            s2 = rng.choice(UH.BY_NUMEL[numel(s)])
            c = {"kind": "ctor", "lt": lt, "s": list(s), "dtype": "float64", "what": "lview", "s2": list(s2), "s2_out": list(s2)}
            if numel(s) and rng.random() < 0.4 and len(s2) >= 1:
                c["s2"] = [-1] + list(s2[1:])
            check_ctor(ctx, c)
            s3 = rng.choice(SHAPES)
            check_ctor(ctx, {"kind": "ctor", "lt": lt, "s": list(s), "dtype": "float32", "what": "new_empty",
                             "s2": list(s3), "s2_out": list(s3)})
            ctx.note_case(("ctor", lt, "lview", s, s2), True)
            ctx.count("ctor.lview")
        # wrong last dimension must be rejected, for every ltype and every other width
        for dd in range(1, 10):
            case = {"kind": "ctor-bad", "lt": lt, "d": dd}
            try:
                P.LieTensor(torch.zeros(2, dd), ltype=ltype_of(lt))
                accepted = True
            except AssertionError:
                accepted = False
            if accepted != (dd == DIM[lt]):
                ctx.fail(case, f"ctor-check: LieTensor(ltype={lt}) {'accepted' if accepted else 'rejected'} a last dimension of {dd}")
            ctx.count("ctor.shape_check")
        # Parameter
        X = _lie(POOLS.get(lt, "float64")[:3].clone(), lt)
        case = {"kind": "param", "lt": lt}
        Pm = P.Parameter(X)
        if type(Pm) is not P.Parameter or Pm.ltype is not X.ltype or not Pm.requires_grad or not torch.equal(Pm.tensor(), X.tensor()):
            ctx.fail(case, f"param: Parameter({lt}) -> {type(Pm).__name__} ltype {ltype_name(getattr(Pm, 'ltype', None))} requires_grad={Pm.requires_grad}")
        Pc = copy.deepcopy(Pm)
        if type(Pc) is not P.Parameter or getattr(Pc, "ltype", None) is not X.ltype or not torch.equal(Pc.tensor(), X.tensor()) \
                or Pc.data_ptr() == Pm.data_ptr() or not Pc.requires_grad:
            ctx.fail(case, f"param: deepcopy(Parameter({lt})) -> {type(Pc).__name__} ltype {ltype_name(getattr(Pc, 'ltype', None))}")
        two = copy.deepcopy([Pm, Pm])
        if two[0] is not two[1]:
            ctx.fail(case, "param: deepcopy does not honour its memo (one Parameter copied twice)")
        with torch.no_grad():
            Pc.tensor().mul_(2)
        if not torch.equal(Pm.tensor(), X.tensor()):
            ctx.fail(case, "mutation: changing a deep copy of a Parameter changed the original")
        for nm, y in (("clone", Pm.clone()), ("getitem", Pm[0]), ("detach", Pm.detach())):
            if type(y) is not P.LieTensor or y.ltype is not X.ltype:
                ctx.fail(case, f"param: Parameter.{nm} -> {type(y).__name__} ltype {ltype_name(getattr(y, 'ltype', None))}")
        ctx.note_case(("param", lt), True)
        ctx.count("ctor.parameter")


# ============================================================================= mixed-regime batches = item by item

def _qmul(a, b):
    ax, ay, az, aw = a
    bx, by, bz, bw = b
    return [aw * bx + ax * bw + ay * bz - az * by, aw * by - ax * bz + ay * bw + az * bx,
            aw * bz + ax * by - ay * bx + az * bw, aw * bw - ax * bx - ay * by - az * bz]


def _qaxis(axis, ang):
    n = math.sqrt(sum(c * c for c in axis))
    h = ang / 2
    return [c / n * math.sin(h) for c in axis] + [math.cos(h)]


def _qeuler(roll, pitch, yaw):
    return _qmul(_qaxis([0, 0, 1], yaw), _qmul(_qaxis([0, 1, 0], pitch), _qaxis([1, 0, 0], roll)))


def special_rotations():
    """[(regime, quaternion, rotation vector)] — orientations in the special regimes of the per-item branches
    (gimbal lock of `euler` at its default eps=2e-4, angle 0, tiny angles, angle pi, w<0) — built with plain python"""
    hp = math.pi / 2
    out = []

    def add(name, q, phi):
        out.append((name, q, phi))
    add("identity", [0., 0., 0., 1.], [0., 0., 0.])
    add("minus-identity", [0., 0., 0., -1.], [0., 0., 0.])
    for nm, p in (("lock+", hp), ("lock-", -hp), ("lock+near", hp - 0.005), ("lock-near", -hp + 0.005), ("almost-lock", hp - 0.05)):
        q = _qeuler(0.3, p, -0.7)
        add(nm, q, None)
    add("lock+pure", _qaxis([0, 1, 0], hp), [0., hp, 0.])
    add("lock-pure", _qaxis([0, 1, 0], -hp), [0., -hp, 0.])
    add("lock+pure-near", _qaxis([0, 1, 0], hp - 0.005), [0., hp - 0.005, 0.])
    for nm, ax, ang in (("pi-x", [1, 0, 0], math.pi), ("pi-oblique", [0.6, 0, 0.8], math.pi), ("near-pi", [0.3, -0.5, 0.8], math.pi - 1e-6),
                        ("tiny-1e-12", [0.2, 0.9, -0.4], 1e-12), ("tiny-1e-9", [0.7, -0.1, 0.7], 1e-9), ("tiny-1e-5", [-0.5, 0.5, 0.7], 1e-5),
                        ("beyond-pi", [0.1, 0.7, 0.7], math.pi + 0.4)):
        n = math.sqrt(sum(c * c for c in ax))
        add(nm, _qaxis(ax, ang), [c / n * ang for c in ax])
    # spacing relative to the thresholds of the per-item branches, both signs: euler's lock band |t2| >= 1 - 2e-4
    # (t2 = sin(pitch)), and the small-angle switches at eps(float32) / eps(float64)
    for nm, t2 in (("band-below", 1 - 2e-4 - 1e-6), ("band-at", 1 - 2e-4), ("band-above", 1 - 2e-4 + 1e-6), ("band-far-above", 1 - 1e-9)):
        for sg in (1.0, -1.0):
            add(f"{nm}{'+' if sg > 0 else '-'}", _qeuler(-0.4, sg * math.asin(t2), 0.9), None)
    for nm, ang in (("eps32/2", 2.0 ** -24), ("eps32", 2.0 ** -23), ("eps32*2", 2.0 ** -22), ("eps64/2", 2.0 ** -53), ("eps64", 2.0 ** -52),
                    ("eps64*2", 2.0 ** -51), ("sqrt-eps64", 2.0 ** -26)):
        ax = [0.6, -0.64, 0.48]
        add(f"angle-{nm}", _qaxis(ax, ang), [c * ang for c in ax])
    # exact coincidences of two data-dependent quantities (|v| == |w| bit for bit: quarter turns, both hemispheres,
    # axis-aligned and generic), exact half turn (w == 0), t2 == ±1 exactly is `lock±pure` above
    r2 = math.sqrt(0.5)
    for nm, q in (("tie-quarter-x", [r2, 0., 0., r2]), ("tie-quarter-x-neg", [r2, 0., 0., -r2]), ("tie-quarter-xy", [0.5, 0.5, 0., r2]),
                  ("tie-quarter-generic-neg", [-0.5, 0., 0.5, -r2]), ("tie-half-exact", [0., 1., 0., 0.]), ("tie-equal-components", [0.5, 0.5, 0.5, 0.5])):
        add(nm, q, None)
    add("tie-angle-pi/2-vector", _qaxis([0, 0, 1], math.pi / 2), [0., 0., math.pi / 2])
    add("w-negative", [-c for c in _qaxis([0.4, 0.5, -0.76], 4.5)], None)
    return out


_CORPUS = {}


def regime_corpus(lt, dtype):
    """(names, tensor (N, d)): the special-regime items of ltype `lt` followed by ordinary pool items"""
    key = (lt, dtype)
    if key in _CORPUS:
        return _CORPUS[key]
    grp = lt in GROUPS
    base = lt if grp else [g for g, a in ALGEBRA.items() if a == lt][0]
    names, rows = [], []
    # translations / scales include extreme-but-valid values (1e6, 1e-9 .. 1e9, |log s| = 20)
    trans = [[0.3, -1.2, 2.0], [0., 0., 0.], [5.0, 0.1, -0.4], [1e6, -1e-6, 3e5], [1e-30, 0., -1e-12]]
    scales = [1.0, 0.5, 2.0, 1e-9, 1e9] if grp else [0.0, 1e-9, 0.3, -0.4, 20.0, -20.0]
    k = 0
    for nm, q, phi in special_rotations():
        r = q if grp else phi
        if r is None:
            continue
        t = trans[k % len(trans)]
        sc = scales[k % len(scales)]
        row = {"SO3": r, "SE3": t + r, "RxSO3": r + [sc], "Sim3": t + r + [sc]}[base]
        names.append(nm)
        rows.append(row)
        k += 1
    T = torch.tensor(rows, dtype=torch.float64)
    pool = POOLS.get(lt, "float64")[:5]
    tn, tr = tie_rows(lt, dtype)
    names += tn
    names += [f"ordinary{j}" for j in range(pool.shape[0])]
    T = torch.cat([T.to(DT[dtype])] + ([tr] if tn else []) + [pool.to(DT[dtype])], dim=0).contiguous()
    _CORPUS[key] = (names, T)
    return names, T


def _euler_band_tie(dt):
    """unit quaternion (0, y, 0, w) whose `t2 = 2 (w y - z x) / |q|^2`, evaluated with euler's own operations in dtype `dt`, EQUALS the
    threshold `1 - 2e-4` as the comparison sees it (the python scalar rounded to `dt`) — found by walking over neighbouring floats"""
    target = torch.tensor(1. - 2e-4, dtype=torch.float64).to(dt)
    y0 = math.sin(math.asin(float(target)) / 2)
    y = torch.tensor(y0, dtype=dt)
    lo, hi = y.clone(), y.clone()
    for _ in range(40000):
        for c in (lo, hi):
            w = torch.sqrt(1 - c * c)
            zero = torch.zeros((), dtype=dt)
            t2 = 2 * (w * c - zero * zero) / (zero * zero + c * c + zero * zero + w * w)
            if bool(t2 == target):
                return [0.0, float(c), 0.0, float(w)]
        lo = torch.nextafter(lo, torch.tensor(0., dtype=dt))
        hi = torch.nextafter(hi, torch.tensor(1., dtype=dt))
    return None


def tie_rows(lt, dtype):
    """pass 7 (38c): EXACT ties of every floating comparison that selects a branch in the anchored code, built in the target dtype
    from exactly representable data and reachable through the public constructors:
      theta == eps            (so3 Exp, so3_Jl, so3_Jl_inv, Jr, rxso3_Ws)            phi = (eps, 0, 0): the norm of an axis vector is exact
      theta == 0.05           (calcQ of se3 / sim3)                                   phi = (fl(0.05), 0, 0)
      |sigma| == eps, 0       (rxso3_Ws four-way selection) x theta in {0, eps, big}  all nine combinations, both signs of sigma
      |v| == eps, |w| == eps  (SO3_Log three-way selection)                           q = (eps,0,0,±1), (1,0,0,±eps), w == 0 is `tie-half-exact`
      |t2| == 1 - 2e-4        (euler's lock band, default eps)                        q = (0, ±y, 0, w) found by `_euler_band_tie`
      scale == 1 exactly and 1 ± eps with rotation identity / |v| == eps (RxSO3 / Sim3 Log: sigma = log s is 0 / ~eps)"""
    dt = DT[dtype]
    e = float(torch.finfo(dt).eps)
    grp = lt in GROUPS
    base = lt if grp else [g for g, a in ALGEBRA.items() if a == lt][0]
    names, rows = [], []
    tr = [0.25, -1.5, 2.0]
    if grp:
        rots = [("tie-|v|=eps", [e, 0., 0., 1.]), ("tie-|v|=eps-neg", [0., e, 0., -1.]), ("tie-|w|=eps", [1., 0., 0., e]), ("tie-|w|=eps-neg", [0., 0., 1., -e]),
                ("tie-|v|=2eps", [0., 0., 2 * e, 1.])]
        band = _euler_band_tie(dt)
        if band is not None:
            rots += [("tie-euler-band+", band), ("tie-euler-band-", [0.0, -band[1], 0.0, band[3]])]
        for nm, q in rots:
            for sn, sc in ((("", 1.0),) if base in ("SO3", "SE3") else (("", 1.0), (",s=1+eps", 1.0 + e), (",s=1-eps/2", 1.0 - e / 2))):
                if sn and nm not in ("tie-|v|=eps", "tie-|w|=eps"):
                    continue
                names.append(nm + sn)
                rows.append({"SO3": q, "SE3": tr + q, "RxSO3": q + [sc], "Sim3": tr + q + [sc]}[base])
        if base in ("RxSO3", "Sim3"):
            for sn, sc in (("tie-identity,s=1+eps", 1.0 + e), ("tie-identity,s=1-eps/2", 1.0 - e / 2)):
                names.append(sn)
                rows.append({"RxSO3": [0., 0., 0., 1., sc], "Sim3": tr + [0., 0., 0., 1., sc]}[base])
    else:
        c05 = float(torch.tensor(0.05, dtype=dt))
        thetas = [("theta=eps", [e, 0., 0.]), ("theta=eps-y", [0., -e, 0.]), ("theta=2eps", [0., 0., 2 * e]), ("theta=eps/2", [e / 2, 0., 0.])]
        if base in ("SE3", "Sim3"):
            thetas += [("theta=0.05", [c05, 0., 0.]), ("theta=0.05-z", [0., 0., -c05])]
        if base in ("SO3", "SE3"):
            for nm, phi in thetas:
                names.append("tie-" + nm)
                rows.append({"SO3": phi, "SE3": tr + phi}[base])
        else:
            for tn_, phi in [("theta=0", [0., 0., 0.])] + thetas[:1] + thetas[4:5] + [("theta=0.5", [0., 0.5, 0.])]:
                for sn, sg in (("sigma=0", 0.0), ("sigma=eps", e), ("sigma=-eps", -e), ("sigma=2eps", 2 * e), ("sigma=0.25", 0.25)):
                    if sn in ("sigma=2eps", "sigma=0.25") and tn_ != "theta=eps":
                        continue            # the strict sides of the sigma comparison: once, next to the theta tie
                    names.append(f"tie-{sn},{tn_}")
                    rows.append({"RxSO3": phi + [sg], "Sim3": tr + phi + [sg]}[base])
    if not rows:
        return [], None
    R = torch.tensor(rows, dtype=torch.float64).to(dt)
    return names, R


_SINGLE = {}
# (op, item[, partner]) for which a non-finite value IS the specified / unavoidable result on the unchanged tree — each with the reason
NONFINITE_OK = set()


def _close(a, b, dtype):
    """batched value vs the same function on the single item.  Element-wise relative: |a-b| <= 64 eps |b| per element,
    plus an absolute floor of 64 eps times the smallest non-zero magnitude of the item (NaN == NaN, inf == inf) — no
    factor taken from a large block (translation 1e6, scale 1e9) is allowed to loosen another block."""
    a, b = _plain(a).detach().double(), _plain(b).detach().double()
    if a.shape != b.shape:
        return False
    if not torch.equal(torch.isnan(a), torch.isnan(b)):
        return False
    fin = torch.isfinite(b)
    if not torch.equal(a[~fin & ~torch.isnan(b)], b[~fin & ~torch.isnan(b)]):
        return False
    a, b = a[fin], b[fin]
    if a.numel() == 0:
        return True
    tol = 64 * common.EPS[dtype]
    nz = b.abs()[b != 0]
    floor = float(nz.min()) if nz.numel() else 0.0
    return bool(((a - b).abs() <= tol * (b.abs() + min(floor, 1.0))).all())


def check_regime(ctx: Ctx, case) -> bool:
    """a batch mixing special-regime and ordinary items: every output item == the SAME function on that item alone"""
    lt, op, api, dtype = case["lt"], case["op"], case["api"], case["dtype"]
    spec = {o: (apis, out) for o, apis, out in unary_ops(lt)}[op]
    fn = spec[0][api]
    names, C = regime_corpus(lt, dtype)
    order = list(case["order"])
    shape = tuple(case["shape"])
    X = _lie(C[order].reshape(shape + (C.shape[1],)).clone(), lt)
    x0 = X.tensor().clone()
    with warnings.catch_warnings():
        warnings.simplefilter("ignore")
        try:
            r = fn(X)
        except Exception as e:
            ctx.fail(case, f"raises: {lt}.{op} ({api}) raises on a mixed-regime batch {[names[k] for k in order]}: {type(e).__name__}: {str(e)[:80]}")
            return False
        if not torch.equal(X.tensor(), x0):
            ctx.fail(case, f"mutation: {lt}.{op} ({api}) changed its argument")
        rt = _plain(r)
        if tuple(rt.shape[:len(shape)]) != shape:
            ctx.fail(case, f"shape: {lt}.{op} ({api}) on lshape {shape} returned shape {tuple(rt.shape)}")
            return False
        rt = rt.reshape((len(order),) + tuple(rt.shape[len(shape):]))
        ok = True
        for pos, k in enumerate(order):
            key = (lt, op, dtype, k)
            if key not in _SINGLE:
                try:
                    _SINGLE[key] = _plain(fn(_lie(C[k].clone(), lt))).detach()
                except Exception as e:
                    _SINGLE[key] = e
            single = _SINGLE[key]
            if isinstance(single, Exception):
                ctx.fail(case, f"raises: {lt}.{op} raises on the single item `{names[k]}` but not on the batch")
                return False
            # pass 7 (38a): every corpus item is a finite valid operand (unit quaternions, scales 1e-9 .. 1e9, |log s| <= 20, translations
            # <= 1e6); nothing in the documentation specifies a non-finite value for any of them — `_close` treats NaN == NaN, so a
            # NaN produced by the batch and the single call alike must be refused here
            if not bool(torch.isfinite(single).all()) and (lt, op, names[k]) not in NONFINITE_OK:
                ctx.fail(dict(case, order=[k], shape=[1]), f"non-finite result: {lt}.{op} of the finite valid item `{names[k]}` = {C[k].tolist()} ({dtype}) is {single.flatten()[:6].tolist()}")
                return False
            if not _close(rt[pos], single, dtype):
                ctx.fail(case, f"itemwise: {lt}.{op} ({api}) on a batch mixing regimes {[names[j] for j in order]}: output item {pos} "
                               f"(`{names[k]}`) is {rt[pos].flatten()[:4].tolist()} but the same function on that item alone gives "
                               f"{single.flatten()[:4].tolist()}")
                ok = False
                break
    return ok


def check_regime2(ctx: Ctx, case) -> bool:
    """binary op site, same-shape batch of mixed-regime items: every output item == the op on that pair alone"""
    site = tuple(case["site"])
    spec = SITES[site]
    dtype = case["dtype"]
    nx, CX = regime_corpus(spec["px"], dtype)
    if spec["py"] in ("p3", "p4"):
        CY = POOLS.get(spec["py"], dtype)
        ny = [f"point{j}" for j in range(CY.shape[0])]
    else:
        ny, CY = regime_corpus(spec["py"], dtype)
    ox, oy = list(case["ox"]), list(case["oy"])
    X = _lie(CX[ox].clone(), spec["px"])
    y = wrap_second(site, case["ycase"], CY[oy].clone())
    tag = f"{site[0]}.{site[1]}"
    with warnings.catch_warnings():
        warnings.simplefilter("ignore")
        try:
            r = _plain(site_call(site, case["api"], X, y)).detach()
        except Exception as e:
            ctx.fail(case, f"raises: {tag} ({case['api']}) raises on a mixed-regime batch: {type(e).__name__}: {str(e)[:80]}")
            return False
        for pos, (i, j) in enumerate(zip(ox, oy)):
            key = (site, dtype, i, j)
            if key not in _SINGLE:
                _SINGLE[key] = _plain(site_call(site, case["api"], _lie(CX[i].clone(), spec["px"]),
                                                wrap_second(site, case["ycase"], CY[j].clone()))).detach()
            if not bool(torch.isfinite(_SINGLE[key]).all()) and (tag, nx[i], ny[j]) not in NONFINITE_OK:
                ctx.fail(dict(case, ox=[i], oy=[j]), f"non-finite result: {tag} of the finite valid items `{nx[i]}` = {CX[i].tolist()} with `{ny[j]}` = {CY[j].tolist()} ({dtype}) "
                                                      f"is {_SINGLE[key].flatten()[:6].tolist()}")
                return False
            if not _close(r[pos], _SINGLE[key], dtype):
                ctx.fail(case, f"itemwise: {tag} ({case['api']}) on a batch mixing regimes: output item {pos} (`{nx[i]}` with `{ny[j]}`) is "
                               f"{r[pos].flatten()[:4].tolist()} but the op on that pair alone gives {_SINGLE[key].flatten()[:4].tolist()}")
                return False
    return True


def stream_regime(ctx: Ctx):
    """corner corpus, the same for every seed: all special + ordinary items in ONE batch (two layouts), every special
    item paired with an ordinary one (both orders); plus seed-dependent permutations / subsets"""
    rng = ctx.rng
    for lt in LTYPES:
        for dtype in ("float64", "float32"):
            names, C = regime_corpus(lt, dtype)
            N = C.shape[0]
            nsp = sum(1 for n in names if not n.startswith("ordinary"))
            layouts = [(list(range(N)), (N,)), (list(range(N - 1, -1, -1)), (N,))]
            if N % 2 == 0:
                layouts.append((list(range(N)), (2, N // 2)))
            else:
                layouts.append((list(range(N - 1)), (2, (N - 1) // 2)))
            pairs2 = []
            for k in range(nsp):
                pairs2.append(([k, N - 1], (2,)))
                pairs2.append(([N - 2, k], (2,)))
            for _ in range(ctx.pick(1, 40)):
                m = rng.randint(2, 6)
                layouts.append(([rng.randrange(N) for _ in range(m)], (m,)))
            perm = list(range(N))
            rng.shuffle(perm)
            layouts.append((perm, (N,)))
            for oi, (op, apis, out) in enumerate(unary_ops(lt)):
                # two-item batches (special, ordinary) in both orders: all of them (thorough) / every third, rotating with
                # the op so that each special item is paired under every third op (quick; deterministic)
                branchy = op in ("euler", "Jr", "Log", "Exp", "quat2unit")       # ops with per-item threshold branches: all pairs
                if ctx.quick and dtype == "float32" and op not in ("euler", "Jr", "Log", "Exp")[:(4 if (oi + ctx.seed) % 2 == 0 else 2)]:
                    continue
                p2 = pairs2 if (not ctx.quick or branchy) else []
                if ctx.quick:           # pass 7: the corpus grew by the exact ties — quick pairs every third special item, rotating with op and seed
                    p2 = [pr for q_, pr in enumerate(p2) if (q_ // 2 + oi + ctx.seed) % 3 == 0]
                lay = layouts if (branchy or not ctx.quick) else [layouts[0], layouts[2], layouts[-1]]      # quick, no per-item branch: full batch, 2 x N/2, a permutation
                for order, shape in ((lay + p2) if dtype == "float64" or not ctx.quick else layouts[:2]):
                    case = {"kind": "regime", "lt": lt, "op": op, "api": rng.choice(sorted(apis)), "dtype": dtype,
                            "order": order, "shape": list(shape)}
                    check_regime(ctx, case)
                    ctx.note_case(("regime", lt, op, dtype, tuple(order), shape), True)
                    ctx.count(f"regime.{op}")
    check_tie_neighbours(ctx)
    for site in SITE_KEYS:
        spec = SITES[site]
        for dtype in ("float64", "float32"):
            nx = regime_corpus(spec["px"], dtype)[1].shape[0]
            ny = POOLS.K if spec["py"] in ("p3", "p4") else regime_corpus(spec["py"], dtype)[1].shape[0]
            n = min(nx, ny)
            shifts = [0, 3] + [rng.randrange(n) for _ in range(ctx.pick(1, 8))]
            if ctx.quick:       # quick: one fixed and one seeded pairing in float64, the other fixed pairing in float32
                shifts = [[0], [shifts[2]]][(ctx.seed + SITE_KEYS.index(site)) % 2] if dtype == "float64" else ([3] if (ctx.seed + SITE_KEYS.index(site)) % 4 == 0 else [])
            for sh in shifts:
                case = {"kind": "regime2", "site": list(site), "api": rng.choice(sorted(spec["apis"])), "ycase": rng.choice(["lie", "plain"]),
                        "dtype": dtype, "ox": list(range(n)), "oy": [(k + sh) % n for k in range(n)]}
                check_regime2(ctx, case)
                ctx.note_case(("regime2", site, dtype, sh), True)
                ctx.count(f"regime2.{site[1]}")


def check_tie_neighbours(ctx: Ctx):
    """pass 7 (38c): at an exact tie of a branch selection SOME branch must be selected — a result that is left zero / uninitialised /
    NaN only there is the same for the batch and for the single item, so the item-wise oracle cannot see it.  Every op here is
    continuous across its thresholds (the branches are a closed form and its series), so the value AT the tie must agree with the
    values one ulp to either side of it (tied components moved to the next float up / down in magnitude) within 1e-3 relative, element by element.
    Excluded: euler's lock band, where roll / yaw are DEFINED differently on the two sides (documented convention)."""
    for lt in LTYPES:
        for dtype in ("float64", "float32"):
            names, C = regime_corpus(lt, dtype)
            dt = DT[dtype]
            e = torch.finfo(dt).eps
            marks = torch.tensor([e, 2 * e, e / 2, float(torch.tensor(0.05, dtype=dt))], dtype=dt)
            for k, nm in enumerate(names):
                if not nm.startswith("tie-") or "euler" in nm or nm.startswith(("tie-quarter", "tie-half", "tie-equal", "tie-angle")):
                    continue
                if ctx.quick and dtype == "float32" and (k + ctx.seed) % 2:          # quick: every tie in float64, every second one in float32
                    continue
                x = C[k]
                tied = (x.abs().unsqueeze(-1) == marks).any(-1)
                if not bool(tied.any()):
                    continue
                up = torch.where(tied, torch.nextafter(x, x.sign() * float("inf")), x)
                dn = torch.where(tied, torch.nextafter(x, torch.zeros_like(x)), x)
                with warnings.catch_warnings():
                    warnings.simplefilter("ignore")
                    # quick: the ops that contain (or directly call) a thresholded branch; thorough: every op
                    calls = [(f"{lt}.{op}", (lambda fn: lambda v: _plain(fn(_lie(v.clone(), lt))))(apis[sorted(apis)[0]])) for op, apis, _ in unary_ops(lt)
                             if op != "euler" and (not ctx.quick or op in ("Log", "Exp", "Jr", "translation"))]
                    for sk in SITE_KEYS:
                        if sk[0] != lt or (ctx.quick and sk[1] not in ("jinvp", "retr")):
                            continue
                        spec = SITES[sk]
                        y = POOLS.get(spec["py"], dtype)[1]
                        calls.append((f"{sk[0]}.{sk[1]}", (lambda sk, spec, y: lambda v: _plain(site_call(sk, sorted(spec["apis"])[0], _lie(v.clone(), spec["px"]),
                                                                                                           wrap_second(sk, "lie", y.clone()))))(sk, spec, y)))
                    for label, f in calls:
                        case = {"kind": "tie", "lt": lt, "dtype": dtype, "item": nm, "op": label}
                        ctx.note_case(("tie", lt, dtype, nm, label), True)
                        ctx.count("regime.tie")
                        try:
                            v0, v1, v2 = f(x).detach().double(), f(up).detach().double(), f(dn).detach().double()
                        except Exception as ex:
                            ctx.fail(case, f"raises: {label} raises at the exact tie `{nm}` = {x.tolist()} ({dtype}) or one ulp beside it: {type(ex).__name__}: {str(ex)[:80]}")
                            continue
                        if not bool(torch.isfinite(v0).all()):
                            ctx.fail(case, f"non-finite result: {label} at the exact tie `{nm}` = {x.tolist()} ({dtype}) is {v0.flatten()[:6].tolist()}")
                            continue
                        # the value at the tie lies between its two neighbours, element by element; slack: 1e-3 relative to the neighbours (the
                        # interesting quantities at theta == eps are themselves O(eps)), their own distance, and rounding noise 4 eps of
                        # the largest entry (cancelling entries of an O(1) matrix are 0 on one side and 1e-16 on the other)
                        lo, hi = torch.minimum(v1, v2), torch.maximum(v1, v2)
                        slack = 1e-3 * torch.maximum(v1.abs(), v2.abs()) + (v1 - v2).abs() + 4 * float(e) * float(v1.abs().max())
                        if not bool(((v0 >= lo - slack) & (v0 <= hi + slack)).all()):
                            ctx.fail(case, f"tie: {label} at the exact tie `{nm}` = {x.tolist()} ({dtype}) is {v0.flatten()[:6].tolist()} but one ulp above the threshold "
                                           f"it is {v1.flatten()[:6].tolist()} and one ulp below {v2.flatten()[:6].tolist()} — no branch (or a wrong one) is selected exactly "
                                           f"at the threshold")


# ============================================================================= __torch_function__ wrapping

def leaf_code(x):
    P = pp()
    if isinstance(x, P.LieTensor):
        return "L%d" % LTYPES.index(ltype_name(x.ltype)) if hasattr(x, "ltype") else "L?"
    if isinstance(x, torch.Tensor):
        return "T"
    return "O"


def flat_leaves(x):
    if isinstance(x, (list, tuple)):
        out = []
        for y in x:
            out += flat_leaves(y)
        return out
    return [x]


def tf_cases(rng):
    """(name, builder) -> builder(mk) returns (func, args, kwargs); `mk(lt, *lshape)` makes a LieTensor"""
    idx = torch.tensor([1, 0])
    C = []
    same4 = ["SO3", "rxso3"]      # ltypes sharing the item width 4
    same7 = ["SE3", "sim3"]
    for a, b in [(same4[0], same4[1]), (same4[1], same4[0]), (same7[0], same7[1]), (same7[1], same7[0])]:
        C.append(("cat", lambda mk, a=a, b=b: (torch.cat, ([mk(a, 2).tensor(), mk(a, 2), mk(b, 2)],), {})))
        C.append(("stack", lambda mk, a=a, b=b: (torch.stack, ((mk(b, 2), mk(a, 2)), 0), {})))
        C.append(("index_copy", lambda mk, a=a, b=b: (torch.Tensor.index_copy, (mk(a, 3), 0, idx, mk(b, 2)), {})))
        C.append(("index_copy", lambda mk, a=a, b=b: (torch.Tensor.index_copy, (mk(a, 3).tensor(), 0, idx, mk(b, 2)), {})))
        C.append(("copy_", lambda mk, a=a, b=b: (torch.Tensor.copy_, (mk(a, 2), mk(b, 2)), {})))
        C.append(("copy_", lambda mk, a=a, b=b: (torch.Tensor.copy_, (mk(a, 2).tensor(), mk(b, 2)), {})))
    for lt in LTYPES:
        C.append(("sum", lambda mk, lt=lt: (torch.sum, (mk(lt, 3), 0), {})))
        C.append(("neg", lambda mk, lt=lt: (torch.neg, (mk(lt, 3),), {})))
        C.append(("flip", lambda mk, lt=lt: (torch.flip, (mk(lt, 3), (0,)), {})))
        C.append(("roll", lambda mk, lt=lt: (torch.roll, (mk(lt, 3), 1, 0), {})))
        C.append(("flatten", lambda mk, lt=lt: (torch.flatten, (mk(lt, 2, 2), 0, 1), {})))
        C.append(("mean", lambda mk, lt=lt: (torch.mean, (mk(lt, 3),), {})))
        C.append(("abs", lambda mk, lt=lt: (torch.abs, (mk(lt, 3),), {})))
        C.append(("norm", lambda mk, lt=lt: (torch.linalg.norm, (mk(lt, 3),), {})))
        C.append(("zeros_like", lambda mk, lt=lt: (torch.zeros_like, (mk(lt, 3),), {})))
        C.append(("sub", lambda mk, lt=lt: (torch.sub, (mk(lt, 3), mk(lt, 3)), {})))
        C.append(("contiguous", lambda mk, lt=lt: (torch.Tensor.contiguous, (mk(lt, 3),), {})))
        C.append(("unbind", lambda mk, lt=lt: (torch.unbind, (mk(lt, 3), 0), {})))
        C.append(("split", lambda mk, lt=lt: (torch.split, (mk(lt, 3), [1, 2], 0), {})))
        C.append(("clone", lambda mk, lt=lt: (torch.clone, (mk(lt, 3),), {})))
        C.append(("mul_", lambda mk, lt=lt: (torch.Tensor.mul_, (mk(lt, 3), 2.0), {})))
        C.append(("zero_", lambda mk, lt=lt: (torch.Tensor.zero_, (mk(lt, 3),), {})))
    return C


KW_CASES = [
    ("cat", lambda mk, lt: (torch.cat, (), {"tensors": [mk(lt, 2), mk(lt, 1)], "dim": 0})),
    ("stack", lambda mk, lt: (torch.stack, (), {"tensors": (mk(lt, 2), mk(lt, 2))})),
    ("index_select", lambda mk, lt: (torch.index_select, (), {"input": mk(lt, 3), "dim": 0, "index": torch.tensor([0, 2])})),
    ("clone", lambda mk, lt: (torch.clone, (), {"input": mk(lt, 3)})),
    ("unbind", lambda mk, lt: (torch.unbind, (), {"input": mk(lt, 3)})),
    ("reshape", lambda mk, lt: (torch.reshape, (), {"input": mk(lt, 2, 2), "shape": (4, DIM[lt])})),
    ("permute", lambda mk, lt: (torch.permute, (), {"input": mk(lt, 2, 3), "dims": (1, 0, 2)})),
    ("gather", lambda mk, lt: (torch.gather, (), {"input": mk(lt, 3), "dim": 0, "index": torch.zeros(2, DIM[lt], dtype=torch.long)})),
    ("squeeze", lambda mk, lt: (torch.squeeze, (), {"input": mk(lt, 1, 2), "dim": 0})),
]


def stream_tf(ctx: Ctx, names):
    P = pp()
    rng = ctx.rng

    def mk(lt, *ls):
        return _lie(POOLS.get(lt, "float64")[:numel(ls)].reshape(tuple(ls) + (DIM[lt],)).clone(), lt)
    lines, metas = [], []
    for name, bld in tf_cases(rng):
        fn, args, kwargs = bld(mk)
        fargs = flat_leaves(list(args))
        acodes = [leaf_code(a) for a in fargs]
        def pclone(a):
            if isinstance(a, torch.Tensor):
                return _plain(a).clone()
            if isinstance(a, (list, tuple)):
                return type(a)(pclone(t) for t in a)
            return a
        ref = fn(*[pclone(a) for a in args], **kwargs)
        case = {"kind": "tf", "name": name, "args": acodes}
        try:
            with warnings.catch_warnings():
                warnings.simplefilter("ignore")
                r = fn(*args, **kwargs)
        except Exception as e:
            ctx.fail(case, f"tf-raises: torch.{name} with argument kinds {acodes} raises {type(e).__name__}: {str(e)[:80]}")
            continue
        outs = flat_leaves(r)
        refs = flat_leaves(ref)
        # what Tensor.__torch_function__ hands back: plain tensors, except an argument returned as such (in-place)
        pre = []
        for o in outs:
            same = [a for a in fargs if a is o]
            pre.append(leaf_code(same[0]) if same else ("T" if isinstance(o, torch.Tensor) else "O"))
        got = [leaf_code(o) for o in outs]
        lines.append(f"c06.tf {name} {' '.join(acodes)} | {' '.join(pre)}")
        metas.append((case, got, name))
        for o, rf in zip(outs, refs):
            if isinstance(o, torch.Tensor) and not torch.equal(_plain(o), rf):
                ctx.fail(case, f"items: torch.{name} on LieTensors returns other values than on the plain tensors")
        ctx.note_case(("tf", name, tuple(acodes)), True)
        ctx.count("tf." + ("handled" if name in names else "unhandled"))
    reps = ctx.driver.run(lines)
    for rep, (case, got, name) in zip(reps, metas):
        st, toks = common.parse_reply(rep)
        want = toks if st == "ok" else None
        if want != got:
            ctx.disagree("tf", case, f"torch.{name} {case['args']}: implementation returns kinds {got}, model {want if want else rep}")
            # the property's own statement: handled -> LieTensor with the first LieTensor's ltype
        if name in names:
            first = [a for a in case["args"] if a.startswith("L")]
            if first and any(g == "T" for g in got):
                ctx.fail(case, f"ltype: handled function {name} returned a plain Tensor (argument kinds {case['args']})")
            if first and any(g.startswith("L") and g != first[0] for g, p in zip(got, got)) and name not in ("copy_", "index_copy"):
                ctx.fail(case, f"ltype: handled function {name} returned ltype {got}, first LieTensor argument is {first[0]}")
    # keyword-only calls (D22): every handled function must also work when the LieTensor is passed by keyword;
    # the code flattens (args, kwargs), the model gets the same flattened leaves
    klines, kmetas = [], []
    for name, bld in KW_CASES:
        for lt in (LTYPES if not ctx.quick else [LTYPES[(ctx.seed + k) % 8] for k in range(2)]):
            fn, args, kwargs = bld(mk, lt)
            acodes = [leaf_code(a) for a in flat_leaves(list(args) + list(kwargs.values()))]
            case = {"kind": "tf-kwargs", "name": name, "lt": lt, "positional_lietensors": 0, "args": acodes}
            ctx.note_case(("tf-kwargs", name, lt), True)
            ctx.count("tf.kwargs_only")
            try:
                with warnings.catch_warnings():
                    warnings.simplefilter("ignore")
                    r = fn(*args, **kwargs)
            except Exception as e:
                case["exception"] = type(e).__name__
                ctx.fail(case, f"kwargs-only: torch.{name}(…) with the LieTensor passed by keyword raises {type(e).__name__}: "
                               f"{str(e)[:60]} (the same call with a positional LieTensor returns a {lt} LieTensor)")
                continue
            outs = flat_leaves(r)
            got = [leaf_code(o) for o in outs]
            klines.append(f"c06.tf {name} {' '.join(acodes)} | {' '.join('T' if isinstance(o, torch.Tensor) else 'O' for o in outs)}")
            kmetas.append((case, got))
            for o in outs:
                if isinstance(o, torch.Tensor) and (not isinstance(o, P.LieTensor) or o.ltype is not ltype_of(lt)):
                    ctx.fail(case, f"ltype: torch.{name}(…) with keyword LieTensor returned {type(o).__name__}")
    for rep, (case, got) in zip(ctx.driver.run(klines), kmetas):
        st, toks = common.parse_reply(rep)
        if st != "ok" or toks != got:
            ctx.disagree("tf", case, f"torch.{case['name']} keyword-only {case['args']}: implementation kinds {got}, model {rep}")


# ============================================================================= retain_ltype / func.jacrev

import importlib  # noqa: E402


class BodyRaise(Exception):
    pass


def torch_slots():
    import torch._functorch.eager_transforms as E
    import torch._functorch.vmap as V
    import torch.autograd.forward_ad as F
    return [(F, "make_dual"), (E, "_wrap_tensor_for_grad"), (V, "_add_batch_dim")]


_ORIG = None


def touched_modules():
    """every module retain_ltype may write to: the three patched torch modules, the module `_add_batch_dim` is defined in,
    and pypose's own lietensor module (home of the wrapper closures)"""
    import torch._functorch.eager_transforms as E
    import torch._functorch.vmap as V
    import torch.autograd.forward_ad as F
    mods = [F, E, V]
    try:
        import torch._functorch.predispatch as PD
        mods.append(PD)
    except Exception:
        pass
    from pypose.lietensor import lietensor as L
    return mods + [L]


def _from_pypose(v):
    return (getattr(v, "__module__", "") or "").startswith("pypose") or "retain_ltype" in (getattr(v, "__qualname__", "") or "")


def attr_snapshot():
    """{module name: {attribute: (id(value), value comes from pypose?)}} of the touched modules, plus the
    (__module__, __name__) metadata of the three original functions"""
    snap = {m.__name__: {k: (id(v), _from_pypose(v)) for k, v in vars(m).items()} for m in touched_modules()}
    snap["<metadata>"] = {f"slot{k}": ((o.__module__, o.__name__), False) for k, o in enumerate(originals())}
    return snap


SLOT_NAMES = {"make_dual", "_wrap_tensor_for_grad", "_add_batch_dim"}


def attr_diff(before, after):
    """what pypose left behind: attributes that are new / changed / removed AND (hold a pypose object now or before, or are one
    of the three patched names, or metadata of the originals).  torch's own lazily initialised module state (e.g.
    predispatch.DECOMPOSITIONS_LOADED flipping on the first vmap of the process) is not pypose's patching and is ignored."""
    out = []
    for mod in before:
        b, a = before[mod], after.get(mod, {})
        for k in a:
            rel = a[k][1] or (k in b and b[k][1]) or k in SLOT_NAMES or mod == "<metadata>"
            if k not in b and rel:
                out.append(f"{mod}.{k} (new)")
            elif k in b and a[k][0] != b[k][0] and rel:
                out.append(f"{mod}.{k} (changed)")
        for k in b:
            if k not in a and (b[k][1] or k in SLOT_NAMES):
                out.append(f"{mod}.{k} (removed)")
    return sorted(out)


def check_attrs(ctx: Ctx, case, before, what):
    """full attribute dictionaries of the touched modules (forward_ad, eager_transforms, vmap, predispatch,
    pypose.lietensor.lietensor) before/after: anything pypose leaves behind is a failure (patching not undone on exit);
    leftovers are removed so that later cases start clean"""
    after = attr_snapshot()
    diff = attr_diff(before, after)
    if diff:
        group = "retain-metadata" if all(d.startswith("<metadata>") for d in diff) else "retain-attrs"
        ctx.fail(dict(case, stray=diff), f"{group}: after {what} the touched modules keep {diff} — patching that is not undone on exit "
                                         f"(the three patched slots themselves may well be restored)")
    for m in touched_modules():
        for k in list(vars(m)):
            if k not in before[m.__name__] and _from_pypose(vars(m)[k]):
                delattr(m, k)
    return diff


def originals():
    global _ORIG
    if _ORIG is None:
        _ORIG = [getattr(m, n) for m, n in torch_slots()]
    return _ORIG


def describe(f, orig):
    """'w'*depth + 'o<slot>' following the wrapper closures; '?' when the chain does not end in an original"""
    depth = 0
    while True:
        for k, o in enumerate(orig):
            if f is o:
                return "w" * depth + f"o{k}"
        code = getattr(f, "__code__", None)
        if code is None or "func" not in code.co_freevars or f.__closure__ is None:
            return "w" * depth + "?"
        f = f.__closure__[code.co_freevars.index("func")].cell_contents
        depth += 1
        if depth > 200:
            return "?"


def gen_body(rng, depth=0, budget=6):
    """prefix tokens of a body: r | x | c<slot> k | n inner k"""
    c = rng.random()
    if budget <= 0 or c < 0.22:
        return ["r"]
    if c < 0.38:
        return ["x"]
    if c < 0.7 or depth >= 3:
        return [f"c{rng.randrange(3)}"] + gen_body(rng, depth, budget - 1)
    if c < 0.82:          # try: inner  except: handler ; continuation
        return ["t"] + gen_body(rng, depth, budget - 2) + gen_body(rng, depth, budget - 3) + gen_body(rng, depth, budget - 3)
    return ["n"] + gen_body(rng, depth + 1, budget - 2) + gen_body(rng, depth, budget - 2)


def small_bodies(maxlen):
    """all bodies with at most `maxlen` tokens (exhaustive small histories)"""
    out = []

    def go(prefix, need, left):
        if need == 0:
            out.append(prefix)
            return
        if left < need:
            return
        for t in ["r", "x"]:
            go(prefix + [t], need - 1, left - 1)
        for t in ["c0", "c2"]:
            go(prefix + [t], need, left - 1)
        go(prefix + ["n"], need + 1, left - 1)
        go(prefix + ["t"], need + 2, left - 1)
    go([], 1, maxlen)
    return out


def interp_body(toks, pos, log, orig):
    """interpret the body on the real library; returns the new position"""
    P = pp()
    t = toks[pos]
    if t == "r":
        return pos + 1
    if t == "x":
        # the kind of exception varies with the body (a context that swallows only some classes must show)
        raise [BodyRaise, ValueError, KeyError, ZeroDivisionError][(len(toks) + pos) % 4]("body")
    if t.startswith("c"):
        m, n = torch_slots()[int(t[1:])]
        log.append(describe(getattr(m, n), orig))
        return interp_body(toks, pos + 1, log, orig)
    if t == "n":
        end_inner = skip_body(toks, pos + 1)
        with P.retain_ltype():
            interp_body(toks, pos + 1, log, orig)
        return interp_body(toks, end_inner, log, orig)
    if t == "t":
        end_inner = skip_body(toks, pos + 1)
        end_handler = skip_body(toks, end_inner)
        try:
            interp_body(toks, pos + 1, log, orig)
        except (BodyRaise, ValueError, KeyError, ZeroDivisionError) as e:
            if "body" not in str(e):
                raise
            interp_body(toks, end_inner, log, orig)
        return interp_body(toks, end_handler, log, orig)
    raise ValueError(t)


def skip_body(toks, pos):
    t = toks[pos]
    if t in ("r", "x"):
        return pos + 1
    if t.startswith("c"):
        return skip_body(toks, pos + 1)
    if t == "t":
        return skip_body(toks, skip_body(toks, skip_body(toks, pos + 1)))
    return skip_body(toks, skip_body(toks, pos + 1))


def check_retain(ctx: Ctx, case):
    """one body under `with retain_ltype()` on the real library -> (slots, outcome, log)"""
    P = pp()
    from pypose.lietensor import lietensor as L
    orig = originals()
    toks, fail_at = case["body"], case.get("fail_at", -1)
    log = []
    outcome = "ok"
    real_import = importlib.import_module
    calls = {"n": 0}
    snap = attr_snapshot()

    def flaky(name, package=None):
        k = calls["n"]
        calls["n"] += 1
        if k == fail_at:
            raise ImportError("injected")
        return real_import(name, package)
    try:
        if fail_at >= 0:
            L.importlib.import_module = flaky
        try:
            with P.retain_ltype():
                interp_body(toks, 0, log, orig)
        except (BodyRaise, ValueError, KeyError, ZeroDivisionError) as e:
            if "body" not in str(e):
                raise
            outcome = "raised"
        except ImportError as e:
            if str(e) != "injected":
                raise
            outcome = "raised"
    finally:
        L.importlib.import_module = real_import
    slots = [describe(getattr(m, n), orig) for m, n in torch_slots()]
    restored = all(getattr(m, n) is o for (m, n), o in zip(torch_slots(), orig))
    if not restored:
        ctx.fail(case, f"retain: after `with retain_ltype()` (body {' '.join(toks)}, fault in patch loop at {fail_at}) the torch "
                       f"attributes are {slots} instead of the originals")
        for (m, n), o in zip(torch_slots(), orig):      # repair, so that later cases are meaningful
            setattr(m, n, o)
    diff = check_attrs(ctx, case, snap, f"`with retain_ltype()` (body {' '.join(toks[:14])}{'…' if len(toks) > 14 else ''})")
    return slots, outcome, log, diff


def retain_policy():
    """which home policy the source implements: by `(__module__, __name__)` look-ups (`cur`) or by saved slots (`slot`)"""
    import inspect
    try:
        src = inspect.getsource(pp().retain_ltype.__wrapped__)
    except Exception:
        src = "__module__"
    return "cur" if "__module__" in src else "slot"


def stream_retain(ctx: Ctx):
    P = pp()
    rng = ctx.rng
    orig = originals()
    # the WellHomed hypothesis of retain_restores, on the real attributes (after retain_ltype's own __module__ fix-up)
    with P.retain_ltype():
        pass
    for k, ((m, n), o) in enumerate(zip(torch_slots(), orig)) if retain_policy() == "cur" else []:
        try:
            home = getattr(importlib.import_module(o.__module__), o.__name__, None)
        except Exception:
            home = None
        if home is not o or importlib.import_module(o.__module__) is not m:
            ctx.disagree("retain", {"kind": "wellhomed", "slot": k},
                         f"slot {k}: ({o.__module__}, {o.__name__}) does not designate the patched attribute {m.__name__}.{n}")
    policy = retain_policy()
    ctx.count(f"retain.policy.{policy}")
    cases = [{"kind": "retain", "body": b, "fail_at": -1} for b in small_bodies(4 if ctx.quick else 6)]
    for _ in range(ctx.pick(60, 600)):
        cases.append({"kind": "retain", "body": gen_body(rng), "fail_at": -1})
    from . import util_c06c as B3
    for b in B3.deep_bodies():          # arbitrary nesting depth (5, 12, 40 contexts inside one another)
        cases.append({"kind": "retain", "body": b, "fail_at": -1})
    if policy == "cur":       # a fault inside the patch loop exists only where the loop looks modules up by name
        cases.append({"kind": "retain", "body": B3.deep_bodies()[2], "fail_at": 1})
        for j in range(3):
            cases.append({"kind": "retain", "body": ["r"], "fail_at": j})
            cases.append({"kind": "retain", "body": ["c1", "r"], "fail_at": j})
    lines = []
    results = []
    for c in cases:
        results.append(check_retain(ctx, c))
        lines.append(f"c06.retain {policy} 0 1 2 {c['fail_at']} " + " ".join(c["body"]))
        ctx.note_case(("retain", tuple(c["body"]), c["fail_at"]), True)
        ctx.count("retain." + ("raise" if "x" in c["body"] else "return") + (".nested" if "n" in c["body"] else ""))
    reps = ctx.driver.run(lines)
    for c, (slots, outcome, log, diff), rep in zip(cases, results, reps):
        st, toks = common.parse_reply(rep)
        if st != "ok":
            raise common.InfraError(f"model error reply: {rep}")
        m_slots, m_out, m_log = toks[0:3], toks[5], [t for t in toks[6:] if t]
        # the junk slots of the model: 3 = pypose.lietensor.lietensor.wrapper, 4 = torch._functorch.vmap.wrapper
        for slot, attr in ((3, "pypose.lietensor.lietensor.wrapper"), (4, "torch._functorch.vmap.wrapper")):
            left = any(d.startswith(attr + " ") for d in diff)
            if left != (toks[slot] != f"o{slot}"):
                ctx.disagree("retain", c, f"body {' '.join(c['body'][:14])}: implementation {'leaves' if left else 'does not leave'} `{attr}` behind, "
                                          f"model ({policy}) slot {slot} = {toks[slot]}")
        # an exception in the patch loop happens before the body: the model's log is empty there as well
        # the property is about the slots after exit; inside the body a call must find a wrapper — how deep the wrappers
        # nest under re-entry (the model says once: nested contexts write slot 3) is not part of the property
        if outcome != m_out:
            ctx.fail(c, f"retain-outcome: body {' '.join(c['body'])} (fault in patch loop at {c['fail_at']}): the `with retain_ltype()` "
                        f"block ended `{outcome}`, the body's own outcome is `{m_out}` (exception swallowed or invented)")
        flat = lambda l: [re.sub(r"^w+", "w", t) for t in l]
        if slots != m_slots or outcome != m_out or flat(log) != flat(m_log):
            ctx.disagree("retain", c, f"body {' '.join(c['body'])} fail_at {c['fail_at']}: implementation slots {slots} outcome {outcome} "
                                      f"calls saw {log}; model {m_slots} {m_out} {m_log}")
    ctx.sample({"stream": "retain", **cases[len(cases) // 2]})
    # func.jacrev: value, ltype inside, and restoration when the differentiated function raises at the k-th call
    for lt, fname in (("SE3", "act"), ("SO3", "act"), ("Sim3", "act"), ("RxSO3", "act"), ("SE3", "raise0"), ("SO3", "raise1"),
                      ("SE3", "nested"), ("SE3", "aux")):
        case = {"kind": "jacrev", "lt": lt, "f": fname}
        pose = _lie(POOLS.get(lt, "float64")[:1].clone(), lt)
        pts = POOLS.get("p3", "float64")[:1].clone()
        seen = []

        def f(pose_, pts_):
            seen.append((type(pose_).__name__, ltype_name(getattr(pose_, "ltype", None))))
            if fname == "raise0":                   # raises before touching its arguments
                raise ValueError("injected")
            out = pose_ @ pts_
            if fname == "raise1":                   # raises after the wrapped torch functions were used
                raise ValueError("injected")
            if fname == "nested":                   # a second jacrev (nested retain_ltype) inside the first
                inner = P.func.jacrev(lambda q, x: q @ x)(pose, pts)
                out = out + 0 * inner.sum()
            if fname == "aux":
                return out, out.detach()
            return out
        p0, q0 = pose.tensor().clone(), pts.clone()
        snap = attr_snapshot()
        try:
            J = P.func.jacrev(f, has_aux=(fname == "aux"))(pose, pts)
            raised = False
        except ValueError as e:
            raised = str(e) == "injected"
            if not raised:
                raise
        except Exception as e:
            ctx.fail(case, f"jacrev-raises: pp.func.jacrev on a {lt} action raises {type(e).__name__}: {str(e)[:100]}")
            raised = None
        ctx.note_case(("jacrev", lt, fname), True)
        ctx.count("retain.jacrev")
        if not all(getattr(m, n) is o for (m, n), o in zip(torch_slots(), orig)):
            ctx.fail(case, f"retain: after pp.func.jacrev ({fname}, {lt}) the torch attributes are "
                           f"{[describe(getattr(m, n), orig) for m, n in torch_slots()]}")
            for (m, n), o in zip(torch_slots(), orig):
                setattr(m, n, o)
        check_attrs(ctx, case, snap, f"pp.func.jacrev ({fname}, {lt})")
        if not torch.equal(pose.tensor(), p0) or not torch.equal(pts, q0):
            ctx.fail(case, "mutation: pp.func.jacrev changed an argument")
        if fname.startswith("raise") and raised is False:
            ctx.fail(case, "jacrev: the exception raised by the differentiated function was swallowed")
        if seen and seen[0] != ("LieTensor", lt):
            ctx.fail(case, f"ltype: inside pp.func.jacrev the {lt} argument arrives as {seen[0]}")
        if raised is False and fname in ("act", "aux", "nested") and not isinstance(J[0] if fname == "aux" and isinstance(J, tuple) else J, torch.Tensor):
            ctx.fail(case, f"jacrev: pp.func.jacrev ({fname}, {lt}) returned {type(J).__name__} instead of the Jacobian")
        elif raised is False and fname in ("act", "aux", "nested"):
            Jt = J[0] if fname == "aux" else J
            # reference: torch.func.jacrev of the same action written on plain tensors through the public API
            ref = torch.func.jacrev(lambda t: _plain(P.LieTensor(t, ltype=ltype_of(lt)).Act(pts)))(pose.tensor())
            if Jt.shape != ref.shape or not bool(torch.isfinite(Jt).all()) or not bool(((Jt - ref).abs() <= 1e-9 * (1 + ref.abs().max())).all()):
                ctx.fail(case, f"jacrev: pp.func.jacrev of the {lt} action differs from torch.func.jacrev on the plain tensor")


# ============================================================================= purity sweep

from . import util_purity as UP  # noqa: E402


def check_purity(ctx: Ctx, case) -> bool:
    reg = UP.registry()
    g = torch.Generator().manual_seed(case["data_seed"])
    fn, args, kwargs = reg[case["fn"]](g, case["variant"])
    mon = common.PurityMonitor()
    try:
        with warnings.catch_warnings():
            warnings.simplefilter("ignore")
            mon.call(case["fn"], fn, *args, **kwargs)
        ctx.count("purity.ok")
    except Exception as e:
        ctx.count("purity.rejected")
        case["_exc"] = f"{type(e).__name__}: {str(e)[:80]}"
    if mon.mutations:
        mu = mon.mutations[0]
        ctx.fail({k: v for k, v in case.items() if not k.startswith("_")},
                 f"mutation: {case['fn']} changed its argument {mu['argument']} (variant {case['variant']}): "
                 f"{mu['before'][:4]} -> {mu['after'][:4]}")
        return False
    return True


def stream_purity(ctx: Ctx):
    reg = UP.registry()
    names = sorted(reg)
    pub = UP.public_names()
    unc = [n for n in pub if n not in reg and not n.startswith("pp.identity_") and not n.startswith("pp.randn_")
           and n != "pp.retain_ltype"]          # constructors: ctor stream; retain_ltype: retain stream
    ctx.count("purity.public", len(pub))
    ctx.count("purity.covered", len([n for n in pub if n in reg]))
    ctx.notes.append("public callables without synthesised arguments in C06's sweep (covered by the monitors of their own "
                     "properties): " + ", ".join(unc))
    reps = ctx.pick(4, 80)
    rejected = {}
    for n in names:
        for k in range(reps):
            if k < (3 if ctx.quick else 4):       # deterministic corpus: the same argument sets per function for every seed
                case = {"kind": "purity", "fn": n, "variant": [0, 1, 199, 1366][k], "data_seed": 1000 + 17 * k + sum(map(ord, n))}
            else:
                case = {"kind": "purity", "fn": n, "variant": ctx.rng.randrange(1 << 12), "data_seed": ctx.rng.randrange(1 << 30)}
            check_purity(ctx, case)
            if "_exc" in case:
                rejected.setdefault(n, case["_exc"])
            ctx.note_case(("purity", n, case["variant"] % 64), True)
    if rejected:
        ctx.notes.append("purity sweep: synthesised arguments rejected by " + "; ".join(f"{k} ({v})" for k, v in sorted(rejected.items())[:12]))
    # in-place API (trailing underscore) must change only `self`
    P = pp()
    for lt in GROUPS:
        X = _lie(POOLS.get(lt, "float64")[:3].clone(), lt)
        a = POOLS.get(ALGEBRA[lt], "float64")[:3].clone()
        a0 = a.clone()
        X.add_(a)
        P.add_(X, a)
        if lt == "SO3":
            X.identity_()
        if not torch.equal(a, a0):
            ctx.fail({"kind": "purity-inplace", "lt": lt}, f"mutation: {lt}.add_ changed `other`")
        ctx.count("purity.inplace")


# ============================================================================= histories: stale reads, object reuse, aliases

def stream_persistent(ctx: Ctx):
    """STALE READS: one LieTensor object updated in place (add_, copy_, item assignment, identity_) and read again
    through every unary op, every binary site (fixed partner), lshape and the handled shape functions: each read must
    equal the same read on a fresh clone bit for bit (shared helper util_lie.persistent_probe; deterministic)."""
    from . import util_lie as UL
    P = pp()

    def reads_for(algebra):
        def reads(gname):
            lt = ALGEBRA[gname] if algebra else gname
            d = DIM[lt]
            R = {}
            for op, apis, out in unary_ops(lt):
                R[op] = (lambda fn: lambda o: fn(o))(apis[sorted(apis)[0]])
            R["lshape"] = lambda o: torch.tensor(list(o.lshape) + [o.shape[-1]])
            R["clone"] = lambda o: o.clone()
            R["getitem"] = lambda o: o[1]
            R["view"] = lambda o: o.view(-1, d)
            R["cat"] = lambda o: torch.cat([o, o], 0)
            R["index_select"] = lambda o: o.index_select(0, torch.tensor([2, 0]))
            R["deepcopy(Parameter)"] = lambda o: copy.deepcopy(P.Parameter(o)).tensor()
            for site in SITE_KEYS:
                if site[0] != lt:
                    continue
                spec = SITES[site]

                def mkread(site=site, spec=spec):
                    def rd(o):
                        dtn = "float64" if o.dtype == torch.float64 else "float32"
                        y = wrap_second(site, "lie", POOLS.get(spec["py"], dtn)[:3].clone())
                        return site_call(site, sorted(spec["apis"])[0], o, y)
                    return rd
                R[f"{site[1]}"] = mkread()
            return R
        return reads
    with warnings.catch_warnings():
        warnings.simplefilter("ignore")
        UL.persistent_probe(ctx, reads_for(False))
        UL.persistent_probe(ctx, reads_for(True), algebra=True)


def _slots_ok(orig):
    return all(getattr(m, n) is o for (m, n), o in zip(torch_slots(), orig))


def _restore_slots(orig):
    for (m, n), o in zip(torch_slots(), orig):
        setattr(m, n, o)


def stream_reuse(ctx: Ctx):
    """OBJECT REUSE: the stateful objects of this property are a `pp.func.jacrev` wrapper, a function decorated with
    `@retain_ltype()`, LieTensor / Parameter objects used as operands again and again, and the LieType singletons.
    Each is used several times in one history with every per-call argument varied; every call is compared with the
    same call on fresh objects."""
    P = pp()
    orig = originals()
    state = {"raise": False, "seen": []}

    def f(pose, pts):
        state["seen"].append((type(pose).__name__, ltype_name(getattr(pose, "ltype", None))))
        out = pose @ pts
        if state["raise"]:
            raise ValueError("injected")
        return out
    jf = P.func.jacrev(f)
    hist = [("SE3", 1, "float64", False), ("SO3", 2, "float64", False), ("Sim3", 1, "float32", False), ("RxSO3", 1, "float64", True),
            ("SE3", 2, "float32", False), ("SO3", 1, "float64", True), ("SO3", 1, "float64", False), ("SE3", 1, "float64", False)]
    for step, (lt, n, dtype, rs) in enumerate(hist):
        case = {"kind": "reuse", "what": "jacrev", "step": step, "history": [list(h) for h in hist[:step + 1]]}
        pose = _lie(POOLS.get(lt, dtype)[step:step + n].clone(), lt)
        pts = POOLS.get("p3", dtype)[step:step + n].clone()
        state["raise"], state["seen"] = rs, []
        ctx.note_case(("reuse", "jacrev", step), True)
        ctx.count("reuse.jacrev")
        snap = attr_snapshot()
        try:
            J = jf(pose, pts)
            got = "ok"
        except ValueError as e:
            got = "raised" if str(e) == "injected" else f"ValueError {e}"
        except Exception as e:
            got = f"{type(e).__name__}: {str(e)[:80]}"
        if got != ("raised" if rs else "ok"):
            ctx.fail(case, f"reuse: call #{step} of ONE pp.func.jacrev wrapper ({lt}, batch {n}, {dtype}, raise={rs}) ended `{got}`")
        if not _slots_ok(orig):
            ctx.fail(case, f"retain: after call #{step} of one jacrev wrapper the torch attributes are "
                           f"{[describe(getattr(m, n_), orig) for m, n_ in torch_slots()]}")
            _restore_slots(orig)
        check_attrs(ctx, case, snap, f"call #{step} of one jacrev wrapper")
        if state["seen"] and state["seen"][0] != ("LieTensor", lt):
            ctx.fail(case, f"ltype: call #{step} of one jacrev wrapper: the {lt} argument arrives as {state['seen'][0]}")
        if got == "ok" and not rs:
            state["raise"] = False
            Jf = P.func.jacrev(f)(pose, pts)               # the same call through a fresh wrapper
            if not isinstance(J, torch.Tensor) or not isinstance(Jf, torch.Tensor):
                ctx.fail(case, f"reuse: call #{step} of a jacrev wrapper returned {type(J).__name__} instead of the Jacobian")
            elif J.shape != Jf.shape or J.dtype != Jf.dtype or not torch.equal(J, Jf):
                ctx.fail(case, f"reuse: call #{step} of a re-used jacrev wrapper ({lt}, batch {n}, {dtype}) differs from the same call "
                               f"through a fresh wrapper (shape {tuple(J.shape)} vs {tuple(Jf.shape)})")
    # decorator form of the context manager, called repeatedly, raising every other time

    @P.retain_ltype()
    def g(k):
        inside = [describe(getattr(m, n_), orig) for m, n_ in torch_slots()]
        if k % 2:
            raise BodyRaise()
        return inside
    for k in range(6):
        case = {"kind": "reuse", "what": "decorator", "step": k}
        ctx.count("reuse.decorator")
        try:
            inside = g(k)
            if not all(t.startswith("w") for t in inside):
                ctx.disagree("retain", case, f"call #{k} of a function decorated with @retain_ltype(): inside, the slots are {inside}")
        except BodyRaise:
            pass
        if not _slots_ok(orig):
            ctx.fail(case, f"retain: after call #{k} of a function decorated with @retain_ltype() the torch attributes are "
                           f"{[describe(getattr(m, n_), orig) for m, n_ in torch_slots()]}")
            _restore_slots(orig)
    # one LieTensor / Parameter object as operand of every site, partner shape and dtype-compatible variant varied per call
    partner_shapes = [(3,), (), (2, 3), (1,), (3,), (0, 3)] if not ctx.quick else [(3,), (), (2, 3), (0, 3)]
    with warnings.catch_warnings():
        warnings.simplefilter("ignore")
        for lt in LTYPES:
            for dtype in ("float64", "float32"):
                for holder in (("LieTensor", "Parameter") if dtype == "float64" else ("LieTensor",)):
                    X = _lie(POOLS.get(lt, dtype)[:3].clone(), lt)
                    if holder == "Parameter":
                        X = P.Parameter(X, requires_grad=False)
                    x0 = _plain(X).clone()
                    sites = [sk for sk in SITE_KEYS if sk[0] == lt]
                    calls = [("u", op, apis) for op, apis, _ in unary_ops(lt)]
                    for k, sh in enumerate(partner_shapes):
                        for sk in sites:
                            calls.append(("b", sk, sh, k))
                    for ci, call in enumerate(calls):
                        case = {"kind": "reuse", "what": "operand", "lt": lt, "dtype": dtype, "holder": holder, "call": ci}
                        ctx.count("reuse.operand")
                        try:
                            if call[0] == "u":
                                fn = call[2][sorted(call[2])[ci % len(call[2])]]
                                a, b = fn(X), fn(_lie(x0.clone(), lt))
                                label = call[1]
                            else:
                                sk, sh, k = call[1], call[2], call[3]
                                spec = SITES[sk]
                                yt, _ = make_tagged(POOLS.get(spec["py"], dtype), sh, k)
                                api = sorted(spec["apis"])[(ci + k) % len(spec["apis"])]
                                ycase = ["lie", "plain"][k % 2]
                                a = site_call(sk, api, X, wrap_second(sk, ycase, yt.clone()))
                                b = site_call(sk, api, _lie(x0.clone(), lt), wrap_second(sk, ycase, yt.clone()))
                                label = f"{sk[1]} with partner lshape {sh}"
                        except Exception as e:
                            nm = call[1] if call[0] == "u" else f"{call[1][1]} (partner lshape {call[2]})"
                            ctx.fail(case, f"raises: {lt}.{nm} on a re-used {holder} operand raises {type(e).__name__}: {str(e)[:80]}")
                            continue
                        if a.shape != b.shape or a.dtype != b.dtype or not same_values(_plain(a), _plain(b)):
                            ctx.fail(case, f"reuse: {lt}.{label} on a {holder} object that was already used in {ci} calls differs from the "
                                           f"same call on a fresh object ({dtype})")
                            break
                        if not torch.equal(_plain(X), x0):
                            ctx.fail(case, f"mutation: {lt}.{label} changed the re-used operand")
                            break
                    ctx.note_case(("reuse", "operand", lt, dtype, holder), True)


def stream_alias(ctx: Ctx):
    """VIEWS AND ALIASES: the same tensor passed as two arguments, partners that are views into the first operand's own
    storage, and the in-place API on a view into a larger buffer (result == the same call on a contiguous clone, storage
    outside the view untouched bit for bit)."""
    P = pp()
    with warnings.catch_warnings():
        warnings.simplefilter("ignore")
        for g in GROUPS:
            a_lt = ALGEBRA[g]
            d, m = DIM[g], MANIFOLD[g]
            for dtype in ("float64", "float32"):
                base = POOLS.get(g, dtype)[:4].clone()
                abase = POOLS.get(a_lt, dtype)[:4].clone()
                case0 = {"kind": "alias", "lt": g, "dtype": dtype}
                X = _lie(base.clone(), g)

                def same(label, got, want, case0=case0, X=X, base=base):
                    ctx.count("alias.case")
                    ctx.note_case(("alias", case0["lt"], case0["dtype"], label), True)
                    ga, wa = _flatten_result(got), _flatten_result(want)
                    bad = len(ga) != len(wa) or any(x.shape != y.shape or not torch.equal(_plain(x), _plain(y)) for x, y in zip(ga, wa))
                    if bad:
                        ctx.fail(case0 | {"what": label}, f"alias: {case0['lt']} {label}: result differs from the same call on independent copies ({case0['dtype']})")
                    if not torch.equal(X.tensor(), base):
                        ctx.fail(case0 | {"what": label}, f"mutation: {case0['lt']} {label} changed its argument")
                        X.tensor().copy_(base)
                try:
                    Xc = lambda: _lie(base.clone(), g)
                    same("X * X (same object twice)", X * X, Xc() * Xc())
                    same("X @ X", X @ X, Xc() @ Xc())
                    same("X.Inv() @ X", X.Inv() @ X, Xc().Inv() @ Xc())
                    same("X * X[:1]  (partner = view starting at the same address)", X * X[:1], Xc() * Xc()[:1].clone())
                    same("X[1:] * X[:-1]  (overlapping views)", X[1:] * X[:-1], Xc()[1:].clone() * Xc()[:-1].clone())
                    same("X[1:].Inv() @ X[:-1]", X[1:].Inv() @ X[:-1], Xc()[1:].clone().Inv() @ Xc()[:-1].clone())
                    same("torch.cat([X, X])", torch.cat([X, X]), torch.cat([Xc(), Xc()]))
                    same("torch.stack((X, X), 1)", torch.stack((X, X), 1), torch.stack((Xc(), Xc()), 1))
                    same("X.index_copy(0, idx, X[:2])", X.index_copy(0, torch.tensor([3, 1]), X[:2]), Xc().index_copy(0, torch.tensor([3, 1]), Xc()[:2]))
                    pview = X.tensor()[..., :3]
                    same("X.Act(view of X's storage)", X.Act(pview), Xc().Act(base[..., :3].clone()))
                    aview = X.tensor()[..., :m]
                    for fn in ("Adj", "AdjT", "Jinvp"):
                        same(f"X.{fn}(view of X's storage)", getattr(X, fn)(aview), getattr(Xc(), fn)(base[..., :m].clone()))
                    same("X.Retr(algebra LieTensor over a view of X's storage)", X.Retr(_lie(aview, a_lt)), Xc().Retr(_lie(base[..., :m].clone(), a_lt)))
                    same("X + (view of X's storage)", X + aview, Xc() + base[..., :m].clone())
                    same("X.add(X.tensor())  (wider `other`, same storage)", X.add(X.tensor()), Xc().add(base.clone()))
                    E = _lie(base[:1].expand(4, d), g)          # stride-0 operand
                    same("expanded (stride 0) operand * X", E * X, _lie(base[:1].repeat(4, 1), g) * Xc())
                    same("expanded operand .Log()", E.Log(), _lie(base[:1].repeat(4, 1), g).Log())
                    Y = Xc()
                    Y.add_(Y.tensor()[..., :m])
                    Yr = Xc()
                    Yr.add_(base[..., :m].clone())
                    same("Y.add_(view of Y's own storage)", Y, Yr)
                except Exception as e:
                    ctx.fail(case0, f"raises: alias probe on {g} raised {type(e).__name__}: {str(e)[:100]}")
                # in-place API on a view into a larger buffer
                Yo = _lie(POOLS.get(g, dtype)[5:9].clone(), g)
                idx = torch.tensor([2, 0])
                inplace = [("add_(a)", lambda V: V.add_(abase.clone())), ("pp.add_(V, a)", lambda V: P.add_(V, abase.clone())),
                           ("copy_(Y)", lambda V: V.copy_(Yo)), ("V[1] = Y[0]", lambda V: V.__setitem__(1, Yo[0])),
                           ("V[1:3] = Y[:2]", lambda V: V.__setitem__(slice(1, 3), Yo[:2])),
                           ("index_copy_(0, idx, Y[:2])", lambda V: V.index_copy_(0, idx, Yo[:2])),
                           ("index_put_((idx,), Y[:2])", lambda V: V.index_put_((idx,), Yo[:2])),
                           ("cumprod_(0)", lambda V: V.cumprod_(0)), ("cummul_(0)", lambda V: V.cummul_(0))]
                if g == "SO3":
                    inplace.append(("identity_()", lambda V: V.identity_()))
                for label, op in inplace:
                    case = case0 | {"what": "inplace-view", "op": label}
                    ctx.count("alias.inplace_view")
                    ctx.note_case(("alias", g, dtype, label), True)
                    buf = torch.full((6, d + 2), 9.0, dtype=DT[dtype])
                    buf[1:-1, 1:-1] = base
                    V = _lie(buf[1:-1, 1:-1], g)
                    C = _lie(base.clone(), g)
                    y0, a0 = Yo.tensor().clone(), abase.clone()
                    try:
                        op(V)
                        op(C)
                    except Exception as e:
                        ctx.fail(case, f"raises: {g}.{label} on a view into a larger buffer raises {type(e).__name__}: {str(e)[:80]}")
                        continue
                    border = torch.cat([buf[0].flatten(), buf[-1].flatten(), buf[:, 0].flatten(), buf[:, -1].flatten()])
                    if not bool((border == 9.0).all()):
                        ctx.fail(case, f"alias: in-place {g}.{label} on a view into a larger buffer wrote outside the view")
                    if not same_values(buf[1:-1, 1:-1], C.tensor()):
                        ctx.fail(case, f"alias: in-place {g}.{label} on a view did not update the underlying storage (the buffer the "
                                       f"caller holds does not contain the result)")
                    if not same_values(V.tensor(), C.tensor()):
                        ctx.fail(case, f"alias: in-place {g}.{label} on a non-contiguous view gives another result than on a contiguous clone ({dtype})")
                    if not torch.equal(Yo.tensor(), y0) or not torch.equal(abase, a0):
                        ctx.fail(case, f"mutation: in-place {g}.{label} changed an argument other than `self`")


def snapshot_globals():
    """public state that no call may change: the LieType singletons' attributes and the runtime handled list"""
    from pypose.lietensor import lietensor as L
    snap = {"handled": list(L.HANDLED_FUNCTIONS)}
    for n in LTYPES:
        t = ltype_of(n)
        snap[n] = (tuple(t.dimension), tuple(t.embedding), tuple(t.manifold), t.on_manifold, sorted(vars(t)), type(t).__name__)
    snap["liegroup"] = [ltype_name(t) for t in L.liegroup]
    snap["liealgebra"] = [ltype_name(t) for t in L.liealgebra]
    return snap


# ============================================================================= entry points (streams are added below)

PASS2 = ["argcombo", "errors", "gradmode", "duck", "copies", "ownership", "interleave"]
PASS3 = ["static", "torchb", "sig", "effects", "dispatch"]
PASS4 = ["defaults", "modeorder", "subclass", "large"]
PASS5 = ["poison", "dtypes", "shared_defaults", "callbacks", "propsubclass", "convties", "views", "layouts", "devices"]


def guarded(ctx: Ctx, name, fn):
    """any misbehaviour of the implementation that escapes a stream's own handling becomes a failing case of the
    property (replayable by re-running the stream) — never an exception of the harness"""
    try:
        fn()
    except common.InfraError:
        raise
    except Exception as e:
        tb = traceback.format_exc()
        frames = [ln.strip() for ln in tb.splitlines() if "/pypose/" in ln]
        where = frames[-1][:120] if frames else [ln.strip() for ln in tb.splitlines() if ln.strip().startswith("File")][-1][:120]
        # also when the exception surfaces in harness code: on the unchanged tree no stream raises (seeds 0-9, both
        # tiers), so an exception here means the implementation returned something the oracle could not digest
        # (None, wrong type, wrong arity) — a failing case, not an infrastructure error (exit 2 would hide it)
        ctx.fail({"kind": "crash", "stream": name},
                 f"crash-{name}: stream `{name}` stopped with {type(e).__name__}: {str(e)[:120]} ({where})")


# ----------------------------------------------------------------------------- generated tables: one C06 run at a time
# `lean/Pose/Gen/*.lean` are tracked files shared by every C06 process.  Everything that reads or writes them — regenerating, the
# lake build of the obligations over them (check.py's audit and stream `static`), putting them back — happens under an exclusive
# `flock` on lean/.gen.lock, so concurrent runs (a rehearsal on a scratch tree and a run on /repo) serialise instead of handing
# each other the tables of a mutated tree.  A killed process drops the lock (the OS does); whatever it left behind is regenerated
# by the next run before it builds anything.
import fcntl  # noqa: E402
import sys  # noqa: E402

_GEN_LOCK = None


def gen_lock_acquire():
    global _GEN_LOCK
    if _GEN_LOCK is None:
        f = open(extract.VERIF / "lean" / ".gen.lock", "w")
        fcntl.flock(f, fcntl.LOCK_EX)
        _GEN_LOCK = f


def gen_lock_release():
    global _GEN_LOCK
    if _GEN_LOCK is not None:
        try:
            fcntl.flock(_GEN_LOCK, fcntl.LOCK_UN)
            _GEN_LOCK.close()
        finally:
            _GEN_LOCK = None


def regenerate_from_reference():
    """the tracked tables as /repo (the reference tree) gives them — whatever PYPOSE_REPO says"""
    if not os.path.isdir("/repo/pypose"):
        return []
    saved = os.environ.get("PYPOSE_REPO")
    os.environ["PYPOSE_REPO"] = "/repo"
    try:
        _, ch = extract.regenerate()
        return (["Handled.lean"] if ch else []) + extract.regenerate_all()["changed"]
    finally:
        if saved is None:
            os.environ.pop("PYPOSE_REPO", None)
        else:
            os.environ["PYPOSE_REPO"] = saved


def _scratch():
    return os.environ.get("PYPOSE_REPO", "/repo").rstrip("/") != "/repo"


if os.path.basename(sys.argv[0] if sys.argv else "") == "check.py" and "C06" in " ".join(sys.argv).upper():
    # check.py imports this module BEFORE its lake build / axiom audit: take the lock now and hold it until the tables phase of run()
    # is over (or the process ends: --replay), and start from the reference tables — a rehearsal that was killed may have left others
    gen_lock_acquire()
    regenerate_from_reference()


def run(ctx: Ctx):
    """tables phase under the lock (regenerate from the tree under test, re-check the obligations over the regenerated tables, and —
    for a rehearsal on a scratch copy — put the reference tables back), then the streams"""
    gen_lock_acquire()
    try:
        names = _run_tables(ctx)
    finally:
        try:
            if _scratch():
                back = regenerate_from_reference()
                if back:
                    ctx.notes.append(f"scratch rehearsal: generated tables {back} regenerated from /repo after the obligations over them were re-checked")
        finally:
            gen_lock_release()
    _run(ctx, names)


def _run_tables(ctx: Ctx):
    torch.set_grad_enabled(True)
    torch.set_num_threads(1)
    originals()                      # remember the pristine torch attributes before anything patches them
    names = stream_regen(ctx)
    from . import util_c06c as B3
    guarded(ctx, "static", lambda: B3.stream_static(ctx))
    return names


def _run(ctx: Ctx, names):
    torch.set_grad_enabled(True)
    # one intra-op thread: every tensor here is tiny or elementwise; on the shared box the OpenMP pool of 4 threads made
    # a 65537-item Sim3.Log take 30 s (0.07 s single-threaded) when the machine was oversubscribed
    torch.set_num_threads(1)
    originals()                      # remember the pristine torch attributes before anything patches them
    snap = snapshot_globals()
    # round 5 (class 32): before ANYTHING else has run — baseline of every entry point, then every op on degenerate shapes
    from . import util_c06e as B5
    guarded(ctx, "poison", lambda: B5.stream_poison(ctx))
    # first of all the grad-mode orders on fresh keys: a module-level cache must still be empty for them
    from . import util_c06d as B4a
    guarded(ctx, "modeorder", lambda: B4a.stream_modeorder(ctx))
    # deterministic corner corpora first (identical for every seed) …
    guarded(ctx, "persistent", lambda: stream_persistent(ctx))
    guarded(ctx, "regime", lambda: stream_regime(ctx))
    guarded(ctx, "alias", lambda: stream_alias(ctx))
    guarded(ctx, "reuse", lambda: stream_reuse(ctx))
    from . import util_c06c as B3
    guarded(ctx, "torchb", lambda: B3.stream_torchb(ctx))
    guarded(ctx, "sig", lambda: B3.stream_sig(ctx))
    guarded(ctx, "effects", lambda: B3.stream_effects(ctx, names))
    guarded(ctx, "dispatch", lambda: B3.stream_dispatch(ctx))
    from . import util_c06d as B4
    guarded(ctx, "defaults", lambda: B4.stream_defaults(ctx, names))
    guarded(ctx, "subclass", lambda: B4.stream_subclass(ctx))
    guarded(ctx, "large", lambda: B4.stream_large(ctx))
    guarded(ctx, "dtypes", lambda: B5.stream_dtypes(ctx, names))
    guarded(ctx, "shared_defaults", lambda: B5.stream_shared_defaults(ctx))
    guarded(ctx, "callbacks", lambda: B5.stream_callbacks(ctx))
    guarded(ctx, "propsubclass", lambda: B5.stream_propsubclass(ctx))
    guarded(ctx, "convties", lambda: B5.stream_convties(ctx))
    guarded(ctx, "views", lambda: B5.stream_views(ctx))
    guarded(ctx, "layouts", lambda: B5.stream_layouts(ctx))
    guarded(ctx, "devices", lambda: B5.stream_devices(ctx))
    from . import util_c06b as B2
    for nm2 in PASS2:
        guarded(ctx, nm2, (lambda f: lambda: f(ctx))(getattr(B2, "stream_" + nm2)))
    guarded(ctx, "tf", lambda: stream_tf(ctx, names))
    guarded(ctx, "retain", lambda: stream_retain(ctx))
    # … then the streams that start with their own deterministic corpus and continue with seeded cases
    guarded(ctx, "handled", lambda: stream_handled(ctx, names))
    guarded(ctx, "ctor", lambda: stream_ctor(ctx))
    guarded(ctx, "unary", lambda: stream_unary(ctx))
    guarded(ctx, "purity", lambda: stream_purity(ctx))
    guarded(ctx, "bcast", lambda: stream_bcast(ctx))
    guarded(ctx, "poison-final", lambda: B5.poison_final(ctx))
    if not _slots_ok(originals()):
        ctx.fail({"kind": "retain-final"}, "retain: at the end of the run the torch attributes are not the originals")
    after = snapshot_globals()
    for k in snap:
        if snap[k] != after[k]:
            ctx.fail({"kind": "globals", "what": k}, f"state: `{k}` changed during the run: {str(snap[k])[:120]} -> {str(after[k])[:120]} "
                                                      f"(LieType singletons / HANDLED_FUNCTIONS are shared by every call)")


def search(ctx: Ctx):
    """failing-input search on the real code after a broken proof / correspondence: the property's own oracles
    (item-by-item, torch's own broadcasting, element tags, attribute identity) over the complete thorough-tier
    space of the discrete streams."""
    saved = (ctx.tier, ctx.quick)
    ctx.tier, ctx.quick = "thorough", False
    try:
        from pypose.lietensor import lietensor as L
        names = list(L.HANDLED_FUNCTIONS)
        for st in (lambda: stream_handled(ctx, names), lambda: stream_tf(ctx, names), lambda: stream_retain(ctx),
                   lambda: stream_ctor(ctx), lambda: stream_unary(ctx), lambda: stream_regime(ctx), lambda: stream_purity(ctx),
                   lambda: stream_persistent(ctx), lambda: stream_alias(ctx), lambda: stream_reuse(ctx)) + tuple(
                (lambda f: lambda: f(ctx))(getattr(__import__("harness.util_c06b", fromlist=["x"]), "stream_" + n2)) for n2 in PASS2) + tuple(
                (lambda f: lambda: f(ctx))(getattr(__import__("harness.util_c06c", fromlist=["x"]), "stream_" + n3)) for n3 in PASS3 if n3 != "static") + tuple(
                (lambda f: lambda: f(ctx))(getattr(__import__("harness.util_c06d", fromlist=["x"]), "stream_" + n4)) for n4 in PASS4) + tuple(
                (lambda f: lambda: f(ctx))(getattr(__import__("harness.util_c06e", fromlist=["x"]), "stream_" + n5)) for n5 in PASS5):
            st()
            if ctx.failures:
                return
        ctx.tier, ctx.quick = saved
        if saved[1]:
            ctx.seed += 1           # another rotation of (pair, op) -> group than the run that broke
        stream_bcast(ctx)
    finally:
        ctx.tier, ctx.quick = saved


def replay(ctx: Ctx, case) -> bool:
    c = dict(case["case"])
    n0 = len(ctx.failures)
    kind = c.get("kind")
    originals()
    names = None
    if kind == "bcast":
        check_bcast(ctx, c)
        sa, sb = tuple(c["sa"]), tuple(c["sb"])
        mp = model_add_pairs if c["site"][1] == "add" else model_pairs
        compare_bcast_model(ctx, c, mp(ctx, [(sa, sb)])[(sa, sb)])
    elif kind == "handled":
        ex = exec_handled(ctx, c)
        if ex is not None:
            compare_handled(ctx, c, ex, ctx.driver.run(ex["lines"]))
    elif kind == "unary":
        check_unary(ctx, c)
    elif kind in ("defaults", "modeorder", "subclass", "large"):
        from . import util_c06d as B4
        torch.set_num_threads(1)
        getattr(B4, "stream_" + kind)(ctx)
    elif kind in PASS5:
        from . import util_c06e as B5
        torch.set_num_threads(1)
        getattr(B5, "stream_" + kind)(ctx)
    elif kind in ("static", "torchb", "sig", "effects", "dispatch"):
        from . import util_c06c as B3
        getattr(B3, "stream_" + kind)(ctx)
    elif kind in PASS2:
        from . import util_c06b as B2
        getattr(B2, "stream_" + kind)(ctx)
    elif kind in ("reuse", "alias", "crash", "globals") or c.get("stream") == "persistent":
        from pypose.lietensor import lietensor as L
        nm = list(L.HANDLED_FUNCTIONS)
        which = {"reuse": "reuse", "alias": "alias", "globals": "reuse"}.get(kind, c.get("stream"))
        {"reuse": lambda: stream_reuse(ctx), "alias": lambda: stream_alias(ctx), "persistent": lambda: stream_persistent(ctx),
         "regime": lambda: stream_regime(ctx), "tf": lambda: stream_tf(ctx, nm), "retain": lambda: stream_retain(ctx),
         "handled": lambda: stream_handled(ctx, nm), "ctor": lambda: stream_ctor(ctx), "unary": lambda: stream_unary(ctx),
         "purity": lambda: stream_purity(ctx), "bcast": lambda: stream_bcast(ctx),
         **{n2: (lambda n2=n2: getattr(__import__("harness.util_c06b", fromlist=["x"]), "stream_" + n2)(ctx)) for n2 in PASS2},
         **{n3: (lambda n3=n3: getattr(__import__("harness.util_c06c", fromlist=["x"]), "stream_" + n3)(ctx)) for n3 in PASS3},
         **{n4: (lambda n4=n4: getattr(__import__("harness.util_c06d", fromlist=["x"]), "stream_" + n4)(ctx)) for n4 in PASS4},
         **{n5: (lambda n5=n5: getattr(__import__("harness.util_c06e", fromlist=["x"]), "stream_" + n5)(ctx)) for n5 in PASS5},
         "poison-final": lambda: __import__("harness.util_c06e", fromlist=["x"]).stream_poison(ctx)}[which]()
    elif kind == "tie":
        check_tie_neighbours(ctx)
    elif kind == "regime":
        check_regime(ctx, c)
    elif kind == "regime2":
        check_regime2(ctx, c)
    elif kind in ("ctor",):
        check_ctor(ctx, c)
    elif kind == "retain":
        slots, outcome, log, diff = check_retain(ctx, c)
        print("  implementation: slots", slots, "outcome", outcome, "calls saw", log, "leftovers", diff)
        print("  model:", ctx.driver.run([f"c06.retain {retain_policy()} 0 1 2 {c.get('fail_at', -1)} " + " ".join(c["body"])])[0])
    elif kind == "purity":
        check_purity(ctx, c)
    elif kind in ("tf", "tf-kwargs", "jacrev", "param", "ctor-bad", "binputs", "binputs1", "table", "utable", "regen",
                  "retain-final", "purity-inplace", "wellhomed", "bshape"):
        from pypose.lietensor import lietensor as L
        names = list(L.HANDLED_FUNCTIONS)
        {"tf": lambda: stream_tf(ctx, names), "tf-kwargs": lambda: stream_tf(ctx, names),
         "jacrev": lambda: stream_retain(ctx), "wellhomed": lambda: stream_retain(ctx), "retain-final": lambda: stream_retain(ctx),
         "param": lambda: stream_ctor(ctx), "ctor-bad": lambda: stream_ctor(ctx),
         "binputs": lambda: stream_bcast(ctx), "binputs1": lambda: stream_bcast(ctx), "table": lambda: stream_bcast(ctx),
         "bshape": lambda: stream_bcast(ctx), "utable": lambda: stream_unary(ctx), "regen": lambda: stream_regen(ctx),
         "purity-inplace": lambda: stream_purity(ctx)}[kind]()
    else:
        print("  unknown case kind", kind)
    for f in ctx.failures[n0:]:
        print("  fails:", f["what"])
    for k in ctx.known_hits:
        print("  known finding", k["finding"], ":", k["what"])
        break
    for d in ctx.disagreements[:5]:
        print("  model/implementation disagreement:", d["detail"][:300])
    return len(ctx.failures) == n0 and not ctx.disagreements
