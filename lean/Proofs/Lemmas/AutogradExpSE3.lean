import Proofs.Lemmas.AutogradExp
/-!
# C04 — `se3_Exp.backward` multiplies by the true derivative of `se3_Exp`

On the closed-form branches (`θ > eps` for `so3_Jl`, `θ > 0.05` for `calcQ`) the curve `t ↦ se3_Exp(x(t))` has the
left-perturbation tangent `se3_Jl(x(0))·ẋ(0)`: rotation block from `so3Exp_tangent`, translation block = the identity
`D_φ[so3_Jl(φ)τ]·dφ = Q(τ,φ)·dφ + (so3_Jl(φ)dφ) × (so3_Jl(φ)τ)` checked by `grind` modulo `θ² = φ·φ`, `sin² + cos² = 1`.
-/
set_option maxRecDepth 20000
set_option maxHeartbeats 4000000
set_option linter.unusedSimpArgs false
set_option linter.unusedVariables false
namespace PP.AD
open PP

/-- translation block of `se3_Exp.backward` (closed-form branches `θ > eps`, `θ > 0.05`) -/
theorem se3Exp_tangent_trans (eps : ℝ) (heps : 0 ≤ eps) (x : ℝ → DVec ℝ) (d0 d1 d2 d3 d4 d5 : ℝ)
    (hx : LCurve 6 x [d0, d1, d2, d3, d4, d5]) (hth : eps < (v3 (x 0) 3).norm) (hq : (5:ℝ)/100 < (v3 (x 0) 3).norm) :
    LCurve 3 (fun t => expF .SE3 eps (x t))
      (liftG .SE3 (expF .SE3 eps (x 0)) ((JlMat .SE3 eps (x 0)).mulVec [d0, d1, d2, d3, d4, d5])) := by
  have h0 := hx 0 (by norm_num); have h1 := hx 1 (by norm_num); have h2 := hx 2 (by norm_num)
  have h3 := hx 3 (by norm_num); have h4 := hx 4 (by norm_num); have h5 := hx 5 (by norm_num)
  simp only [nth_cons_zero, nth_cons_succ] at h0 h1 h2 h3 h4 h5
  set u := nth (x 0) 0 with hu
  set v := nth (x 0) 1 with hv
  set w := nth (x 0) 2 with hw
  set a := nth (x 0) 3 with ha
  set b := nth (x 0) 4 with hb
  set c := nth (x 0) 5 with hc
  have hN : HasDerivAt (fun t => nth (x t) 3 * nth (x t) 3 + nth (x t) 4 * nth (x t) 4 + nth (x t) 5 * nth (x t) 5)
      (2 * (a * d3 + b * d4 + c * d5)) 0 := by
    have := ((h3.mul h3).add (h4.mul h4)).add (h5.mul h5)
    refine this.congr_deriv ?_
    simp only [← ha, ← hb, ← hc]; ring
  have hpos : 0 < (v3 (x 0) 3).norm := lt_of_le_of_lt heps hth
  have hnorm : (v3 (x 0) 3).norm = Real.sqrt (a * a + b * b + c * c) := by
    simp [Vec3.norm, Vec3.normSq, v3, ha, hb, hc]
  set θ := Real.sqrt (a * a + b * b + c * c) with hθ
  have hθpos : 0 < θ := by rw [← hnorm]; exact hpos
  have hNpos : a * a + b * b + c * c ≠ 0 := by
    intro h; rw [hθ, h, Real.sqrt_zero] at hθpos; exact lt_irrefl _ hθpos
  have hθ2 : θ * θ = a * a + b * b + c * c :=
    Real.mul_self_sqrt (by nlinarith [mul_self_nonneg a, mul_self_nonneg b, mul_self_nonneg c])
  have hT : HasDerivAt (fun t => Real.sqrt (nth (x t) 3 * nth (x t) 3 + nth (x t) 4 * nth (x t) 4 + nth (x t) 5 * nth (x t) 5))
      ((a * d3 + b * d4 + c * d5) / θ) 0 := by
    have := hN.sqrt (by simpa [← ha, ← hb, ← hc] using hNpos)
    refine this.congr_deriv ?_
    simp only [← ha, ← hb, ← hc, ← hθ]; field_simp
  set dθ := (a * d3 + b * d4 + c * d5) / θ with hdθ
  have hθne : θ ≠ 0 := ne_of_gt hθpos
  -- coefficient functions A = (1 - cos θ)/(θ·θ), B = (θ - sin θ)/(θ·(θ·θ)) along the curve
  have hA : HasDerivAt (fun t => (1 - Real.cos (Real.sqrt (nth (x t) 3 * nth (x t) 3 + nth (x t) 4 * nth (x t) 4 + nth (x t) 5 * nth (x t) 5)))
        / (Real.sqrt (nth (x t) 3 * nth (x t) 3 + nth (x t) 4 * nth (x t) 4 + nth (x t) 5 * nth (x t) 5)
          * Real.sqrt (nth (x t) 3 * nth (x t) 3 + nth (x t) 4 * nth (x t) 4 + nth (x t) 5 * nth (x t) 5)))
      (((Real.sin θ * dθ) * (θ * θ) - (1 - Real.cos θ) * (dθ * θ + θ * dθ)) / (θ * θ) ^ 2) 0 := by
    have := ((hT.cos).const_sub (1:ℝ)).fun_div (hT.mul hT) (by simpa [← ha, ← hb, ← hc, ← hθ] using mul_ne_zero hθne hθne)
    simpa [← ha, ← hb, ← hc, ← hθ] using this
  have hB : HasDerivAt (fun t => (Real.sqrt (nth (x t) 3 * nth (x t) 3 + nth (x t) 4 * nth (x t) 4 + nth (x t) 5 * nth (x t) 5)
          - Real.sin (Real.sqrt (nth (x t) 3 * nth (x t) 3 + nth (x t) 4 * nth (x t) 4 + nth (x t) 5 * nth (x t) 5)))
        / (Real.sqrt (nth (x t) 3 * nth (x t) 3 + nth (x t) 4 * nth (x t) 4 + nth (x t) 5 * nth (x t) 5)
          * (Real.sqrt (nth (x t) 3 * nth (x t) 3 + nth (x t) 4 * nth (x t) 4 + nth (x t) 5 * nth (x t) 5)
          * Real.sqrt (nth (x t) 3 * nth (x t) 3 + nth (x t) 4 * nth (x t) 4 + nth (x t) 5 * nth (x t) 5))))
      (((dθ - Real.cos θ * dθ) * (θ * (θ * θ)) - (θ - Real.sin θ) * (dθ * (θ * θ) + θ * (dθ * θ + θ * dθ))) / (θ * (θ * θ)) ^ 2) 0 := by
    have := (hT.sub hT.sin).fun_div (hT.mul (hT.mul hT))
      (by simpa [← ha, ← hb, ← hc, ← hθ] using mul_ne_zero hθne (mul_ne_zero hθne hθne))
    simpa [← ha, ← hb, ← hc, ← hθ] using this
  have e0 := h0.differentiableAt; have e1 := h1.differentiableAt; have e2 := h2.differentiableAt
  have e3 := h3.differentiableAt; have e4 := h4.differentiableAt; have e5 := h5.differentiableAt
  have eA := hA.differentiableAt; have eB := hB.differentiableAt
  -- eventually the closed-form branch of so3_Jl is taken
  have hev : ∀ᶠ t in nhds (0:ℝ), eps < (v3 (x t) 3).norm := by
    have : ∀ᶠ t in nhds (0:ℝ), eps < Real.sqrt (nth (x t) 3 * nth (x t) 3 + nth (x t) 4 * nth (x t) 4 + nth (x t) 5 * nth (x t) 5) := by
      apply hT.continuousAt.eventually (lt_mem_nhds _)
      simpa [← ha, ← hb, ← hc, ← hθ, ← hnorm] using hth
    filter_upwards [this] with t ht
    simpa [Vec3.norm, Vec3.normSq, v3] using ht
  have hJl : ∀ y : Vec3 ℝ, eps < y.norm → so3Jl eps y =
      polyK 1 ((1 - Real.cos y.norm) / (y.norm * y.norm)) ((y.norm - Real.sin y.norm) / (y.norm * (y.norm * y.norm))) y := by
    intro y hy
    unfold so3Jl so3JlCoef
    simp only [lt_real, hy, decide_true, if_true, sin_real, cos_real, k_real, Nat.cast_one]
  have key : ∀ i, i < 3 → HasDerivAt (fun t => nth (((polyK 1 ((1 - Real.cos (v3 (x t) 3).norm) / ((v3 (x t) 3).norm * (v3 (x t) 3).norm))
        (((v3 (x t) 3).norm - Real.sin (v3 (x t) 3).norm) / ((v3 (x t) 3).norm * ((v3 (x t) 3).norm * (v3 (x t) 3).norm))) (v3 (x t) 3)).mulVec (v3 (x t))).toList) i)
      (nth (liftG .SE3 (expF .SE3 eps (x 0)) ((JlMat .SE3 eps (x 0)).mulVec [d0, d1, d2, d3, d4, d5])) i) 0 := by
    intro i hi
    interval_cases i
    all_goals
      simp only [polyK, Vec3.norm, Vec3.normSq, v3, Vec3.toList, nth_cons_zero, nth_cons_succ, sqrt_real]
      lie_unfold
      try simp only [nth_cons_zero, nth_cons_succ]
      refine HasDerivAt.congr_deriv (DifferentiableAt.hasDerivAt (by fun_prop)) ?_
      simp (disch := fun_prop) only [deriv_fun_add, deriv_fun_sub, deriv_fun_mul, deriv_const, deriv_const_mul_field,
        deriv.fun_neg, h0.deriv, h1.deriv, h2.deriv, h3.deriv, h4.deriv, h5.deriv, hA.deriv, hB.deriv]
      simp only [Nat.reduceAdd, ← ha, ← hb, ← hc, ← hu, ← hv, ← hw, ← hθ]
      -- the claimed tangent
      have hth' : eps < ({ x := a, y := b, z := c } : Vec3 ℝ).norm := by
        have : ({ x := a, y := b, z := c } : Vec3 ℝ) = v3 (x 0) 3 := by simp [v3, ha, hb, hc]
        rw [this]; exact hth
      have hn' : ({ x := a, y := b, z := c } : Vec3 ℝ).norm = θ := by
        have : ({ x := a, y := b, z := c } : Vec3 ℝ) = v3 (x 0) 3 := by simp [v3, ha, hb, hc]
        rw [this]; exact hnorm
      have hq' : (5:ℝ) / 100 < θ := by rw [← hnorm]; exact hq
      have hth'' : eps < θ := by rw [← hnorm]; exact hth
      simp only [liftG, expF, se3Exp, JlMat, se3Jl, calcQ, tose3, v3, SE3.toList, Vec3.toList, Quat.toList, DMat.block,
        DMat.hcat, DMat.vcat, DMat.zero, DVec.zero, Mat3.toRows, DMat.mulVec, DVec.dot, DVec.sum, List.map, List.zipWith,
        List.foldl, List.replicate, List.cons_append, List.nil_append, nth_cons_zero, nth_cons_succ, Nat.reduceAdd,
        ← ha, ← hb, ← hc, ← hu, ← hv, ← hw, hJl _ hth', hn', lt_real, q_real, k_real, hq', hth'', decide_true, if_true,
        sin_real, cos_real, polyK]
      lie_unfold
      try simp only [nth_cons_zero, nth_cons_succ]
      simp only [hq', decide_true, if_true]
      rw [hdθ]
      field_simp
      have hθ2' : θ ^ 2 = a ^ 2 + b ^ 2 + c ^ 2 := by rw [pow_two, hθ2]; ring
      have hsc' := Real.sin_sq_add_cos_sq θ
      clear hA hB hT hN eA eB e0 e1 e2 e3 e4 e5 h0 h1 h2 h3 h4 h5 hx hev hJl hth hq hnorm hth' hn' hdθ hNpos hθ2
      grind
  intro i hi
  refine (key i hi).congr_of_eventuallyEq ?_
  filter_upwards [hev] with t ht
  have hi' : i = 0 ∨ i = 1 ∨ i = 2 := by omega
  rcases hi' with rfl | rfl | rfl <;>
    simp [expF, se3Exp, SE3.toList, tose3, hJl _ ht, Vec3.toList]

/-- **`se3_Exp.backward` multiplies by the true derivative** on the closed-form branches (`θ > eps`, `θ > 0.05`): a curve
`x(t) = (τ(t); φ(t))` with velocity `d` is mapped to a curve in `SE3` with left-perturbation tangent `se3_Jl(x(0))·d`
— in particular the `Q` block of `calcQ` is the derivative of the translation `so3_Jl(φ)·τ` with respect to `φ`. -/
theorem se3Exp_tangent (eps : ℝ) (heps : 0 ≤ eps) (x : ℝ → DVec ℝ) (d0 d1 d2 d3 d4 d5 : ℝ)
    (hx : LCurve 6 x [d0, d1, d2, d3, d4, d5]) (hth : eps < (v3 (x 0) 3).norm) (hq : (5:ℝ)/100 < (v3 (x 0) 3).norm) :
    LCurve 7 (fun t => expF .SE3 eps (x t))
      (liftG .SE3 (expF .SE3 eps (x 0)) ((JlMat .SE3 eps (x 0)).mulVec [d0, d1, d2, d3, d4, d5])) := by
  have htr := se3Exp_tangent_trans eps heps x d0 d1 d2 d3 d4 d5 hx hth hq
  -- rotation block: the so3 theorem applied to the curve of φ
  have hφ : LCurve 3 (fun t => [nth (x t) 3, nth (x t) 4, nth (x t) 5]) [d3, d4, d5] := by
    intro j hj
    interval_cases j
    · simpa using hx 3 (by norm_num)
    · simpa using hx 4 (by norm_num)
    · simpa using hx 5 (by norm_num)
  have hrot := so3Exp_tangent eps heps (fun t => [nth (x t) 3, nth (x t) 4, nth (x t) 5]) d3 d4 d5 hφ
    (by simpa [v3] using hth)
  intro i hi
  by_cases h3 : i < 3
  · exact htr i h3
  · obtain ⟨j, hj, rfl⟩ : ∃ j, j < 4 ∧ i = 3 + j := ⟨i - 3, by omega, by omega⟩
    have := hrot j hj
    have e1 : (fun t => nth (expF .SE3 eps (x t)) (3 + j)) = fun t => nth (expF .SO3 eps [nth (x t) 3, nth (x t) 4, nth (x t) 5]) j := by
      funext t
      interval_cases j <;> simp [expF, se3Exp, SE3.toList, tose3, Vec3.toList, Quat.toList, v3]
    have e2 : nth (liftG .SE3 (expF .SE3 eps (x 0)) ((JlMat .SE3 eps (x 0)).mulVec [d0, d1, d2, d3, d4, d5])) (3 + j)
        = nth (liftG .SO3 (expF .SO3 eps ((fun t => [nth (x t) 3, nth (x t) 4, nth (x t) 5]) 0))
            ((JlMat .SO3 eps ((fun t => [nth (x t) 3, nth (x t) 4, nth (x t) 5]) 0)).mulVec [d3, d4, d5])) j := by
      interval_cases j <;>
        simp [liftG, liftQ, expF, se3Exp, JlMat, se3Jl, SE3.toList, tose3, Vec3.toList, Quat.toList, v3, qt, DMat.block,
          DMat.hcat, DMat.vcat, DMat.zero, DVec.zero, Mat3.toRows, DMat.mulVec, ddot_cons]
    rw [e1, e2]; exact this
end PP.AD
