import Proofs.Lemmas.Quat
import Pose.Model.Autograd
import Mathlib.Analysis.Calculus.Deriv.Mul
import Mathlib.Analysis.Calculus.Deriv.Add
import Mathlib.Analysis.Calculus.Deriv.Inv
import Mathlib.Tactic.FunProp
import Mathlib.Tactic.IntervalCases
import Mathlib.Tactic.Linarith
/-!
# Helper lemmas for C04 (autograd through LieTensor ops)

* list-level linear algebra over ℝ for the model's `DVec`/`DMat` (`dot`, `vecMul`, `mulVec`): the adjoint identity
  `⟨v·A, τ⟩ = ⟨v, A·τ⟩` for every well-shaped list matrix;
* curves of storage vectors (`LCurve`) and the storage-coordinate tangent `liftG g X τ` of the left perturbation
  `t ↦ Exp(tτ)·X`.
-/
namespace PP.AD
open PP

/-! ## `nth` on literal lists -/
@[simp] theorem nth_nil (i : Nat) : nth ([] : DVec ℝ) i = 0 := by simp [nth, k, Scalar.ofNat]
@[simp] theorem nth_cons_zero (a : ℝ) (l : DVec ℝ) : nth (a :: l) 0 = a := by simp [nth]
@[simp] theorem nth_cons_succ (a : ℝ) (l : DVec ℝ) (i : Nat) : nth (a :: l) (i+1) = nth l i := by simp [nth]

/-! ## sums and dot products of lists -/
theorem foldl_add_start (l : List ℝ) (s : ℝ) : l.foldl (· + ·) s = s + l.foldl (· + ·) 0 := by
  induction l generalizing s with
  | nil => simp
  | cons a l ih => simp only [List.foldl_cons]; rw [ih (s + a), ih (0 + a)]; ring

@[simp] theorem dsum_nil : DVec.sum ([] : DVec ℝ) = 0 := by simp [DVec.sum, k, Scalar.ofNat]
@[simp] theorem dsum_cons (a : ℝ) (l : DVec ℝ) : DVec.sum (a :: l) = a + DVec.sum l := by
  simp only [DVec.sum, List.foldl_cons, k_real, Nat.cast_zero]; rw [foldl_add_start]; ring
@[simp] theorem ddot_nil_left (b : DVec ℝ) : DVec.dot ([] : DVec ℝ) b = 0 := by simp [DVec.dot]
@[simp] theorem ddot_nil_right (a : DVec ℝ) : DVec.dot a ([] : DVec ℝ) = 0 := by simp [DVec.dot]
@[simp] theorem ddot_cons (x y : ℝ) (a b : DVec ℝ) : DVec.dot (x :: a) (y :: b) = x * y + DVec.dot a b := by
  simp [DVec.dot]

theorem ddot_comm (a b : DVec ℝ) : DVec.dot a b = DVec.dot b a := by
  induction a generalizing b with
  | nil => simp
  | cons x a ih => cases b with
    | nil => simp
    | cons y b => simp [ih b, mul_comm]

theorem ddot_map_add (τ : DVec ℝ) (l : List Nat) (f g : Nat → ℝ) :
    DVec.dot (l.map (fun j => f j + g j)) τ = DVec.dot (l.map f) τ + DVec.dot (l.map g) τ := by
  induction l generalizing τ with
  | nil => simp
  | cons j l ih => cases τ with
    | nil => simp
    | cons y τ => simp only [List.map_cons, ddot_cons, ih τ]; ring

theorem ddot_map_smul (τ : DVec ℝ) (l : List Nat) (c : ℝ) (f : Nat → ℝ) :
    DVec.dot (l.map (fun j => c * f j)) τ = c * DVec.dot (l.map f) τ := by
  induction l generalizing τ with
  | nil => simp
  | cons j l ih => cases τ with
    | nil => simp
    | cons y τ => simp only [List.map_cons, ddot_cons, ih τ]; ring

theorem ddot_replicate_zero (τ : DVec ℝ) (n : Nat) : DVec.dot (List.replicate n (0:ℝ)) τ = 0 := by
  induction n generalizing τ with
  | zero => simp
  | succ n ih => cases τ with
    | nil => simp
    | cons y τ => simp [List.replicate_succ, ih τ]

theorem map_getD_range (r : DVec ℝ) : (List.range r.length).map (fun j => r.getD j 0) = r := by
  apply List.ext_getElem
  · simp
  · intro i h1 h2; simp at h1 ⊢; simp [h1]

/-- `vecMul` with an explicit number of columns -/
noncomputable def vecMulN (m : Nat) (v : DVec ℝ) (a : DMat ℝ) : DVec ℝ :=
  (List.range m).map (fun j => DVec.dot v (DMat.col a j))

theorem vecMul_eq (v : DVec ℝ) (a : DMat ℝ) : DMat.vecMul v a = vecMulN (DMat.ncols a) v a := by
  simp [DMat.vecMul, DMat.transpose, vecMulN, Function.comp_def]

theorem vecMulN_adjoint (m : Nat) (a : DMat ℝ) (hw : ∀ r ∈ a, r.length = m) (v τ : DVec ℝ)
    (hv : v.length = a.length) : DVec.dot (vecMulN m v a) τ = DVec.dot v (DMat.mulVec a τ) := by
  induction a generalizing v with
  | nil => simp [vecMulN, DMat.col, DMat.mulVec, ddot_replicate_zero]
  | cons r a ih =>
    cases v with
    | nil => simp at hv
    | cons x v =>
      have hr : r.length = m := hw r (by simp)
      have hw' : ∀ r ∈ a, r.length = m := fun r' h => hw r' (by simp [h])
      have hv' : v.length = a.length := by simpa using hv
      have := ih hw' v hv'
      simp only [vecMulN, DMat.col, List.map_cons, ddot_cons, DMat.mulVec] at this ⊢
      rw [ddot_map_add, ddot_map_smul, this]
      congr 1
      have e : (List.range m).map (fun j => r.getD j (k 0 : ℝ)) = r := by
        rw [← hr]; simpa using map_getD_range r
      rw [e]

/-- a list matrix with `n` rows of length `m` -/
def Shape (n m : Nat) (a : DMat ℝ) : Prop := a.length = n ∧ ∀ r ∈ a, r.length = m

/-- **adjoint identity** `⟨v·A, τ⟩ = ⟨v, A·τ⟩` for the model's row-vector product and matrix-vector product -/
theorem vecMul_adjoint {n m : Nat} (a : DMat ℝ) (hs : Shape n m a) (hn : 0 < n) (v τ : DVec ℝ) (hv : v.length = n) :
    DVec.dot (DMat.vecMul v a) τ = DVec.dot v (DMat.mulVec a τ) := by
  rw [vecMul_eq]
  have : DMat.ncols a = m := by
    cases a with
    | nil => simp [Shape] at hs; omega
    | cons r a => simpa [DMat.ncols] using hs.2 r (by simp)
  rw [this]; exact vecMulN_adjoint m a hs.2 v τ (by rw [hv, hs.1])

theorem length_vecMul {n m : Nat} (a : DMat ℝ) (hs : Shape n m a) (hn : 0 < n) (v : DVec ℝ) :
    (DMat.vecMul v a).length = m := by
  rw [vecMul_eq]
  cases a with
  | nil => simp [Shape] at hs; omega
  | cons r a => simp [vecMulN, DMat.ncols, hs.2 r (by simp)]

theorem length_mulVec {n m : Nat} (a : DMat ℝ) (hs : Shape n m a) (τ : DVec ℝ) : (DMat.mulVec a τ).length = n := by
  simp [DMat.mulVec, hs.1]

/-! ## curves of storage vectors -/

/-- every one of the first `n` storage coordinates of `γ` is differentiable at `0` with derivative `d_i` -/
def LCurve (n : Nat) (γ : ℝ → DVec ℝ) (d : DVec ℝ) : Prop :=
  ∀ i, i < n → HasDerivAt (fun t => nth (γ t) i) (nth d i) 0

/-- derivative of `t ↦ Exp₁(tφ)·q = (tφ/2, 1)·q` at `0`: `½(φ,0)·q` -/
noncomputable def liftQ (q : Quat ℝ) (φ : Vec3 ℝ) : Quat ℝ := (Quat.mk' (φ.smul (1/2)) 0).mul q

/-- storage-coordinate velocity of the left perturbation `t ↦ Exp(tτ)·X` at `t = 0`
(`SE3`: `ṫ = ρ + φ×t`; `RxSO3`: `ṡ = σs`; `Sim3`: `ṫ = ρ + φ×t + σt`, `ṡ = σs`; always `q̇ = ½(φ,0)q`). -/
noncomputable def liftG (g : Grp) (X τ : DVec ℝ) : DVec ℝ :=
  match g with
  | .SO3 => (liftQ (qt X) (v3 τ)).toList
  | .SE3 => ((v3 τ).add ((v3 τ 3).cross (v3 X))).toList ++ (liftQ (qt X 3) (v3 τ 3)).toList
  | .RxSO3 => (liftQ (qt X) (v3 τ)).toList ++ [nth τ 3 * nth X 4]
  | .Sim3 => (((v3 τ).add ((v3 τ 3).cross (v3 X))).add ((v3 X).smul (nth τ 6))).toList ++
      (liftQ (qt X 3) (v3 τ 3)).toList ++ [nth τ 6 * nth X 7]

/-- a curve of group elements whose velocity at `0` is the left-perturbation velocity with tangent `τ` -/
def GTangent (g : Grp) (γ : ℝ → DVec ℝ) (τ : DVec ℝ) : Prop := LCurve g.gdim γ (liftG g (γ 0) τ)

/-- quaternion block of the stored group element is a unit quaternion -/
def UnitQ (g : Grp) (X : DVec ℝ) : Prop :=
  match g with
  | .SO3 | .RxSO3 => (qt X).normSq = 1
  | .SE3 | .Sim3 => (qt X 3).normSq = 1

/-- scale entry (RxSO3 / Sim3) is non-zero; vacuous for SO3 / SE3 -/
def ScaleNZ (g : Grp) (X : DVec ℝ) : Prop :=
  match g with
  | .SO3 | .SE3 => True
  | .RxSO3 => nth X 4 ≠ 0
  | .Sim3 => nth X 7 ≠ 0

/-- scale entry (RxSO3 / Sim3) is **positive** — the validity condition of a stored element (`torch.log` of a negative scale is NaN,
while `Real.log x = log |x|`); vacuous for SO3 / SE3 -/
def ScalePos (g : Grp) (X : DVec ℝ) : Prop :=
  match g with
  | .SO3 | .SE3 => True
  | .RxSO3 => 0 < nth X 4
  | .Sim3 => 0 < nth X 7

theorem scalePos_nz {g : Grp} {X : DVec ℝ} (h : ScalePos g X) : ScaleNZ g X := by
  cases g <;> simp only [ScalePos, ScaleNZ] at h ⊢ <;> first | trivial | exact ne_of_gt h

/-- tangent of `matrix()`: row-major, entry `(i,j)` = `i`-th slot of the tangent of `Act(X, e_j)` (3×3 for SO3 via `Act`,
4×4 for the other groups via `Act4`) -/
noncomputable def matrixT (g : Grp) (X τ : DVec ℝ) : DVec ℝ :=
  match g with
  | .SO3 =>
    let col := fun (j : Nat) => (ActJac g (v3 (actF g X (DVec.basis 3 j)))).mulVec τ
    (List.range 3).flatMap fun i => (List.range 3).map fun j => nth (col j) i
  | _ =>
    let col := fun (j : Nat) =>
      let o := act4F g X (DVec.basis 4 j)
      (Act4Jac g (v3 o) (nth o 3)).mulVec τ
    (List.range 4).flatMap fun i => (List.range 4).map fun j => nth (col j) i

/-- simp set that turns the list-level forward passes into polynomials of `nth (X t) i` -/
macro "fwd_unfold" : tactic =>
  `(tactic| simp only [mulF, invF, actF, act4F, adjF, adjTF, matrixF, pairL, AdjMat, adMat, ActJac, Act4Jac, Mat33, Mat44,
      transOf, hatNeg, SE3Mul, SE3Inv, SE3Act, SE3Act4, RxSO3Mul, RxSO3Inv, RxSO3Act, RxSO3Act4, Sim3Mul, Sim3Inv, Sim3Act,
      Sim3Act4, SO3Act4, SE3Adj, RxSO3Adj, Sim3Adj, se3ad, rxso3ad, sim3ad, SO3Mat, SO3matrix, SE3matrix, RxSO3matrix,
      Sim3matrix, matrix4, DMat.flat, Mat3.toList,
      SE3.toList, RxSO3.toList, Sim3.toList, se3.toList, rxso3.toList, sim3.toList, toSE3, toRx, toSim, tose3, torx, tosim,
      v3, qt, liftG, liftQ, matrixT, List.flatMap, DMat.block, DMat.hcat, DMat.vcat, DMat.zero, DMat.one, DMat.colVec, DVec.zero, DVec.basis,
      DMat.mulVec, DVec.dot, DVec.sum, DVec.add, DVec.neg, DVec.smul, Mat3.toRows, List.map, List.zipWith, List.foldl,
      List.replicate, List.range, List.range.loop, List.flatten, Vec3.toList, Quat.toList, List.cons_append, List.nil_append,
      List.append_nil, List.append_eq, List.flatten_cons, List.flatten_nil, nth_cons_zero, nth_cons_succ, nth_nil, beq_iff_eq, OfNat.ofNat_ne_zero, OfNat.zero_ne_ofNat,
      OfNat.ofNat_ne_one, OfNat.one_ne_ofNat, zero_ne_one, one_ne_zero, ite_true, ite_false, if_true, if_false,
      Nat.succ_ne_zero, Nat.reduceEqDiff, Nat.reduceBEq, Bool.false_eq_true, reduceIte])

end PP.AD
