import Proofs.Lemmas.Sim3Bounds
/-!
# Exp in rounded arithmetic (C01 pass 3)

The float code stores a group element that is only *near* the model's exact one, and `matrix()` adds its own rounding.
`QuatNear`, `SO3matrix_near`, `rounded_so3_core`, `rounded_sim3_core`: if the stored blocks are within measured distances
of the model's blocks, the exact matrix of the stored element is within an explicit distance of the model's matrix —
for every input.  The distances are measured by the harness on every sampled case.
-/
open Matrix NormedSpace
namespace PP
open Vec3 Quat Mat3
noncomputable section

/-- componentwise distance of two stored quaternions -/
def QuatNear (γ : ℝ) (p q : Quat ℝ) : Prop :=
  |p.x - q.x| ≤ γ ∧ |p.y - q.y| ≤ γ ∧ |p.z - q.z| ≤ γ ∧ |p.w - q.w| ≤ γ

theorem prod_diff (a b a' b' m γ : ℝ) (ha : |a| ≤ m) (hb : |b| ≤ m) (hda : |a' - a| ≤ γ) (hdb : |b' - b| ≤ γ) :
    |a' * b' - a * b| ≤ γ * (2 * m + γ) := by
  have e : a' * b' - a * b = a * (b' - b) + b * (a' - a) + (a' - a) * (b' - b) := by ring
  have hm : 0 ≤ m := le_trans (abs_nonneg a) ha
  have hg : 0 ≤ γ := le_trans (abs_nonneg _) hda
  rw [e]
  calc _ ≤ |a * (b' - b)| + |b * (a' - a)| + |(a' - a) * (b' - b)| := abs_add_three _ _ _
    _ = |a| * |b' - b| + |b| * |a' - a| + |a' - a| * |b' - b| := by simp only [abs_mul]
    _ ≤ m * γ + m * γ + γ * γ := by gcongr
    _ = γ * (2 * m + γ) := by ring

/-- the matrix built by `matrix()` from an arbitrary (not necessarily unit) quaternion -/
theorem SO3matrix_entries (q : Quat ℝ) :
    (SO3matrix q).toMatrix =
      !![1 - 2 * (q.y * q.y + q.z * q.z), 2 * (q.x * q.y - q.z * q.w), 2 * (q.x * q.z + q.y * q.w);
         2 * (q.x * q.y + q.z * q.w), 1 - 2 * (q.x * q.x + q.z * q.z), 2 * (q.y * q.z - q.x * q.w);
         2 * (q.x * q.z - q.y * q.w), 2 * (q.y * q.z + q.x * q.w), 1 - 2 * (q.x * q.x + q.y * q.y)] := by
  ext i j
  fin_cases i <;> fin_cases j <;> simp [SO3matrix, Mat3.toMatrix] <;> lie_unfold <;> ring

theorem diag_diff (P1 P2 P1' P2' B : ℝ) (h1 : |P1' - P1| ≤ B) (h2 : |P2' - P2| ≤ B) :
    |(1 - 2 * (P1' + P2')) - (1 - 2 * (P1 + P2))| ≤ 4 * B := by
  rw [abs_le] at *; constructor <;> linarith
theorem offm_diff (P1 P2 P1' P2' B : ℝ) (h1 : |P1' - P1| ≤ B) (h2 : |P2' - P2| ≤ B) :
    |2 * (P1' - P2') - 2 * (P1 - P2)| ≤ 4 * B := by
  rw [abs_le] at *; constructor <;> linarith
theorem offp_diff (P1 P2 P1' P2' B : ℝ) (h1 : |P1' - P1| ≤ B) (h2 : |P2' - P2| ≤ B) :
    |2 * (P1' + P2') - 2 * (P1 + P2)| ≤ 4 * B := by
  rw [abs_le] at *; constructor <;> linarith

/-- `matrix()` is Lipschitz in the stored quaternion: components within `γ`, `|q_c| ≤ m` ⟹ entries within `4γ(2m+γ)` -/
theorem SO3matrix_near (γ m : ℝ) (p q : Quat ℝ) (h : QuatNear γ p q)
    (hx : |q.x| ≤ m) (hy : |q.y| ≤ m) (hz : |q.z| ≤ m) (hw : |q.w| ≤ m) (i j : Fin 3) :
    |(SO3matrix p).toMatrix i j - (SO3matrix q).toMatrix i j| ≤ 4 * (γ * (2 * m + γ)) := by
  obtain ⟨dx, dy, dz, dw⟩ := h
  rw [SO3matrix_entries, SO3matrix_entries]
  fin_cases i <;> fin_cases j <;> simp only [Fin.zero_eta, Fin.mk_one, Fin.reduceFinMk, Matrix.of_apply, Matrix.cons_val', Matrix.cons_val_zero,
    Matrix.cons_val_one, Matrix.cons_val_two, Matrix.cons_val_fin_one, Matrix.head_cons, Matrix.tail_cons, Matrix.empty_val',
    Fin.isValue] <;>
    first
    | exact diag_diff _ _ _ _ _ (prod_diff _ _ _ _ m γ (by assumption) (by assumption) (by assumption) (by assumption))
        (prod_diff _ _ _ _ m γ (by assumption) (by assumption) (by assumption) (by assumption))
    | exact offm_diff _ _ _ _ _ (prod_diff _ _ _ _ m γ (by assumption) (by assumption) (by assumption) (by assumption))
        (prod_diff _ _ _ _ m γ (by assumption) (by assumption) (by assumption) (by assumption))
    | exact offp_diff _ _ _ _ _ (prod_diff _ _ _ _ m γ (by assumption) (by assumption) (by assumption) (by assumption))
        (prod_diff _ _ _ _ m γ (by assumption) (by assumption) (by assumption) (by assumption))

theorem normSq_near (γ m : ℝ) (p q : Quat ℝ) (h : QuatNear γ p q)
    (hx : |q.x| ≤ m) (hy : |q.y| ≤ m) (hz : |q.z| ≤ m) (hw : |q.w| ≤ m) :
    |p.normSq - q.normSq| ≤ 4 * (γ * (2 * m + γ)) := by
  obtain ⟨dx, dy, dz, dw⟩ := h
  have a := prod_diff _ _ _ _ m γ hx hx dx dx
  have b := prod_diff _ _ _ _ m γ hy hy dy dy
  have c := prod_diff _ _ _ _ m γ hz hz dz dz
  have d := prod_diff _ _ _ _ m γ hw hw dw dw
  unfold Quat.normSq
  rw [abs_le] at *
  constructor <;> linarith

/-- components of a quaternion with `‖q‖² ≤ 2` are at most `3/2` in modulus -/
theorem comp_le_of_normSq (q : Quat ℝ) (h : q.normSq ≤ 2) :
    |q.x| ≤ 3 / 2 ∧ |q.y| ≤ 3 / 2 ∧ |q.z| ≤ 3 / 2 ∧ |q.w| ≤ 3 / 2 := by
  unfold Quat.normSq at h
  refine ⟨?_, ?_, ?_, ?_⟩ <;> rw [abs_le] <;> constructor <;>
    nlinarith [mul_self_nonneg q.x, mul_self_nonneg q.y, mul_self_nonneg q.z, mul_self_nonneg q.w,
      mul_self_nonneg (q.x - 3 / 2), mul_self_nonneg (q.x + 3 / 2), mul_self_nonneg (q.y - 3 / 2), mul_self_nonneg (q.y + 3 / 2),
      mul_self_nonneg (q.z - 3 / 2), mul_self_nonneg (q.z + 3 / 2), mul_self_nonneg (q.w - 3 / 2), mul_self_nonneg (q.w + 3 / 2)]

theorem diag_le (a b c d : ℝ) (h : a * a + b * b + c * c + d * d ≤ 2) : |1 - 2 * (a * a + b * b)| ≤ 3 := by
  rw [abs_le]; constructor <;> nlinarith [mul_self_nonneg a, mul_self_nonneg b, mul_self_nonneg c, mul_self_nonneg d]
theorem offm_le (a b c d : ℝ) (h : a * a + b * b + c * c + d * d ≤ 2) : |2 * (a * b - c * d)| ≤ 3 := by
  rw [abs_le]; constructor <;> nlinarith [mul_self_nonneg (a - b), mul_self_nonneg (a + b), mul_self_nonneg (c - d), mul_self_nonneg (c + d)]
theorem offp_le (a b c d : ℝ) (h : a * a + b * b + c * c + d * d ≤ 2) : |2 * (a * b + c * d)| ≤ 3 := by
  rw [abs_le]; constructor <;> nlinarith [mul_self_nonneg (a - b), mul_self_nonneg (a + b), mul_self_nonneg (c - d), mul_self_nonneg (c + d)]

/-- entries of `matrix()` of a quaternion with `‖q‖² ≤ 2` are at most 3 in modulus -/
theorem SO3matrix_entry_le (q : Quat ℝ) (h : q.normSq ≤ 2) (i j : Fin 3) : |(SO3matrix q).toMatrix i j| ≤ 3 := by
  unfold Quat.normSq at h
  rw [SO3matrix_entries]
  fin_cases i <;> fin_cases j <;> simp only [Fin.zero_eta, Fin.mk_one, Fin.reduceFinMk, Matrix.of_apply, Matrix.cons_val', Matrix.cons_val_zero,
    Matrix.cons_val_one, Matrix.cons_val_two, Matrix.cons_val_fin_one, Matrix.head_cons, Matrix.tail_cons, Matrix.empty_val',
    Fin.isValue]
  · exact diag_le q.y q.z q.x q.w (by linarith)
  · exact offm_le q.x q.y q.z q.w (by linarith)
  · exact offp_le q.x q.z q.y q.w (by linarith)
  · exact offp_le q.x q.y q.z q.w (by linarith)
  · exact diag_le q.x q.z q.y q.w (by linarith)
  · exact offm_le q.y q.z q.x q.w (by linarith)
  · exact offm_le q.x q.z q.y q.w (by linarith)
  · exact offp_le q.y q.z q.x q.w (by linarith)
  · exact diag_le q.x q.y q.z q.w (by linarith)

theorem SO3matrix_neg (q : Quat ℝ) : SO3matrix q.neg = SO3matrix q := by
  unfold SO3matrix; rw [Quat.neg_act, Quat.neg_act, Quat.neg_act]
theorem normSq_neg (q : Quat ℝ) : q.neg.normSq = q.normSq := by lie_unfold; ring

theorem so3Exp_normSq_le_two (eps : ℝ) (x : Vec3 ℝ) (h0 : 0 ≤ eps) (h1 : eps ≤ 1) : (so3Exp eps x).normSq ≤ 2 := by
  have h := so3Exp_normSq_near eps x h0 h1
  have : eps ^ 6 ≤ 1 := pow_le_one₀ h0 h1
  rw [abs_le] at h; linarith

/-- stored quaternion within `γ ≤ 1` (componentwise, up to the overall sign) of `so3Exp`: norm and matrix -/
theorem rounded_so3_core (eps γ : ℝ) (h0 : 0 ≤ eps) (h1 : eps ≤ 1) (hγ1 : γ ≤ 1) (x : Vec3 ℝ) (p : Quat ℝ)
    (hq : QuatNear γ p (so3Exp eps x) ∨ QuatNear γ p (so3Exp eps x).neg) :
    |p.normSq - 1| ≤ 16 * γ + eps ^ 6 ∧
    ∀ i j, |(SO3matrix p).toMatrix i j - (SO3matrix (so3Exp eps x)).toMatrix i j| ≤ 16 * γ := by
  have h2 := so3Exp_normSq_le_two eps x h0 h1
  have hn := so3Exp_normSq_near eps x h0 h1
  have key : ∀ q : Quat ℝ, q.normSq = (so3Exp eps x).normSq → SO3matrix q = SO3matrix (so3Exp eps x) → QuatNear γ p q →
      |p.normSq - 1| ≤ 16 * γ + eps ^ 6 ∧
      ∀ i j, |(SO3matrix p).toMatrix i j - (SO3matrix (so3Exp eps x)).toMatrix i j| ≤ 16 * γ := by
    intro q hqn hqm hnear
    have hg : 0 ≤ γ := le_trans (abs_nonneg _) hnear.1
    obtain ⟨cx, cy, cz, cw⟩ := comp_le_of_normSq q (by rw [hqn]; exact h2)
    have hb : 4 * (γ * (2 * (3 / 2) + γ)) ≤ 16 * γ := by nlinarith
    constructor
    · have := normSq_near γ (3 / 2) p q hnear cx cy cz cw
      rw [hqn] at this
      have e : p.normSq - 1 = (p.normSq - (so3Exp eps x).normSq) + ((so3Exp eps x).normSq - 1) := by ring
      rw [e]
      exact le_trans (abs_add_le _ _) (by linarith)
    · intro i j
      rw [← hqm]
      exact le_trans (SO3matrix_near γ (3 / 2) p q hnear cx cy cz cw i j) hb
  rcases hq with hq | hq
  · exact key _ rfl rfl hq
  · exact key _ (normSq_neg _) (SO3matrix_neg _) hq

/-- stored Sim3 element (rotation within `γq` componentwise up to sign, scale within `γs` relative, translation within
`γt` absolute) ⟹ its exact `matrix()` is entrywise within `e^σ((1+γs)·16γq + 3γs) + γt` of the model's -/
theorem rounded_sim3_core (eps γq γs γt : ℝ) (h0 : 0 ≤ eps) (h1 : eps ≤ 1) (hq1 : γq ≤ 1) (hs0 : 0 ≤ γs) (ht0 : 0 ≤ γt)
    (x : sim3 ℝ) (Y : Sim3 ℝ)
    (hq : QuatNear γq Y.q (so3Exp eps x.phi) ∨ QuatNear γq Y.q (so3Exp eps x.phi).neg)
    (hs : |Y.s - Real.exp x.sigma| ≤ γs * Real.exp x.sigma)
    (ht : ∀ i, |Y.t.toFun i - (sim3Exp eps x).t.toFun i| ≤ γt) (i j : Fin 4) :
    |(Sim3matrix Y).toMatrix4 i j - (Sim3matrix (sim3Exp eps x)).toMatrix4 i j|
      ≤ Real.exp x.sigma * ((1 + γs) * (16 * γq) + 3 * γs) + γt := by
  have he := Real.exp_pos x.sigma
  have hgq : 0 ≤ γq := by rcases hq with h | h <;> exact le_trans (abs_nonneg _) h.1
  obtain ⟨_, hR⟩ := rounded_so3_core eps γq h0 h1 hq1 x.phi Y.q hq
  have hR3 := SO3matrix_entry_le (so3Exp eps x.phi) (so3Exp_normSq_le_two eps x.phi h0 h1)
  have hB1 : 0 ≤ Real.exp x.sigma * ((1 + γs) * (16 * γq) + 3 * γs) := by positivity
  rw [Sim3matrix_blk, Sim3matrix_blk]
  refine blk4_entry_bound _ _ _ _ _ ?_ ?_ (by linarith) i j
  · intro a b
    show |(Y.s • (SO3matrix Y.q).toMatrix) a b - (Real.exp x.sigma • (SO3matrix (so3Exp eps x.phi)).toMatrix) a b| ≤ _
    simp only [Matrix.smul_apply, smul_eq_mul]
    set R' := (SO3matrix Y.q).toMatrix a b
    set R := (SO3matrix (so3Exp eps x.phi)).toMatrix a b
    have e : Y.s * R' - Real.exp x.sigma * R = Y.s * (R' - R) + (Y.s - Real.exp x.sigma) * R := by ring
    have hYs : |Y.s| ≤ Real.exp x.sigma * (1 + γs) := by
      have : |Y.s| ≤ |Y.s - Real.exp x.sigma| + |Real.exp x.sigma| := by
        have := abs_add_le (Y.s - Real.exp x.sigma) (Real.exp x.sigma); simpa using this
      rw [abs_of_pos he] at this; nlinarith
    rw [e]
    calc _ ≤ |Y.s * (R' - R)| + |(Y.s - Real.exp x.sigma) * R| := abs_add_le _ _
      _ = |Y.s| * |R' - R| + |Y.s - Real.exp x.sigma| * |R| := by rw [abs_mul, abs_mul]
      _ ≤ Real.exp x.sigma * (1 + γs) * (16 * γq) + γs * Real.exp x.sigma * 3 := by
          gcongr
          · exact hR a b
          · exact hR3 a b
      _ ≤ _ := by nlinarith
  · intro a
    exact le_trans (ht a) (by linarith)

/-- the stored scale stays positive whenever its relative error is below 1 -/
theorem rounded_scale_pos (γs s σ : ℝ) (hγ : γs < 1) (hs : |s - Real.exp σ| ≤ γs * Real.exp σ) : 0 < s := by
  have he := Real.exp_pos σ
  rw [abs_le] at hs
  nlinarith
end
end PP
