import Proofs.Lemmas.Autograd
/-!
# C04 — the reverse sweep is the transpose of the forward tangent propagation (all programs)

* shapes of every helper matrix of `operation.py`;
* `jvp1` / `jvp2`: the Jacobian-vector products with *the same matrices* the hand-written `backward`s multiply by;
* local adjointness `⟨backward(c), τ⟩ = ⟨c, jvp(τ)⟩` for every op and group;
* typing of programs, and the chain rule `backprop_adjoint` by structural induction (no bound on depth or size);
* the last storage slot of every group gradient is `0`.
-/
namespace PP.AD
open PP

/-! ## more list algebra -/
theorem ddot_pad0 (v τ : DVec ℝ) (h : τ.length ≤ v.length) : DVec.dot (pad0 v) τ = DVec.dot v τ := by
  induction v generalizing τ with
  | nil => cases τ with
    | nil => simp [pad0]
    | cons y τ => simp at h
  | cons x v ih => cases τ with
    | nil => simp
    | cons y τ =>
      have := ih τ (by simpa using h)
      simp only [pad0, List.cons_append, ddot_cons] at this ⊢
      rw [this]

theorem nth_eq_getD (l : DVec ℝ) (i : Nat) : nth l i = l.getD i 0 := by simp [nth]

theorem headN_eq_take (n : Nat) (l : DVec ℝ) (h : n ≤ l.length) : headN n l = l.take n := by
  apply List.ext_getElem
  · simp [headN, h]
  · intro i h1 h2
    simp [headN] at h1 ⊢
    have : i < l.length := by omega
    simp [nth, this]

theorem ddot_take (n : Nat) (a b : DVec ℝ) (h : b.length ≤ n) : DVec.dot (a.take n) b = DVec.dot a b := by
  induction a generalizing n b with
  | nil => simp
  | cons x a ih => cases b with
    | nil => simp
    | cons y b => cases n with
      | zero => simp at h
      | succ n => simp only [List.take_succ_cons, ddot_cons]; rw [ih n b (by simpa using h)]

theorem ddot_headN (n : Nat) (a b : DVec ℝ) (hb : b.length ≤ n) (ha : n ≤ a.length) :
    DVec.dot (headN n a) b = DVec.dot a b := by
  rw [headN_eq_take n a ha, ddot_take n a b hb]

theorem ddot_neg_left (a b : DVec ℝ) : DVec.dot (DVec.neg a) b = -DVec.dot a b := by
  induction a generalizing b with
  | nil => simp [DVec.neg]
  | cons x a ih => cases b with
    | nil => simp
    | cons y b => simp only [DVec.neg, List.map_cons, ddot_cons] at ih ⊢; rw [ih b]; ring

theorem ddot_neg_right (a b : DVec ℝ) : DVec.dot a (DVec.neg b) = -DVec.dot a b := by
  rw [ddot_comm, ddot_neg_left, ddot_comm]

theorem ddot_add_right (a b c : DVec ℝ) (h : b.length = c.length) :
    DVec.dot a (DVec.add b c) = DVec.dot a b + DVec.dot a c := by
  induction a generalizing b c with
  | nil => simp
  | cons x a ih => cases b with
    | nil => cases c with
      | nil => simp [DVec.add]
      | cons z c => simp at h
    | cons y b => cases c with
      | nil => simp at h
      | cons z c =>
        have := ih b c (by simpa using h)
        simp only [DVec.add, List.zipWith_cons_cons, ddot_cons] at this ⊢
        rw [this]; ring

theorem ddot_add_left (a b c : DVec ℝ) (h : a.length = b.length) :
    DVec.dot (DVec.add a b) c = DVec.dot a c + DVec.dot b c := by
  rw [ddot_comm, ddot_add_right c a b h, ddot_comm c a, ddot_comm c b]

@[simp] theorem length_pad0 (v : DVec ℝ) : (pad0 v).length = v.length + 1 := by simp [pad0]
@[simp] theorem length_headN (n : Nat) (v : DVec ℝ) : (headN n v).length = n := by simp [headN]
@[simp] theorem length_dneg (v : DVec ℝ) : (DVec.neg v).length = v.length := by simp [DVec.neg]
theorem length_dadd (a b : DVec ℝ) (h : a.length = b.length) : (DVec.add a b).length = a.length := by
  simp [DVec.add, h]

/-! ## shapes of the helper matrices -/
theorem Shape_toRows (m : Mat3 ℝ) : Shape 3 3 m.toRows := by
  simp [Shape, Mat3.toRows, Vec3.toList]

theorem Shape_AdjMat (g : Grp) (X : DVec ℝ) : Shape g.adim g.adim (AdjMat g X) := by
  cases g <;>
  simp [Shape, AdjMat, Grp.adim, SE3Adj, RxSO3Adj, Sim3Adj, DMat.block, DMat.hcat, DMat.vcat, DMat.zero, DVec.zero,
    Mat3.toRows, Vec3.toList]

theorem Shape_adMat (g : Grp) (x : DVec ℝ) : Shape g.adim g.adim (adMat g x) := by
  cases g <;>
  simp [Shape, adMat, Grp.adim, se3ad, rxso3ad, sim3ad, DMat.block, DMat.hcat, DMat.vcat, DMat.zero, DVec.zero,
    Mat3.toRows, Vec3.toList]

theorem Shape_ActJac (g : Grp) (o : Vec3 ℝ) : Shape 3 g.adim (ActJac g o) := by
  cases g <;>
  simp [Shape, ActJac, Grp.adim, DMat.hcat, DMat.one, DMat.colVec, DVec.basis, Mat3.toRows, Vec3.toList, List.range,
    List.range.loop]

theorem Shape_Act4Jac (g : Grp) (o : Vec3 ℝ) (w : ℝ) : Shape 4 g.adim (Act4Jac g o w) := by
  cases g <;>
  simp [Shape, Act4Jac, Grp.adim, DMat.hcat, DMat.vcat, DMat.zero, DVec.zero, DMat.colVec, Mat3.toRows, Vec3.toList]

theorem Shape_Mat44 (g : Grp) (X : DVec ℝ) : Shape 4 4 (Mat44 g X) := by
  simp [Shape, Mat44, DMat.block, DMat.hcat, DMat.vcat, DMat.zero, DVec.zero, DMat.colVec, Mat3.toRows, Vec3.toList]

theorem Shape_add {n m : Nat} (a b : DMat ℝ) (ha : Shape n m a) (hb : Shape n m b) : Shape n m (DMat.add a b) := by
  obtain ⟨ha1, ha2⟩ := ha; obtain ⟨hb1, hb2⟩ := hb
  refine ⟨by simp [DMat.add, ha1, hb1], ?_⟩
  intro r hr
  simp only [DMat.add, List.mem_iff_getElem, List.length_zipWith] at hr
  obtain ⟨i, hi, rfl⟩ := hr
  simp only [List.getElem_zipWith, DVec.add, List.length_zipWith]
  rw [ha2 _ (List.getElem_mem _), hb2 _ (List.getElem_mem _)]; simp

theorem Shape_sub {n m : Nat} (a b : DMat ℝ) (ha : Shape n m a) (hb : Shape n m b) : Shape n m (DMat.sub a b) := by
  obtain ⟨ha1, ha2⟩ := ha; obtain ⟨hb1, hb2⟩ := hb
  refine ⟨by simp [DMat.sub, ha1, hb1], ?_⟩
  intro r hr
  simp only [DMat.sub, List.mem_iff_getElem, List.length_zipWith] at hr
  obtain ⟨i, hi, rfl⟩ := hr
  simp only [List.getElem_zipWith, DVec.sub, List.length_zipWith]
  rw [ha2 _ (List.getElem_mem _), hb2 _ (List.getElem_mem _)]; simp

theorem Shape_smul {n m : Nat} (c : ℝ) (a : DMat ℝ) (ha : Shape n m a) : Shape n m (DMat.smul c a) := by
  obtain ⟨ha1, ha2⟩ := ha
  refine ⟨by simp [DMat.smul, ha1], ?_⟩
  intro r hr
  simp only [DMat.smul, List.mem_map] at hr
  obtain ⟨r', hr', rfl⟩ := hr
  simp [DVec.smul, ha2 r' hr']

theorem Shape_neg {n m : Nat} (a : DMat ℝ) (ha : Shape n m a) : Shape n m (DMat.neg a) := by
  obtain ⟨ha1, ha2⟩ := ha
  refine ⟨by simp [DMat.neg, ha1], ?_⟩
  intro r hr
  simp only [DMat.neg, List.mem_map] at hr
  obtain ⟨r', hr', rfl⟩ := hr
  simp [DVec.neg, ha2 r' hr']

theorem Shape_mul {n m l : Nat} (a b : DMat ℝ) (ha : Shape n (m+1) a) (hb : Shape (m+1) l b) : Shape n l (DMat.mul a b) := by
  obtain ⟨ha1, _⟩ := ha; obtain ⟨hb1, hb2⟩ := hb
  have hc : DMat.ncols b = l := by
    cases b with
    | nil => simp at hb1
    | cons r b => simpa [DMat.ncols] using hb2 r (by simp)
  refine ⟨by simp [DMat.mul, ha1], ?_⟩
  intro r hr
  simp only [DMat.mul, List.mem_map] at hr
  obtain ⟨r', _, rfl⟩ := hr
  simp [DMat.transpose, hc]

theorem Shape_one (n : Nat) : Shape n n (DMat.one n : DMat ℝ) := by
  refine ⟨by simp [DMat.one], ?_⟩
  intro r hr
  simp only [DMat.one, List.mem_map] at hr
  obtain ⟨i, _, rfl⟩ := hr
  simp [DVec.basis]

theorem Shape_sim3ad (x : sim3 ℝ) : Shape 7 7 (sim3ad x) := by
  simp [Shape, sim3ad, DVec.zero, Vec3.toList]

theorem Shape_sim3Jl (x : sim3 ℝ) : Shape 7 7 (sim3Jl x) := by
  have h := Shape_sim3ad x
  have h2 := Shape_mul _ _ h h
  have h4 := Shape_mul _ _ h2 h2
  unfold sim3Jl
  exact Shape_add _ _ (Shape_add _ _ (Shape_add _ _ (Shape_add _ _ (Shape_add _ _ (Shape_one 7) (Shape_smul _ _ h))
    (Shape_smul _ _ h2)) (Shape_smul _ _ (Shape_mul _ _ h h2))) (Shape_smul _ _ h4)) (Shape_smul _ _ (Shape_mul _ _ h h4))

theorem Shape_sim3JlInv (x : sim3 ℝ) : Shape 7 7 (sim3JlInv x) := by
  have h := Shape_sim3ad x
  have h2 := Shape_mul _ _ h h
  have h4 := Shape_mul _ _ h2 h2
  unfold sim3JlInv
  exact Shape_sub _ _ (Shape_add _ _ (Shape_sub _ _ (Shape_one 7) (Shape_smul _ _ h)) (Shape_smul _ _ h2)) (Shape_smul _ _ h4)

theorem Shape_JlMat (g : Grp) (eps : ℝ) (x : DVec ℝ) : Shape g.adim g.adim (JlMat g eps x) := by
  cases g
  · simp [Shape, JlMat, Grp.adim, Mat3.toRows, Vec3.toList]
  · simp [Shape, JlMat, Grp.adim, se3Jl, DMat.block, DMat.hcat, DMat.vcat, DMat.zero, DVec.zero, Mat3.toRows, Vec3.toList]
  · simp [Shape, JlMat, Grp.adim, rxso3Jl, DMat.block, DMat.hcat, DMat.vcat, DMat.zero, DVec.zero, Mat3.toRows, Vec3.toList]
  · exact Shape_sim3Jl _

theorem Shape_JlInvMat (g : Grp) (eps : ℝ) (x : DVec ℝ) : Shape g.adim g.adim (JlInvMat g eps x) := by
  cases g
  · simp [Shape, JlInvMat, Grp.adim, Mat3.toRows, Vec3.toList]
  · simp [Shape, JlInvMat, Grp.adim, se3JlInv, DMat.block, DMat.hcat, DMat.vcat, DMat.zero, DVec.zero, Mat3.toRows, Vec3.toList]
  · simp [Shape, JlInvMat, Grp.adim, rxso3JlInv, DMat.block, DMat.hcat, DMat.vcat, DMat.zero, DVec.zero, Mat3.toRows, Vec3.toList]
  · exact Shape_sim3JlInv _

/-! ## forward tangent propagation with the matrices of the backward passes -/

/-- Jacobian-vector product of a unary node (input `x`, output `out`, input tangent `τ`) -/
noncomputable def jvp1 (o : Op1) (g : Grp) (eps : ℝ) (x out τ : DVec ℝ) : DVec ℝ :=
  match o with
  | .Exp => (JlMat g eps x).mulVec τ
  | .Log => (JlInvMat g eps out).mulVec τ
  | .Inv => DVec.neg ((AdjMat g out).mulVec τ)
  | .Matrix => matrixT g x τ

/-- Jacobian-vector product of a binary node -/
noncomputable def jvp2 (dJ : DJ ℝ) (o : Op2) (g : Grp) (eps : ℝ) (x y out τx τy : DVec ℝ) : DVec ℝ :=
  match o with
  | .Mul => DVec.add τx ((AdjMat g x).mulVec τy)
  | .Act => DVec.add ((ActJac g (v3 out)).mulVec τx) (DMat.mulVec (Mat33 g x).toRows τy)
  | .Act4 => DVec.add ((Act4Jac g (v3 out) (nth out 3)).mulVec τx) ((Mat44 g x).mulVec τy)
  | .Adj => DVec.add (DVec.neg ((adMat g out).mulVec τx)) ((AdjMat g x).mulVec τy)
  | .AdjT => DVec.add ((AdjMat g (invF g x)).mulVec ((adMat g y).mulVec τx)) ((AdjMat g (invF g x)).mulVec τy)
  | .Jinvp =>
    let phi := logF g eps x
    DVec.add ((dJ g eps phi y).mulVec ((JlInvMat g eps phi).mulVec τx)) ((JlInvMat g eps phi).mulVec τy)

/-- forward-mode tangent of a program: leaf `i` moves with tangent `tan[i]` -/
noncomputable def tangent (dJ : DJ ℝ) (eps : ℝ) (env tan : List (DVec ℝ)) : Prog → DVec ℝ
  | .leaf i => tan.getD i []
  | .un o g p =>
    let x := eval eps env p
    jvp1 o g eps x (fwd1 o g eps x) (tangent dJ eps env tan p)
  | .bin o g p q =>
    let x := eval eps env p
    let y := eval eps env q
    jvp2 dJ o g eps x y (fwd2 o g eps x y) (tangent dJ eps env tan p) (tangent dJ eps env tan q)

/-- `Σ ⟨contribution, tangent of its leaf⟩` over the output of the reverse sweep -/
noncomputable def pairSum (tan : List (DVec ℝ)) (cs : List (Nat × DVec ℝ)) : ℝ :=
  (cs.map (fun c => DVec.dot c.2 (tan.getD c.1 []))).sum

theorem pairSum_append (tan : List (DVec ℝ)) (a b : List (Nat × DVec ℝ)) :
    pairSum tan (a ++ b) = pairSum tan a + pairSum tan b := by simp [pairSum]

/-! ## explicit lists of a given length -/
theorem len3 (l : DVec ℝ) (h : l.length = 3) : ∃ a0 a1 a2, l = [a0, a1, a2] := by
  match l, h with
  | [a0, a1, a2], _ => exact ⟨a0, a1, a2, rfl⟩

theorem len4 (l : DVec ℝ) (h : l.length = 4) : ∃ a0 a1 a2 a3, l = [a0, a1, a2, a3] := by
  match l, h with
  | [a0, a1, a2, a3], _ => exact ⟨a0, a1, a2, a3, rfl⟩

theorem len5 (l : DVec ℝ) (h : l.length = 5) : ∃ a0 a1 a2 a3 a4, l = [a0, a1, a2, a3, a4] := by
  match l, h with
  | [a0, a1, a2, a3, a4], _ => exact ⟨a0, a1, a2, a3, a4, rfl⟩

theorem len6 (l : DVec ℝ) (h : l.length = 6) : ∃ a0 a1 a2 a3 a4 a5, l = [a0, a1, a2, a3, a4, a5] := by
  match l, h with
  | [a0, a1, a2, a3, a4, a5], _ => exact ⟨a0, a1, a2, a3, a4, a5, rfl⟩

theorem len7 (l : DVec ℝ) (h : l.length = 7) : ∃ a0 a1 a2 a3 a4 a5 a6, l = [a0, a1, a2, a3, a4, a5, a6] := by
  match l, h with
  | [a0, a1, a2, a3, a4, a5, a6], _ => exact ⟨a0, a1, a2, a3, a4, a5, a6, rfl⟩

theorem len8 (l : DVec ℝ) (h : l.length = 8) : ∃ a0 a1 a2 a3 a4 a5 a6 a7, l = [a0, a1, a2, a3, a4, a5, a6, a7] := by
  match l, h with
  | [a0, a1, a2, a3, a4, a5, a6, a7], _ => exact ⟨a0, a1, a2, a3, a4, a5, a6, a7, rfl⟩

theorem len9 (l : DVec ℝ) (h : l.length = 9) : ∃ a0 a1 a2 a3 a4 a5 a6 a7 a8, l = [a0, a1, a2, a3, a4, a5, a6, a7, a8] := by
  match l, h with
  | [a0, a1, a2, a3, a4, a5, a6, a7, a8], _ => exact ⟨a0, a1, a2, a3, a4, a5, a6, a7, a8, rfl⟩

theorem len16 (l : DVec ℝ) (h : l.length = 16) : ∃ a0 a1 a2 a3 a4 a5 a6 a7 a8 a9 a10 a11 a12 a13 a14 a15, l = [a0, a1, a2, a3, a4, a5, a6, a7, a8, a9, a10, a11, a12, a13, a14, a15] := by
  match l, h with
  | [a0, a1, a2, a3, a4, a5, a6, a7, a8, a9, a10, a11, a12, a13, a14, a15], _ => exact ⟨a0, a1, a2, a3, a4, a5, a6, a7, a8, a9, a10, a11, a12, a13, a14, a15, rfl⟩

/-! ## local adjointness: every backward pass is the transpose of its Jacobian-vector product -/
set_option linter.unusedSimpArgs false
set_option linter.unusedVariables false
theorem adim_pos (g : Grp) : 0 < g.adim := by cases g <;> simp [Grp.adim]
theorem gdim_eq (g : Grp) : g.gdim = g.adim + 1 := by cases g <;> rfl

theorem vecMul_headN_adjoint {n m : Nat} (J : DMat ℝ) (hs : Shape n m J) (hn : 0 < n) (go τ : DVec ℝ) (hgo : n ≤ go.length) :
    DVec.dot (DMat.vecMul (headN n go) J) τ = DVec.dot go (DMat.mulVec J τ) := by
  rw [vecMul_adjoint J hs hn _ τ (by simp), ddot_headN _ _ _ (by rw [length_mulVec J hs]) hgo]

theorem adj_Exp (g : Grp) (eps : ℝ) (x go τ : DVec ℝ) (hgo : go.length = g.gdim) :
    DVec.dot (expB g eps x go) τ = DVec.dot go ((JlMat g eps x).mulVec τ) :=
  vecMul_headN_adjoint _ (Shape_JlMat g eps x) (adim_pos g) go τ (by rw [hgo, gdim_eq]; omega)

theorem adj_Log (g : Grp) (eps : ℝ) (out go τ : DVec ℝ) (hgo : go.length = g.adim) (hτ : τ.length = g.adim) :
    DVec.dot (logB g eps out go) τ = DVec.dot go ((JlInvMat g eps out).mulVec τ) := by
  have hs := Shape_JlInvMat g eps out
  unfold logB
  rw [ddot_pad0 _ _ (by rw [length_vecMul _ hs (adim_pos g), hτ]), vecMul_adjoint _ hs (adim_pos g) go τ hgo]

theorem adj_Inv (g : Grp) (Y go τ : DVec ℝ) (hgo : go.length = g.gdim) (hτ : τ.length = g.adim) :
    DVec.dot (invB g Y go) τ = DVec.dot go (DVec.neg ((AdjMat g Y).mulVec τ)) := by
  have hs := Shape_AdjMat g Y
  unfold invB
  rw [ddot_pad0 _ _ (by rw [length_dneg, length_vecMul _ hs (adim_pos g), hτ]), ddot_neg_left, ddot_neg_right,
      vecMul_headN_adjoint _ hs (adim_pos g) go τ (by rw [hgo, gdim_eq]; omega)]

theorem adj_Mul (g : Grp) (X go τx τy : DVec ℝ) (hgo : go.length = g.gdim) (hx : τx.length = g.adim) (hy : τy.length = g.adim) :
    DVec.dot (mulB g X go).1 τx + DVec.dot (mulB g X go).2 τy
      = DVec.dot go (DVec.add τx ((AdjMat g X).mulVec τy)) := by
  have hs := Shape_AdjMat g X
  have hle : g.adim ≤ go.length := by rw [hgo, gdim_eq]; omega
  unfold mulB
  simp only []
  rw [ddot_add_right _ _ _ (by rw [hx, length_mulVec _ hs]),
    ddot_pad0 _ _ (by simp [hx]), ddot_pad0 _ _ (by rw [length_vecMul _ hs (adim_pos g), hy]),
    ddot_headN _ _ _ (by simp [hx]) hle, vecMul_headN_adjoint _ hs (adim_pos g) go τy hle]

theorem adj_Act (g : Grp) (X out go τx τy : DVec ℝ) (hgo : go.length = 3) (hx : τx.length = g.adim) :
    DVec.dot (actB g X out go).1 τx + DVec.dot (actB g X out go).2 τy
      = DVec.dot go (DVec.add ((ActJac g (v3 out)).mulVec τx) (DMat.mulVec (Mat33 g X).toRows τy)) := by
  have hs := Shape_ActJac g (v3 out)
  have hm := Shape_toRows (Mat33 g X)
  unfold actB
  simp only []
  rw [ddot_add_right _ _ _ (by rw [length_mulVec _ hs, length_mulVec _ hm]),
    ddot_pad0 _ _ (by rw [length_vecMul _ hs (by norm_num), hx]), vecMul_adjoint _ hs (by norm_num) go τx hgo,
    vecMul_adjoint _ hm (by norm_num) go τy hgo]

theorem adj_Act4 (g : Grp) (X out go τx τy : DVec ℝ) (hgo : go.length = 4) (hx : τx.length = g.adim) :
    DVec.dot (act4B g X out go).1 τx + DVec.dot (act4B g X out go).2 τy
      = DVec.dot go (DVec.add ((Act4Jac g (v3 out) (nth out 3)).mulVec τx) ((Mat44 g X).mulVec τy)) := by
  have hs := Shape_Act4Jac g (v3 out) (nth out 3)
  have hm := Shape_Mat44 g X
  unfold act4B
  simp only []
  rw [ddot_add_right _ _ _ (by rw [length_mulVec _ hs, length_mulVec _ hm]),
    ddot_pad0 _ _ (by rw [length_vecMul _ hs (by norm_num), hx]), vecMul_adjoint _ hs (by norm_num) go τx hgo,
    vecMul_adjoint _ hm (by norm_num) go τy hgo]

theorem adj_Adj (g : Grp) (X out go τx τy : DVec ℝ) (hgo : go.length = g.adim) (hx : τx.length = g.adim) :
    DVec.dot (adjB g X out go).1 τx + DVec.dot (adjB g X out go).2 τy
      = DVec.dot go (DVec.add (DVec.neg ((adMat g out).mulVec τx)) ((AdjMat g X).mulVec τy)) := by
  have hs := Shape_adMat g out
  have hm := Shape_AdjMat g X
  unfold adjB
  simp only []
  rw [ddot_add_right _ _ _ (by rw [length_dneg, length_mulVec _ hs, length_mulVec _ hm]),
    ddot_pad0 _ _ (by rw [length_vecMul _ hs (adim_pos g), hx]), vecMul_adjoint _ hs (adim_pos g) _ τx (by simpa using hgo),
      vecMul_adjoint _ hm (adim_pos g) go τy hgo, ddot_neg_left, ddot_neg_right]

/-- `SE3` / `RxSO3` / `Sim3` shape of `*_AdjTXa.backward` -/
theorem adj_AdjT_gen (g : Grp) (hg : g ≠ .SO3) (X a go τx τy : DVec ℝ) (hgo : go.length = g.adim) (hx : τx.length = g.adim) :
    DVec.dot (adjTB g X a go).1 τx + DVec.dot (adjTB g X a go).2 τy
      = DVec.dot go (DVec.add ((AdjMat g (invF g X)).mulVec ((adMat g a).mulVec τx)) ((AdjMat g (invF g X)).mulVec τy)) := by
  have hs := Shape_adMat g a
  have hm := Shape_AdjMat g (invF g X)
  have key : ∀ ag : DVec ℝ, ag = DMat.vecMul go (AdjMat g (invF g X)) →
      DVec.dot (pad0 (DMat.vecMul ag (adMat g a))) τx + DVec.dot ag τy
        = DVec.dot go (DVec.add ((AdjMat g (invF g X)).mulVec ((adMat g a).mulVec τx)) ((AdjMat g (invF g X)).mulVec τy)) := by
    intro ag hag
    have hl : ag.length = g.adim := by rw [hag, length_vecMul _ hm (adim_pos g)]
    rw [ddot_add_right _ _ _ (by rw [length_mulVec _ hm, length_mulVec _ hm]),
      ddot_pad0 _ _ (by rw [length_vecMul _ hs (adim_pos g), hx]), vecMul_adjoint _ hs (adim_pos g) ag τx hl, hag,
      vecMul_adjoint _ hm (adim_pos g) go _ hgo, vecMul_adjoint _ hm (adim_pos g) go _ hgo]
  cases g
  · exact absurd rfl hg
  all_goals exact key _ rfl

theorem adj_AdjT_SO3 (X a go τx τy : DVec ℝ) (hgo : go.length = 3) (hx : τx.length = 3) (hy : τy.length = 3)
    (ha : a.length = 3) :
    DVec.dot (adjTB .SO3 X a go).1 τx + DVec.dot (adjTB .SO3 X a go).2 τy
      = DVec.dot go (DVec.add ((AdjMat .SO3 (invF .SO3 X)).mulVec ((adMat .SO3 a).mulVec τx))
          ((AdjMat .SO3 (invF .SO3 X)).mulVec τy)) := by
  have hs := Shape_adMat .SO3 (adjF .SO3 X go)
  have e1 : DVec.dot (adjTB .SO3 X a go).1 τx
      = DVec.dot (DVec.neg a) ((adMat .SO3 (adjF .SO3 X go)).mulVec τx) := by
    simp only [adjTB]
    rw [ddot_pad0 _ _ (by rw [length_vecMul _ hs (adim_pos _), hx]; simp [Grp.adim]),
      vecMul_adjoint _ hs (adim_pos _) _ τx (by simp [ha, Grp.adim])]
  have e2 : (adjTB .SO3 X a go).2 = adjF .SO3 X go := by simp [adjTB]
  rw [e1, e2]
  obtain ⟨g0, g1, g2, rfl⟩ := len3 go hgo
  obtain ⟨x0, x1, x2, rfl⟩ := len3 τx hx
  obtain ⟨y0, y1, y2, rfl⟩ := len3 τy hy
  obtain ⟨a0, a1, a2, rfl⟩ := len3 a ha
  fwd_unfold
  lie_unfold
  try simp only [Quat.conj, Quat.toList, qt, nth_cons_zero, nth_cons_succ, List.foldl, List.zipWith]
  ring

theorem adj_Jinvp (g : Grp) (eps : ℝ) (D : DMat ℝ) (hD : Shape g.adim g.adim D) (phi go τx τy : DVec ℝ)
    (hgo : go.length = g.adim) (hx : τx.length = g.adim) :
    DVec.dot (jinvpB g eps D phi go).1 τx + DVec.dot (jinvpB g eps D phi go).2 τy
      = DVec.dot go (DVec.add (D.mulVec ((JlInvMat g eps phi).mulVec τx)) ((JlInvMat g eps phi).mulVec τy)) := by
  have hs := Shape_JlInvMat g eps phi
  unfold jinvpB
  simp only []
  rw [ddot_add_right _ _ _ (by rw [length_mulVec _ hD, length_mulVec _ hs]),
    adj_Log g eps phi _ τx (length_vecMul _ hD (adim_pos g) _) hx,
    vecMul_adjoint _ hD (adim_pos g) go _ hgo, vecMul_adjoint _ hs (adim_pos g) go τy hgo]
def matN (g : Grp) : Nat := match g with | .SO3 => 9 | _ => 16

theorem length_actB1 (g : Grp) (X out go : DVec ℝ) : (actB g X out go).1.length = g.gdim := by
  simp only [actB, length_pad0, length_vecMul _ (Shape_ActJac g (v3 out)) (by norm_num), gdim_eq]
theorem length_act4B1 (g : Grp) (X out go : DVec ℝ) : (act4B g X out go).1.length = g.gdim := by
  simp only [act4B, length_pad0, length_vecMul _ (Shape_Act4Jac g (v3 out) (nth out 3)) (by norm_num), gdim_eq]

theorem dot_actB1 (g : Grp) (X out go τ : DVec ℝ) (hgo : go.length = 3) (hτ : τ.length = g.adim) :
    DVec.dot (actB g X out go).1 τ = DVec.dot go ((ActJac g (v3 out)).mulVec τ) := by
  have hs := Shape_ActJac g (v3 out)
  simp only [actB]
  rw [ddot_pad0 _ _ (by rw [length_vecMul _ hs (by norm_num), hτ]), vecMul_adjoint _ hs (by norm_num) go τ hgo]
theorem dot_act4B1 (g : Grp) (X out go τ : DVec ℝ) (hgo : go.length = 4) (hτ : τ.length = g.adim) :
    DVec.dot (act4B g X out go).1 τ = DVec.dot go ((Act4Jac g (v3 out) (nth out 3)).mulVec τ) := by
  have hs := Shape_Act4Jac g (v3 out) (nth out 3)
  simp only [act4B]
  rw [ddot_pad0 _ _ (by rw [length_vecMul _ hs (by norm_num), hτ]), vecMul_adjoint _ hs (by norm_num) go τ hgo]

theorem adj_Matrix_SO3 (X go τ : DVec ℝ) (hgo : go.length = 9) (hτ : τ.length = 3) :
    DVec.dot (matrixB .SO3 X go) τ = DVec.dot go (matrixT .SO3 X τ) := by
  simp only [matrixB, matrixT]
  rw [ddot_add_left _ _ _ (by rw [length_dadd _ _ (by simp [length_actB1]), length_actB1, length_actB1]),
    ddot_add_left _ _ _ (by simp [length_actB1]),
    dot_actB1 _ _ _ _ _ (by simp [colOf]) hτ, dot_actB1 _ _ _ _ _ (by simp [colOf]) hτ, dot_actB1 _ _ _ _ _ (by simp [colOf]) hτ]
  obtain ⟨u0, u1, u2, h0⟩ := len3 _ (length_mulVec _ (Shape_ActJac .SO3 (v3 (actF .SO3 X (DVec.basis 3 0)))) τ)
  obtain ⟨v0, v1, v2, h1⟩ := len3 _ (length_mulVec _ (Shape_ActJac .SO3 (v3 (actF .SO3 X (DVec.basis 3 1)))) τ)
  obtain ⟨w0, w1, w2, h2⟩ := len3 _ (length_mulVec _ (Shape_ActJac .SO3 (v3 (actF .SO3 X (DVec.basis 3 2)))) τ)
  rw [h0, h1, h2]
  obtain ⟨g0, g1, g2, g3, g4, g5, g6, g7, g8, rfl⟩ := len9 go hgo
  simp [colOf, List.range, List.range.loop, ddot_cons, h0, h1, h2]
  ring

theorem adj_Matrix_4 (g : Grp) (hg : g ≠ .SO3) (X go τ : DVec ℝ) (hgo : go.length = 16) (hτ : τ.length = g.adim) :
    DVec.dot (matrixB g X go) τ = DVec.dot go (matrixT g X τ) := by
  have key : DVec.dot (DVec.add (DVec.add (DVec.add (act4B g X (act4F g X (DVec.basis 4 0)) (colOf 4 0 go)).1
        (act4B g X (act4F g X (DVec.basis 4 1)) (colOf 4 1 go)).1) (act4B g X (act4F g X (DVec.basis 4 2)) (colOf 4 2 go)).1)
        (act4B g X (act4F g X (DVec.basis 4 3)) (colOf 4 3 go)).1) τ
      = DVec.dot go ((List.range 4).flatMap fun i => (List.range 4).map fun j =>
          nth ((Act4Jac g (v3 (act4F g X (DVec.basis 4 j))) (nth (act4F g X (DVec.basis 4 j)) 3)).mulVec τ) i) := by
    rw [ddot_add_left _ _ _ (by rw [length_dadd _ _ (by rw [length_dadd _ _ (by simp [length_act4B1])]; simp [length_act4B1]),
          length_dadd _ _ (by simp [length_act4B1]), length_act4B1, length_act4B1]),
      ddot_add_left _ _ _ (by rw [length_dadd _ _ (by simp [length_act4B1]), length_act4B1, length_act4B1]),
      ddot_add_left _ _ _ (by simp [length_act4B1]),
      dot_act4B1 _ _ _ _ _ (by simp [colOf]) hτ, dot_act4B1 _ _ _ _ _ (by simp [colOf]) hτ,
      dot_act4B1 _ _ _ _ _ (by simp [colOf]) hτ, dot_act4B1 _ _ _ _ _ (by simp [colOf]) hτ]
    obtain ⟨u0, u1, u2, u3, h0⟩ := len4 _ (length_mulVec _ (Shape_Act4Jac g (v3 (act4F g X (DVec.basis 4 0))) (nth (act4F g X (DVec.basis 4 0)) 3)) τ)
    obtain ⟨v0, v1, v2, v3', h1⟩ := len4 _ (length_mulVec _ (Shape_Act4Jac g (v3 (act4F g X (DVec.basis 4 1))) (nth (act4F g X (DVec.basis 4 1)) 3)) τ)
    obtain ⟨w0, w1, w2, w3, h2⟩ := len4 _ (length_mulVec _ (Shape_Act4Jac g (v3 (act4F g X (DVec.basis 4 2))) (nth (act4F g X (DVec.basis 4 2)) 3)) τ)
    obtain ⟨z0, z1, z2, z3, h3⟩ := len4 _ (length_mulVec _ (Shape_Act4Jac g (v3 (act4F g X (DVec.basis 4 3))) (nth (act4F g X (DVec.basis 4 3)) 3)) τ)
    obtain ⟨g0, g1, g2, g3, g4, g5, g6, g7, g8, g9, g10, g11, g12, g13, g14, g15, rfl⟩ := len16 go hgo
    simp only [List.range, List.range.loop, List.flatMap, List.map, List.flatten_cons, List.flatten_nil, h0, h1, h2, h3]
    simp [colOf, List.range, List.range.loop, ddot_cons, h0, h1, h2, h3]
    ring
  cases g
  · exact absurd rfl hg
  all_goals exact key
/-! ## typing -/
inductive Ty | G (g : Grp) | V (n : Nat)
deriving DecidableEq

def Ty.dim : Ty → Nat | .G g => g.gdim | .V n => n
def Ty.tdim : Ty → Nat | .G g => g.adim | .V n => n

def ty1 (o : Op1) (g : Grp) (t : Ty) : Option Ty :=
  match o with
  | .Exp => if t = .V g.adim then some (.G g) else none
  | .Log => if t = .G g then some (.V g.adim) else none
  | .Inv => if t = .G g then some (.G g) else none
  | .Matrix => if t = .G g then some (.V (matN g)) else none

def ty2 (o : Op2) (g : Grp) (t u : Ty) : Option Ty :=
  match o with
  | .Mul => if t = .G g ∧ u = .G g then some (.G g) else none
  | .Act => if t = .G g ∧ u = .V 3 then some (.V 3) else none
  | .Act4 => if t = .G g ∧ u = .V 4 then some (.V 4) else none
  | .Adj => if t = .G g ∧ u = .V g.adim then some (.V g.adim) else none
  | .AdjT => if t = .G g ∧ u = .V g.adim then some (.V g.adim) else none
  | .Jinvp => if t = .G g ∧ u = .V g.adim then some (.V g.adim) else none

/-- type of a program over leaf types `lt` (`none` = ill-typed) -/
def tyOf (lt : List Ty) : Prog → Option Ty
  | .leaf i => lt[i]?
  | .un o g p => (tyOf lt p).bind (ty1 o g)
  | .bin o g p q => (tyOf lt p).bind fun t => (tyOf lt q).bind fun u => ty2 o g t u

/-- leaf values and leaf tangents have the lengths their types prescribe -/
def EnvOK (lt : List Ty) (env tan : List (DVec ℝ)) : Prop :=
  ∀ i t, lt[i]? = some t → (env.getD i []).length = t.dim ∧ (tan.getD i []).length = t.tdim

/-! ## lengths -/
theorem length_expF (g : Grp) (eps : ℝ) (x : DVec ℝ) : (expF g eps x).length = g.gdim := by
  cases g <;> simp [expF, Grp.gdim, Quat.toList, SE3.toList, RxSO3.toList, Sim3.toList, Vec3.toList]
theorem length_logF (g : Grp) (eps : ℝ) (x : DVec ℝ) : (logF g eps x).length = g.adim := by
  cases g <;> simp [logF, Grp.adim, se3.toList, rxso3.toList, sim3.toList, Vec3.toList]
theorem length_invF (g : Grp) (x : DVec ℝ) : (invF g x).length = g.gdim := by
  cases g <;> simp [invF, Grp.gdim, Quat.toList, SE3.toList, RxSO3.toList, Sim3.toList, Vec3.toList]
theorem length_mulF (g : Grp) (x y : DVec ℝ) : (mulF g x y).length = g.gdim := by
  cases g <;> simp [mulF, Grp.gdim, Quat.toList, SE3.toList, RxSO3.toList, Sim3.toList, Vec3.toList]
theorem length_actF (g : Grp) (x y : DVec ℝ) : (actF g x y).length = 3 := by
  cases g <;> simp [actF, Vec3.toList]
theorem length_act4F (g : Grp) (x y : DVec ℝ) : (act4F g x y).length = 4 := by
  cases g <;> simp [act4F, pairL, Vec3.toList]
theorem length_adjF (g : Grp) (x y : DVec ℝ) : (adjF g x y).length = g.adim := by
  simp [adjF, length_mulVec _ (Shape_AdjMat g x)]
theorem length_adjTF (g : Grp) (x y : DVec ℝ) : (adjTF g x y).length = g.adim := by
  simp [adjTF, length_adjF]
theorem length_jinvpF (g : Grp) (eps : ℝ) (x y : DVec ℝ) : (jinvpF g eps x y).length = g.adim := by
  simp [jinvpF, jlInvP, length_mulVec _ (Shape_JlInvMat g eps _)]
theorem length_matrixF (g : Grp) (x : DVec ℝ) : (matrixF g x).length = matN g := by
  cases g <;> simp [matrixF, matN, Mat3.toList, Vec3.toList, SE3matrix, RxSO3matrix, Sim3matrix, matrix4, DMat.flat]
theorem length_matrixT (g : Grp) (x τ : DVec ℝ) : (matrixT g x τ).length = matN g := by
  cases g <;> simp [matrixT, matN, List.range, List.range.loop, List.flatMap]

theorem length_fwd1 (o : Op1) (g : Grp) (eps : ℝ) (x : DVec ℝ) (t u : Ty) (h : ty1 o g t = some u) :
    (fwd1 o g eps x).length = u.dim := by
  cases o <;> simp only [ty1] at h <;> split at h <;> simp at h <;> subst h <;>
    simp [fwd1, Ty.dim, length_expF, length_logF, length_invF, length_matrixF]

theorem length_fwd2 (o : Op2) (g : Grp) (eps : ℝ) (x y : DVec ℝ) (t t' u : Ty) (h : ty2 o g t t' = some u) :
    (fwd2 o g eps x y).length = u.dim := by
  cases o <;> simp only [ty2] at h <;> split at h <;> simp at h <;> subst h <;>
    simp [fwd2, Ty.dim, length_mulF, length_actF, length_act4F, length_adjF, length_adjTF, length_jinvpF]
/-- contract of the external autograd kernel that is needed for the algebra: the Jacobian it returns is square of the
algebra dimension -/
def DJShape (dJ : DJ ℝ) : Prop := ∀ g eps phi p, Shape g.adim g.adim (dJ g eps phi p)

theorem length_matrixB (g : Grp) (X go : DVec ℝ) : (matrixB g X go).length = g.gdim := by
  cases g
  · simp only [matrixB]
    rw [length_dadd _ _ (by rw [length_dadd _ _ (by simp [length_actB1])]; simp [length_actB1]),
      length_dadd _ _ (by simp [length_actB1]), length_actB1]
  all_goals
    simp only [matrixB]
    rw [length_dadd _ _ (by rw [length_dadd _ _ (by rw [length_dadd _ _ (by simp [length_act4B1])]; simp [length_act4B1]),
        length_dadd _ _ (by simp [length_act4B1])]; simp [length_act4B1]),
      length_dadd _ _ (by rw [length_dadd _ _ (by simp [length_act4B1])]; simp [length_act4B1]),
      length_dadd _ _ (by simp [length_act4B1]), length_act4B1]

theorem length_bwd1 (o : Op1) (g : Grp) (eps : ℝ) (x out go : DVec ℝ) (t u : Ty) (h : ty1 o g t = some u) :
    (bwd1 o g eps x out go).length = t.dim := by
  cases o <;> simp only [ty1] at h <;> split at h <;> simp at h <;> rename_i ht <;> subst ht
  · simp [bwd1, expB, Ty.dim, length_vecMul _ (Shape_JlMat g eps x) (adim_pos g)]
  · simp [bwd1, logB, Ty.dim, length_vecMul _ (Shape_JlInvMat g eps out) (adim_pos g), gdim_eq]
  · simp [bwd1, invB, Ty.dim, length_vecMul _ (Shape_AdjMat g out) (adim_pos g), gdim_eq]
  · simp [bwd1, Ty.dim, length_matrixB]

theorem length_jvp1 (o : Op1) (g : Grp) (eps : ℝ) (x out τ : DVec ℝ) (t u : Ty) (h : ty1 o g t = some u) :
    (jvp1 o g eps x out τ).length = u.tdim := by
  cases o <;> simp only [ty1] at h <;> split at h <;> simp at h <;> subst h
  · simp [jvp1, Ty.tdim, length_mulVec _ (Shape_JlMat g eps x)]
  · simp [jvp1, Ty.tdim, length_mulVec _ (Shape_JlInvMat g eps out)]
  · simp [jvp1, Ty.tdim, length_mulVec _ (Shape_AdjMat g out)]
  · simp [jvp1, Ty.tdim, length_matrixT]

theorem adj1 (o : Op1) (g : Grp) (eps : ℝ) (x out go τ : DVec ℝ) (t u : Ty) (h : ty1 o g t = some u)
    (hgo : go.length = u.dim) (hτ : τ.length = t.tdim) :
    DVec.dot (bwd1 o g eps x out go) τ = DVec.dot go (jvp1 o g eps x out τ) := by
  cases o <;> simp only [ty1] at h <;> split at h <;> simp at h <;> rename_i ht <;> subst ht <;> subst h
  · exact adj_Exp g eps x go τ hgo
  · exact adj_Log g eps out go τ hgo hτ
  · exact adj_Inv g out go τ hgo hτ
  · simp only [bwd1, jvp1]
    by_cases hg : g = .SO3
    · subst hg; exact adj_Matrix_SO3 x go τ hgo hτ
    · exact adj_Matrix_4 g hg x go τ (by cases g <;> first | exact absurd rfl hg | exact hgo) hτ

theorem length_bwd2 (dJ : DJ ℝ) (hdJ : DJShape dJ) (o : Op2) (g : Grp) (eps : ℝ) (x y out go : DVec ℝ) (t t' u : Ty)
    (h : ty2 o g t t' = some u) :
    (bwd2 dJ o g eps x y out go).1.length = t.dim ∧ (bwd2 dJ o g eps x y out go).2.length = t'.dim := by
  cases o <;> simp only [ty2] at h <;> split at h <;> simp at h <;> rename_i ht <;> obtain ⟨h1, h2⟩ := ht <;> subst h1 <;> subst h2
  · simp [bwd2, mulB, Ty.dim, length_vecMul _ (Shape_AdjMat g x) (adim_pos g), gdim_eq]
  · simp [bwd2, actB, Ty.dim, length_vecMul _ (Shape_ActJac g (v3 out)) (by norm_num),
      length_vecMul _ (Shape_toRows (Mat33 g x)) (by norm_num), gdim_eq]
  · simp [bwd2, act4B, Ty.dim, length_vecMul _ (Shape_Act4Jac g (v3 out) (nth out 3)) (by norm_num),
      length_vecMul _ (Shape_Mat44 g x) (by norm_num), gdim_eq]
  · simp [bwd2, adjB, Ty.dim, length_vecMul _ (Shape_adMat g out) (adim_pos g),
      length_vecMul _ (Shape_AdjMat g x) (adim_pos g), gdim_eq]
  · cases g <;>
      simp [bwd2, adjTB, Ty.dim, length_adjF, length_vecMul _ (Shape_adMat _ _) (adim_pos _),
        length_vecMul _ (Shape_AdjMat _ _) (adim_pos _), gdim_eq]
  · simp [bwd2, jinvpB, logB, Ty.dim, length_vecMul _ (Shape_JlInvMat g eps _) (adim_pos g), gdim_eq]

theorem length_jvp2 (dJ : DJ ℝ) (hdJ : DJShape dJ) (o : Op2) (g : Grp) (eps : ℝ) (x y out τx τy : DVec ℝ) (t t' u : Ty)
    (h : ty2 o g t t' = some u) (hx : τx.length = t.tdim) :
    (jvp2 dJ o g eps x y out τx τy).length = u.tdim := by
  cases o <;> simp only [ty2] at h <;> split at h <;> simp at h <;> rename_i ht <;> obtain ⟨h1, h2⟩ := ht <;>
    subst h1 <;> subst h2 <;> subst h <;> simp only [Ty.tdim] at hx ⊢ <;> simp only [jvp2]
  · rw [length_dadd _ _ (by rw [hx, length_mulVec _ (Shape_AdjMat g x)]), hx]
  · rw [length_dadd _ _ (by rw [length_mulVec _ (Shape_ActJac g _), length_mulVec _ (Shape_toRows _)]),
      length_mulVec _ (Shape_ActJac g _)]
  · rw [length_dadd _ _ (by rw [length_mulVec _ (Shape_Act4Jac g _ _), length_mulVec _ (Shape_Mat44 _ _)]),
      length_mulVec _ (Shape_Act4Jac g _ _)]
  · rw [length_dadd _ _ (by rw [length_dneg, length_mulVec _ (Shape_adMat g _), length_mulVec _ (Shape_AdjMat g _)]),
      length_dneg, length_mulVec _ (Shape_adMat g _)]
  · rw [length_dadd _ _ (by rw [length_mulVec _ (Shape_AdjMat g _), length_mulVec _ (Shape_AdjMat g _)]),
      length_mulVec _ (Shape_AdjMat g _)]
  · rw [length_dadd _ _ (by rw [length_mulVec _ (hdJ _ _ _ _), length_mulVec _ (Shape_JlInvMat g _ _)]),
      length_mulVec _ (hdJ _ _ _ _)]

theorem adj2 (dJ : DJ ℝ) (hdJ : DJShape dJ) (o : Op2) (g : Grp) (eps : ℝ) (x y out go τx τy : DVec ℝ) (t t' u : Ty)
    (h : ty2 o g t t' = some u) (hgo : go.length = u.dim) (hx : τx.length = t.tdim) (hy : τy.length = t'.tdim)
    (hyl : y.length = t'.dim) :
    DVec.dot (bwd2 dJ o g eps x y out go).1 τx + DVec.dot (bwd2 dJ o g eps x y out go).2 τy
      = DVec.dot go (jvp2 dJ o g eps x y out τx τy) := by
  cases o <;> simp only [ty2] at h <;> split at h <;> simp at h <;> rename_i ht <;> obtain ⟨h1, h2⟩ := ht <;>
    subst h1 <;> subst h2 <;> subst h <;> simp only [Ty.tdim, Ty.dim] at hx hy hgo hyl <;> simp only [bwd2, jvp2]
  · exact adj_Mul g x go τx τy hgo hx hy
  · exact adj_Act g x out go τx τy hgo hx
  · exact adj_Act4 g x out go τx τy hgo hx
  · exact adj_Adj g x out go τx τy hgo hx
  · by_cases hg : g = .SO3
    · subst hg; exact adj_AdjT_SO3 x y go τx τy hgo hx hy hyl
    · exact adj_AdjT_gen g hg x y go τx τy hgo hx
  · exact adj_Jinvp g eps _ (hdJ _ _ _ _) _ go τx τy hgo hx

/-- **Chain rule for all programs.**  For every well-typed expression tree (any depth, any sharing of leaves), every
cotangent `go` of the output and every choice of leaf tangents, the reverse sweep pairs with the leaf tangents to
exactly `⟨go, forward tangent of the program⟩`; the forward tangent composes the local Jacobians of the nodes. -/
theorem backprop_adjoint_aux (dJ : DJ ℝ) (hdJ : DJShape dJ) (eps : ℝ) (lt : List Ty) (env tan : List (DVec ℝ))
    (hE : EnvOK lt env tan) (p : Prog) :
    ∀ ty go, tyOf lt p = some ty → go.length = ty.dim →
      pairSum tan (backprop dJ eps env p go) = DVec.dot go (tangent dJ eps env tan p) ∧
      (eval eps env p).length = ty.dim ∧ (tangent dJ eps env tan p).length = ty.tdim := by
  induction p with
  | leaf i =>
    intro ty go hty hgo
    simp only [tyOf] at hty
    obtain ⟨h1, h2⟩ := hE i ty hty
    exact ⟨by simp [backprop, pairSum, tangent], by simpa [eval] using h1, by simpa [tangent] using h2⟩
  | un o g p ih =>
    intro ty go hty hgo
    simp only [tyOf] at hty
    cases hp : tyOf lt p with
    | none => simp [hp] at hty
    | some t =>
      simp only [hp, Option.bind_some] at hty
      have hb := length_bwd1 o g eps (eval eps env p) (fwd1 o g eps (eval eps env p)) go t ty hty
      obtain ⟨i1, i2, i3⟩ := ih t _ hp hb
      refine ⟨?_, ?_, ?_⟩
      · simp only [backprop, tangent]
        rw [i1]
        exact adj1 o g eps _ _ go _ t ty hty hgo i3
      · simp only [eval]; exact length_fwd1 o g eps _ t ty hty
      · simp only [tangent]; exact length_jvp1 o g eps _ _ _ t ty hty
  | bin o g p q ihp ihq =>
    intro ty go hty hgo
    simp only [tyOf] at hty
    cases hp : tyOf lt p with
    | none => simp [hp] at hty
    | some t =>
      cases hq : tyOf lt q with
      | none => simp [hp, hq] at hty
      | some t' =>
        simp only [hp, hq, Option.bind_some] at hty
        obtain ⟨b1, b2⟩ := length_bwd2 dJ hdJ o g eps (eval eps env p) (eval eps env q)
          (fwd2 o g eps (eval eps env p) (eval eps env q)) go t t' ty hty
        obtain ⟨i1, i2, i3⟩ := ihp t _ hp b1
        obtain ⟨j1, j2, j3⟩ := ihq t' _ hq b2
        refine ⟨?_, ?_, ?_⟩
        · simp only [backprop, tangent, pairSum_append]
          rw [i1, j1]
          exact adj2 dJ hdJ o g eps _ _ _ go _ _ t t' ty hty hgo i3 j3 j2
        · simp only [eval]; exact length_fwd2 o g eps _ _ t t' ty hty
        · simp only [tangent]; exact length_jvp2 dJ hdJ o g eps _ _ _ _ _ t t' ty hty i3
/-! ## the last storage slot of every group gradient is zero -/

theorem nth_pad0 (v : DVec ℝ) : nth (pad0 v) v.length = 0 := by
  induction v with
  | nil => simp [pad0]
  | cons a v ih => simpa [pad0] using ih

theorem nth_dadd_zero (a b : DVec ℝ) (i : Nat) (ha : nth a i = 0) (hb : nth b i = 0) : nth (DVec.add a b) i = 0 := by
  induction a generalizing b i with
  | nil => simp [DVec.add]
  | cons x a ih => cases b with
    | nil => simp [DVec.add]
    | cons y b => cases i with
      | zero => simp only [nth_cons_zero] at ha hb; simp [DVec.add, ha, hb]
      | succ i =>
        simp only [nth_cons_succ] at ha hb
        have := ih b i ha hb
        simpa [DVec.add] using this

/-- the cotangent handed to a node of group type has a vanishing last storage slot (vacuous for vector types) -/
def LastZero (t : Ty) (v : DVec ℝ) : Prop :=
  match t with
  | .G g => nth v g.adim = 0
  | .V _ => True

theorem lastZero_matrixB (g : Grp) (X go : DVec ℝ) : nth (matrixB g X go) g.adim = 0 := by
  have h3 : ∀ out c, nth (actB g X out c).1 g.adim = 0 := by
    intro out c
    have := nth_pad0 (DMat.vecMul c (ActJac g (v3 out)))
    rwa [length_vecMul _ (Shape_ActJac g (v3 out)) (by norm_num)] at this
  have h4 : ∀ out c, nth (act4B g X out c).1 g.adim = 0 := by
    intro out c
    have := nth_pad0 (DMat.vecMul c (Act4Jac g (v3 out) (nth out 3)))
    rwa [length_vecMul _ (Shape_Act4Jac g (v3 out) (nth out 3)) (by norm_num)] at this
  cases g
  · simp only [matrixB]; exact nth_dadd_zero _ _ _ (nth_dadd_zero _ _ _ (h3 _ _) (h3 _ _)) (h3 _ _)
  all_goals
    simp only [matrixB]
    exact nth_dadd_zero _ _ _ (nth_dadd_zero _ _ _ (nth_dadd_zero _ _ _ (h4 _ _) (h4 _ _)) (h4 _ _)) (h4 _ _)

theorem lastZero_bwd1 (o : Op1) (g : Grp) (eps : ℝ) (x out go : DVec ℝ) (t u : Ty) (h : ty1 o g t = some u) :
    LastZero t (bwd1 o g eps x out go) := by
  cases o <;> simp only [ty1] at h <;> split at h <;> simp at h <;> rename_i ht <;> subst ht <;> simp only [LastZero, bwd1]
  · have := nth_pad0 (DMat.vecMul go (JlInvMat g eps out))
    rwa [length_vecMul _ (Shape_JlInvMat g eps out) (adim_pos g)] at this
  · have := nth_pad0 (DVec.neg (DMat.vecMul (headN g.adim go) (AdjMat g out)))
    rwa [length_dneg, length_vecMul _ (Shape_AdjMat g out) (adim_pos g)] at this
  · exact lastZero_matrixB g x go

theorem lastZero_bwd2 (dJ : DJ ℝ) (o : Op2) (g : Grp) (eps : ℝ) (x y out go : DVec ℝ) (t t' u : Ty)
    (h : ty2 o g t t' = some u) :
    LastZero t (bwd2 dJ o g eps x y out go).1 ∧ LastZero t' (bwd2 dJ o g eps x y out go).2 := by
  cases o <;> simp only [ty2] at h <;> split at h <;> simp at h <;> rename_i ht <;> obtain ⟨h1, h2⟩ := ht <;>
    subst h1 <;> subst h2 <;> simp only [LastZero, bwd2, and_true]
  · constructor
    · have := nth_pad0 (headN g.adim go); rwa [length_headN] at this
    · have := nth_pad0 (DMat.vecMul (headN g.adim go) (AdjMat g x))
      rwa [length_vecMul _ (Shape_AdjMat g x) (adim_pos g)] at this
  · have := nth_pad0 (DMat.vecMul go (ActJac g (v3 out)))
    rwa [length_vecMul _ (Shape_ActJac g (v3 out)) (by norm_num)] at this
  · have := nth_pad0 (DMat.vecMul go (Act4Jac g (v3 out) (nth out 3)))
    rwa [length_vecMul _ (Shape_Act4Jac g (v3 out) (nth out 3)) (by norm_num)] at this
  · have := nth_pad0 (DMat.vecMul (DVec.neg go) (adMat g out))
    rwa [length_vecMul _ (Shape_adMat g out) (adim_pos g)] at this
  · have gen : ∀ g' : Grp, nth (pad0 (DMat.vecMul (DMat.vecMul go (AdjMat g' (invF g' x))) (adMat g' y))) g'.adim = 0 := by
      intro g'
      have := nth_pad0 (DMat.vecMul (DMat.vecMul go (AdjMat g' (invF g' x))) (adMat g' y))
      rwa [length_vecMul _ (Shape_adMat g' y) (adim_pos g')] at this
    cases g
    · have := nth_pad0 (DMat.vecMul (DVec.neg y) (adMat .SO3 (adjF .SO3 x go)))
      rwa [length_vecMul _ (Shape_adMat .SO3 _) (adim_pos .SO3)] at this
    · exact gen .SE3
    · exact gen .RxSO3
    · exact gen .Sim3
  · have := nth_pad0 (DMat.vecMul (DMat.vecMul go (dJ g eps (logF g eps x) y)) (JlInvMat g eps (logF g eps x)))
    rwa [length_vecMul _ (Shape_JlInvMat g eps _) (adim_pos g)] at this

def Prog.isLeaf : Prog → Bool | .leaf _ => true | _ => false

/-- every contribution the reverse sweep delivers to a leaf of group type has last storage slot `0`, provided the
incoming cotangent has (needed only when the program *is* that leaf) -/
theorem backprop_lastZero (dJ : DJ ℝ) (eps : ℝ) (lt : List Ty) (env : List (DVec ℝ)) (p : Prog) :
    ∀ ty go, tyOf lt p = some ty → (LastZero ty go ∨ p.isLeaf = false) →
      ∀ c ∈ backprop dJ eps env p go, ∀ g, lt[c.1]? = some (.G g) → nth c.2 g.adim = 0 := by
  induction p with
  | leaf i =>
    intro ty go hty hz c hc g hg
    simp only [backprop, List.mem_singleton] at hc
    subst hc
    simp only [tyOf] at hty
    simp only [] at hg
    rw [hty] at hg
    cases hz with
    | inl hz => cases hg; exact hz
    | inr hz => simp [Prog.isLeaf] at hz
  | un o g p ih =>
    intro ty go hty _ c hc g' hg
    simp only [tyOf] at hty
    cases hp : tyOf lt p with
    | none => simp [hp] at hty
    | some t =>
      simp only [hp, Option.bind_some] at hty
      simp only [backprop] at hc
      exact ih t _ hp (Or.inl (lastZero_bwd1 o g eps _ _ go t ty hty)) c hc g' hg
  | bin o g p q ihp ihq =>
    intro ty go hty _ c hc g' hg
    simp only [tyOf] at hty
    cases hp : tyOf lt p with
    | none => simp [hp] at hty
    | some t =>
      cases hq : tyOf lt q with
      | none => simp [hp, hq] at hty
      | some t' =>
        simp only [hp, hq, Option.bind_some] at hty
        obtain ⟨z1, z2⟩ := lastZero_bwd2 dJ o g eps (eval eps env p) (eval eps env q)
          (fwd2 o g eps (eval eps env p) (eval eps env q)) go t t' ty hty
        simp only [backprop, List.mem_append] at hc
        cases hc with
        | inl hc => exact ihp t _ hp (Or.inl z1) c hc g' hg
        | inr hc => exact ihq t' _ hq (Or.inl z2) c hc g' hg

theorem nth_dzero (n i : Nat) : nth (DVec.zero n : DVec ℝ) i = 0 := by
  simp only [nth, DVec.zero, k_real, Nat.cast_zero, List.getD_eq_getElem?_getD, List.getElem?_replicate]
  split <;> simp

/-- `.grad` of a leaf = sum of its contributions: slot `j` vanishes when it vanishes in every contribution -/
theorem grad_slot_zero (n i j : Nat) (cs : List (Nat × DVec ℝ)) (h : ∀ c ∈ cs, c.1 = i → nth c.2 j = 0) :
    nth (grad n i cs) j = 0 := by
  unfold grad
  have key : ∀ (acc : DVec ℝ), nth acc j = 0 → ∀ cs' : List (Nat × DVec ℝ), (∀ c ∈ cs', c.1 = i → nth c.2 j = 0) →
      nth (cs'.foldl (fun acc c => if c.1 == i then DVec.add acc c.2 else acc) acc) j = 0 := by
    intro acc hacc cs'
    induction cs' generalizing acc with
    | nil => intro _; simpa using hacc
    | cons c cs' ih =>
      intro hc
      simp only [List.foldl_cons]
      apply ih
      · by_cases hci : c.1 = i
        · simp only [hci, beq_self_eq_true, if_true]
          exact nth_dadd_zero _ _ _ hacc (hc c (by simp) hci)
        · have : (c.1 == i) = false := by simpa using hci
          simp only [this]; simpa using hacc
      · intro c' hc' hi'; exact hc c' (by simp [hc']) hi'
  exact key _ (nth_dzero n j) cs h
/-! ## non-vacuity helper -/
/-- affine curve in storage coordinates through `X0` with the left-perturbation velocity of tangent `τ` -/
noncomputable def affine (g : Grp) (X0 τ : DVec ℝ) (t : ℝ) : DVec ℝ :=
  (List.range g.gdim).map fun i => nth X0 i + t * nth (liftG g X0 τ) i

theorem nth_map_range (n i : Nat) (f : Nat → ℝ) (h : i < n) : nth ((List.range n).map f) i = f i := by
  simp [nth, h]

theorem affine_zero (g : Grp) (X0 τ : DVec ℝ) (h : X0.length = g.gdim) : affine g X0 τ 0 = X0 := by
  unfold affine
  simp only [zero_mul, add_zero]
  rw [← h]
  have := map_getD_range X0
  simpa [nth] using this

/-- non-vacuity of `GTangent`: every stored element is the base point of a curve with any prescribed tangent -/
theorem gtangent_affine (g : Grp) (X0 τ : DVec ℝ) (h : X0.length = g.gdim) : GTangent g (affine g X0 τ) τ := by
  unfold GTangent
  rw [affine_zero g X0 τ h]
  intro i hi
  have : (fun t => nth (affine g X0 τ t) i) = fun t => nth X0 i + t * nth (liftG g X0 τ) i := by
    funext t; unfold affine; exact nth_map_range _ _ _ hi
  rw [this]
  have := ((hasDerivAt_id (0:ℝ)).mul_const (nth (liftG g X0 τ) i)).const_add (nth X0 i)
  simpa using this
/-! ## call sequences and aliased arguments -/
/-- **two backward passes through one graph accumulate to the backward pass of the summed cotangent**: for the pairing
with any leaf tangents, `backprop(c₁) ++ backprop(c₂)` (what `.grad` holds after `backward(c₁); backward(c₂)` with
`retain_graph`) equals `backprop(c₁ + c₂)`.  The reverse sweep is a pure function of `(program, leaf values, cotangent)`:
nothing is carried from one call to the next. -/
theorem backprop_accumulates (dJ : DJ ℝ) (hdJ : DJShape dJ) (eps : ℝ) (lt : List Ty) (env tan : List (DVec ℝ))
    (hE : EnvOK lt env tan) (p : Prog) (ty : Ty) (c1 c2 : DVec ℝ) (hty : tyOf lt p = some ty)
    (h1 : c1.length = ty.dim) (h2 : c2.length = ty.dim) :
    pairSum tan (backprop dJ eps env p c1 ++ backprop dJ eps env p c2)
      = pairSum tan (backprop dJ eps env p (DVec.add c1 c2)) := by
  rw [pairSum_append, (backprop_adjoint_aux dJ hdJ eps lt env tan hE p ty c1 hty h1).1,
    (backprop_adjoint_aux dJ hdJ eps lt env tan hE p ty c2 hty h2).1,
    (backprop_adjoint_aux dJ hdJ eps lt env tan hE p ty (DVec.add c1 c2) hty (by rw [length_dadd _ _ (by rw [h1, h2]), h1])).1,
    ddot_add_left _ _ _ (by rw [h1, h2])]

/-- rename the leaves of a program -/
def Prog.mapLeaf (f : Nat → Nat) : Prog → Prog
  | .leaf i => .leaf (f i)
  | .un o g p => .un o g (p.mapLeaf f)
  | .bin o g p q => .bin o g (p.mapLeaf f) (q.mapLeaf f)

/-- all leaf indices of the program are below `n` -/
def Prog.leavesBelow (n : Nat) : Prog → Prop
  | .leaf i => i < n
  | .un _ _ p => p.leavesBelow n
  | .bin _ _ p q => p.leavesBelow n ∧ q.leavesBelow n

/-- the environment seen through a renaming: slot `i` holds what slot `f i` holds -/
def reindex (n : Nat) (f : Nat → Nat) (env : List (DVec ℝ)) : List (DVec ℝ) :=
  (List.range n).map fun i => env.getD (f i) []

theorem getD_reindex (n : Nat) (f : Nat → Nat) (env : List (DVec ℝ)) (i : Nat) (h : i < n) :
    (reindex n f env).getD i [] = env.getD (f i) [] := by
  simp [reindex, h]

/-- **aliasing = sharing (forward)**: passing one tensor in several argument positions (renaming `f` identifies leaves)
evaluates like distinct tensors holding the same data -/
theorem eval_mapLeaf (eps : ℝ) (n : Nat) (f : Nat → Nat) (env : List (DVec ℝ)) (p : Prog) (h : p.leavesBelow n) :
    eval eps env (p.mapLeaf f) = eval eps (reindex n f env) p := by
  induction p with
  | leaf i => simp only [Prog.mapLeaf, eval]; exact (getD_reindex n f env i h).symm
  | un o g p ih => simp only [Prog.mapLeaf, eval, ih h]
  | bin o g p q ihp ihq => simp only [Prog.mapLeaf, eval, ihp h.1, ihq h.2]

/-- **aliasing = sharing (backward)**: the reverse sweep of the aliased program emits exactly the contributions of the
un-aliased one, addressed to the identified leaves — so the gradient of a tensor used in several argument positions is
the sum of the gradients of the positions -/
theorem backprop_mapLeaf (dJ : DJ ℝ) (eps : ℝ) (n : Nat) (f : Nat → Nat) (env : List (DVec ℝ)) (p : Prog)
    (h : p.leavesBelow n) (go : DVec ℝ) :
    backprop dJ eps env (p.mapLeaf f) go = (backprop dJ eps (reindex n f env) p go).map (fun c => (f c.1, c.2)) := by
  induction p generalizing go with
  | leaf i => simp [Prog.mapLeaf, backprop]
  | un o g p ih => simp only [Prog.mapLeaf, backprop, eval_mapLeaf eps n f env p h, ih h]
  | bin o g p q ihp ihq =>
    simp only [Prog.mapLeaf, backprop, eval_mapLeaf eps n f env p h.1, eval_mapLeaf eps n f env q h.2, ihp h.1, ihq h.2,
      List.map_append]
end PP.AD
