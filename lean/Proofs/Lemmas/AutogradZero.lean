import Proofs.Lemmas.AutogradChain
import Proofs.Lemmas.So3Exp
/-!
# C04 — the backward passes at the identity element / zero vector

Every `*_Jl`, `*_Jl_inv` is the identity matrix at the zero vector (the Taylor branches are selected, nothing is divided
by `θ`), so `*_Exp.backward` and `*_Log.backward` are the total maps `c ↦ c[:-1]`, `c ↦ (c, 0)` there.
-/
set_option linter.unusedSimpArgs false
set_option maxRecDepth 10000
namespace PP.AD
open PP

theorem norm_zero3 : (⟨0, 0, 0⟩ : Vec3 ℝ).norm = 0 := by simp [Vec3.norm, Vec3.normSq]

theorem so3Jl_zero (eps : ℝ) (h : 0 ≤ eps) : so3Jl eps ⟨0, 0, 0⟩ = Mat3.one := by
  have : ¬ eps < 0 := not_lt.mpr h
  unfold so3Jl so3JlCoef polyK
  simp only [norm_zero3, lt_real, this, decide_false, Bool.false_eq_true, if_false]
  ext <;> lie_unfold <;> norm_num

theorem so3JlInv_zero (eps : ℝ) (h : 0 ≤ eps) : so3JlInv eps ⟨0, 0, 0⟩ = Mat3.one := by
  have : ¬ eps < 0 := not_lt.mpr h
  unfold so3JlInv so3JlInvCoef polyK
  simp only [norm_zero3, lt_real, this, decide_false, Bool.false_eq_true, if_false]
  ext <;> lie_unfold <;> norm_num

theorem calcQ_zero (eps : ℝ) : calcQ eps ⟨⟨0,0,0⟩, ⟨0,0,0⟩⟩ = Mat3.zero := by
  unfold calcQ
  simp only [norm_zero3]
  ext <;> lie_unfold <;> simp

theorem zero3 : (DVec.zero 3 : DVec ℝ) = [0,0,0] := by simp [DVec.zero]

/-- at the zero vector every `*_Jl` is the identity matrix (Taylor branches, no division): `*_Exp.backward` at the
identity element returns the incoming cotangent unchanged — in particular it is finite -/
theorem JlMat_zero (g : Grp) (eps : ℝ) (h : 0 ≤ eps) : JlMat g eps (DVec.zero g.adim) = DMat.one g.adim := by
  cases g
  · simp only [JlMat, Grp.adim, DVec.zero, List.replicate, v3, nth_cons_zero, nth_cons_succ, k_real, Nat.cast_zero]
    rw [so3Jl_zero eps h]
    simp [Mat3.toRows, Mat3.one, Vec3.toList, Vec3.e0, Vec3.e1, Vec3.e2, DMat.one, DVec.basis, List.range, List.range.loop]
  · simp only [JlMat, Grp.adim, DVec.zero, List.replicate, tose3, v3, nth_cons_zero, nth_cons_succ, k_real, Nat.cast_zero, se3Jl]
    rw [so3Jl_zero eps h, calcQ_zero]
    simp [Mat3.toRows, Mat3.one, Mat3.zero, Vec3.zero, Vec3.toList, Vec3.e0, Vec3.e1, Vec3.e2, DMat.one, DVec.basis, List.range,
      List.range.loop, DMat.block, DMat.hcat, DMat.vcat, DMat.zero, DVec.zero]
  · simp only [JlMat, Grp.adim, DVec.zero, List.replicate, torx, v3, nth_cons_zero, nth_cons_succ, k_real, Nat.cast_zero, rxso3Jl]
    rw [so3Jl_zero eps h]
    simp [Mat3.toRows, Mat3.one, Vec3.toList, Vec3.e0, Vec3.e1, Vec3.e2, DMat.one, DVec.basis, List.range,
      List.range.loop, DMat.block, DMat.hcat, DMat.vcat, DMat.zero, DVec.zero]
  · simp only [JlMat, Grp.adim, DVec.zero, List.replicate, tosim, v3, nth_cons_zero, nth_cons_succ, k_real, Nat.cast_zero]
    simp [sim3Jl, sim3ad, Mat3.hat, Mat3.add, Mat3.smul, Mat3.one, Vec3.add, Vec3.smul, Vec3.neg, Vec3.toList, Vec3.e0, Vec3.e1,
      Vec3.e2, DVec.zero, DMat.mul, DMat.transpose, DMat.ncols, DMat.col, DMat.add, DMat.smul, DMat.one, DVec.basis,
      DVec.dot, DVec.sum, DVec.add, DVec.smul, List.range, List.range.loop]

theorem JlInvMat_zero (g : Grp) (eps : ℝ) (h : 0 ≤ eps) : JlInvMat g eps (DVec.zero g.adim) = DMat.one g.adim := by
  cases g
  · simp only [JlInvMat, Grp.adim, DVec.zero, List.replicate, v3, nth_cons_zero, nth_cons_succ, k_real, Nat.cast_zero]
    rw [so3JlInv_zero eps h]
    simp [Mat3.toRows, Mat3.one, Vec3.toList, Vec3.e0, Vec3.e1, Vec3.e2, DMat.one, DVec.basis, List.range, List.range.loop]
  · simp only [JlInvMat, Grp.adim, DVec.zero, List.replicate, tose3, v3, nth_cons_zero, nth_cons_succ, k_real, Nat.cast_zero,
      se3JlInv]
    rw [so3JlInv_zero eps h, calcQ_zero]
    have : ((Mat3.one.mul Mat3.zero).mul Mat3.one).neg = (Mat3.zero : Mat3 ℝ) := by ext <;> lie_unfold <;> simp
    rw [this]
    simp [Mat3.toRows, Mat3.one, Mat3.zero, Vec3.zero, Vec3.toList, Vec3.e0, Vec3.e1, Vec3.e2, DMat.one, DVec.basis, List.range,
      List.range.loop, DMat.block, DMat.hcat, DMat.vcat, DMat.zero, DVec.zero]
  · simp only [JlInvMat, Grp.adim, DVec.zero, List.replicate, torx, v3, nth_cons_zero, nth_cons_succ, k_real, Nat.cast_zero,
      rxso3JlInv]
    rw [so3JlInv_zero eps h]
    simp [Mat3.toRows, Mat3.one, Vec3.toList, Vec3.e0, Vec3.e1, Vec3.e2, DMat.one, DVec.basis, List.range,
      List.range.loop, DMat.block, DMat.hcat, DMat.vcat, DMat.zero, DVec.zero]
  · simp only [JlInvMat, Grp.adim, DVec.zero, List.replicate, tosim, v3, nth_cons_zero, nth_cons_succ, k_real, Nat.cast_zero]
    simp [sim3JlInv, sim3ad, Mat3.hat, Mat3.add, Mat3.smul, Mat3.one, Vec3.add, Vec3.smul, Vec3.neg, Vec3.toList, Vec3.e0, Vec3.e1,
      Vec3.e2, DVec.zero, DMat.mul, DMat.transpose, DMat.ncols, DMat.col, DMat.add, DMat.sub, DMat.smul, DMat.one, DVec.basis,
      DVec.dot, DVec.sum, DVec.add, DVec.sub, DVec.smul, List.range, List.range.loop]

/-- row vector times the identity -/
theorem vecMul_one (n : Nat) (hn : n = 3 ∨ n = 4 ∨ n = 6 ∨ n = 7) (v : DVec ℝ) (hv : v.length = n) :
    DMat.vecMul v (DMat.one n) = v := by
  rcases hn with rfl | rfl | rfl | rfl
  · obtain ⟨a, b, c, rfl⟩ := len3 v hv
    simp [DMat.vecMul, DMat.transpose, DMat.ncols, DMat.col, DMat.one, DVec.basis, List.range, List.range.loop, ddot_cons]
  · obtain ⟨a, b, c, d, rfl⟩ := len4 v hv
    simp [DMat.vecMul, DMat.transpose, DMat.ncols, DMat.col, DMat.one, DVec.basis, List.range, List.range.loop, ddot_cons]
  · obtain ⟨a, b, c, d, e, f, rfl⟩ := len6 v hv
    simp [DMat.vecMul, DMat.transpose, DMat.ncols, DMat.col, DMat.one, DVec.basis, List.range, List.range.loop, ddot_cons]
  · obtain ⟨a, b, c, d, e, f, g, rfl⟩ := len7 v hv
    simp [DMat.vecMul, DMat.transpose, DMat.ncols, DMat.col, DMat.one, DVec.basis, List.range, List.range.loop, ddot_cons]

theorem adim_cases (g : Grp) : g.adim = 3 ∨ g.adim = 4 ∨ g.adim = 6 ∨ g.adim = 7 := by cases g <;> simp [Grp.adim]

/-- **no NaN at the zero vector**: `*_Exp.backward` at `x = 0` is the total, division-free map `c ↦ c[:-1]` -/
theorem expB_zero (g : Grp) (eps : ℝ) (h : 0 ≤ eps) (go : DVec ℝ) :
    expB g eps (DVec.zero g.adim) go = headN g.adim go := by
  unfold expB
  rw [JlMat_zero g eps h, vecMul_one _ (adim_cases g) _ (length_headN _ _)]

/-- **no NaN at the identity**: `*_Log.backward` with saved output `0` (= `Log` of the identity) is `c ↦ (c, 0)` -/
theorem logB_zero (g : Grp) (eps : ℝ) (h : 0 ≤ eps) (go : DVec ℝ) (hgo : go.length = g.adim) :
    logB g eps (DVec.zero g.adim) go = pad0 go := by
  unfold logB
  rw [JlInvMat_zero g eps h, vecMul_one _ (adim_cases g) _ hgo]

/-- identity element in storage order -/
noncomputable def identG (g : Grp) : DVec ℝ :=
  match g with
  | .SO3 => [0, 0, 0, 1] | .SE3 => [0, 0, 0, 0, 0, 0, 1] | .RxSO3 => [0, 0, 0, 1, 1] | .Sim3 => [0, 0, 0, 0, 0, 0, 1, 1]

theorem SO3Log_one (eps : ℝ) (h : 0 ≤ eps) : SO3Log eps ⟨0, 0, 0, 1⟩ = ⟨0, 0, 0⟩ := by
  have : ¬ eps < 0 := not_lt.mpr h
  unfold SO3Log so3LogFactor
  simp only [Quat.vec, norm_zero3, lt_real, this, decide_false, Bool.false_eq_true, if_false]
  ext <;> lie_unfold <;> simp

/-- `Log` of the identity element is the zero vector (forward pass, Taylor regime, no division by `‖v‖`) -/
theorem logF_ident (g : Grp) (eps : ℝ) (h : 0 ≤ eps) : logF g eps (identG g) = DVec.zero g.adim := by
  cases g
  · simp [logF, identG, qt, SO3Log_one eps h, Vec3.toList, DVec.zero, Grp.adim]
  · simp only [logF, identG, toSE3, qt, v3, nth_cons_zero, nth_cons_succ, SE3Log]
    rw [SO3Log_one eps h, so3JlInv_zero eps h]
    simp [se3.toList, Vec3.toList, DVec.zero, Grp.adim, Mat3.mulVec, Mat3.one, Vec3.dot, Vec3.e0, Vec3.e1, Vec3.e2]
  · simp [logF, identG, toRx, qt, RxSO3Log, SO3Log_one eps h, rxso3.toList, Vec3.toList, DVec.zero, Grp.adim]
  · simp only [logF, identG, toSim, qt, v3, nth_cons_zero, nth_cons_succ, Sim3Log, RxSO3Log]
    rw [SO3Log_one eps h]
    simp [sim3.toList, Vec3.toList, DVec.zero, Grp.adim, Mat3.mulVec, Vec3.dot]

/-! ## which branch is selected at the zero vector / identity (pass 4, auditor's item 1)

`JlMat_zero`, `JlInvMat_zero`, `logF_ident` above hold for *any* coefficients (`hat 0 = 0`, and `x/0 = 0` in `ℝ`), so they do not show that
the division-free branch is taken.  These do: the closed forms evaluate to other numbers at `0` under the `x/0 = 0` convention. -/

theorem so3JlCoef_zero (eps : ℝ) (h : 0 ≤ eps) : so3JlCoef eps 0 = (1/2, 1/6) := by
  have : ¬ eps < 0 := not_lt.mpr h
  simp [so3JlCoef, lt_real, this, q_real]

theorem so3JlInvCoef_zero (eps : ℝ) (h : 0 ≤ eps) : so3JlInvCoef eps 0 = 1/12 := by
  have : ¬ eps < 0 := not_lt.mpr h
  simp [so3JlInvCoef, lt_real, this, q_real]

theorem so3LogFactor_identity (eps : ℝ) (h : 0 ≤ eps) : so3LogFactor eps 0 1 = 2 ∧ so3LogFactor eps 0 (-1) = -2 := by
  have : ¬ eps < 0 := not_lt.mpr h
  constructor <;> simp [so3LogFactor, lt_real, this, k_real] <;> norm_num

theorem rxso3WsCoef_zero (eps : ℝ) (h : 0 ≤ eps) : rxso3WsCoef eps 0 0 = (1/2, 1/6, 1) := by
  have : ¬ eps < 0 := not_lt.mpr h
  simp [rxso3WsCoef, lt_real, this, q_real, k_real, sabs_real]

/-- the closed forms, evaluated at `0` with `x/0 = 0`, give different numbers: the statements above do select a branch -/
theorem closed_forms_at_zero_differ : ((1 - Real.cos 0) / (0 * 0) : ℝ) ≠ 1/2 ∧ ((2 * Real.arctan (0 / 1) / 0 : ℝ) ≠ 2) := by
  constructor <;> norm_num

end PP.AD
