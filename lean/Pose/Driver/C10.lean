import Pose.Wire
import Pose.Model.LinSolve
import Pose.Model.SparseMM
/-! Driver ops for C10 (linear solvers, CG, block-sparse product).

All dense data are row-major `m:e` tokens; sizes and index arrays are decimal naturals. -/
namespace PP.Driver
open PP Wire LinSolve SparseMM

namespace C10

def vecOf (xs : Array BigF) : Nat → BigF := fun i => xs.getD i BigF.zero
def matOf (ncols : Nat) (xs : Array BigF) : Nat → Nat → BigF :=
  fun i j => if j < ncols then xs.getD (i * ncols + j) BigF.zero else BigF.zero
def idxOf (xs : Array Nat) : Nat → Nat := fun i => xs.getD i 0

def tabList (n : Nat) (t : Tab BigF) : List BigF := (List.range n).map t.get
def fnList (n : Nat) (f : Nat → BigF) : List BigF := (List.range n).map f

def takeNums (n : Nat) (ts : List String) : Except String (Array BigF × List String) := do
  let (a, b) ← Wire.take n ts
  let xs ← nums a
  return (xs.toArray, b)

def takeNats (n : Nat) (ts : List String) : Except String (Array Nat × List String) := do
  let (a, b) ← Wire.take n ts
  let xs ← nats a
  return (xs.toArray, b)

def frob (n m : Nat) (A : Nat → Nat → BigF) : BigF :=
  Scalar.sqrt (sumN n fun i => sumN m fun j => A i j * A i j)

def b2n (b : Bool) : String := if b then "1" else "0"

/-- `A ∓ τ·diag(A)` -/
def shiftDiag (A : Nat → Nat → BigF) (tau : BigF) : Nat → Nat → BigF :=
  fun i j => if i = j then A i j + tau * A i j else A i j

def isOk {ε β : Type} : Except ε β → Bool | .ok _ => true | .error _ => false

/-- dense block product `(dm×dn)·(dn×dp)`, flat row-major arrays -/
def blkMul (dm dn dp : Nat) (a b : Array BigF) : Array BigF :=
  Array.ofFn (n := dm * dp) fun t =>
    let i := t.val / dp
    let j := t.val % dp
    sumN dn fun s => a.getD (i * dn + s) BigF.zero * b.getD (s * dp + j) BigF.zero

def blkAdd (a b : Array BigF) : Array BigF :=
  Array.ofFn (n := a.size) fun t => a.getD t.val BigF.zero + b.getD t.val BigF.zero

def chunks (sz : Nat) (xs : Array BigF) (cnt : Nat) : Array (Array BigF) :=
  Array.ofFn (n := cnt) fun t => xs.extract (t.val * sz) (t.val * sz + sz)

def layoutOf : String → Except String Layout
  | "strided" => .ok .strided | "coo" => .ok .coo | "csr" => .ok .csr
  | "csc" => .ok .csc | "bsr" => .ok .bsr | "bsc" => .ok .bsc
  | s => .error s!"bad-layout:{s}"

def routeName : Route → String
  | .mergeJoin => "mergeJoin" | .raiseNotImplemented => "raiseNotImplemented" | .addmmCsr => "addmmCsr"
  | .convertBoth => "convertBoth" | .convertLeft => "convertLeft" | .addmmDense => "addmmDense"
  | .raiseTuple => "raiseTuple"

end C10
open C10

def opsC10 : List (String × Handler) := [
  -- c10.matvec n m P(n*m) b(m)          PINV.forward given the kernel's P
  ("c10.matvec", fun ts => do
    match ts with
    | n :: m :: rest =>
      let n ← nat n; let m ← nat m
      let (P, rest) ← takeNums (n * m) rest
      let (b, _) ← takeNums m rest
      return fmt (tabList n (pinvForward m n (matOf m P) (vecOf b)))
    | _ => throw "arity"),
  -- c10.penrose m n A(m*n) P(n*m)  -> |APA-A| |PAP-P| |(AP)^T-AP| |(PA)^T-PA| |A| |P|   (Frobenius)
  ("c10.penrose", fun ts => do
    match ts with
    | m :: n :: rest =>
      let m ← nat m; let n ← nat n
      let (A, rest) ← takeNums (m * n) rest
      let (P, _) ← takeNums (n * m) rest
      let A := matOf n A; let P := matOf m P
      let AP := (tab2 m m (matMul n A P)).get
      let PA := (tab2 n n (matMul m P A)).get
      let APA := (tab2 m n (matMul m AP A)).get
      let PAP := (tab2 n m (matMul n PA P)).get
      return fmt [frob m n (fun i j => APA i j - A i j), frob n m (fun i j => PAP i j - P i j),
                  frob m m (fun i j => AP j i - AP i j), frob n n (fun i j => PA j i - PA i j),
                  frob m n A, frob n m P]
    | _ => throw "arity"),
  -- c10.lscert m n A(m*n) b(m) x(n) -> |A^T(Ax-b)| |Ax-b| |x| |b| |A|_F     (exact certificates)
  ("c10.lscert", fun ts => do
    match ts with
    | m :: n :: rest =>
      let m ← nat m; let n ← nat n
      let (A, rest) ← takeNums (m * n) rest
      let (b, rest) ← takeNums m rest
      let (x, _) ← takeNums n rest
      let A := matOf n A; let b := vecOf b; let x := vecOf x
      let res := tab m fun i => matVec n A x i - b i
      let g := tab n (matVec m (transpose A) res.get)
      return fmt [norm n g.get, norm m res.get, norm n x, norm m b, frob m n A]
    | _ => throw "arity"),
  -- c10.lsref m r n B(m*r) C(r*n) b(m) -> x(n) | err rank
  ("c10.lsref", fun ts => do
    match ts with
    | m :: r :: n :: rest =>
      let m ← nat m; let r ← nat r; let n ← nat n
      let (B, rest) ← takeNums (m * r) rest
      let (C, rest) ← takeNums (r * n) rest
      let (b, _) ← takeNums m rest
      match lsRef m r n (matOf r B) (matOf n C) (vecOf b) with
      | .ok x => return fmt (tabList n x)
      | .error e => throw e
    | _ => throw "arity"),
  -- c10.chol n upper tau A(n*n) b(n) -> pd(A-tau D) pd(A) pd(A+tau D) info x(n)   (x only when pd(A))
  ("c10.chol", fun ts => do
    match ts with
    | n :: upper :: tau :: rest =>
      let n ← nat n; let upper ← nat upper; let tau ← num tau
      let (A, rest) ← takeNums (n * n) rest
      let (b, _) ← takeNums n rest
      let A := matOf n A
      let up := upper == 1
      let Aeff := if up then transpose A else A
      let pdm := isOk (chol (shiftDiag Aeff (BigF.neg tau)) n)
      let pdp := isOk (chol (shiftDiag Aeff tau) n)
      let info := (cholExStd n up A).2
      match choleskyForwardStd n up A (vecOf b) with
      | .ok x => return s!"{b2n pdm} 1 {b2n pdp} {info} " ++ fmt (tabList n x)
      | .error _ => return s!"{b2n pdm} 0 {b2n pdp} {info}"
    | _ => throw "arity"),
  -- c10.cg n tol maxiter(-1 = None) hasx0 hasM A(n*n) b(n) [x0(n)] [M(n*n)] -> iter stopped x(n) |r|
  ("c10.cg", fun ts => do
    match ts with
    | n :: tol :: mi :: hx :: hm :: rest =>
      let n ← nat n; let tol ← num tol; let mi ← int mi; let hx ← nat hx; let hm ← nat hm
      let (A, rest) ← takeNums (n * n) rest
      let (b, rest) ← takeNums n rest
      let (x0, rest) ← if hx == 1 then takeNums n rest else pure (#[], rest)
      let (M, _) ← if hm == 1 then takeNums (n * n) rest else pure (#[], rest)
      let s := cgForward n tol (if mi < 0 then none else some mi.toNat) (matOf n A) (vecOf b)
        (if hx == 1 then some (vecOf x0) else none) (if hm == 1 then some (matOf n M) else none)
      return s!"{s.iter} {b2n s.stopped} " ++ fmt (tabList n s.x ++ [norm n s.r.get])
    | _ => throw "arity"),
  -- c10.cgtraj n K hasx0 hasM A b [x0] [M] -> |b| then for k=0..K: |r_k|, then x_K(n)
  -- (K unconditional passes through the loop body, stop test ignored; b ≠ 0 assumed)
  ("c10.cgtraj", fun ts => do
    match ts with
    | n :: kk :: hx :: hm :: rest =>
      let n ← nat n; let kk ← nat kk; let hx ← nat hx; let hm ← nat hm
      let (A, rest) ← takeNums (n * n) rest
      let (b, rest) ← takeNums n rest
      let (x0, rest) ← if hx == 1 then takeNums n rest else pure (#[], rest)
      let (M, _) ← if hm == 1 then takeNums (n * n) rest else pure (#[], rest)
      let A := matOf n A; let b := vecOf b
      let Mo := if hm == 1 then some (matOf n M) else none
      -- maxiter = 0: cgForward returns the initial state (x0, r0)
      let s0 := cgForward n (BigF.ofNat 1) (some 0) A b (if hx == 1 then some (vecOf x0) else none) Mo
      let (sK, ns) := (List.range kk).foldl (fun (acc : CGState BigF × List BigF) _ =>
          let s' := cgStep n A Mo acc.1
          (s', norm n s'.r.get :: acc.2)) (s0, [norm n s0.r.get])
      return fmt ([norm n b] ++ ns.reverse ++ tabList n sK.x)
    | _ => throw "arity"),
  -- c10.bsrbsc sm sn sp dm dn dp nnzA nnzB crow(sm+1) col(nnzA) ccol(sp+1) row(nnzB) va(nnzA*dm*dn) vb(nnzB*dn*dp)
  --   -> nblk crow(sm+1) col(nblk) values(nblk*dm*dp)
  ("c10.bsrbsc", fun ts => do
    match ts with
    | sm :: sn :: sp :: dm :: dn :: dp :: na :: nb :: rest =>
      let sm ← nat sm; let _sn ← nat sn; let sp ← nat sp
      let dm ← nat dm; let dn ← nat dn; let dp ← nat dp; let na ← nat na; let nb ← nat nb
      let (crow, rest) ← takeNats (sm + 1) rest
      let (col, rest) ← takeNats na rest
      let (ccol, rest) ← takeNats (sp + 1) rest
      let (row, rest) ← takeNats nb rest
      let (va, rest) ← takeNums (na * dm * dn) rest
      let (vb, _) ← takeNums (nb * dn * dp) rest
      let ba := chunks (dm * dn) va na
      let bb := chunks (dn * dp) vb nb
      let zero : Array BigF := Array.replicate (dm * dp) BigF.zero
      let (rc, cc, vals) := bsrBscMatmul zero blkAdd (blkMul dm dn dp) sm sp (idxOf crow) (idxOf col)
        (fun i => ba.getD i #[]) (idxOf ccol) (idxOf row) (fun i => bb.getD i #[])
      let flat := vals.flatMap fun v => v.toList
      return s!"{cc.length} {fmtNats rc} {fmtNats cc} {fmt flat}".trimAscii.toString
    | _ => throw "arity"),
  -- c10.pinvsvd m n r hasAtol atol hasRtol rtol eps A(m*n) U(m*r) sigma(r) V(n*r) b(m)
  --   -> cut x(n) |U^T U - 1| |V^T V - 1| |A - U S V^T|      (PINV.forward with the kernel unfolded to an SVD)
  ("c10.pinvsvd", fun ts => do
    match ts with
    | m :: n :: r :: ha :: atol :: hr :: rtol :: eps :: rest =>
      let m ← nat m; let n ← nat n; let r ← nat r; let ha ← nat ha; let hr ← nat hr
      let atol ← num atol; let rtol ← num rtol; let eps ← num eps
      let (A, rest) ← takeNums (m * n) rest
      let (U, rest) ← takeNums (m * r) rest
      let (sg, rest) ← takeNums r rest
      let (V, rest) ← takeNums (n * r) rest
      let (b, _) ← takeNums m rest
      let A := matOf n A; let U := matOf r U; let V := matOf r V; let sg := vecOf sg
      let ao := if ha == 1 then some atol else none
      let ro := if hr == 1 then some rtol else none
      let cut := pinvCutoff ao ro m n eps (sg 0)
      let x := pinvForwardSvd m n r U V sg ao ro eps (vecOf b)
      let one : Nat → Nat → BigF := fun i j => if i = j then BigF.one else BigF.zero
      let utu := (tab2 r r (matMul m (transpose U) U)).get
      let vtv := (tab2 r r (matMul n (transpose V) V)).get
      let us := (tab2 m r fun i t => U i t * sg t).get
      let rec_ := (tab2 m n (matMul r us (transpose V))).get
      return fmt ([cut] ++ tabList n x ++ [frob r r (fun i j => utu i j - one i j), frob r r (fun i j => vtv i j - one i j),
                                           frob m n (fun i j => A i j - rec_ i j)])
    | _ => throw "arity"),
  -- c10.lstsqsvd m n r hasRcond rcond eps mach A(m*n) U(m*r) sigma(r) V(n*r) b(m)
  --   -> cut x(n) |U^T U - 1| |V^T V - 1| |A - U S V^T|      (LSTSQ.forward, SVD drivers, kernel unfolded to an SVD)
  ("c10.lstsqsvd", fun ts => do
    match ts with
    | m :: n :: r :: hr :: rcond :: eps :: mach :: rest =>
      let m ← nat m; let n ← nat n; let r ← nat r; let hr ← nat hr
      let rcond ← num rcond; let eps ← num eps; let mach ← num mach
      let (A, rest) ← takeNums (m * n) rest
      let (U, rest) ← takeNums (m * r) rest
      let (sg, rest) ← takeNums r rest
      let (V, rest) ← takeNums (n * r) rest
      let (b, _) ← takeNums m rest
      let A := matOf n A; let U := matOf r U; let V := matOf r V; let sg := vecOf sg
      let ro := if hr == 1 then some rcond else none
      let cut := lstsqCutoff ro m n eps mach (sg 0)
      match lstsqForwardSvd m n r U V sg ro eps mach (vecOf b) with
      | .error e => throw s!"model:{e}"
      | .ok x =>
        let one : Nat → Nat → BigF := fun i j => if i = j then BigF.one else BigF.zero
        let utu := (tab2 r r (matMul m (transpose U) U)).get
        let vtv := (tab2 r r (matMul n (transpose V) V)).get
        let us := (tab2 m r fun i t => U i t * sg t).get
        let rec_ := (tab2 m n (matMul r us (transpose V))).get
        return fmt ([cut] ++ tabList n x ++ [frob r r (fun i j => utu i j - one i j), frob r r (fun i j => vtv i j - one i j),
                                             frob m n (fun i j => A i j - rec_ i j)])
    | _ => throw "arity"),
  -- c10.lstsqcod m n r A(m*n) Q(m*r) Z(n*r) T(r*r) Ti(r*r) b(m)
  --   -> x(n) |Q^T Q - 1| |Z^T Z - 1| |T Ti - 1| |A - Q T Z^T|     (LSTSQ.forward, orthogonal-factorisation driver unfolded)
  ("c10.lstsqcod", fun ts => do
    match ts with
    | m :: n :: r :: rest =>
      let m ← nat m; let n ← nat n; let r ← nat r
      let (A, rest) ← takeNums (m * n) rest
      let (Q, rest) ← takeNums (m * r) rest
      let (Z, rest) ← takeNums (n * r) rest
      let (T, rest) ← takeNums (r * r) rest
      let (Ti, rest) ← takeNums (r * r) rest
      let (b, _) ← takeNums m rest
      let A := matOf n A; let Q := matOf r Q; let Z := matOf r Z; let T := matOf r T; let Ti := matOf r Ti
      match lstsqForwardCod m n r Q Z Ti (vecOf b) with
      | .error e => throw s!"model:{e}"
      | .ok x =>
        let one : Nat → Nat → BigF := fun i j => if i = j then BigF.one else BigF.zero
        let qtq := (tab2 r r (matMul m (transpose Q) Q)).get
        let ztz := (tab2 r r (matMul n (transpose Z) Z)).get
        let tti := (tab2 r r (matMul r T Ti)).get
        let qt := (tab2 m r (matMul r Q T)).get
        let rec_ := (tab2 m n (matMul r qt (transpose Z))).get
        return fmt (tabList n x ++ [frob r r (fun i j => qtq i j - one i j), frob r r (fun i j => ztz i j - one i j),
                                    frob r r (fun i j => tti i j - one i j), frob m n (fun i j => A i j - rec_ i j)])
    | _ => throw "arity"),
  -- c10.pinveigh n hasAtol atol hasRtol rtol eps A(n*n) Q(n*n) lam(n) b(n)
  --   -> cut x(n) |Q^T Q - 1| |A - Q L Q^T|           (PINV(hermitian=True).forward with the kernel unfolded to eigh)
  ("c10.pinveigh", fun ts => do
    match ts with
    | n :: ha :: atol :: hr :: rtol :: eps :: rest =>
      let n ← nat n; let ha ← nat ha; let hr ← nat hr
      let atol ← num atol; let rtol ← num rtol; let eps ← num eps
      let (A, rest) ← takeNums (n * n) rest
      let (Q, rest) ← takeNums (n * n) rest
      let (lam, rest) ← takeNums n rest
      let (b, _) ← takeNums n rest
      let A := matOf n A; let Q := matOf n Q; let lam := vecOf lam
      let ao := if ha == 1 then some atol else none
      let ro := if hr == 1 then some rtol else none
      let cut := pinvCutoff ao ro n n eps (maxN n fun t => sabs (lam t))
      let x := pinvForwardEigh n Q lam ao ro eps (vecOf b)
      let one : Nat → Nat → BigF := fun i j => if i = j then BigF.one else BigF.zero
      let qtq := (tab2 n n (matMul n (transpose Q) Q)).get
      let ql := (tab2 n n fun i t => Q i t * lam t).get
      let rec_ := (tab2 n n (matMul n ql (transpose Q))).get
      return fmt ([cut] ++ tabList n x ++ [frob n n (fun i j => qtq i j - one i j), frob n n (fun i j => A i j - rec_ i j)])
    | _ => throw "arity"),
  -- c10.cgentry ndimA ndimB -> 1 (unsqueezed) | 0 | err assert:ndim
  ("c10.cgentry", fun ts => do
    match ts with
    | [a, b] =>
      let a ← nat a; let b ← nat b
      match cgEntry a b with
      | .ok u => return b2n u
      | .error e => throw e
    | _ => throw "arity"),
  -- c10.bsrguard m n n' p dm dn dn' dp -> sm sn sp | err kind
  ("c10.bsrguard", fun ts => do
    let xs ← nats ts
    match xs with
    | [m, n, n', p, dm, dn, dn', dp] =>
      match bsrBscGuard m n n' p dm dn dn' dp with
      | .ok (a, b, c) => return fmtNats [a, b, c]
      | .error e => throw e
    | _ => throw "arity"),
  -- c10.dispatch l1 l2 -> route finalRoute
  ("c10.dispatch", fun ts => do
    match ts with
    | [a, b] =>
      let l1 ← layoutOf a; let l2 ← layoutOf b
      return s!"{routeName (dispatch l1 l2)} {routeName (finalRoute 2 l1 l2)}"
    | _ => throw "arity")
]

end PP.Driver
