import Pose.Model.Lie
import Pose.Model.Scan
/-!
# Model of `pypose/module/imu_preintegrator.py` (`IMUPreintegrator`), one batch item

Batching is factored out by C06; this file models what the code does to ONE item of the batch: `F` frames
`(dt, gyro, acc[, rot])`, the carried state `(pos, rot, vel, cov, Rij)`.

* `integrate`   — the code's parallel-prefix form: `w = [1, Exp(gyro·dt)…]`, `incre_r = cumprod(w, left=False)`
                  (the scan of C12, `Scan.cumopsArr`), gravity removal with the supplied or the *integrated*
                  rotation (`inte_rot[:,1:]`, i.e. the rotation AFTER the step), `dv`, `cumsum`, `dp`, `cumsum`.
                  `torch.cumsum` is an external kernel: modelled as the prefix sum (`cumsumV`, `cumsumS`).
* `predictAt`   — composition with the initial state.
* `matA`, `matBg`, `matBa`, `noise`, `propagateCov` — the 9×9 covariance propagation through
                  `cumprod(A.flip(1), dim=1).flip(1)`; the order of that product is the parameter `left`
                  (the repaired code passes `left=False`: time-ordered product, `codeLeft = false`; `left = true`,
                  `cumprod`'s default, was the pre-D27 behaviour).
* `call`        — `forward`: default / explicit `init_state`, `prop_cov`, `reset`, carried buffers.
* `preSeq`, `compose`, `covSeq` — the SEQUENTIAL recursions in the wording of property C16 ("dR ← dR·Exp(w dt), dv ← dv + dR a dt,
                  dp ← dp + dv dt + ½ dR a dt², a = acceleration with gravity removed by the supplied / integrated rotation,
                  composed with the initial state"): the step-by-step form of what `integrate` + `predict` compute.
                  NOTE the docstring of `forward` / `predict` writes the composition in another convention
                  (`R_j = ΔR_ij * R_i`, `v_j = … + gΔt`, `p_j = … + ½gΔt²`, covariance noise without the `1/dt`): see
                  `Proofs/Props/C16.lean` §10 for the exact relation.
* `checkShape`, `lift`, `forwardItem` — `_check` rank lifting `(H) → (1,1,H)`, `(F,H) → (1,F,H)`.

Every intermediate sequence is materialised (`tab`) so that the executable instance is `O(F log F)`;
`Proofs/Lemmas/Imu.lean` shows `(tab n f)[j] = f j`, so the theorems talk about the plain index functions.
-/
namespace PP.Imu
open PP

variable {α : Type} [Scalar α]

/-- materialise the first `n` values of an index function -/
def tab {β : Type} (n : Nat) (f : Nat → β) : Array β := Array.ofFn (n := n) fun i => f i.val

def qAt (a : Array (Quat α)) (j : Nat) : Quat α := a.getD j Quat.one
def vAt (a : Array (Vec3 α)) (j : Nat) : Vec3 α := a.getD j Vec3.zero
def sAt (a : Array α) (j : Nat) : α := a.getD j (k 0)

def v3get (v : Vec3 α) (i : Nat) : α := match i with | 0 => v.x | 1 => v.y | _ => v.z
def m3get (m : Mat3 α) (i j : Nat) : α :=
  match i with | 0 => v3get m.r0 j | 1 => v3get m.r1 j | _ => v3get m.r2 j

/-! ## one frame of input (one item, one time step) -/

structure Frame (α : Type) where
  dt : α
  gyro : Vec3 α
  acc : Vec3 α
  /-- known rotation (`rot` argument of `forward`), if supplied -/
  rot : Option (Quat α)
  /-- measurement covariances used for this frame (module default or `gyro_cov`/`acc_cov` argument) -/
  gcov : Vec3 α
  acov : Vec3 α

/-- `so3(gyro*dt).Exp()` -/
def dr (eps : α) (f : Frame α) : Quat α := so3Exp eps (f.gyro.smul f.dt)

/-- `w = cat([identity_SO3, dr], dim=1)` -/
def wSeq (eps : α) (fr : Nat → Frame α) : Nat → Quat α
  | 0 => Quat.one
  | j+1 => dr eps (fr j)

/-- `incre_r = cumprod(w, dim=1, left=False)` : the C12 scan over `F+1` quaternions -/
def incRArr (eps : α) (fr : Nat → Frame α) (F : Nat) : Array (Quat α) :=
  @Scan.cumopsArr _ Quat.mul ⟨Quat.one⟩ (tab (F+1) (wSeq eps fr))

/-- `a = acc - rot.Inv() @ gravity`, with `rot` the supplied rotation or `init_rot * incre_r[k+1]` -/
def removeG (g : Vec3 α) (R0 Rnext : Quat α) (f : Frame α) : Vec3 α :=
  match f.rot with
  | some r => f.acc.sub (r.conj.act g)
  | none => f.acc.sub ((R0.mul Rnext).conj.act g)

/-- `torch.cumsum` along the frame axis (prefix sums, in order) -/
def cumsumV (v : Nat → Vec3 α) : Nat → Vec3 α
  | 0 => v 0
  | j+1 => (cumsumV v j).add (v (j+1))

def cumsumS (v : Nat → α) : Nat → α
  | 0 => v 0
  | j+1 => cumsumS v j + v (j+1)

/-- the first `n+1` prefix sums, built left to right (`cumsumArrV n v` has entry `j ↦ cumsumV v j`, `j ≤ n`) -/
def cumsumArrV (n : Nat) (v : Nat → Vec3 α) : Array (Vec3 α) :=
  (List.range n).foldl (fun acc j => acc.push ((vAt acc j).add (v (j+1)))) #[v 0]

def cumsumArrS (n : Nat) (v : Nat → α) : Array α :=
  (List.range n).foldl (fun acc j => acc.push (sAt acc j + v (j+1))) #[v 0]

/-- the dictionary returned by `integrate` (materialised; `incR`, `incV`, `incP` still carry the leading
identity / zero entry, i.e. `Dr[k] = incR[k+1]`, `Dv[k] = incV[k+1]`, `Dp[k] = incP[k+1]`, `Dt[k] = incT[k]`) -/
structure Integ (α : Type) where
  incR : Array (Quat α)
  a : Array (Vec3 α)
  incV : Array (Vec3 α)
  incP : Array (Vec3 α)
  incT : Array α

/-- `dv = cat([0, incre_r[:F] @ a * dt])` -/
def dvSeq (Ra : Array (Vec3 α)) (fr : Nat → Frame α) : Nat → Vec3 α
  | 0 => Vec3.zero
  | j+1 => (vAt Ra j).smul (fr j).dt

/-- `dp = cat([0, incre_v[:F] * dt + incre_r[:F] @ a * 0.5 * dt**2])` -/
def dpSeq (incV Ra : Array (Vec3 α)) (fr : Nat → Frame α) : Nat → Vec3 α
  | 0 => Vec3.zero
  | j+1 => ((vAt incV j).smul (fr j).dt).add (((vAt Ra j).smul (q 1 2)).smul ((fr j).dt * (fr j).dt))

/-- `a = acc - inte_rot[:,1:].Inv() @ gravity` (or with the supplied `rot`) -/
def aArr (g : Vec3 α) (R0 : Quat α) (incR : Array (Quat α)) (fr : Nat → Frame α) (F : Nat) : Array (Vec3 α) :=
  tab F fun j => removeG g R0 (qAt incR (j+1)) (fr j)

/-- `incre_r[:, :F] @ a` -/
def raArr (incR : Array (Quat α)) (a : Array (Vec3 α)) (F : Nat) : Array (Vec3 α) :=
  tab F fun j => (qAt incR j).act (vAt a j)

/-- `IMUPreintegrator.integrate` -/
def integrate (eps : α) (g : Vec3 α) (R0 : Quat α) (fr : Nat → Frame α) (F : Nat) : Integ α :=
  let incR := incRArr eps fr F
  let a := aArr g R0 incR fr F
  let Ra := raArr incR a F
  let incV := cumsumArrV F (dvSeq Ra fr)
  let incP := cumsumArrV F (dpSeq incV Ra fr)
  let incT := cumsumArrS (F - 1) fun j => (fr j).dt
  ⟨incR, a, incV, incP, incT⟩

/-- one frame of the returned `rot`, `vel`, `pos` -/
structure Out (α : Type) where
  rot : Quat α
  vel : Vec3 α
  pos : Vec3 α

def Out.toList (o : Out α) : List α := o.rot.toList ++ o.vel.toList ++ o.pos.toList

/-- `IMUPreintegrator.predict` at frame `k` -/
def predictAt (p0 : Vec3 α) (R0 : Quat α) (v0 : Vec3 α) (I : Integ α) (j : Nat) : Out α :=
  { rot := R0.mul (qAt I.incR (j+1))
    vel := v0.add (R0.act (vAt I.incV (j+1)))
    pos := (p0.add (R0.act (vAt I.incP (j+1)))).add (v0.smul (sAt I.incT j)) }

/-! ## the documented sequential recursion (specification) -/

structure Pre (α : Type) where
  dR : Quat α
  dv : Vec3 α
  dp : Vec3 α
  t : α

def Pre.init : Pre α := ⟨Quat.one, Vec3.zero, Vec3.zero, k 0⟩

/-- `dR ← dR·Exp(w dt)`, `dv ← dv + dR a dt`, `dp ← dp + dv dt + ½ dR a dt²` (old `dR`, `dv` on the right),
`a` = measured acceleration minus gravity rotated by the supplied / integrated (new) rotation -/
def preStep (eps : α) (g : Vec3 α) (R0 : Quat α) (s : Pre α) (f : Frame α) : Pre α :=
  let dR' := s.dR.mul (dr eps f)
  let Ra := s.dR.act (removeG g R0 dR' f)
  { dR := dR'
    dv := s.dv.add (Ra.smul f.dt)
    dp := (s.dp.add (s.dv.smul f.dt)).add ((Ra.smul (q 1 2)).smul (f.dt * f.dt))
    t := s.t + f.dt }

/-- state of the recursion after `n` frames -/
def preSeq (eps : α) (g : Vec3 α) (R0 : Quat α) (fr : Nat → Frame α) : Nat → Pre α
  | 0 => Pre.init
  | n+1 => preStep eps g R0 (preSeq eps g R0 fr n) (fr n)

/-- composition with the initial state: `R = R₀ ΔR`, `v = v₀ + R₀ Δv`, `p = p₀ + R₀ Δp + v₀ Δt` -/
def compose (p0 : Vec3 α) (R0 : Quat α) (v0 : Vec3 α) (s : Pre α) : Out α :=
  { rot := R0.mul s.dR
    vel := v0.add (R0.act s.dv)
    pos := (p0.add (R0.act s.dp)).add (v0.smul s.t) }

/-! ## 9×9 matrices (row-major array of 81 entries) -/

structure M9 (α : Type) where
  a : Array α

namespace M9
def get (A : M9 α) (i j : Nat) : α := A.a.getD (9 * i + j) (k 0)
def ofFn (f : Nat → Nat → α) : M9 α := ⟨Array.ofFn (n := 81) fun p => f (p.val / 9) (p.val % 9)⟩
def sum9 (f : Nat → α) : α := f 0 + f 1 + f 2 + f 3 + f 4 + f 5 + f 6 + f 7 + f 8
def mul (A B : M9 α) : M9 α := ofFn fun i j => sum9 fun l => A.get i l * B.get l j
def add (A B : M9 α) : M9 α := ofFn fun i j => A.get i j + B.get i j
def smul (c : α) (A : M9 α) : M9 α := ofFn fun i j => c * A.get i j
def transpose (A : M9 α) : M9 α := ofFn fun i j => A.get j i
def zero : M9 α := ofFn fun _ _ => k 0
def one : M9 α := ofFn fun i j => if i = j then k 1 else k 0
def diag (d : Nat → α) : M9 α := ofFn fun i j => if i = j then d i else k 0
/-- 3×3 grid of 3×3 blocks -/
def ofBlocks (b : Nat → Nat → Mat3 α) : M9 α := ofFn fun i j => m3get (b (i / 3) (j / 3)) (i % 3) (j % 3)
def toList (A : M9 α) : List α := A.a.toList
end M9

/-- what `propagate_cov` reads for one frame: `Rij[k]`, `Rk[k]`, `a[k]`, `dt[k]`, `gyro_cov`, `acc_cov` -/
structure CovIn (α : Type) where
  Rij : Quat α
  Rk : Quat α
  a : Vec3 α
  dt : α
  gcov : Vec3 α
  acov : Vec3 α

/-- the transition matrix `A[:, k]` -/
def matA (c : CovIn α) : M9 α :=
  let RH := (SO3matrix c.Rij).mul (Mat3.hat c.a)
  M9.ofBlocks fun I J =>
    match I, J with
    | 0, 0 => (SO3matrix c.Rk).transpose
    | 1, 0 => Mat3.smul c.dt RH.neg
    | 2, 0 => Mat3.smul (c.dt * c.dt) (Mat3.smul (q 1 2) RH).neg
    | 1, 1 => Mat3.one
    | 2, 1 => Mat3.smul c.dt Mat3.one
    | 2, 2 => Mat3.one
    | _, _ => Mat3.zero

/-- `Bg` (9×3, zero-padded to 9×9): `[Jr(Rk)·dt; 0; 0]`, `Jr(Rk) = Rk.Log().Jr()` -/
def matBg (eps : α) (c : CovIn α) : M9 α :=
  M9.ofBlocks fun I J =>
    match I, J with
    | 0, 0 => Mat3.smul c.dt (so3Jr eps (SO3Log eps c.Rk))
    | _, _ => Mat3.zero

/-- `Ba` (9×3, zero-padded): `[0; Rij·dt; ½ Rij·dt²]` -/
def matBa (c : CovIn α) : M9 α :=
  M9.ofBlocks fun I J =>
    match I, J with
    | 1, 0 => Mat3.smul c.dt (SO3matrix c.Rij)
    | 2, 0 => Mat3.smul (q 1 2) (Mat3.smul (c.dt * c.dt) (SO3matrix c.Rij))
    | _, _ => Mat3.zero

/-- `diag_embed(cov)` zero-padded to 9×9 -/
def diag3 (v : Vec3 α) : M9 α := M9.diag fun i => if i < 3 then v3get v i else k 0

/-- `B_cov[:, k] = (Bg Cg Bgᵀ + Ba Ca Baᵀ) · (1/dt)` -/
def noise (eps : α) (c : CovIn α) : M9 α :=
  let Bg := matBg eps c
  let Ba := matBa c
  M9.smul (k 1 / c.dt) (((Bg.mul (diag3 c.gcov)).mul Bg.transpose).add ((Ba.mul (diag3 c.acov)).mul Ba.transpose))

/-- `A.flip([1])` for `A = [A₀ … A_{F-1}, I]` -/
def flipA (F : Nat) (A : Nat → M9 α) : Nat → M9 α := fun j => if F - j < F then A (F - j) else M9.one

/-- `cumprod(A.flip([1]), dim=1, left=left)` (before the second flip) -/
def covCum (left : Bool) (F : Nat) (A : Nat → M9 α) : Array (M9 α) :=
  @Scan.cumopsArr _ (if left then (fun a b => M9.mul b a) else M9.mul) ⟨M9.one⟩ (tab (F+1) (flipA F A))

/-- `B_cov = cat([init_cov, B_cov])` -/
def bSeq (C0 : M9 α) (B : Nat → M9 α) : Nat → M9 α
  | 0 => C0
  | j+1 => B j

/-- `sum(A_left_cum @ B_cov @ A_left_cum.mT, dim=1)` with `A_left_cum = cumprod(A.flip(1), left).flip(1)` -/
def propagateCov (left : Bool) (F : Nat) (A B : Nat → M9 α) (C0 : M9 α) : M9 α :=
  let cum := covCum left F A
  (List.range (F+1)).foldl
    (fun acc j => let P := cum.getD (F - j) M9.one; acc.add ((P.mul (bSeq C0 B j)).mul P.transpose)) M9.zero

/-- the documented recursion `C_{k+1} = A_k C_k A_kᵀ + B_k` -/
def covSeq (A B : Nat → M9 α) (C0 : M9 α) : Nat → M9 α
  | 0 => C0
  | n+1 => ((A n).mul (covSeq A B C0 n)).mul (A n).transpose |>.add (B n)

/-! ## `forward` -/

structure State (α : Type) where
  pos : Vec3 α
  rot : Quat α
  vel : Vec3 α
  cov : M9 α
  Rij : Option (Quat α)

/-- state right after `__init__` -/
def State.fresh (pos : Vec3 α) (rot : Quat α) (vel : Vec3 α) : State α := ⟨pos, rot, vel, M9.zero, none⟩

structure Cfg (α : Type) where
  eps : α
  g : Vec3 α
  reset : Bool
  propCov : Bool
  /-- order of the cumulative product in `propagate_cov` (`true` = `cumprod`'s default, the pre-D27 code; the code passes `false`) -/
  left : Bool

/-- the constructor's guard: `prop_cov` and `reset` cannot both be False (py:100-101) -/
def Cfg.valid (cfg : Cfg α) : Bool := cfg.reset || cfg.propCov

/-- the order `propagate_cov` uses in `/repo` (after the D27 repair, py:462): `cumprod(A.flip([1]), dim=1, left=False)` -/
def codeLeft : Bool := false

/-- explicit `init_state` argument: `cov` key absent/None → `none`; `Rij` key absent → `none`, present → `some _` -/
structure Init (α : Type) where
  pos : Vec3 α
  rot : Quat α
  vel : Vec3 α
  cov : Option (M9 α)
  Rij : Option (Option (Quat α))

structure Result (α : Type) where
  outs : Array (Out α)
  cov : Option (M9 α)
  st : State α

def outAt (a : Array (Out α)) (j : Nat) : Out α := a.getD j ⟨Quat.one, Vec3.zero, Vec3.zero⟩

/-- `Rij = Rij * Dr` or `Dr` -/
def rijAt (Rij0 : Option (Quat α)) (I : Integ α) (j : Nat) : Quat α :=
  match Rij0 with
  | some r => r.mul (qAt I.incR (j+1))
  | none => qAt I.incR (j+1)

def covInAt (Rij0 : Option (Quat α)) (eps : α) (I : Integ α) (fr : Nat → Frame α) (j : Nat) : CovIn α :=
  ⟨rijAt Rij0 I j, dr eps (fr j), vAt I.a j, (fr j).dt, (fr j).gcov, (fr j).acov⟩

/-- `IMUPreintegrator.forward` on one item with `F ≥ 1` frames -/
def call (cfg : Cfg α) (st : State α) (init : Option (Init α)) (fr : Nat → Frame α) (F : Nat) : Result α :=
  let p0 := match init with | some i => i.pos | none => st.pos
  let R0 := match init with | some i => i.rot | none => st.rot
  let v0 := match init with | some i => i.vel | none => st.vel
  let I := integrate cfg.eps cfg.g R0 fr F
  let outs := tab F (predictAt p0 R0 v0 I)
  let C0 := match init with
    | some i => (match i.cov with | some c => c | none => st.cov)
    | none => st.cov
  let Rij0 := match init with
    | some i => (match i.Rij with | some r => r | none => st.Rij)
    | none => st.Rij
  let cov := if cfg.propCov then
      some (propagateCov cfg.left F (fun j => matA (covInAt Rij0 cfg.eps I fr j))
              (fun j => noise cfg.eps (covInAt Rij0 cfg.eps I fr j)) C0)
    else none
  let last := outAt outs (F - 1)
  let st' := if cfg.reset then st else
    { pos := last.pos, rot := last.rot, vel := last.vel
      cov := (match cov with | some c => c | none => st.cov)
      Rij := (if cfg.propCov then some (rijAt Rij0 I (F - 1)) else st.Rij) }
  ⟨outs, cov, st'⟩

/-- a sequence of calls on one module object, no explicit `init_state`: chunk lengths `ms` of one stream -/
def runChunks (cfg : Cfg α) (st : State α) (fr : Nat → Frame α) : List Nat → List (Result α)
  | [] => []
  | m :: ms =>
    let r := call cfg st none fr m
    r :: runChunks cfg r.st (fun j => fr (m + j)) ms

/-! ## argument resolution of `forward` (glue): per-call vs constructor covariances, partial `init_state` dicts -/

/-- a per-call `gyro_cov` / `acc_cov` argument of one item: not given, one row `(B,1,3)` broadcast over the frames,
or one row per frame `(B,F,3)` -/
inductive CovArg (α : Type) where
  | none : CovArg α
  | row (v : Vec3 α) : CovArg α
  | rows (f : Nat → Vec3 α) : CovArg α

/-- `if gyro_cov is None: gyro_cov = self.gyro_cov.repeat([B,1,1])`, then `diag_embed` broadcast along the frames -/
def resolveCov (dflt : Vec3 α) : CovArg α → Nat → Vec3 α
  | .none, _ => dflt
  | .row v, _ => v
  | .rows f, j => f j

/-- the `init_state` dict as the caller built it: every key may be absent; `cov` / `Rij` may be present with value `None` -/
structure InitDict (α : Type) where
  pos : Option (Vec3 α)
  rot : Option (Quat α)
  vel : Option (Vec3 α)
  cov : Option (Option (M9 α))
  Rij : Option (Option (Quat α))

/-- `'cov' not in init_state or init_state['cov'] is None` → no covariance given -/
def joinCov : Option (Option (M9 α)) → Option (M9 α)
  | some (some c) => some c
  | _ => none

/-- `init_state['pos'|'rot'|'vel']` must exist (KeyError otherwise); `'cov' not in init_state or init_state['cov'] is None`
→ the carried covariance; `'Rij' in init_state` → its value (possibly `None`), else the carried `Rij` -/
def resolveInit : Option (InitDict α) → Except String (Option (Init α))
  | none => .ok none
  | some d =>
    match d.pos, d.rot, d.vel with
    | some p, some r, some v =>
      .ok (some ⟨p, r, v, joinCov d.cov, d.Rij⟩)
    | _, _, _ => .error "KeyError"

/-- the sensor part of a frame (what the caller passes per frame) -/
structure RawFrame (α : Type) where
  dt : α
  gyro : Vec3 α
  acc : Vec3 α
  rot : Option (Quat α)

/-- frames as `forward` sees them after resolving the covariance arguments against the module's defaults -/
def resolveFrames (modG modA : Vec3 α) (gc ac : CovArg α) (raw : Nat → RawFrame α) : Nat → Frame α :=
  fun j => ⟨(raw j).dt, (raw j).gyro, (raw j).acc, (raw j).rot, resolveCov modG gc j, resolveCov modA ac j⟩

/-- `forward(dt, gyro, acc, rot, gyro_cov, acc_cov, init_state)` with its argument resolution; the carried state afterwards
(unchanged when the call raises) -/
def forwardArgs (cfg : Cfg α) (modG modA : Vec3 α) (st : State α) (init : Option (InitDict α)) (gc ac : CovArg α)
    (raw : Nat → RawFrame α) (F : Nat) : Except String (Result α) × State α :=
  match resolveInit init with
  | .error e => (.error e, st)
  | .ok i =>
    let r := call cfg st i (resolveFrames modG modA gc ac raw) F
    (.ok r, r.st)

/-! ## calls that may raise: `forward` commits the carried buffers only after every stage succeeded -/

/-- one request to `forward`; `ok = false` stands for arguments on which torch raises somewhere inside the call
(per-call covariance of the wrong type / dtype / shape, mismatched ranks, malformed `init_state`, …) -/
structure CallReq (α : Type) where
  F : Nat
  fr : Nat → Frame α
  init : Option (Init α)
  ok : Bool

/-- `forward` with its error path: the result or the exception, and the carried state afterwards —
a call that raises leaves the object exactly as it was -/
def callE (cfg : Cfg α) (st : State α) (q : CallReq α) : Except String (Result α) × State α :=
  if q.ok then
    let r := call cfg st q.init q.fr q.F
    (.ok r, r.st)
  else (.error "raise", st)

/-- a history of requests on one object, the caller catching every exception and going on -/
def runReqs (cfg : Cfg α) : State α → List (CallReq α) → List (Except String (Result α)) × State α
  | st, [] => ([], st)
  | st, q :: qs =>
    let (r, st') := callE cfg st q
    let (rs, stf) := runReqs cfg st' qs
    (r :: rs, stf)

/-- the successful results of a history, in order -/
def okResults : List (Except String (Result α)) → List (Result α)
  | [] => []
  | .ok r :: rs => r :: okResults rs
  | .error _ :: rs => okResults rs

/-! ## `_check`: rank lifting -/

/-- `_check`: `(H) → (1,1,H)`, `(F,H) → (1,F,H)`, rank 3 unchanged -/
def checkShape : List Nat → List Nat
  | [h] => [1, 1, h]
  | [f, h] => [1, f, h]
  | s => s

/-- the `assert` at the top of `forward` -/
def rankOk (acc dt gyro : List Nat) : Bool :=
  0 < acc.length && acc.length == dt.length && dt.length == gyro.length && gyro.length ≤ 3

structure Tens (α : Type) where
  shape : List Nat
  data : Array α

def Tens.lift (t : Tens α) : Tens α := ⟨checkShape t.shape, t.data⟩
def Tens.B (t : Tens α) : Nat := t.shape.getD 0 0
def Tens.F (t : Tens α) : Nat := t.shape.getD 1 0
def Tens.H (t : Tens α) : Nat := t.shape.getD 2 0
/-- component `c` of frame `f` of item `b` of a lifted (rank-3, contiguous) tensor -/
def Tens.at3 (t : Tens α) (b f c : Nat) : α := t.data.getD ((b * t.F + f) * t.H + c) (k 0)
def Tens.vec (t : Tens α) (b f : Nat) : Vec3 α := ⟨t.at3 b f 0, t.at3 b f 1, t.at3 b f 2⟩
def Tens.quat (t : Tens α) (b f : Nat) : Quat α := ⟨t.at3 b f 0, t.at3 b f 1, t.at3 b f 2, t.at3 b f 3⟩

/-- frames of item `b` read from lifted tensors (`gcov`, `acov`: the module's default covariances) -/
def framesOf (dt gyro acc : Tens α) (rot : Option (Tens α)) (gcov acov : Vec3 α) (b : Nat) : Nat → Frame α :=
  fun f => ⟨dt.at3 b f 0, gyro.vec b f, acc.vec b f, rot.map (fun r => r.quat b f), gcov, acov⟩

/-- a lifted tensor really is `(B, F, H)` with `B·F·H` entries -/
def Tens.wf (t : Tens α) (B F H : Nat) : Bool := t.shape == [B, F, H] && t.data.size == B * F * H

/-- documented shapes after lifting: `dt (B,F,1)`, `gyro (B,F,3)`, `acc (B,F,3)`, `rot (B,F,4)` with the SAME `B`, `F ≥ 1`
(anything else — mismatched batch / frame counts, wrong feature size, short data — is rejected; the code raises somewhere) -/
def shapesOk (dt gyro acc : Tens α) (rot : Option (Tens α)) : Bool :=
  let B := dt.lift.B
  let F := dt.lift.F
  decide (1 ≤ B) && decide (1 ≤ F) && dt.lift.wf B F 1 && gyro.lift.wf B F 3 && acc.lift.wf B F 3 &&
    (match rot with | some r => r.lift.wf B F 4 | none => true)

/-- `forward` on tensors of rank 1, 2 or 3, item `b` of the (lifted) batch -/
def forwardItem (cfg : Cfg α) (st : State α) (dt gyro acc : Tens α) (rot : Option (Tens α))
    (gcov acov : Vec3 α) (b : Nat) : Except String (Result α) :=
  if rankOk acc.shape dt.shape gyro.shape then
    if shapesOk dt gyro acc rot then
      let dt' := dt.lift
      .ok (call cfg st none (framesOf dt' gyro.lift acc.lift (rot.map Tens.lift) gcov acov b) dt'.F)
    else .error "shape"
  else .error "assert"

end PP.Imu
