import Proofs.Real
import Proofs.Lemmas.Quat
import Proofs.Lemmas.So3Exp
import Proofs.Lemmas.Spline
import Proofs.Lemmas.SplineExp
import Proofs.Props.C03
import Pose.Model.Traj
import Mathlib.Tactic.Ring
import Mathlib.Tactic.Linarith
import Mathlib.Tactic.NormNum
import Mathlib.Tactic.FieldSimp
import Mathlib.Tactic.Positivity
import Mathlib.Data.List.GetD
import Mathlib.Analysis.SpecialFunctions.Trigonometric.Arctan
import Mathlib.Analysis.SpecialFunctions.Trigonometric.ArctanDeriv
import Mathlib.Analysis.Calculus.Deriv.MeanValue
import Mathlib.Analysis.Calculus.Deriv.Pow
/-! Helper lemmas for C19, trajectory part (statistics, association, alignment, pose errors, geodesic). -/
namespace PP.Traj
open PP

/-! ## sums, max, min over ℝ -/

theorem sumL_eq_sum (xs : List ℝ) : sumL xs = xs.sum := by
  unfold sumL
  induction xs with
  | nil => simp
  | cons x xs ih => simp only [List.foldr_cons, List.sum_cons, ih]

theorem smax_real (x y : ℝ) : smax x y = max x y := by
  unfold smax; simp only [lt_real]
  by_cases h : x < y
  · simp [h, max_eq_right (le_of_lt h)]
  · simp [h, max_eq_left (not_lt.mp h)]
theorem smin_real (x y : ℝ) : smin x y = min x y := by
  unfold smin; simp only [lt_real]
  by_cases h : y < x
  · simp [h, min_eq_right (le_of_lt h)]
  · simp [h, min_eq_left (not_lt.mp h)]

theorem foldl_max_ge (xs : List ℝ) (x : ℝ) : x ≤ xs.foldl smax x ∧ ∀ y ∈ xs, y ≤ xs.foldl smax x := by
  induction xs generalizing x with
  | nil => simp
  | cons z zs ih =>
    simp only [List.foldl_cons, smax_real]
    obtain ⟨h1, h2⟩ := ih (max x z)
    refine ⟨le_trans (le_max_left _ _) h1, ?_⟩
    intro y hy
    rcases List.mem_cons.mp hy with rfl | hy
    · exact le_trans (le_max_right _ _) h1
    · exact h2 y hy
theorem foldl_max_le (xs : List ℝ) (x B : ℝ) (hx : x ≤ B) (h : ∀ y ∈ xs, y ≤ B) : xs.foldl smax x ≤ B := by
  induction xs generalizing x with
  | nil => simpa
  | cons z zs ih =>
    simp only [List.foldl_cons, smax_real]
    exact ih _ (max_le hx (h z (by simp))) (fun y hy => h y (by simp [hy]))
theorem foldl_min_le (xs : List ℝ) (x : ℝ) : xs.foldl smin x ≤ x ∧ ∀ y ∈ xs, xs.foldl smin x ≤ y := by
  induction xs generalizing x with
  | nil => simp
  | cons z zs ih =>
    simp only [List.foldl_cons, smin_real]
    obtain ⟨h1, h2⟩ := ih (min x z)
    refine ⟨le_trans h1 (min_le_left _ _), ?_⟩
    intro y hy
    rcases List.mem_cons.mp hy with rfl | hy
    · exact le_trans h1 (min_le_right _ _)
    · exact h2 y hy
theorem foldl_min_ge (xs : List ℝ) (x B : ℝ) (hx : B ≤ x) (h : ∀ y ∈ xs, B ≤ y) : B ≤ xs.foldl smin x := by
  induction xs generalizing x with
  | nil => simpa
  | cons z zs ih =>
    simp only [List.foldl_cons, smin_real]
    exact ih _ (le_min hx (h z (by simp))) (fun y hy => h y (by simp [hy]))

theorem maxL_ge (a : List ℝ) : ∀ y ∈ a, y ≤ maxL a := by
  cases a with
  | nil => simp
  | cons x xs =>
    intro y hy
    unfold maxL
    rcases List.mem_cons.mp hy with rfl | hy
    · exact (foldl_max_ge xs _).1
    · exact (foldl_max_ge xs x).2 y hy
theorem minL_le (a : List ℝ) : ∀ y ∈ a, minL a ≤ y := by
  cases a with
  | nil => simp
  | cons x xs =>
    intro y hy
    unfold minL
    rcases List.mem_cons.mp hy with rfl | hy
    · exact (foldl_min_le xs _).1
    · exact (foldl_min_le xs x).2 y hy
theorem maxL_le (a : List ℝ) (B : ℝ) (hB : 0 ≤ B) (h : ∀ y ∈ a, y ≤ B) : maxL a ≤ B := by
  cases a with
  | nil => simpa [maxL] using hB
  | cons x xs => exact foldl_max_le xs x B (h x (by simp)) (fun y hy => h y (by simp [hy]))
theorem minL_ge (a : List ℝ) (B : ℝ) (hB : B ≤ 0) (h : ∀ y ∈ a, B ≤ y) : B ≤ minL a := by
  cases a with
  | nil => simpa [minL] using hB
  | cons x xs => exact foldl_min_ge xs x B (h x (by simp)) (fun y hy => h y (by simp [hy]))

/-! ## list inequalities -/

theorem sum_ge_card_mul (l : List ℝ) (m : ℝ) (h : ∀ x ∈ l, m ≤ x) : (l.length : ℝ) * m ≤ l.sum := by
  induction l with
  | nil => simp
  | cons x xs ih =>
    have := ih (fun y hy => h y (by simp [hy]))
    have hx := h x (by simp)
    simp only [List.length_cons, List.sum_cons]; push_cast; linarith
theorem sum_le_card_mul (l : List ℝ) (M : ℝ) (h : ∀ x ∈ l, x ≤ M) : l.sum ≤ (l.length : ℝ) * M := by
  induction l with
  | nil => simp
  | cons x xs ih =>
    have := ih (fun y hy => h y (by simp [hy]))
    have hx := h x (by simp)
    simp only [List.length_cons, List.sum_cons]; push_cast; linarith

theorem two_mul_sum_le (l : List ℝ) (a : ℝ) :
    2 * a * l.sum ≤ (l.map fun x => x * x).sum + (l.length : ℝ) * (a * a) := by
  induction l with
  | nil => simp
  | cons x xs ih =>
    simp only [List.sum_cons, List.map_cons, List.length_cons]; push_cast
    nlinarith [sq_nonneg (x - a)]

/-- Cauchy–Schwarz on a list: `(Σ a)² ≤ n · Σ a²` -/
theorem sq_sum_le (l : List ℝ) : l.sum * l.sum ≤ (l.length : ℝ) * (l.map fun x => x * x).sum := by
  induction l with
  | nil => simp
  | cons x xs ih =>
    have h2 := two_mul_sum_le xs x
    simp only [List.sum_cons, List.map_cons, List.length_cons]; push_cast
    nlinarith

theorem sqsum_eq (es : List ℝ) : sqsum es = (es.map fun x => x * x).sum := by
  unfold sqsum; rw [sumL_eq_sum]

theorem sqsum_abs (es : List ℝ) : sqsum (es.map sabs) = sqsum es := by
  rw [sqsum_eq, sqsum_eq, List.map_map]
  congr 1
  apply List.map_congr_left
  intro x _
  simp only [Function.comp, sabs_real, abs_mul_abs_self]

theorem sqsum_nonneg (es : List ℝ) : 0 ≤ sqsum es := by
  rw [sqsum_eq]
  apply List.sum_nonneg
  intro x hx
  obtain ⟨y, _, rfl⟩ := List.mem_map.mp hx
  exact mul_self_nonneg y

/-! ## insertion sort is a permutation -/

theorem insertAsc_perm (x : ℝ) (l : List ℝ) : (insertAsc x l).Perm (x :: l) := by
  induction l with
  | nil => simp [insertAsc]
  | cons y ys ih =>
    unfold insertAsc
    split_ifs
    · exact (List.Perm.cons y ih).trans (List.Perm.swap x y ys)
    · exact List.Perm.refl _
theorem sortAsc_perm (l : List ℝ) : (sortAsc l).Perm l := by
  unfold sortAsc
  induction l with
  | nil => simp
  | cons x xs ih =>
    simp only [List.foldr_cons]
    exact (insertAsc_perm x _).trans (List.Perm.cons x ih)


/-! ## the identity matrix and the pose errors of identical poses -/

open Spline in
theorem SE3matrix_congr {X Y : SE3 ℝ} (h : SE3Equiv X Y) : SE3matrix X = SE3matrix Y := by
  unfold SE3matrix matrix4 SE3Act4
  rcases h.2 with hq | hq
  · simp only [h.1, hq]
  · simp only [h.1, hq, Quat.neg_act]

theorem SE3matrix_one : SE3matrix (SE3one : SE3 ℝ) = [[1, 0, 0, 0], [0, 1, 0, 0], [0, 0, 1, 0], [0, 0, 0, 1]] := by
  rw [SE3_matrix_blocks, show (SE3one : SE3 ℝ).q = SO3one from rfl, SO3_matrix_one]
  simp [SE3one, Mat3.one, Vec3.e0, Vec3.e1, Vec3.e2, Vec3.toList, Vec3.zero]

theorem Vec3.norm_zero'' : Vec3.norm (⟨0, 0, 0⟩ : Vec3 ℝ) = 0 := by
  unfold Vec3.norm Vec3.normSq; simp

theorem errMat_identity (eps atol : ℝ) (heps : 0 ≤ eps) (hatol : atol ≤ 1) (et : EType) :
    errMat eps atol et 0 [[1, 0, 0, 0], [0, 1, 0, 0], [0, 0, 1, 0], [0, 0, 0, 1]] = 0 := by
  cases et with
  | translation => rfl
  | rotation => simp [errMat, frob3, ent, sqsum, sumL]
  | pose => simp [errMat, frob4, ent, sqsum, sumL]
  | radian =>
    have hm : mat2SO3 atol (rot33 ([[1, 0, 0, 0], [0, 1, 0, 0], [0, 0, 1, 0], [0, 0, 0, 1]] : DMat ℝ)) = Quat.one := by
      have h1 : ¬ (1 : ℝ) < atol := not_lt.mpr hatol
      have h4 : Real.sqrt (1 + 1 + 1 + 1) = 2 := by
        rw [show (1 + 1 + 1 + 1 : ℝ) = 2 ^ 2 by norm_num]; exact Real.sqrt_sq (by norm_num)
      unfold mat2SO3 rot33
      simp only [ent, Mat3.transpose, Mat3.c0, Mat3.c1, Mat3.c2, List.getD_cons_zero, List.getD_cons_succ, lt_real,
        k_real, Nat.cast_one, Nat.cast_ofNat, h1, decide_false, Bool.false_eq_true, if_false]
      have h2 : ¬ (1 : ℝ) < -1 := by norm_num
      simp only [h2, decide_false, Bool.false_eq_true, if_false, sqrt_real, h4]
      ext <;> simp [Quat.one] <;> norm_num
    simp only [errMat, angleOf, hm, Spline.SO3Log_one eps heps, Spline.Vec3.norm_zero']
  | degree =>
    have hm : mat2SO3 atol (rot33 ([[1, 0, 0, 0], [0, 1, 0, 0], [0, 0, 1, 0], [0, 0, 0, 1]] : DMat ℝ)) = Quat.one := by
      have h1 : ¬ (1 : ℝ) < atol := not_lt.mpr hatol
      have h4 : Real.sqrt (1 + 1 + 1 + 1) = 2 := by
        rw [show (1 + 1 + 1 + 1 : ℝ) = 2 ^ 2 by norm_num]; exact Real.sqrt_sq (by norm_num)
      unfold mat2SO3 rot33
      simp only [ent, Mat3.transpose, Mat3.c0, Mat3.c1, Mat3.c2, List.getD_cons_zero, List.getD_cons_succ, lt_real,
        k_real, Nat.cast_one, Nat.cast_ofNat, h1, decide_false, Bool.false_eq_true, if_false]
      have h2 : ¬ (1 : ℝ) < -1 := by norm_num
      simp only [h2, decide_false, Bool.false_eq_true, if_false, sqrt_real, h4]
      ext <;> simp [Quat.one] <;> norm_num
    simp only [errMat, angleOf, rad2deg, hm, Spline.SO3Log_one eps heps, Spline.Vec3.norm_zero', zero_mul]

theorem vsub_self_norm (v : Vec3 ℝ) : (v.sub v).norm = 0 := by
  unfold Vec3.norm Vec3.normSq Vec3.sub; simp

/-- identical valid poses have zero absolute error, for every error type -/
theorem apeErr_self (eps atol : ℝ) (heps : 0 ≤ eps) (hatol : atol ≤ 1) (et : EType) (r : SE3 ℝ) (hr : SE3.Valid r) :
    apeErr eps atol et r r = 0 := by
  unfold apeErr
  rw [SE3_inv_mul r hr, SE3matrix_one, vsub_self_norm]
  exact errMat_identity eps atol heps hatol et

/-- identical valid relative poses have zero relative error, for every error type -/
theorem rpeErr_self (eps atol : ℝ) (heps : 0 ≤ eps) (hatol : atol ≤ 1) (et : EType) (x : SE3 ℝ) (hx : SE3.Valid x) :
    rpeErr eps atol et x x = 0 := by
  unfold rpeErr
  rw [SE3_inv_mul x hx, SE3matrix_one]
  have : Vec3.norm (⟨ent ([[1, 0, 0, 0], [0, 1, 0, 0], [0, 0, 1, 0], [0, 0, 0, 1]] : DMat ℝ) 0 3,
      ent ([[1, 0, 0, 0], [0, 1, 0, 0], [0, 0, 1, 0], [0, 0, 0, 1]] : DMat ℝ) 1 3,
      ent ([[1, 0, 0, 0], [0, 1, 0, 0], [0, 0, 1, 0], [0, 0, 0, 1]] : DMat ℝ) 2 3⟩ : Vec3 ℝ) = 0 := by
    simp [ent, Vec3.norm_zero'']
  simp only [this]
  exact errMat_identity eps atol heps hatol et


/-! ## association: the first minimal entry -/

theorem argminFrom_no_update (xs : List ℝ) (j : Nat) (best : ℝ × Nat) (h : ∀ x ∈ xs, ¬ x < best.1) :
    argminFrom xs j best = best := by
  induction xs generalizing j with
  | nil => rfl
  | cons x xs ih =>
    unfold argminFrom
    have hx : ¬ x < best.1 := h x (by simp)
    simp only [lt_real, hx, decide_false, Bool.false_eq_true, if_false]
    exact ih (j + 1) (fun y hy => h y (by simp [hy]))

theorem argminFrom_unique (pre post : List ℝ) (z : ℝ) (j : Nat) (best : ℝ × Nat) (hb : z < best.1)
    (hpre : ∀ x ∈ pre, z < x) (hpost : ∀ x ∈ post, ¬ x < z) :
    argminFrom (pre ++ z :: post) j best = (z, j + pre.length) := by
  induction pre generalizing j best with
  | nil =>
    simp only [List.nil_append, List.length_nil, Nat.add_zero]
    unfold argminFrom
    simp only [lt_real, hb, decide_true, if_true]
    exact argminFrom_no_update post (j + 1) (z, j) hpost
  | cons x pre ih =>
    simp only [List.cons_append, List.length_cons]
    unfold argminFrom
    have hx : z < x := hpre x (by simp)
    have := ih (j + 1) (if Scalar.lt x best.1 then (x, j) else best) (by
      simp only [lt_real]; split_ifs <;> assumption) (fun y hy => hpre y (by simp [hy]))
    rw [this]; congr 1; omega

/-- if entry `i` is strictly smaller than every other entry, `torch.min` returns it with index `i` -/
theorem argmin?_unique (pre post : List ℝ) (z : ℝ) (hpre : ∀ x ∈ pre, z < x) (hpost : ∀ x ∈ post, z < x) :
    argmin? (pre ++ z :: post) = some (z, pre.length) := by
  have hpost' : ∀ x ∈ post, ¬ x < z := fun x hx => not_lt.mpr (le_of_lt (hpost x hx))
  cases pre with
  | nil =>
    simp only [List.nil_append, argmin?, List.length_nil]
    rw [argminFrom_no_update post 1 (z, 0) hpost']
  | cons x pre =>
    simp only [List.cons_append, argmin?, List.length_cons]
    rw [argminFrom_unique pre post z 1 (x, 0) (hpre x (by simp)) (fun y hy => hpre y (by simp [hy])) hpost']
    congr 2; omega

theorem list_split_at {β : Type} (l : List β) (i : Nat) (hi : i < l.length) :
    l = l.take i ++ l[i] :: l.drop (i + 1) := by
  rw [List.getElem_cons_drop hi, List.take_append_drop]

/-- **Association under jitter.** If every stamp `sᵢ` is closer than `diff` to `lᵢ + off` and strictly closer to
it than to any other `l_k + off`, `matching_time_indices` returns exactly the pairs `(i, i)`. -/
theorem matchIdx_diag (diff off : ℝ) (s l : List ℝ) (hlen : s.length = l.length)
    (hnear : ∀ (i : Nat) (hi : i < s.length), |s[i] - (l[i]'(hlen ▸ hi) + off)| < diff)
    (huniq : ∀ (i : Nat) (hi : i < s.length) (k : Nat) (hk : k < l.length), k ≠ i →
      |s[i] - (l[i]'(hlen ▸ hi) + off)| < |s[i] - (l[k] + off)|) :
    matchIdx diff off s l = (List.range s.length).map fun i => (i, i) := by
  unfold matchIdx
  refine (List.filterMap_congr (g := fun p => some (p.2, p.2)) ?_).trans ?_
  · rintro ⟨si, i⟩ hp
    obtain ⟨hi, hsi⟩ := List.mem_zipIdx' hp
    have hil : i < l.length := hlen ▸ hi
    have hsplit := list_split_at l i hil
    have hrow : absDiffRow s[i] off l = (l.take i).map (fun lj => sabs (s[i] - (lj + off)))
        ++ sabs (s[i] - (l[i] + off)) :: (l.drop (i + 1)).map (fun lj => sabs (s[i] - (lj + off))) := by
      unfold absDiffRow
      conv_lhs => rw [hsplit]
      rw [List.map_append, List.map_cons]
    have hmin := argmin?_unique ((l.take i).map (fun lj => sabs (s[i] - (lj + off))))
      ((l.drop (i + 1)).map (fun lj => sabs (s[i] - (lj + off)))) (sabs (s[i] - (l[i] + off)))
      (by
        intro x hx
        obtain ⟨y, hy, rfl⟩ := List.mem_map.mp hx
        obtain ⟨k, hk, rfl⟩ := List.getElem_of_mem hy
        rw [List.length_take] at hk
        rw [List.getElem_take, sabs_real, sabs_real]
        exact huniq i hi k (by omega) (by omega))
      (by
        intro x hx
        obtain ⟨y, hy, rfl⟩ := List.mem_map.mp hx
        obtain ⟨k, hk, rfl⟩ := List.getElem_of_mem hy
        rw [List.length_drop] at hk
        rw [List.getElem_drop, sabs_real, sabs_real]
        exact huniq i hi (i + 1 + k) (by omega) (by omega))
    simp only [sabs_real, List.length_map, List.length_take, Nat.min_eq_left (le_of_lt hil)] at hmin
    simp only [hsi, hrow, sabs_real, hmin, lt_real, hnear i hi, decide_true, if_true]
  · rw [List.filterMap_eq_map']
    show List.map ((fun i => (i, i)) ∘ Prod.snd) s.zipIdx = _
    rw [← List.map_map, List.zipIdx_map_snd, List.range_eq_range']

theorem pick_range {β : Type} (xs : List β) : pick xs (List.range xs.length) = xs := by
  unfold pick
  induction xs using List.reverseRecOn with
  | nil => rfl
  | append_singleton xs x ih =>
    rw [List.length_append, List.length_singleton, List.range_succ, List.filterMap_append]
    have h1 : List.filterMap (fun i => (xs ++ [x])[i]?) (List.range xs.length)
        = List.filterMap (fun i => xs[i]?) (List.range xs.length) := by
      apply List.filterMap_congr
      intro i hi
      rw [List.getElem?_append_left (List.mem_range.mp hi)]
    rw [h1, ih]
    simp


/-! ## alignment: `alignPose` is an action of `Sim3`, invariant under the quaternion sign -/

open Spline

/-- same similarity transformation: equal translation and scale, quaternions equal up to sign -/
def Sim3Equiv (X Y : Sim3 ℝ) : Prop := X.t = Y.t ∧ X.s = Y.s ∧ (X.q = Y.q ∨ X.q = Y.q.neg)

theorem Sim3Equiv.refl (X : Sim3 ℝ) : Sim3Equiv X X := ⟨rfl, rfl, Or.inl rfl⟩

theorem alignPose_one (e : SE3 ℝ) : alignPose Sim3one e = e := by
  unfold alignPose
  rw [Sim3_one_mul]

theorem alignPose_valid (T : Sim3 ℝ) (e : SE3 ℝ) (hT : Sim3.Valid T) (he : SE3.Valid e) :
    SE3.Valid (alignPose T e) := by
  unfold alignPose SE3.Valid Sim3Mul
  simp only []
  exact SO3_valid_mul _ _ hT.1 he

/-- translation of an aligned pose is the similarity acting on the translation -/
theorem alignPose_t (T : Sim3 ℝ) (e : SE3 ℝ) : (alignPose T e).t = Sim3Act T e.t := rfl

/-- `align(T₁, align(T₂, e)) = align(T₁·T₂, e)` -/
theorem alignPose_mul (T1 T2 : Sim3 ℝ) (e : SE3 ℝ) (h1 : Sim3.Valid T1) (h2 : Sim3.Valid T2) :
    alignPose T1 (alignPose T2 e) = alignPose (Sim3Mul T1 T2) e := by
  unfold alignPose
  have := Sim3_mul_assoc T1 T2 ⟨e.t, e.q, k 1⟩ h1 h2
  have e1 : (Sim3Mul T1 ⟨(Sim3Mul T2 ⟨e.t, e.q, k 1⟩).t, (Sim3Mul T2 ⟨e.t, e.q, k 1⟩).q, k 1⟩).t
      = (Sim3Mul T1 (Sim3Mul T2 ⟨e.t, e.q, k 1⟩)).t := rfl
  have e2 : (Sim3Mul T1 ⟨(Sim3Mul T2 ⟨e.t, e.q, k 1⟩).t, (Sim3Mul T2 ⟨e.t, e.q, k 1⟩).q, k 1⟩).q
      = (Sim3Mul T1 (Sim3Mul T2 ⟨e.t, e.q, k 1⟩)).q := rfl
  simp only [e1, e2, this]

theorem alignPose_congr {T T' : Sim3 ℝ} (h : Sim3Equiv T T') (e : SE3 ℝ) :
    SE3Equiv (alignPose T e) (alignPose T' e) := by
  obtain ⟨ht, hs, hq⟩ := h
  unfold alignPose Sim3Mul
  refine ⟨?_, ?_⟩
  · rcases hq with hq | hq <;> simp only [ht, hs, hq, Quat.neg_act]
  · rcases hq with hq | hq
    · left; simp only [hq]
    · right; simp only [hq]; exact Quat.neg_mul' _ _

/-- the absolute error only depends on the estimate as a transformation -/
theorem apeErr_congr (eps atol : ℝ) (et : EType) (r : SE3 ℝ) {e e' : SE3 ℝ} (h : SE3Equiv e e') :
    apeErr eps atol et r e = apeErr eps atol et r e' := by
  unfold apeErr
  have hinv : SE3Equiv (SE3Inv e) (SE3Inv e') := by
    unfold SE3Inv
    refine ⟨?_, ?_⟩
    · rcases h.2 with hq | hq <;> simp only [h.1, hq, Quat.conj_neg, Quat.neg_act]
    · rcases h.2 with hq | hq
      · left; simp only [hq]
      · right; simp only [hq, Quat.conj_neg]
  rw [SE3matrix_congr (SE3Equiv.mul_right hinv r), h.1]

/-- left-multiplying a pose by a rigid motion given as a `Sim3` with unit scale is `alignPose` -/
theorem alignPose_rigid (G : SE3 ℝ) (e : SE3 ℝ) : alignPose ⟨G.t, G.q, 1⟩ e = SE3Mul G e := by
  unfold alignPose Sim3Mul SE3Mul
  ext1
  · simp only []; ext <;> simp [Vec3.add, Vec3.smul]
  · rfl

/-! ## least-squares cost of an alignment -/

/-- `Σ ‖T·pᵢ − qᵢ‖²` -/
noncomputable def cost (T : Sim3 ℝ) (P Q : List (Vec3 ℝ)) : ℝ :=
  (List.zipWith (fun p q => ((Sim3Act T p).sub q).normSq) P Q).sum

theorem cost_map_act (T S : Sim3 ℝ) (hT : Sim3.Valid T) (hS : Sim3.Valid S) (P Q : List (Vec3 ℝ)) :
    cost T (P.map (Sim3Act S)) Q = cost (Sim3Mul T S) P Q := by
  unfold cost
  induction P generalizing Q with
  | nil => simp
  | cons p ps ih =>
    cases Q with
    | nil => simp
    | cons q qs =>
      simp only [List.map_cons, List.zipWith_cons_cons, List.sum_cons, ih qs, Sim3_act_mul T S hT hS]

theorem Sim3Act_one (p : Vec3 ℝ) : Sim3Act Sim3one p = p := by
  unfold Sim3Act Sim3one
  ext <;> lie_unfold <;> ring

theorem cost_self_one (P : List (Vec3 ℝ)) : cost Sim3one P P = 0 := by
  unfold cost
  induction P with
  | nil => simp
  | cons p ps ih =>
    simp only [List.zipWith_cons_cons, List.sum_cons, Sim3Act_one]
    unfold Vec3.normSq Vec3.sub; simp

theorem cost_nonneg (T : Sim3 ℝ) (P Q : List (Vec3 ℝ)) : 0 ≤ cost T P Q := by
  unfold cost
  apply List.sum_nonneg
  intro x hx
  obtain ⟨i, hi, rfl⟩ := List.getElem_of_mem hx
  rw [List.getElem_zipWith]
  exact Vec3.normSq_nonneg _

/-- the contract of `svdstf` (property C17) at one pair of point sets: the returned transform is valid, has unit
scale in rigid mode, minimises the cost among all admissible transforms, and is the unique minimiser as a
transformation. -/
structure AlignOK (rigid : Bool) (A : Sim3 ℝ) (P Q : List (Vec3 ℝ)) : Prop where
  valid : Sim3.Valid A
  scale_one : rigid = true → A.s = 1
  optimal : ∀ T : Sim3 ℝ, Sim3.Valid T → (rigid = true → T.s = 1) → cost A P Q ≤ cost T P Q
  unique : ∀ T : Sim3 ℝ, Sim3.Valid T → (rigid = true → T.s = 1) → cost T P Q ≤ cost A P Q → Sim3Equiv T A

theorem map_act_inv (S : Sim3 ℝ) (hS : Sim3.Valid S) (P : List (Vec3 ℝ)) :
    (P.map (Sim3Act S)).map (Sim3Act (Sim3Inv S)) = P := by
  rw [List.map_map]
  conv_rhs => rw [← List.map_id P]
  apply List.map_congr_left
  intro p _
  show Sim3Act (Sim3Inv S) (Sim3Act S p) = id p
  rw [← Sim3_act_mul _ _ (Sim3_valid_inv S hS) hS, Sim3_inv_mul S hS, Sim3Act_one]; rfl

/-- **Equivariance of the optimal alignment**: transforming the source points by `S` composes the optimal
transform with `S⁻¹` — a consequence of optimality + uniqueness alone. -/
theorem align_equivariant (rigid : Bool) (S A1 A2 : Sim3 ℝ) (P Q : List (Vec3 ℝ)) (hS : Sim3.Valid S)
    (hSr : rigid = true → S.s = 1) (h1 : AlignOK rigid A1 P Q) (h2 : AlignOK rigid A2 (P.map (Sim3Act S)) Q) :
    Sim3Equiv (Sim3Mul A2 S) A1 := by
  have hv : Sim3.Valid (Sim3Mul A2 S) := Sim3_valid_mul _ _ h2.valid hS
  have hSi := Sim3_valid_inv S hS
  have hT : Sim3.Valid (Sim3Mul A1 (Sim3Inv S)) := Sim3_valid_mul _ _ h1.valid hSi
  apply h1.unique _ hv
  · intro hr
    show A2.s * S.s = 1
    rw [h2.scale_one hr, hSr hr]; ring
  · rw [← cost_map_act A2 S h2.valid hS]
    have := h2.optimal (Sim3Mul A1 (Sim3Inv S)) hT (by
      intro hr
      show A1.s * (k 1 / S.s) = 1
      rw [h1.scale_one hr, hSr hr]; simp)
    rw [← cost_map_act A1 (Sim3Inv S) h1.valid hSi, map_act_inv S hS] at this
    exact this

/-! ## relative poses and pairing are invariant under left multiplication -/

theorem act_sub (q : Quat ℝ) (a b : Vec3 ℝ) : (q.act a).sub (q.act b) = q.act (a.sub b) := by
  ext <;> lie_unfold <;> ring

theorem SE3Act_sub_norm (G : SE3 ℝ) (hG : SE3.Valid G) (a b : Vec3 ℝ) :
    ((SE3Act G a).sub (SE3Act G b)).norm = (a.sub b).norm := by
  have : (SE3Act G a).sub (SE3Act G b) = G.q.act (a.sub b) := by
    rw [← act_sub]; unfold SE3Act; ext <;> simp [Vec3.add, Vec3.sub]
  rw [this]; unfold Vec3.norm; rw [Quat.act_normSq G.q hG]

theorem map_t_left (G : SE3 ℝ) (ps : List (SE3 ℝ)) :
    (ps.map (SE3Mul G)).map (·.t) = (ps.map (·.t)).map (SE3Act G) := by
  rw [List.map_map, List.map_map]; rfl

theorem stepDist_rigid (G : SE3 ℝ) (hG : SE3.Valid G) (ts : List (Vec3 ℝ)) :
    stepDist (ts.map (SE3Act G)) = stepDist ts := by
  unfold stepDist
  rw [← List.map_tail, List.zipWith_map_left, List.zipWith_map_right]
  congr 1
  funext a b
  exact SE3Act_sub_norm G hG a b

theorem distIdx_rigid (G : SE3 ℝ) (hG : SE3.Valid G) (delta : ℝ) (ts : List (Vec3 ℝ)) (prev : Vec3 ℝ) (path : ℝ)
    (i : Nat) : distIdx delta (ts.map (SE3Act G)) (SE3Act G prev) path i = distIdx delta ts prev path i := by
  induction ts generalizing prev path i with
  | nil => rfl
  | cons t ts ih =>
    simp only [List.map_cons, distIdx, SE3Act_sub_norm G hG, ih]

theorem pairsByDist_rigid (G : SE3 ℝ) (hG : SE3.Valid G) (delta tol : ℝ) (all : Bool) (ts : List (Vec3 ℝ)) :
    pairsByDist delta tol all (ts.map (SE3Act G)) = pairsByDist delta tol all ts := by
  unfold pairsByDist
  cases all with
  | true =>
    simp only [if_true]
    unfold pairsByDistAll accDist
    rw [stepDist_rigid G hG]
  | false =>
    simp only [Bool.false_eq_true, if_false]
    cases ts with
    | nil => rfl
    | cons t ts =>
      simp only [List.map_cons, List.headD_cons]
      rw [← List.map_cons, distIdx_rigid G hG]

/-- the index pairs chosen by `pair_id` do not change when the trajectory is left-multiplied by a fixed pose -/
theorem pairId_left (G : SE3 ℝ) (hG : SE3.Valid G) (pm : PairMode) (dN : Nat) (delta rtol : ℝ) (all : Bool)
    (ps : List (SE3 ℝ)) : pairId pm dN delta rtol all (ps.map (SE3Mul G)) = pairId pm dN delta rtol all ps := by
  unfold pairId
  cases pm with
  | frame => simp only [List.length_map]
  | distance => simp only [map_t_left, pairsByDist_rigid G hG]

theorem relPoses_left (G : SE3 ℝ) (hG : SE3.Valid G) (ps : List (SE3 ℝ)) (hv : ∀ p ∈ ps, SE3.Valid p)
    (pairs : List (Nat × Nat)) : relPoses (ps.map (SE3Mul G)) pairs = relPoses ps pairs := by
  unfold relPoses
  apply List.filterMap_congr
  intro st _
  simp only [List.getElem?_map]
  cases h1 : ps[st.1]? with
  | none => simp
  | some a =>
    cases h2 : ps[st.2]? with
    | none => simp
    | some b =>
      simp only [Option.map_some]
      rw [Spline.SE3_rel_left_invariant G a b hG (hv a (List.mem_of_getElem? h1))]

/-- the part of `rpe` after alignment: pairing, relative poses, errors -/
noncomputable def rpeTail (eps atol : ℝ) (et : EType) (pm : PairMode) (dN : Nat) (delta rtol : ℝ) (all rpair : Bool)
    (Rr Ee : List (SE3 ℝ)) : Option (List ℝ) :=
  let pairs := pairId pm dN delta rtol all (if rpair then Rr else Ee)
  if pairs.isEmpty then none
  else some (List.zipWith (rpeErr eps atol et) (relPoses Rr pairs) (relPoses Ee pairs))

theorem rpeCore_eq_tail (eps atol : ℝ) (alignFn : List (Vec3 ℝ) → List (Vec3 ℝ) → Sim3 ℝ) (et : EType)
    (mode : AlignMode) (pm : PairMode) (dN : Nat) (delta rtol : ℝ) (all rpair : Bool) (rp ep : List (SE3 ℝ)) :
    rpeCore eps atol alignFn et mode pm dN delta rtol all rpair rp ep
      = rpeTail eps atol et pm dN delta rtol all rpair rp (ep.map (alignPose (transOf alignFn mode rp ep))) := rfl

theorem rpeTail_left (eps atol : ℝ) (et : EType) (pm : PairMode) (dN : Nat) (delta rtol : ℝ) (all rpair : Bool)
    (G H : SE3 ℝ) (hG : SE3.Valid G) (hH : SE3.Valid H) (Rr Ee : List (SE3 ℝ)) (hR : ∀ p ∈ Rr, SE3.Valid p)
    (hE : ∀ p ∈ Ee, SE3.Valid p) :
    rpeTail eps atol et pm dN delta rtol all rpair (Rr.map (SE3Mul G)) (Ee.map (SE3Mul H))
      = rpeTail eps atol et pm dN delta rtol all rpair Rr Ee := by
  unfold rpeTail
  have hp : pairId pm dN delta rtol all (if rpair = true then Rr.map (SE3Mul G) else Ee.map (SE3Mul H))
      = pairId pm dN delta rtol all (if rpair = true then Rr else Ee) := by
    cases rpair with
    | true => simp only [if_true]; exact pairId_left G hG pm dN delta rtol all Rr
    | false => simp only [Bool.false_eq_true, if_false]; exact pairId_left H hH pm dN delta rtol all Ee
  simp only [hp, relPoses_left G hG Rr hR, relPoses_left H hH Ee hE]

/-! ## `SO3Log`: conjugation, norm -/

theorem Vec3.norm_neg' (v : Vec3 ℝ) : v.neg.norm = v.norm := by
  unfold Vec3.norm Vec3.normSq Vec3.neg; congr 1; ring

theorem Vec3.norm_smul' (c : ℝ) (v : Vec3 ℝ) : (v.smul c).norm = |c| * v.norm := by
  unfold Vec3.norm
  simp only [sqrt_real]
  rw [Vec3.normSq_smul, Real.sqrt_mul (mul_self_nonneg c), Real.sqrt_mul_self_eq_abs]

theorem conj_vec (q : Quat ℝ) : q.conj.vec = q.vec.neg := by
  ext <;> simp [Quat.conj, Quat.vec, Vec3.neg]

/-- `Log(q⁻¹) = −Log(q)` for every quaternion, in every regime of the code -/
theorem SO3Log_conj (eps : ℝ) (q : Quat ℝ) : SO3Log eps q.conj = (SO3Log eps q).neg := by
  unfold SO3Log
  rw [conj_vec, Vec3.norm_neg']
  show (q.vec.neg).smul (so3LogFactor eps q.vec.norm q.w) = _
  ext <;> simp [Vec3.smul, Vec3.neg]

theorem quat_vn_w (q : Quat ℝ) (hq : q.normSq = 1) : q.vec.norm * q.vec.norm + q.w * q.w = 1 := by
  rw [Vec3.norm_sq]
  have : q.vec.normSq + q.w * q.w = q.normSq := by unfold Vec3.normSq Quat.vec Quat.normSq; ring
  rw [this, hq]

theorem spm_abs (w : ℝ) : |spm w| = 1 := by
  unfold spm
  by_cases h : w < 0 <;> simp [h]

/-- `‖Log q‖` in the generic regime is `2·|arctan(|v|/w)|` -/
theorem SO3Log_norm_generic (eps : ℝ) (q : Quat ℝ) (h0 : 0 ≤ eps) (hv : eps < q.vec.norm) (hw : eps < |q.w|) :
    (SO3Log eps q).norm = 2 * |Real.arctan (q.vec.norm / q.w)| := by
  have hvn : 0 < q.vec.norm := lt_of_le_of_lt h0 hv
  unfold SO3Log so3LogFactor
  rw [Vec3.norm_smul']
  simp only [lt_real, hv, decide_true, if_true, sabs_real, hw, k_real, atan_real]
  rw [abs_div, abs_mul, abs_of_pos hvn]
  field_simp
  simp [mul_comm]

/-- `0 ≤ ‖Log q‖ ≤ π` for every unit quaternion and every `0 ≤ eps ≤ 1/2` (all three regimes of the code) -/
theorem SO3Log_norm_le_pi (eps : ℝ) (q : Quat ℝ) (h0 : 0 ≤ eps) (h1 : eps ≤ 1 / 2) (hq : q.normSq = 1) :
    (SO3Log eps q).norm ≤ Real.pi := by
  have hrel := quat_vn_w q hq
  have hvn0 := Vec3.norm_nonneg q.vec
  by_cases hv : eps < q.vec.norm
  · by_cases hw : eps < |q.w|
    · rw [SO3Log_norm_generic eps q h0 hv hw]
      have h1 := Real.arctan_lt_pi_div_two (q.vec.norm / q.w)
      have h2 := Real.neg_pi_div_two_lt_arctan (q.vec.norm / q.w)
      have : |Real.arctan (q.vec.norm / q.w)| ≤ Real.pi / 2 := abs_le.mpr ⟨by linarith, by linarith⟩
      linarith
    · have hvn : 0 < q.vec.norm := lt_of_le_of_lt h0 hv
      unfold SO3Log so3LogFactor
      rw [Vec3.norm_smul']
      simp only [lt_real, hv, decide_true, if_true, sabs_real, hw, decide_false, Bool.false_eq_true, if_false, pi_real]
      rw [abs_div, abs_mul, spm_abs, abs_of_pos hvn, abs_of_pos Real.pi_pos]
      field_simp
      exact le_refl _
  · have hvle : q.vec.norm ≤ 1 / 2 := le_trans (not_lt.mp hv) h1
    unfold SO3Log so3LogFactor
    rw [Vec3.norm_smul']
    simp only [lt_real, hv, decide_false, Bool.false_eq_true, if_false, k_real]
    set vn := q.vec.norm
    set w := q.w
    set a := |w| with ha
    have ha0 : 0 ≤ a := abs_nonneg w
    have ha2 : a * a = w * w := abs_mul_abs_self w
    have haw : 3 / 4 ≤ a := by nlinarith
    have hapos : 0 < a := by linarith
    have hwne : w ≠ 0 := by intro h; rw [h, abs_zero] at ha; linarith
    have hb1 : |(1 : ℝ) / w| ≤ 4 / 3 := by
      rw [abs_div, abs_one, div_le_iff₀ hapos]; linarith
    have hb2 : |vn * vn / (((3 : ℕ) : ℝ) * (w * w * w))| ≤ 16 / 81 := by
      rw [abs_div, abs_mul, abs_mul, abs_mul, abs_mul, abs_of_nonneg hvn0]
      simp only [Nat.cast_ofNat, abs_of_pos (show (0 : ℝ) < 3 by norm_num)]
      rw [div_le_iff₀ (by positivity)]
      have : 27 / 64 ≤ a * a * a := by nlinarith
      nlinarith
    have hb : |((2 : ℕ) : ℝ) * (((1 : ℕ) : ℝ) / w - vn * vn / (((3 : ℕ) : ℝ) * (w * w * w)))| ≤ 2 * (4 / 3 + 16 / 81) := by
      rw [abs_mul]
      simp only [Nat.cast_ofNat, Nat.cast_one, abs_of_pos (show (0 : ℝ) < 2 by norm_num)]
      have := abs_sub ((1 : ℝ) / w) (vn * vn / (((3 : ℕ) : ℝ) * (w * w * w)))
      simp only [Nat.cast_ofNat] at this hb2
      nlinarith
    have hpi := Real.two_le_pi
    calc |((2 : ℕ) : ℝ) * (((1 : ℕ) : ℝ) / w - vn * vn / (((3 : ℕ) : ℝ) * (w * w * w)))| * vn
        ≤ 2 * (4 / 3 + 16 / 81) * (1 / 2) := mul_le_mul hb hvle hvn0 (by norm_num)
      _ ≤ Real.pi := by linarith

theorem trace_SO3matrix (q : Quat ℝ) (hq : q.normSq = 1) : (SO3matrix q).trace = 4 * (q.w * q.w) - 1 := by
  have h' : q.x * q.x + q.y * q.y + q.z * q.z + q.w * q.w = 1 := hq
  unfold SO3matrix
  lie_unfold
  linear_combination (-4 : ℝ) * h'

/-- in the generic regime `cos ‖Log q‖ = 2w² − 1` — the cosine of the rotation angle of `R(q)` -/
theorem cos_SO3Log_norm (eps : ℝ) (q : Quat ℝ) (h0 : 0 ≤ eps) (hq : q.normSq = 1) (hv : eps < q.vec.norm)
    (hw : eps < |q.w|) : Real.cos (SO3Log eps q).norm = 2 * (q.w * q.w) - 1 := by
  have hrel := quat_vn_w q hq
  have hwne : q.w ≠ 0 := by intro h; rw [h, abs_zero] at hw; linarith
  rw [SO3Log_norm_generic eps q h0 hv hw]
  have habs : Real.cos (2 * |Real.arctan (q.vec.norm / q.w)|) = Real.cos (2 * Real.arctan (q.vec.norm / q.w)) := by
    rcases abs_choice (Real.arctan (q.vec.norm / q.w)) with h | h
    · rw [h]
    · rw [h, mul_neg, Real.cos_neg]
  rw [habs, Real.cos_two_mul, Real.cos_arctan]
  have h1 : 1 + (q.vec.norm / q.w) ^ 2 = 1 / (q.w * q.w) := by
    field_simp; nlinarith
  have hpos : 0 < 1 + (q.vec.norm / q.w) ^ 2 := by positivity
  rw [div_pow, one_pow, Real.sq_sqrt hpos.le, h1]
  field_simp

theorem normSq_eq_zero (v : Vec3 ℝ) (h : v.normSq = 0) : v = Vec3.zero := by
  unfold Vec3.normSq at h
  have hx : v.x = 0 := by nlinarith [mul_self_nonneg v.x, mul_self_nonneg v.y, mul_self_nonneg v.z]
  have hy : v.y = 0 := by nlinarith [mul_self_nonneg v.x, mul_self_nonneg v.y, mul_self_nonneg v.z]
  have hz : v.z = 0 := by nlinarith [mul_self_nonneg v.x, mul_self_nonneg v.y, mul_self_nonneg v.z]
  ext <;> simp [Vec3.zero, hx, hy, hz]

/-! ## small list helpers used by the property theorems -/

theorem zipWith_self_zero {β : Type} (f : β → β → ℝ) (g : β → β) (l : List β) (h : ∀ x ∈ l, f x (g x) = 0) :
    ∀ e ∈ List.zipWith f l (l.map g), e = 0 := by
  induction l with
  | nil => simp
  | cons x xs ih =>
    intro e he
    simp only [List.map_cons, List.zipWith_cons_cons, List.mem_cons] at he
    rcases he with rfl | he
    · exact h x (by simp)
    · exact ih (fun y hy => h y (by simp [hy])) e he

theorem zipWith_map_right_congr {β γ : Type} (f : β → γ → ℝ) (g1 g2 g' : γ → γ) (l : List β) (m : List γ)
    (h : ∀ r e, f r (g2 (g1 e)) = f r (g' e)) :
    List.zipWith f l ((m.map g1).map g2) = List.zipWith f l (m.map g') := by
  rw [List.map_map, List.zipWith_map_right, List.zipWith_map_right]
  congr 1
  funext r e
  exact h r e

theorem map_alignPose_one (ep : List (SE3 ℝ)) : ep.map (alignPose Sim3one) = ep := by
  conv_rhs => rw [← List.map_id ep]
  exact List.map_congr_left (fun e _ => alignPose_one e)

theorem pick_map {β γ : Type} (f : β → γ) (xs : List β) (ids : List Nat) :
    pick (xs.map f) ids = (pick xs ids).map f := by
  unfold pick
  induction ids with
  | nil => rfl
  | cons i ids ih =>
    simp only [List.filterMap_cons, List.getElem?_map]
    cases xs[i]? with
    | none => simpa using ih
    | some x => simp only [Option.map_some, List.map_cons]; rw [← ih]; simp [List.getElem?_map]

theorem mem_pick {β : Type} (xs : List β) (ids : List Nat) (x : β) (h : x ∈ pick xs ids) : x ∈ xs := by
  unfold pick at h
  obtain ⟨i, _, hi⟩ := List.mem_filterMap.mp h
  exact List.mem_of_getElem? hi


/-! ## `torch.min(dim)` returns a nearest entry — for every spacing of the stamps (hardening kind 18) -/

theorem argminFrom_spec (xs : List ℝ) (j0 : Nat) (b : ℝ) (jb : Nat) :
    (argminFrom xs j0 (b, jb)).1 ≤ b ∧ (∀ x ∈ xs, (argminFrom xs j0 (b, jb)).1 ≤ x) ∧
    ((argminFrom xs j0 (b, jb) = (b, jb)) ∨
     (∃ i, i < xs.length ∧ (argminFrom xs j0 (b, jb)).2 = j0 + i ∧ xs[i]? = some (argminFrom xs j0 (b, jb)).1)) := by
  induction xs generalizing j0 b jb with
  | nil => simp [argminFrom]
  | cons x xs ih =>
    unfold argminFrom
    by_cases hx : x < b
    · simp only [lt_real, hx, decide_true, if_true]
      obtain ⟨h1, h2, h3⟩ := ih (j0 + 1) x j0
      refine ⟨le_trans h1 hx.le, ?_, ?_⟩
      · intro y hy
        rcases List.mem_cons.mp hy with rfl | hy
        · exact h1
        · exact h2 y hy
      · right
        rcases h3 with h3 | ⟨i, hi, hj, hv⟩
        · exact ⟨0, by simp, by rw [h3]; rfl, by rw [h3]; simp⟩
        · exact ⟨i + 1, by simp; omega, by rw [hj]; omega, by simpa using hv⟩
    · simp only [lt_real, hx, decide_false, Bool.false_eq_true, if_false]
      obtain ⟨h1, h2, h3⟩ := ih (j0 + 1) b jb
      refine ⟨h1, ?_, ?_⟩
      · intro y hy
        rcases List.mem_cons.mp hy with rfl | hy
        · exact le_trans h1 (not_lt.mp hx)
        · exact h2 y hy
      · rcases h3 with h3 | ⟨i, hi, hj, hv⟩
        · exact Or.inl h3
        · exact Or.inr ⟨i + 1, by simp; omega, by rw [hj]; omega, by simpa using hv⟩

/-- `argmin?` returns a position `j` inside the row, the value there, and that value is ≤ every entry of the row -/
theorem argmin?_spec (l : List ℝ) (v : ℝ) (j : Nat) (h : argmin? l = some (v, j)) :
    j < l.length ∧ l[j]? = some v ∧ ∀ x ∈ l, v ≤ x := by
  cases l with
  | nil => simp [argmin?] at h
  | cons x xs =>
    simp only [argmin?, Option.some.injEq] at h
    obtain ⟨h1, h2, h3⟩ := argminFrom_spec xs 1 x 0
    rw [h] at h1 h2 h3
    simp only at h1 h2 h3
    refine ⟨?_, ?_, ?_⟩
    · rcases h3 with h3 | ⟨i, hi, hj, _⟩
      · have : j = 0 := (Prod.mk.injEq _ _ _ _ ▸ h3).2
        simp [this]
      · simp; omega
    · rcases h3 with h3 | ⟨i, hi, hj, hv⟩
      · have hh := (Prod.mk.injEq _ _ _ _ ▸ h3)
        rw [hh.2, hh.1]; simp
      · rw [hj, Nat.add_comm]; simpa using hv
    · intro y hy
      rcases List.mem_cons.mp hy with rfl | hy
      · exact h1
      · exact h2 y hy

/-! ## a rigid motion applied to both trajectories (pass 3) -/

/-- a pose as a similarity with unit scale -/
noncomputable def rigidSim (G : SE3 ℝ) : Sim3 ℝ := ⟨G.t, G.q, 1⟩

theorem rigidSim_valid (G : SE3 ℝ) (hG : SE3.Valid G) : Sim3.Valid (rigidSim G) := ⟨hG, by simp [rigidSim]⟩

theorem Sim3Act_rigid (G : SE3 ℝ) (p : Vec3 ℝ) : Sim3Act (rigidSim G) p = SE3Act G p := by
  unfold Sim3Act SE3Act rigidSim; ext <;> simp [Vec3.add, Vec3.smul]

theorem Sim3Inv_rigid (G : SE3 ℝ) : Sim3Inv (rigidSim G) = rigidSim (SE3Inv G) := by
  unfold Sim3Inv rigidSim SE3Inv
  ext1
  · simp only [k_real, Nat.cast_one, div_one]; ext <;> simp [Vec3.neg, Vec3.smul]
  · rfl
  · simp

theorem Sim3Equiv.symm {X Y : Sim3 ℝ} (h : Sim3Equiv X Y) : Sim3Equiv Y X := by
  obtain ⟨a, b, c⟩ := h
  refine ⟨a.symm, b.symm, ?_⟩
  rcases c with c | c
  · exact Or.inl c.symm
  · right; rw [c, Spline.Quat.neg_neg']

theorem SE3Act_sub_normSq (G : SE3 ℝ) (hG : SE3.Valid G) (a b : Vec3 ℝ) :
    ((SE3Act G a).sub (SE3Act G b)).normSq = (a.sub b).normSq := by
  have : (SE3Act G a).sub (SE3Act G b) = G.q.act (a.sub b) := by
    rw [← act_sub]; unfold SE3Act; ext <;> simp [Vec3.add, Vec3.sub]
  rw [this, Quat.act_normSq G.q hG]

/-- moving the transform and the targets by the same rigid motion does not change the cost -/
theorem cost_left_rigid (G : SE3 ℝ) (hG : SE3.Valid G) (T : Sim3 ℝ) (hT : Sim3.Valid T) (P Q : List (Vec3 ℝ)) :
    cost (Sim3Mul (rigidSim G) T) P (Q.map (SE3Act G)) = cost T P Q := by
  unfold cost
  induction P generalizing Q with
  | nil => simp
  | cons p ps ih =>
    cases Q with
    | nil => simp
    | cons q qs =>
      simp only [List.map_cons, List.zipWith_cons_cons, List.sum_cons, ih qs]
      rw [Sim3_act_mul _ _ (rigidSim_valid G hG) hT, Sim3Act_rigid, SE3Act_sub_normSq G hG]

theorem map_SE3Act_inv (G : SE3 ℝ) (hG : SE3.Valid G) (Q : List (Vec3 ℝ)) :
    (Q.map (SE3Act G)).map (SE3Act (SE3Inv G)) = Q := by
  rw [List.map_map]
  conv_rhs => rw [← List.map_id Q]
  apply List.map_congr_left
  intro p _
  show SE3Act (SE3Inv G) (SE3Act G p) = id p
  rw [← SE3_act_mul _ _ (SE3_valid_inv G hG) hG, SE3_inv_mul G hG]
  unfold SE3Act SE3one; ext <;> lie_unfold <;> simp

theorem map_SE3Act_eq (G : SE3 ℝ) (P : List (Vec3 ℝ)) : P.map (SE3Act G) = P.map (Sim3Act (rigidSim G)) := by
  apply List.map_congr_left; intro p _; rw [Sim3Act_rigid]

/-- **The optimal alignment is conjugated by a rigid motion applied to both point sets** (from optimality + uniqueness). -/
theorem align_conj_rigid (rigid : Bool) (G : SE3 ℝ) (hG : SE3.Valid G) (T T' : Sim3 ℝ) (P Q : List (Vec3 ℝ))
    (h1 : AlignOK rigid T P Q) (h2 : AlignOK rigid T' (P.map (SE3Act G)) (Q.map (SE3Act G))) :
    Sim3Equiv T' (Sim3Mul (Sim3Mul (rigidSim G) T) (Sim3Inv (rigidSim G))) := by
  have hGs := rigidSim_valid G hG
  have hGi := Sim3_valid_inv _ hGs
  have hGiv : SE3.Valid (SE3Inv G) := SE3_valid_inv G hG
  have hX : Sim3.Valid (Sim3Mul (Sim3Mul (rigidSim G) T) (Sim3Inv (rigidSim G))) :=
    Sim3_valid_mul _ _ (Sim3_valid_mul _ _ hGs h1.valid) hGi
  -- cost of the conjugated transform on the moved sets = cost of T on the original sets
  have hcX : cost (Sim3Mul (Sim3Mul (rigidSim G) T) (Sim3Inv (rigidSim G))) (P.map (SE3Act G)) (Q.map (SE3Act G))
      = cost T P Q := by
    rw [map_SE3Act_eq G P, ← cost_map_act _ _ (Sim3_valid_mul _ _ hGs h1.valid) hGi, map_act_inv _ hGs,
      cost_left_rigid G hG T h1.valid]
  -- the pulled-back T' is a competitor on the original sets
  have hY : Sim3.Valid (Sim3Mul (Sim3Mul (rigidSim (SE3Inv G)) T') (rigidSim G)) :=
    Sim3_valid_mul _ _ (Sim3_valid_mul _ _ (rigidSim_valid _ hGiv) h2.valid) hGs
  have hcY : cost (Sim3Mul (Sim3Mul (rigidSim (SE3Inv G)) T') (rigidSim G)) P Q
      = cost T' (P.map (SE3Act G)) (Q.map (SE3Act G)) := by
    rw [← cost_map_act _ _ (Sim3_valid_mul _ _ (rigidSim_valid _ hGiv) h2.valid) hGs, ← map_SE3Act_eq]
    have := cost_left_rigid (SE3Inv G) hGiv T' h2.valid (P.map (SE3Act G)) (Q.map (SE3Act G))
    rw [map_SE3Act_inv G hG] at this
    exact this
  have hopt := h1.optimal _ hY (by
    intro hr
    show 1 * T'.s * 1 = 1
    rw [h2.scale_one hr]; ring)
  apply Sim3Equiv.symm
  apply h2.unique _ hX
  · intro hr
    show 1 * T.s * (k 1 / 1) = 1
    rw [h1.scale_one hr]; simp
  · rw [hcX, ← hcY]; exact hopt

theorem zipWith_congr_mem {β γ δ : Type} (f f' : β → γ → δ) (l : List β) (m : List γ)
    (h : ∀ a ∈ l, ∀ b ∈ m, f a b = f' a b) : List.zipWith f l m = List.zipWith f' l m := by
  induction l generalizing m with
  | nil => simp
  | cons a l ih =>
    cases m with
    | nil => simp
    | cons b m =>
      simp only [List.zipWith_cons_cons]
      rw [h a (by simp) b (by simp), ih m (fun a' ha' b' hb' => h a' (by simp [ha']) b' (by simp [hb']))]

/-- the absolute error is unchanged when reference and estimate are moved by the same rigid motion -/
theorem apeErr_left_invariant (eps atol : ℝ) (et : EType) (G r e : SE3 ℝ) (hG : SE3.Valid G) (he : SE3.Valid e) :
    apeErr eps atol et (SE3Mul G r) (SE3Mul G e) = apeErr eps atol et r e := by
  unfold apeErr
  rw [Spline.SE3_rel_left_invariant G e r hG he]
  have : ((SE3Mul G e).t.sub (SE3Mul G r).t).norm = (e.t.sub r.t).norm := SE3Act_sub_norm G hG e.t r.t
  rw [this]

/-- reduction used for every alignment mode: if aligning `G·e` with `T'` is (as a transformation) `G·(align T e)`, the
error lists of the moved and the original trajectories coincide -/
theorem apeCore_left_of (eps atol : ℝ) (et : EType) (G : SE3 ℝ) (hG : SE3.Valid G) (T T' : Sim3 ℝ) (hT : Sim3.Valid T)
    (rp ep : List (SE3 ℝ)) (hE : ∀ e ∈ ep, SE3.Valid e)
    (hkey : ∀ e ∈ ep, Spline.SE3Equiv (alignPose T' (SE3Mul G e)) (SE3Mul G (alignPose T e))) :
    List.zipWith (apeErr eps atol et) (rp.map (SE3Mul G)) ((ep.map (SE3Mul G)).map (alignPose T'))
      = List.zipWith (apeErr eps atol et) rp (ep.map (alignPose T)) := by
  rw [List.map_map, List.zipWith_map_left, List.zipWith_map_right, List.zipWith_map_right]
  apply zipWith_congr_mem
  intro r _ e he
  simp only [Function.comp]
  rw [apeErr_congr eps atol et _ (hkey e he)]
  exact apeErr_left_invariant eps atol et G r _ hG (alignPose_valid T e hT (hE e he))

/-! ## relative errors of trajectories that agree as transformations (pass 3) -/

theorem SE3Inv_congr {X Y : SE3 ℝ} (h : Spline.SE3Equiv X Y) : Spline.SE3Equiv (SE3Inv X) (SE3Inv Y) := by
  unfold SE3Inv
  refine ⟨?_, ?_⟩
  · rcases h.2 with hq | hq <;> simp only [h.1, hq, Spline.Quat.conj_neg, Quat.neg_act]
  · rcases h.2 with hq | hq
    · left; simp only [hq]
    · right; simp only [hq, Spline.Quat.conj_neg]

/-- relative error of two relative poses that are the same transformation is zero -/
theorem rpeErr_of_equiv (eps atol : ℝ) (heps : 0 ≤ eps) (hatol : atol ≤ 1) (et : EType) (x y : SE3 ℝ) (hx : SE3.Valid x)
    (h : Spline.SE3Equiv y x) : rpeErr eps atol et x y = 0 := by
  have hm : SE3matrix (SE3Mul (SE3Inv x) y) = SE3matrix (SE3Mul (SE3Inv x) x) :=
    SE3matrix_congr (Spline.SE3Equiv.mul_left _ h)
  have := rpeErr_self eps atol heps hatol et x hx
  unfold rpeErr at this ⊢
  rw [hm]; exact this

theorem relPoses_zero (eps atol : ℝ) (heps : 0 ≤ eps) (hatol : atol ≤ 1) (et : EType) (rp : List (SE3 ℝ))
    (hv : ∀ r ∈ rp, SE3.Valid r) (f : SE3 ℝ → SE3 ℝ) (hf : ∀ r ∈ rp, Spline.SE3Equiv (f r) r) (pairs : List (Nat × Nat)) :
    ∀ e ∈ List.zipWith (rpeErr eps atol et) (relPoses rp pairs) (relPoses (rp.map f) pairs), e = 0 := by
  induction pairs with
  | nil => simp [relPoses]
  | cons st rest ih =>
    intro e he
    unfold relPoses at he ih
    simp only [List.getElem?_map] at ih
    simp only [List.filterMap_cons, List.getElem?_map] at he
    cases h1 : rp[st.1]? with
    | none => simp only [h1, Option.map_none] at he; exact ih e he
    | some a =>
      cases h2 : rp[st.2]? with
      | none => simp only [h1, h2, Option.map_some, Option.map_none] at he; exact ih e he
      | some b =>
        simp only [h1, h2, Option.map_some, List.zipWith_cons_cons, List.mem_cons] at he
        have ha := List.mem_of_getElem? h1
        have hb := List.mem_of_getElem? h2
        rcases he with rfl | he
        · apply rpeErr_of_equiv eps atol heps hatol et
          · exact SE3_valid_mul _ _ (SE3_valid_inv _ (hv a ha)) (hv b hb)
          · exact (Spline.SE3Equiv.mul_right (SE3Inv_congr (hf a ha)) _).trans (Spline.SE3Equiv.mul_left _ (hf b hb))
        · exact ih e he

/-! ## the small-angle branch of `SO3Log` against the true angle (pass 3) -/

/-- `r − r³/3 ≤ arctan r ≤ r − r³/3 + r⁵/5` for `r ≥ 0` -/
theorem arctan_series_bound (r : ℝ) (hr : 0 ≤ r) :
    r - r ^ 3 / 3 ≤ Real.arctan r ∧ Real.arctan r ≤ r - r ^ 3 / 3 + r ^ 5 / 5 := by
  have hg : ∀ x : ℝ, HasDerivAt (fun x => Real.arctan x - x + x ^ 3 / 3) (x ^ 4 / (1 + x ^ 2)) x := by
    intro x
    have h1 := Real.hasDerivAt_arctan x
    have h2 : HasDerivAt (fun y => Real.arctan y - y + y ^ 3 / 3) (1 / (1 + x ^ 2) - 1 + (3 : ℕ) * x ^ (3 - 1) / 3) x :=
      ((h1.fun_sub (hasDerivAt_id' x)).fun_add ((hasDerivAt_pow 3 x).div_const 3))
    refine h2.congr_deriv ?_
    have : (1 : ℝ) + x ^ 2 ≠ 0 := by positivity
    push_cast; field_simp; ring
  have hh : ∀ x : ℝ, HasDerivAt (fun x => x ^ 5 / 5 - (Real.arctan x - x + x ^ 3 / 3)) (x ^ 6 / (1 + x ^ 2)) x := by
    intro x
    have h2 : HasDerivAt (fun y => y ^ 5 / 5 - (Real.arctan y - y + y ^ 3 / 3)) ((5 : ℕ) * x ^ (5 - 1) / 5 - x ^ 4 / (1 + x ^ 2)) x :=
      ((hasDerivAt_pow 5 x).div_const 5).fun_sub (hg x)
    refine h2.congr_deriv ?_
    have : (1 : ℝ) + x ^ 2 ≠ 0 := by positivity
    push_cast; field_simp; ring
  have mg : Monotone (fun x => Real.arctan x - x + x ^ 3 / 3) :=
    monotone_of_deriv_nonneg (fun x => (hg x).differentiableAt) (fun x => by rw [(hg x).deriv]; positivity)
  have mh : Monotone (fun x => x ^ 5 / 5 - (Real.arctan x - x + x ^ 3 / 3)) :=
    monotone_of_deriv_nonneg (fun x => (hh x).differentiableAt) (fun x => by rw [(hh x).deriv]; positivity)
  have g0 := mg hr
  have h0 := mh hr
  simp only [Real.arctan_zero] at g0 h0
  norm_num at g0 h0
  constructor <;> linarith

/-- `‖SO3Log q‖` on the series branch (`|v| ≤ eps ≤ 1/2`, unit `q`) is `2(r − r³/3)` with `r = |v|/|w|` -/
theorem SO3Log_norm_small (eps : ℝ) (q : Quat ℝ) (h1 : eps ≤ 1 / 2) (hq : q.normSq = 1) (hv : ¬ eps < q.vec.norm) :
    (SO3Log eps q).norm = 2 * (q.vec.norm / |q.w| - (q.vec.norm / |q.w|) ^ 3 / 3) ∧ 3 / 4 ≤ |q.w| := by
  have hrel := quat_vn_w q hq
  have hvn0 := Vec3.norm_nonneg q.vec
  have hvle : q.vec.norm ≤ 1 / 2 := le_trans (not_lt.mp hv) h1
  have hform : (SO3Log eps q).norm
      = |2 * (1 / q.w - q.vec.norm * q.vec.norm / (3 * (q.w * q.w * q.w)))| * q.vec.norm := by
    unfold SO3Log so3LogFactor
    rw [Vec3.norm_smul']
    simp only [lt_real, hv, decide_false, Bool.false_eq_true, if_false, k_real, Nat.cast_ofNat, Nat.cast_one]
  rw [hform]
  set vn := q.vec.norm
  set w := q.w
  set a := |w| with ha
  have ha0 : 0 ≤ a := abs_nonneg w
  have ha2 : a * a = w * w := abs_mul_abs_self w
  have haw : 3 / 4 ≤ a := by nlinarith
  have hapos : 0 < a := by linarith
  refine ⟨?_, haw⟩
  have hpos : 0 ≤ 1 / a - vn * vn / (3 * (a * a * a)) := by
    have h3 : vn * vn / (3 * (a * a * a)) ≤ 1 / a := by
      rw [div_le_div_iff₀ (by positivity) hapos]; nlinarith
    linarith
  rcases abs_choice w with hw | hw
  · have hwa : w = a := by rw [ha, hw]
    rw [hwa, abs_of_nonneg (by linarith)]
    field_simp
  · have hwa : w = -a := by rw [ha, hw]; ring
    have e : (2 : ℝ) * (1 / w - vn * vn / (3 * (w * w * w))) = -(2 * (1 / a - vn * vn / (3 * (a * a * a)))) := by
      rw [hwa]; field_simp; ring
    rw [e, abs_neg, abs_of_nonneg (by linarith)]
    field_simp

/-! ## exact ties: `torch.min` keeps the FIRST minimal entry (pass 4, class 20) -/

theorem argminFrom_lt_of_moved (xs : List ℝ) (j0 : Nat) (b : ℝ) (jb : Nat)
    (h : argminFrom xs j0 (b, jb) ≠ (b, jb)) : (argminFrom xs j0 (b, jb)).1 < b := by
  induction xs generalizing j0 b jb with
  | nil => simp [argminFrom] at h
  | cons x xs ih =>
    unfold argminFrom at h ⊢
    by_cases hx : x < b
    · simp only [lt_real, hx, decide_true, if_true] at h ⊢
      exact lt_of_le_of_lt (argminFrom_spec xs (j0 + 1) x j0).1 hx
    · simp only [lt_real, hx, decide_false, Bool.false_eq_true, if_false] at h ⊢
      exact ih (j0 + 1) b jb h

theorem argminFrom_first (xs : List ℝ) (j0 : Nat) (b : ℝ) (jb : Nat) (hjb : jb < j0) :
    ∀ (i : Nat) (x : ℝ), xs[i]? = some x → j0 + i < (argminFrom xs j0 (b, jb)).2 → (argminFrom xs j0 (b, jb)).1 < x := by
  induction xs generalizing j0 b jb with
  | nil => intro i x hx; simp at hx
  | cons y ys ih =>
    intro i x hx hlt
    unfold argminFrom at hlt ⊢
    set best' : ℝ × Nat := if Scalar.lt y (b, jb).1 then (y, j0) else (b, jb) with hb'
    have hb2 : best'.2 < j0 + 1 := by
      rw [hb']; split_ifs <;> simp <;> omega
    have hb1 : best'.1 ≤ y := by
      rw [hb']; simp only [lt_real]
      by_cases hy : y < b
      · simp [hy]
      · simp [hy]; exact not_lt.mp hy
    have e : argminFrom ys (j0 + 1) best' = argminFrom ys (j0 + 1) (best'.1, best'.2) := rfl
    cases i with
    | zero =>
      simp only [List.getElem?_cons_zero, Option.some.injEq] at hx
      subst hx
      have hne : argminFrom ys (j0 + 1) (best'.1, best'.2) ≠ (best'.1, best'.2) := by
        intro hh
        rw [e, hh] at hlt
        simp only at hlt; omega
      rw [e]
      exact lt_of_lt_of_le (argminFrom_lt_of_moved ys (j0 + 1) best'.1 best'.2 hne) hb1
    | succ i' =>
      simp only [List.getElem?_cons_succ] at hx
      rw [e] at hlt ⊢
      exact ih (j0 + 1) best'.1 best'.2 hb2 i' x hx (by omega)

/-- entries before the returned position are strictly larger than the returned minimum -/
theorem argmin?_first (l : List ℝ) (v : ℝ) (j : Nat) (h : argmin? l = some (v, j)) :
    ∀ (i : Nat) (x : ℝ), l[i]? = some x → i < j → v < x := by
  cases l with
  | nil => simp [argmin?] at h
  | cons y ys =>
    simp only [argmin?, Option.some.injEq] at h
    intro i x hx hij
    cases i with
    | zero =>
      simp only [List.getElem?_cons_zero, Option.some.injEq] at hx
      subst hx
      have hne : argminFrom ys 1 (y, 0) ≠ (y, 0) := by
        intro hh; rw [hh] at h
        have := (Prod.mk.injEq _ _ _ _ ▸ h).2
        omega
      have := argminFrom_lt_of_moved ys 1 y 0 hne
      rw [h] at this; exact this
    | succ i' =>
      simp only [List.getElem?_cons_succ] at hx
      have := argminFrom_first ys 1 y 0 (by omega) i' x hx (by rw [h]; simp; omega)
      rw [h] at this; exact this

/-! ## collinear source points: the optimal alignment is never unique (pass 5, finding D43) -/

/-- every point of `P` lies on the line `c + λ·u` (`u` a unit vector); covers straight-line motion, two distinct positions
and all positions equal -/
def Collinear (P : List (Vec3 ℝ)) : Prop :=
  ∃ (c u : Vec3 ℝ), u.normSq = 1 ∧ ∀ p ∈ P, ∃ lam : ℝ, p = c.add (u.smul lam)

/-- rotation about the line `c + λ·u` with half-angle `(sn, cs)`, as a similarity of unit scale -/
noncomputable def lineRot (c u : Vec3 ℝ) (sn cs : ℝ) : Sim3 ℝ :=
  ⟨c.sub ((Spline.axisQuat u sn cs).act c), Spline.axisQuat u sn cs, 1⟩

theorem lineRot_valid (c u : Vec3 ℝ) (sn cs : ℝ) (hu : u.normSq = 1) (h : sn * sn + cs * cs = 1) :
    Sim3.Valid (lineRot c u sn cs) := by
  refine ⟨?_, by simp [lineRot]⟩
  show (Spline.axisQuat u sn cs).normSq = 1
  rw [Spline.axisQuat_normSq, hu]; linarith

theorem axisQuat_act_axis (u : Vec3 ℝ) (sn cs : ℝ) (hu : u.normSq = 1) (h : sn * sn + cs * cs = 1) :
    (Spline.axisQuat u sn cs).act u = u := by
  have hu' : u.x * u.x + u.y * u.y + u.z * u.z = 1 := hu
  unfold Spline.axisQuat
  ext <;> lie_unfold <;> ring

/-- the rotation about the line fixes every point of the line -/
theorem lineRot_fixes (c u : Vec3 ℝ) (sn cs lam : ℝ) (hu : u.normSq = 1) (h : sn * sn + cs * cs = 1) :
    Sim3Act (lineRot c u sn cs) (c.add (u.smul lam)) = c.add (u.smul lam) := by
  unfold Sim3Act lineRot
  simp only []
  rw [Quat.act_add, Quat.act_smul, axisQuat_act_axis u sn cs hu h]
  ext <;> simp [Vec3.add, Vec3.sub, Vec3.smul] <;> ring

theorem map_lineRot_collinear (c u : Vec3 ℝ) (sn cs : ℝ) (hu : u.normSq = 1) (h : sn * sn + cs * cs = 1)
    (P : List (Vec3 ℝ)) (hP : ∀ p ∈ P, ∃ lam : ℝ, p = c.add (u.smul lam)) :
    P.map (Sim3Act (lineRot c u sn cs)) = P := by
  conv_rhs => rw [← List.map_id P]
  apply List.map_congr_left
  intro p hp
  obtain ⟨lam, rfl⟩ := hP p hp
  rw [lineRot_fixes c u sn cs lam hu h]; rfl

/-- **svdstf's freedom on collinear positions**: composing ANY transform with ANY rotation about the line of the source
points leaves the alignment cost unchanged — every optimum comes with a whole circle of optima. -/
theorem collinear_cost_invariant (T : Sim3 ℝ) (hT : Sim3.Valid T) (c u : Vec3 ℝ) (sn cs : ℝ) (hu : u.normSq = 1)
    (h : sn * sn + cs * cs = 1) (P Q : List (Vec3 ℝ)) (hP : ∀ p ∈ P, ∃ lam : ℝ, p = c.add (u.smul lam)) :
    cost (Sim3Mul T (lineRot c u sn cs)) P Q = cost T P Q := by
  rw [← cost_map_act T _ hT (lineRot_valid c u sn cs hu h), map_lineRot_collinear c u sn cs hu h P hP]

/-- **The `svdstf` contract cannot hold on collinear source positions**: optimality + uniqueness would force the half-turn about
the line to be the identity. -/
theorem alignOK_collinear_false' (rigid : Bool) (A : Sim3 ℝ) (P Q : List (Vec3 ℝ)) (hc : Collinear P)
    (h : AlignOK rigid A P Q) : False := by
  obtain ⟨c, u, hu, hP⟩ := hc
  have h01 : (1 : ℝ) * 1 + 0 * 0 = 1 := by norm_num
  have hv := lineRot_valid c u 1 0 hu h01
  have hcost := collinear_cost_invariant A h.valid c u 1 0 hu h01 P Q hP
  have heq := h.unique (Sim3Mul A (lineRot c u 1 0)) (Sim3_valid_mul _ _ h.valid hv)
    (by intro hr; show A.s * 1 = 1; rw [h.scale_one hr]; ring) (le_of_eq hcost)
  obtain ⟨_, _, hq⟩ := heq
  have hAq : A.q.normSq = 1 := h.valid.1
  -- cancel A.q on the left: the half-turn quaternion would be ±1
  have key : ∀ r : Quat ℝ, A.q.mul (Spline.axisQuat u 1 0) = r → (Spline.axisQuat u 1 0) = A.q.conj.mul r := by
    intro r hr
    rw [← hr, ← Quat.mul_assoc', Quat.conj_mul, hAq]
    ext <;> lie_unfold <;> ring
  have hw : (Spline.axisQuat u 1 0).w = 0 := rfl
  rcases hq with hq | hq
  · have := key _ hq
    rw [Quat.conj_mul, hAq] at this
    have := congrArg Quat.w this
    rw [hw] at this; norm_num at this
  · have := key _ hq
    have e : A.q.conj.mul A.q.neg = (A.q.conj.mul A.q).neg := Spline.Quat.mul_neg' _ _
    rw [e, Quat.conj_mul, hAq] at this
    have := congrArg Quat.w this
    rw [hw] at this; simp [Quat.neg] at this

/-! ## statements moved from Props/C19.lean (helpers / structural facts, pass 5) -/

/-- **Option handling** (pass 3): `align`/`scale` take precedence over `origin`; `scale` alone already aligns (with scale);
`with_scale` is exactly the `scale` flag. -/
theorem modeOfFlags_spec (align scale origin : Bool) :
    ((align = true ∨ scale = true) → modeOfFlags align scale origin = (.svd, scale)) ∧
    (align = false → scale = false → origin = true → modeOfFlags align scale origin = (.origin, false)) ∧
    (align = false → scale = false → origin = false → modeOfFlags align scale origin = (.none, false)) := by
  cases align <;> cases scale <;> cases origin <;> simp [modeOfFlags]

/-- `tr(AᵀB) = tr(ABᵀ)`: the angle of `R₁ᵀR₂` and of `R₁R₂ᵀ` have the same cosine -/
theorem trace_transpose_mul (A B : Mat3 ℝ) : (A.transpose.mul B).trace = (A.mul B.transpose).trace := by
  lie_unfold; ring

/-- **Item-wise = batched** (hardening class 7): the loss of a batch is the list of the losses of its items, so an item's
value cannot depend on the regime of its neighbours. -/
theorem geodesicAll_append (eps : ℝ) (xs xs' ys ys' : List (Quat ℝ)) (h : xs.length = ys.length) :
    geodesicAll eps (xs ++ xs') (ys ++ ys') = geodesicAll eps xs ys ++ geodesicAll eps xs' ys' := by
  unfold geodesicAll
  exact List.zipWith_append h

/-- APE errors without alignment are computed pose by pose: concatenating trajectories concatenates the error lists. -/
theorem apeCore_append (eps atol : ℝ) (alignFn : List (Vec3 ℝ) → List (Vec3 ℝ) → Sim3 ℝ) (et : EType)
    (rp rp' ep ep' : List (SE3 ℝ)) (h : rp.length = ep.length) :
    apeCore eps atol alignFn et .none (rp ++ rp') (ep ++ ep')
      = apeCore eps atol alignFn et .none rp ep ++ apeCore eps atol alignFn et .none rp' ep' := by
  unfold apeCore
  simp only [transOf, List.map_append]
  exact List.zipWith_append (by simpa using h)

/-- all-zero errors: every statistic of the ℝ-model is zero (for a single error the model's `STD` is `√(0/0) = 0` by the
convention `x/0 = 0`; the code returns NaN there — the property theorem `stats_zero` therefore asks for two errors) -/
theorem stats_zero_raw (es : List ℝ) (h : ∀ e ∈ es, e = 0) :
    (stats es).toList = [0, 0, 0, 0, 0, 0, 0] := by
  have hrep : es = List.replicate es.length 0 := List.eq_replicate_iff.mpr ⟨rfl, h⟩
  have ha : es.map sabs = List.replicate es.length 0 := by
    rw [hrep, List.map_replicate, sabs_real, abs_zero, List.length_replicate]
  have hsq : sqsum es = 0 := by
    rw [sqsum_eq, hrep, List.map_replicate]; simp
  have hsum : sumL (List.replicate es.length (0 : ℝ)) = 0 := by rw [sumL_eq_sum]; simp
  have hmax : maxL (List.replicate es.length (0 : ℝ)) = 0 := by
    apply le_antisymm
    · exact maxL_le _ 0 le_rfl (fun y hy => le_of_eq (List.eq_of_mem_replicate hy))
    · cases hl : es.length with
      | zero => simp [maxL]
      | succ n => exact maxL_ge _ 0 (by simp)
  have hmin : minL (List.replicate es.length (0 : ℝ)) = 0 := by
    apply le_antisymm
    · cases hl : es.length with
      | zero => simp [minL]
      | succ n => exact minL_le _ 0 (by simp)
    · exact minL_ge _ 0 le_rfl (fun y hy => le_of_eq (List.eq_of_mem_replicate hy).symm)
  have hmed : (sortAsc (List.replicate es.length (0 : ℝ))).getD ((es.length - 1) / 2) (k 0) = 0 := by
    by_cases hidx : (es.length - 1) / 2 < (sortAsc (List.replicate es.length (0 : ℝ))).length
    · rw [List.getD_eq_getElem (hn := hidx)]
      have := (sortAsc_perm _).mem_iff.mp (List.getElem_mem hidx)
      exact List.eq_of_mem_replicate this
    · rw [List.getD_eq_default _ _ (not_lt.mp hidx)]; simp
  have hdev : sqsum ((List.replicate es.length (0 : ℝ)).map fun x => x - 0 / k es.length) = 0 := by
    rw [List.map_replicate, sqsum_eq, List.map_replicate]; simp
  simp only [Stats.toList, stats, ha, hsq, hsum, hdev, hmax, hmin, hmed]
  simp

/-- zero cost on identical point sets: every point is fixed by the transform -/
theorem cost_zero_mem (T : Sim3 ℝ) (P : List (Vec3 ℝ)) (h : cost T P P = 0) :
    ∀ p ∈ P, ((Sim3Act T p).sub p).normSq = 0 := by
  induction P with
  | nil => intro p hp; simp at hp
  | cons x xs ih =>
    unfold cost at h ih
    simp only [List.zipWith_cons_cons, List.sum_cons] at h
    have h1 := Vec3.normSq_nonneg ((Sim3Act T x).sub x)
    have h2 : 0 ≤ (List.zipWith (fun p q => ((Sim3Act T p).sub q).normSq) xs xs).sum := cost_nonneg T xs xs
    intro p hp
    rcases List.mem_cons.mp hp with rfl | hp
    · linarith
    · exact ih (by linarith) p hp


/-! ## helpers of pass 5 (moved from Props) -/

theorem apeCore_length_self (eps atol : ℝ) (alignFn : List (Vec3 ℝ) → List (Vec3 ℝ) → Sim3 ℝ) (et : EType) (mode : AlignMode)
    (rp : List (SE3 ℝ)) : (apeCore eps atol alignFn et mode rp rp).length = rp.length := by
  unfold apeCore; simp


theorem transOf_origin_valid (alignFn : List (Vec3 ℝ) → List (Vec3 ℝ) → Sim3 ℝ) (rp ep : List (SE3 ℝ))
    (hR : ∀ p ∈ rp, SE3.Valid p) (hE : ∀ p ∈ ep, SE3.Valid p) :
    Sim3.Valid (transOf alignFn .origin rp ep) ∧ (transOf alignFn .origin rp ep).s = 1 := by
  have hr : SE3.Valid (rp.headD SE3one) := by
    cases rp with
    | nil => exact Spline.SE3_valid_one
    | cons r _ => exact hR r (by simp)
  have he : SE3.Valid (ep.headD SE3one) := by
    cases ep with
    | nil => exact Spline.SE3_valid_one
    | cons e _ => exact hE e (by simp)
  simp only [transOf, originT]
  exact ⟨⟨SE3_valid_mul _ _ hr (SE3_valid_inv _ he), by simp⟩, by simp⟩


noncomputable def octaP : List (Vec3 ℝ) := [⟨1, 0, 0⟩, ⟨-1, 0, 0⟩, ⟨0, 1, 0⟩, ⟨0, -1, 0⟩, ⟨0, 0, 1⟩, ⟨0, 0, -1⟩]
noncomputable def octaQ : List (Vec3 ℝ) :=
  [⟨39 / 25, 98 / 25, 3⟩, ⟨11 / 25, 2 / 25, 3⟩, ⟨-23 / 25, 64 / 25, 3⟩, ⟨73 / 25, 36 / 25, 3⟩, ⟨1, 2, 5⟩, ⟨1, 2, 1⟩]
noncomputable def octaA : Sim3 ℝ := ⟨⟨1, 2, 3⟩, ⟨0, 0, 3 / 5, 4 / 5⟩, 1⟩

theorem cost_octa (t : Vec3 ℝ) (q : Quat ℝ) (hq : q.x * q.x + q.y * q.y + q.z * q.z + q.w * q.w = 1) :
    cost ⟨t, q, 1⟩ octaP octaQ = 6 + 6 * ((t.x - 1) ^ 2 + (t.y - 2) ^ 2 + (t.z - 3) ^ 2)
      + 32 * (q.x ^ 2 + q.y ^ 2 + (4 / 5 * q.z - 3 / 5 * q.w) ^ 2) := by
  simp only [cost, octaP, octaQ, List.zipWith_cons_cons, List.zipWith_nil_right, List.sum_cons, List.sum_nil, Sim3Act]
  lie_unfold
  linear_combination (16 * (q.x * q.x + q.y * q.y + q.z * q.z) - 288 / 25) * hq


/-! ## helpers of pass 7: RPE only sees the estimate as a list of transformations -/

theorem rpeErr_congr_right (eps atol : ℝ) (et : EType) (x : SE3 ℝ) {y y' : SE3 ℝ} (h : Spline.SE3Equiv y y') :
    rpeErr eps atol et x y = rpeErr eps atol et x y' := by
  unfold rpeErr
  rw [SE3matrix_congr (Spline.SE3Equiv.mul_left _ h)]

theorem pairId_congr_t (pm : PairMode) (dN : Nat) (delta rtol : ℝ) (all : Bool) (ps ps' : List (SE3 ℝ))
    (h : ps.map (·.t) = ps'.map (·.t)) : pairId pm dN delta rtol all ps = pairId pm dN delta rtol all ps' := by
  unfold pairId
  cases pm with
  | frame =>
    have := congrArg List.length h
    simp only [List.length_map] at this
    simp only [this]
  | distance => simp only [h]

theorem zipWith_relPoses_congr (eps atol : ℝ) (et : EType) (ep : List (SE3 ℝ)) (f f' : SE3 ℝ → SE3 ℝ)
    (hf : ∀ e ∈ ep, Spline.SE3Equiv (f' e) (f e)) (pairs : List (Nat × Nat)) (L : List (SE3 ℝ)) :
    List.zipWith (rpeErr eps atol et) L (relPoses (ep.map f') pairs)
      = List.zipWith (rpeErr eps atol et) L (relPoses (ep.map f) pairs) := by
  induction pairs generalizing L with
  | nil => simp [relPoses]
  | cons st rest ih =>
    unfold relPoses at ih ⊢
    simp only [List.getElem?_map] at ih
    simp only [List.filterMap_cons, List.getElem?_map]
    cases h1 : ep[st.1]? with
    | none => simp only [Option.map_none]; exact ih L
    | some a =>
      cases h2 : ep[st.2]? with
      | none => simp only [Option.map_some, Option.map_none]; exact ih L
      | some b =>
        simp only [Option.map_some]
        cases L with
        | nil => simp
        | cons x L' =>
          simp only [List.zipWith_cons_cons]
          have ha := List.mem_of_getElem? h1
          have hb := List.mem_of_getElem? h2
          rw [ih L', rpeErr_congr_right eps atol et x
            ((Spline.SE3Equiv.mul_right (SE3Inv_congr (hf a ha)) _).trans (Spline.SE3Equiv.mul_left _ (hf b hb)))]

/-- the tail of `rpe` (pairing, relative poses, errors) only depends on the aligned estimate as a list of transformations -/
theorem rpeTail_congr (eps atol : ℝ) (et : EType) (pm : PairMode) (dN : Nat) (delta rtol : ℝ) (all rpair : Bool)
    (Rr ep : List (SE3 ℝ)) (f f' : SE3 ℝ → SE3 ℝ) (hf : ∀ e ∈ ep, Spline.SE3Equiv (f' e) (f e)) :
    rpeTail eps atol et pm dN delta rtol all rpair Rr (ep.map f')
      = rpeTail eps atol et pm dN delta rtol all rpair Rr (ep.map f) := by
  unfold rpeTail
  have ht : (ep.map f').map (·.t) = (ep.map f).map (·.t) := by
    rw [List.map_map, List.map_map]
    exact List.map_congr_left (fun e he => (hf e he).1)
  have hp : pairId pm dN delta rtol all (if rpair = true then Rr else ep.map f')
      = pairId pm dN delta rtol all (if rpair = true then Rr else ep.map f) := by
    cases rpair with
    | true => simp only [if_true]
    | false => simp only [Bool.false_eq_true, if_false]; exact pairId_congr_t pm dN delta rtol all _ _ ht
  simp only [hp, zipWith_relPoses_congr eps atol et ep f f' hf]

theorem Sim3Equiv_mul_right {X Y : Sim3 ℝ} (h : Sim3Equiv X Y) (Z : Sim3 ℝ) : Sim3Equiv (Sim3Mul X Z) (Sim3Mul Y Z) := by
  obtain ⟨ht, hs, hq⟩ := h
  unfold Sim3Mul
  refine ⟨?_, by simp only [hs], ?_⟩
  · rcases hq with hq | hq <;> simp only [ht, hs, hq, Quat.neg_act]
  · rcases hq with hq | hq
    · left; simp only [hq]
    · right; simp only [hq]; exact Spline.Quat.neg_mul' _ _


/-- two similarities with the same scale differ by a rigid motion on the left: `alignPose U e = G·alignPose V e` with
`G` = the rigid part of `U·V⁻¹` -/
theorem alignPose_same_scale (U V : Sim3 ℝ) (hU : Sim3.Valid U) (hV : Sim3.Valid V) (hs : U.s = V.s) (e : SE3 ℝ) :
    alignPose U e = SE3Mul ⟨(Sim3Mul U (Sim3Inv V)).t, (Sim3Mul U (Sim3Inv V)).q⟩ (alignPose V e) := by
  have hVi := Sim3_valid_inv V hV
  set W := Sim3Mul U (Sim3Inv V) with hW
  have hWs : W.s = 1 := by
    show U.s * (k 1 / V.s) = 1
    rw [hs]; simp only [k_real, Nat.cast_one]; exact mul_one_div_cancel (ne_of_gt hV.2)
  have hWe : W = ⟨W.t, W.q, 1⟩ := by
    cases hW' : W with
    | mk t q sc => rw [hW'] at hWs; simp only at hWs; rw [hWs]
  have hWV : Sim3Mul W V = U := by
    rw [hW, Sim3_mul_assoc _ _ _ hU hVi, Sim3_inv_mul V hV, Sim3_mul_one]
  have hWv : Sim3.Valid W := Sim3_valid_mul _ _ hU hVi
  conv_lhs => rw [← hWV, ← alignPose_mul W V e hWv hV, hWe]
  exact alignPose_rigid ⟨W.t, W.q⟩ (alignPose V e)


/-- a similarity that fixes two distinct points has scale 1 -/
theorem sim3_scale_of_two_fixed (T : Sim3 ℝ) (hT : Sim3.Valid T) (p q : Vec3 ℝ) (hp : Sim3Act T p = p) (hq : Sim3Act T q = q)
    (hne : p ≠ q) : T.s = 1 := by
  have hd : (Sim3Act T p).sub (Sim3Act T q) = (T.q.act (p.sub q)).smul T.s := by
    rw [← act_sub]; unfold Sim3Act; ext <;> simp [Vec3.add, Vec3.sub, Vec3.smul] <;> ring
  rw [hp, hq] at hd
  have hn := congrArg Vec3.normSq hd
  have hsm : ((T.q.act (p.sub q)).smul T.s).normSq = T.s * T.s * (T.q.act (p.sub q)).normSq := by
    simp only [Vec3.normSq, Vec3.smul]; ring
  rw [hsm, Quat.act_normSq T.q hT.1] at hn
  have hpos : 0 < (p.sub q).normSq := by
    rcases lt_or_eq_of_le (Vec3.normSq_nonneg (p.sub q)) with h | h
    · exact h
    · exfalso
      have hz := normSq_eq_zero _ h.symm
      apply hne
      have hx := congrArg Vec3.x hz; have hy := congrArg Vec3.y hz; have hzz := congrArg Vec3.z hz
      simp only [Vec3.sub, Vec3.zero, k_real, Nat.cast_zero] at hx hy hzz
      ext <;> linarith
  have hs2 : T.s * T.s = 1 := by
    have : (T.s * T.s - 1) * (p.sub q).normSq = 0 := by linarith
    rcases mul_eq_zero.mp this with h | h
    · linarith
    · linarith
  have hsp := hT.2
  nlinarith

end PP.Traj
