/-
C04 (pass 3): `SE3` `Exp` backward at rotation part zero and `SE3_Log` backward at rotation part identity are the
true left-perturbation derivatives (any translation).
-/
import Proofs.Lemmas.AutogradIdRot
import Proofs.Lemmas.AutogradExp
import Proofs.Lemmas.AutogradLog
import Proofs.Lemmas.AutogradZero
set_option maxRecDepth 10000
set_option maxHeartbeats 1000000
set_option linter.unusedSimpArgs false
set_option linter.unusedVariables false
namespace PP.AD
open PP

/-- Taylor branch of `so3_Jl` -/
theorem so3Jl_taylor (eps : ℝ) (y : Vec3 ℝ) (h : ¬ eps < y.norm) :
    so3Jl eps y = polyK 1 (1/2 - 1/24 * y.normSq) (1/6 - 1/120 * y.normSq) y := by
  unfold so3Jl so3JlCoef
  simp only [lt_real, h, decide_false, Bool.false_eq_true, if_false, q_real, k_real, Nat.cast_one, Nat.cast_ofNat, Vec3.norm_sq]

theorem so3JlInv_taylor (eps : ℝ) (y : Vec3 ℝ) (h : ¬ eps < y.norm) : so3JlInv eps y = polyK 1 (-(1/2)) (1/12) y := by
  unfold so3JlInv so3JlInvCoef
  simp only [lt_real, h, decide_false, Bool.false_eq_true, if_false, q_real, k_real, Nat.cast_one, Nat.cast_ofNat]

theorem calcQ_phi_zero (eps : ℝ) (τ : Vec3 ℝ) : calcQ eps ⟨τ, ⟨0, 0, 0⟩⟩ = Mat3.smul (1/2) (Mat3.hat τ) := by
  unfold calcQ
  simp only [norm_zero3]
  ext <;> lie_unfold <;> simp

/-- **`se3_Exp.backward` at rotation part zero, any translation part** (Taylor branch of `so3_Jl`, series branch of `calcQ`,
which at `φ = 0` is `½ hat τ`): exact. -/
theorem se3Exp_tangent_zerorot (eps : ℝ) (heps : 0 < eps) (x : ℝ → DVec ℝ) (d0 d1 d2 d3 d4 d5 : ℝ)
    (hx : LCurve 6 x [d0, d1, d2, d3, d4, d5]) (hzp : v3 (x 0) 3 = ⟨0, 0, 0⟩) :
    LCurve 7 (fun t => expF .SE3 eps (x t))
      (liftG .SE3 (expF .SE3 eps (x 0)) ((JlMat .SE3 eps (x 0)).mulVec [d0, d1, d2, d3, d4, d5])) := by
  have h0 := hx 0 (by norm_num); have h1 := hx 1 (by norm_num); have h2 := hx 2 (by norm_num)
  have h3 := hx 3 (by norm_num); have h4 := hx 4 (by norm_num); have h5 := hx 5 (by norm_num)
  simp only [nth_cons_zero, nth_cons_succ] at h0 h1 h2 h3 h4 h5
  set u0 := nth (x 0) 0 with z0
  set u1 := nth (x 0) 1 with z1
  set u2 := nth (x 0) 2 with z2
  have z3 : nth (x 0) 3 = 0 := by have := congrArg Vec3.x hzp; simpa [v3] using this
  have z4 : nth (x 0) 4 = 0 := by have := congrArg Vec3.y hzp; simpa [v3] using this
  have z5 : nth (x 0) 5 = 0 := by have := congrArg Vec3.z hzp; simpa [v3] using this
  have e0 := h0.differentiableAt; have e1 := h1.differentiableAt; have e2 := h2.differentiableAt
  have e3 := h3.differentiableAt; have e4 := h4.differentiableAt; have e5 := h5.differentiableAt
  have hNc : ContinuousAt (fun t => Real.sqrt (nth (x t) 3 * nth (x t) 3 + nth (x t) 4 * nth (x t) 4 + nth (x t) 5 * nth (x t) 5)) 0 :=
    (((h3.continuousAt.mul h3.continuousAt).add (h4.continuousAt.mul h4.continuousAt)).add (h5.continuousAt.mul h5.continuousAt)).sqrt
  have hev : ∀ᶠ t in nhds (0:ℝ), ¬ eps < (v3 (x t) 3).norm := by
    have : ∀ᶠ t in nhds (0:ℝ), Real.sqrt (nth (x t) 3 * nth (x t) 3 + nth (x t) 4 * nth (x t) 4 + nth (x t) 5 * nth (x t) 5) < eps := by
      apply hNc.eventually (gt_mem_nhds _)
      simp [z3, z4, z5, heps]
    filter_upwards [this] with t ht
    have : (v3 (x t) 3).norm = Real.sqrt (nth (x t) 3 * nth (x t) 3 + nth (x t) 4 * nth (x t) 4 + nth (x t) 5 * nth (x t) 5) := by
      simp [Vec3.norm, Vec3.normSq, v3]
    rw [this]; exact not_lt.mpr (le_of_lt ht)
  have hnz0 : ¬ eps < (v3 (x 0) 3).norm := by
    rw [hzp]; simp [Vec3.norm, Vec3.normSq]; exact le_of_lt heps
  -- rotation block: the so3 theorem at zero
  have hφ : LCurve 3 (fun t => [nth (x t) 3, nth (x t) 4, nth (x t) 5]) [d3, d4, d5] := by
    intro j hj
    interval_cases j
    · simpa using hx 3 (by norm_num)
    · simpa using hx 4 (by norm_num)
    · simpa using hx 5 (by norm_num)
  have hrot := so3Exp_tangent_zero eps heps (fun t => [nth (x t) 3, nth (x t) 4, nth (x t) 5]) d3 d4 d5 hφ
    (by simp [v3, z3, z4, z5])
  -- the claimed tangent is d itself: se3_Jl(0) = 1
  have hx0 : tose3 (x 0) = ⟨⟨u0, u1, u2⟩, ⟨0, 0, 0⟩⟩ := by
    simp only [tose3, hzp]; simp [v3, z0, z1, z2]
  have hJ : (JlMat .SE3 eps (x 0)).mulVec [d0, d1, d2, d3, d4, d5]
      = [d0 + 1/2 * (u1 * d5 - u2 * d4), d1 + 1/2 * (u2 * d3 - u0 * d5), d2 + 1/2 * (u0 * d4 - u1 * d3), d3, d4, d5] := by
    simp only [JlMat, se3Jl, hx0, so3Jl_zero eps (le_of_lt heps), calcQ_phi_zero]
    simp [Mat3.toRows, Mat3.one, Mat3.zero, Vec3.zero, Vec3.toList, Vec3.e0, Vec3.e1, Vec3.e2, DMat.block, DMat.hcat, DMat.vcat,
      DMat.zero, DVec.zero, DMat.mulVec, ddot_cons]
    lie_unfold
    refine ⟨?_, ?_, ?_⟩ <;> ring
  have hval : expF .SE3 eps (x 0) = [u0, u1, u2, 0, 0, 0, 1] := by
    have hq : so3Exp eps ⟨0, 0, 0⟩ = ⟨0, 0, 0, 1⟩ := by
      have hn : ¬ eps < (⟨0, 0, 0⟩ : Vec3 ℝ).norm := by rw [norm_zero3]; exact not_lt.mpr (le_of_lt heps)
      rw [so3Exp_taylor eps _ hn]; simp [Quat.mk', Vec3.smul, Vec3.normSq]
    simp only [expF, se3Exp, hx0, so3Jl_zero eps (le_of_lt heps), hq]
    simp [SE3.toList, Vec3.toList, Quat.toList, Mat3.mulVec, Mat3.one, Vec3.dot, Vec3.e0, Vec3.e1, Vec3.e2]
  rw [hJ, hval]
  have key : ∀ i, i < 3 → HasDerivAt (fun t => nth (((polyK 1 (1/2 - 1/24 * (v3 (x t) 3).normSq) (1/6 - 1/120 * (v3 (x t) 3).normSq)
        (v3 (x t) 3)).mulVec (v3 (x t))).toList) i)
      (nth (liftG .SE3 [u0, u1, u2, 0, 0, 0, 1] [d0 + 1/2 * (u1 * d5 - u2 * d4), d1 + 1/2 * (u2 * d3 - u0 * d5), d2 + 1/2 * (u0 * d4 - u1 * d3), d3, d4, d5]) i) 0 := by
    intro i hi
    interval_cases i
    all_goals
      simp only [polyK, Vec3.normSq, v3, Vec3.toList, nth_cons_zero, nth_cons_succ, Nat.reduceAdd]
      lie_unfold
      try simp only [nth_cons_zero, nth_cons_succ]
      refine HasDerivAt.congr_deriv (DifferentiableAt.hasDerivAt (by fun_prop)) ?_
      simp (disch := fun_prop) only [deriv_fun_add, deriv_fun_sub, deriv_fun_mul, deriv_const, deriv_const_mul_field,
        deriv.fun_neg, h0.deriv, h1.deriv, h2.deriv, h3.deriv, h4.deriv, h5.deriv]
      simp only [liftG, liftQ, v3, qt, Vec3.toList, Quat.toList, List.cons_append, List.nil_append, nth_cons_zero, nth_cons_succ,
        ← z0, ← z1, ← z2, z3, z4, z5]
      lie_unfold
      try simp only [nth_cons_zero, nth_cons_succ]
      ring
  intro i hi
  by_cases h3' : i < 3
  · refine (key i h3').congr_of_eventuallyEq ?_
    filter_upwards [hev] with t ht
    have hi' : i = 0 ∨ i = 1 ∨ i = 2 := by omega
    rcases hi' with rfl | rfl | rfl <;>
      simp [expF, se3Exp, SE3.toList, tose3, so3Jl_taylor eps _ ht, Vec3.toList]
  · obtain ⟨j, hj, rfl⟩ : ∃ j, j < 4 ∧ i = 3 + j := ⟨i - 3, by omega, by omega⟩
    have := hrot j hj
    have e1' : (fun t => nth (expF .SE3 eps (x t)) (3 + j)) = fun t => nth (expF .SO3 eps [nth (x t) 3, nth (x t) 4, nth (x t) 5]) j := by
      funext t
      interval_cases j <;> simp [expF, se3Exp, SE3.toList, tose3, Vec3.toList, Quat.toList, v3]
    have hJ3 : (JlMat .SO3 eps ((fun t => [nth (x t) 3, nth (x t) 4, nth (x t) 5]) 0)).mulVec [d3, d4, d5] = [d3, d4, d5] := by
      simp only [JlMat, v3, nth_cons_zero, nth_cons_succ, z3, z4, z5, so3Jl_zero eps (le_of_lt heps)]
      simp [Mat3.toRows, Mat3.one, Vec3.toList, Vec3.e0, Vec3.e1, Vec3.e2, DMat.mulVec, ddot_cons]
    have hv3 : expF .SO3 eps ((fun t => [nth (x t) 3, nth (x t) 4, nth (x t) 5]) 0) = [0, 0, 0, 1] := by
      have hn : ¬ eps < (⟨0, 0, 0⟩ : Vec3 ℝ).norm := by rw [norm_zero3]; exact not_lt.mpr (le_of_lt heps)
      simp only [expF, v3, nth_cons_zero, nth_cons_succ, z3, z4, z5, so3Exp_taylor eps _ hn]
      simp [Quat.mk', Vec3.smul, Vec3.normSq, Quat.toList]
    rw [hJ3, hv3] at this
    rw [e1']
    refine this.congr_deriv ?_
    interval_cases j <;>
      simp [liftG, liftQ, Vec3.toList, Quat.toList, v3, qt, Quat.mul, Quat.mk', Vec3.smul]

/-- at the zero vector -/
theorem se3Exp_tangent_zero (eps : ℝ) (heps : 0 < eps) (x : ℝ → DVec ℝ) (d0 d1 d2 d3 d4 d5 : ℝ)
    (hx : LCurve 6 x [d0, d1, d2, d3, d4, d5]) (hzt : v3 (x 0) = ⟨0, 0, 0⟩) (hzp : v3 (x 0) 3 = ⟨0, 0, 0⟩) :
    LCurve 7 (fun t => expF .SE3 eps (x t))
      (liftG .SE3 (expF .SE3 eps (x 0)) ((JlMat .SE3 eps (x 0)).mulVec [d0, d1, d2, d3, d4, d5])) :=
  se3Exp_tangent_zerorot eps heps x d0 d1 d2 d3 d4 d5 hx hzp

/-- `t ↦ (1 − K(ψ)/2 + K(ψ)²/12)·x` along curves `ψ(t)` through `0` and `x(t)`: velocity `ẋ − ψ̇×x/2` -/
theorem jlinvTaylor_curve (p0 p1 p2 x0 x1 x2 : ℝ → ℝ) (b0 b1 b2 c0 c1 c2 : ℝ)
    (hp0 : HasDerivAt p0 b0 0) (hp1 : HasDerivAt p1 b1 0) (hp2 : HasDerivAt p2 b2 0)
    (hx0 : HasDerivAt x0 c0 0) (hx1 : HasDerivAt x1 c1 0) (hx2 : HasDerivAt x2 c2 0)
    (z0 : p0 0 = 0) (z1 : p1 0 = 0) (z2 : p2 0 = 0) :
    LCurve 3 (fun t => ((polyK 1 (-(1/2)) (1/12) ⟨p0 t, p1 t, p2 t⟩).mulVec ⟨x0 t, x1 t, x2 t⟩).toList)
      [c0 - 1/2 * (b1 * x2 0 - b2 * x1 0), c1 - 1/2 * (b2 * x0 0 - b0 * x2 0), c2 - 1/2 * (b0 * x1 0 - b1 * x0 0)] := by
  have e0 := hp0.differentiableAt; have e1 := hp1.differentiableAt; have e2 := hp2.differentiableAt
  have f0 := hx0.differentiableAt; have f1 := hx1.differentiableAt; have f2 := hx2.differentiableAt
  intro i hi
  interval_cases i
  all_goals
    simp only [polyK, Vec3.toList, nth_cons_zero, nth_cons_succ]
    lie_unfold
    try simp only [nth_cons_zero, nth_cons_succ]
    refine HasDerivAt.congr_deriv (DifferentiableAt.hasDerivAt (by fun_prop)) ?_
    simp (disch := fun_prop) only [deriv_fun_add, deriv_fun_sub, deriv_fun_mul, deriv_const, deriv_const_mul_field,
      deriv.fun_neg, hp0.deriv, hp1.deriv, hp2.deriv, hx0.deriv, hx1.deriv, hx2.deriv]
    simp only [z0, z1, z2]
    ring

/-- **`SE3_Log.backward` at the identity rotation** (any translation; either quaternion representative): exact -/
theorem SE3Log_tangent_identity (eps : ℝ) (heps : 0 < eps) (X : ℝ → DVec ℝ) (a0 a1 a2 a3 a4 a5 : ℝ)
    (hX : LCurve 7 X (liftG .SE3 (X 0) [a0, a1, a2, a3, a4, a5])) (hv : (qt (X 0) 3).vec = ⟨0, 0, 0⟩)
    (hw : nth (X 0) 6 * nth (X 0) 6 = 1) :
    LCurve 6 (fun t => logF .SE3 eps (X t))
      ((JlInvMat .SE3 eps (logF .SE3 eps (X 0))).mulVec [a0, a1, a2, a3, a4, a5]) := by
  have h0 := hX 0 (by norm_num); have h1 := hX 1 (by norm_num); have h2 := hX 2 (by norm_num); have h3 := hX 3 (by norm_num)
  have h4 := hX 4 (by norm_num); have h5 := hX 5 (by norm_num); have h6 := hX 6 (by norm_num)
  have z3 : nth (X 0) 3 = 0 := by have := congrArg Vec3.x hv; simpa [qt, Quat.vec] using this
  have z4 : nth (X 0) 4 = 0 := by have := congrArg Vec3.y hv; simpa [qt, Quat.vec] using this
  have z5 : nth (X 0) 5 = 0 := by have := congrArg Vec3.z hv; simpa [qt, Quat.vec] using this
  set w := nth (X 0) 6 with hw'
  set u0 := nth (X 0) 0 with hu0
  set u1 := nth (X 0) 1 with hu1
  set u2 := nth (X 0) 2 with hu2
  have hwne : w ≠ 0 := by intro h; rw [h] at hw; norm_num at hw
  simp only [liftG, liftQ, qt, v3, nth_cons_zero, nth_cons_succ, Quat.toList, Vec3.toList, Quat.mul, Quat.mk', Vec3.smul, Vec3.add,
    Vec3.cross, List.cons_append, List.nil_append, z3, z4, z5, ← hw', ← hu0, ← hu1, ← hu2] at h0 h1 h2 h3 h4 h5 h6
  have e0 := h0.differentiableAt; have e1 := h1.differentiableAt; have e2 := h2.differentiableAt; have e3 := h3.differentiableAt
  have e4 := h4.differentiableAt; have e5 := h5.differentiableAt; have e6 := h6.differentiableAt
  have hw6 : nth (X 0) 6 ≠ 0 := hwne
  have hden : 3 * (nth (X 0) 6 * nth (X 0) 6 * nth (X 0) 6) ≠ 0 := mul_ne_zero (by norm_num) (mul_ne_zero (mul_ne_zero hwne hwne) hwne)
  -- regime 3 of SO3_Log eventually
  have hNc : ContinuousAt (fun t => Real.sqrt (nth (X t) 3 * nth (X t) 3 + nth (X t) 4 * nth (X t) 4 + nth (X t) 5 * nth (X t) 5)) 0 :=
    (((h3.continuousAt.mul h3.continuousAt).add (h4.continuousAt.mul h4.continuousAt)).add (h5.continuousAt.mul h5.continuousAt)).sqrt
  have hev1 : ∀ᶠ t in nhds (0:ℝ), ¬ eps < (qt (X t) 3).vec.norm := by
    have : ∀ᶠ t in nhds (0:ℝ), Real.sqrt (nth (X t) 3 * nth (X t) 3 + nth (X t) 4 * nth (X t) 4 + nth (X t) 5 * nth (X t) 5) < eps := by
      apply hNc.eventually (gt_mem_nhds _)
      simp [z3, z4, z5, heps]
    filter_upwards [this] with t ht
    have : (qt (X t) 3).vec.norm = Real.sqrt (nth (X t) 3 * nth (X t) 3 + nth (X t) 4 * nth (X t) 4 + nth (X t) 5 * nth (X t) 5) := by
      simp [Vec3.norm, Vec3.normSq, qt, Quat.vec]
    rw [this]; exact not_lt.mpr (le_of_lt ht)
  -- the regime-3 logarithm as an explicit curve ψ(t), continuous, ψ(0) = 0: eventually ‖ψ‖ ≤ eps (Taylor branch of so3_Jl_inv)
  let F : ℝ → ℝ := fun t => 2 * (1 / nth (X t) 6 - (nth (X t) 3 * nth (X t) 3 + nth (X t) 4 * nth (X t) 4 + nth (X t) 5 * nth (X t) 5) /
      (3 * (nth (X t) 6 * nth (X t) 6 * nth (X t) 6)))
  have hFd : DifferentiableAt ℝ F 0 := by
    show DifferentiableAt ℝ (fun t => 2 * (1 / nth (X t) 6 - (nth (X t) 3 * nth (X t) 3 + nth (X t) 4 * nth (X t) 4 + nth (X t) 5 * nth (X t) 5) /
      (3 * (nth (X t) 6 * nth (X t) 6 * nth (X t) 6)))) 0
    fun_prop (disch := assumption)
  have hψc : ContinuousAt (fun t => Real.sqrt ((F t * nth (X t) 3) * (F t * nth (X t) 3) + (F t * nth (X t) 4) * (F t * nth (X t) 4)
      + (F t * nth (X t) 5) * (F t * nth (X t) 5))) 0 := by
    have cF := hFd.continuousAt
    have c3 := h3.continuousAt; have c4 := h4.continuousAt; have c5 := h5.continuousAt
    exact ((((cF.mul c3).mul (cF.mul c3)).add ((cF.mul c4).mul (cF.mul c4))).add ((cF.mul c5).mul (cF.mul c5))).sqrt
  have hev2 : ∀ᶠ t in nhds (0:ℝ), Real.sqrt ((F t * nth (X t) 3) * (F t * nth (X t) 3) + (F t * nth (X t) 4) * (F t * nth (X t) 4)
      + (F t * nth (X t) 5) * (F t * nth (X t) 5)) < eps := by
    apply hψc.eventually (gt_mem_nhds _)
    simp [z3, z4, z5, heps]
  have hnz0 : ¬ eps < (qt (X 0) 3).vec.norm := by
    rw [hv]; simp [Vec3.norm, Vec3.normSq]; exact le_of_lt heps
  have hlog0 : SO3Log eps (qt (X 0) 3) = ⟨0, 0, 0⟩ := by
    rw [SO3Log_regime3 eps _ hnz0, hv]; simp [Vec3.smul]
  have hJI0 : so3JlInv eps ⟨0, 0, 0⟩ = Mat3.one := so3JlInv_zero eps (le_of_lt heps)
  have hval : logF .SE3 eps (X 0) = [u0, u1, u2, 0, 0, 0] := by
    simp only [logF, SE3Log, toSE3, hlog0, hJI0]
    simp [se3.toList, Vec3.toList, v3, Mat3.mulVec, Mat3.one, Vec3.dot, Vec3.e0, Vec3.e1, Vec3.e2, ← hu0, ← hu1, ← hu2]
  have hJ : (JlInvMat .SE3 eps (logF .SE3 eps (X 0))).mulVec [a0, a1, a2, a3, a4, a5]
      = [a0 - 1/2 * (u1 * a5 - u2 * a4), a1 - 1/2 * (u2 * a3 - u0 * a5), a2 - 1/2 * (u0 * a4 - u1 * a3), a3, a4, a5] := by
    rw [hval]
    simp only [JlInvMat, se3JlInv, tose3, v3, nth_cons_zero, nth_cons_succ, hJI0, calcQ_phi_zero]
    simp [Mat3.toRows, Vec3.toList, DMat.block, DMat.hcat, DMat.vcat, DMat.zero, DVec.zero, DMat.mulVec, ddot_cons]
    lie_unfold
    refine ⟨?_, ?_, ?_, ?_, ?_, ?_⟩ <;> ring
  rw [hJ]
  -- the regime-3 logarithm ψ(t) = v(t)·F(t): velocity a₃₄₅
  have hψ : ∀ j, j < 3 → HasDerivAt (fun t => 2 * (1 / nth (X t) 6 - (nth (X t) 3 * nth (X t) 3 + nth (X t) 4 * nth (X t) 4 + nth (X t) 5 * nth (X t) 5) /
      (3 * (nth (X t) 6 * nth (X t) 6 * nth (X t) 6))) * nth (X t) (3 + j)) (nth [a3, a4, a5] j) 0 := by
    intro j hj
    interval_cases j
    all_goals
      simp only [Nat.reduceAdd, nth_cons_zero, nth_cons_succ]
      refine HasDerivAt.congr_deriv (DifferentiableAt.hasDerivAt (by fun_prop (disch := assumption))) ?_
      simp (disch := first | assumption | fun_prop (disch := assumption)) only [deriv_fun_add, deriv_fun_sub, deriv_fun_mul,
        deriv_fun_div, deriv_const, deriv_const_mul_field, h3.deriv, h4.deriv, h5.deriv, h6.deriv]
      simp only [z3, z4, z5, ← hw']
      field_simp
      try ring_nf
      try (rw [show w ^ 2 = 1 by rw [pow_two]; exact hw]; ring)
  have hψ0 := hψ 0 (by norm_num); have hψ1 := hψ 1 (by norm_num); have hψ2 := hψ 2 (by norm_num)
  simp only [Nat.reduceAdd, nth_cons_zero, nth_cons_succ, Nat.add_zero] at hψ0 hψ1 hψ2
  have htr := jlinvTaylor_curve _ _ _ _ _ _ a3 a4 a5 _ _ _ hψ0 hψ1 hψ2 h0 h1 h2 (by simp [z3]) (by simp [z4]) (by simp [z5])
  intro i hi
  by_cases hi3 : i < 3
  · have := htr i hi3
    have e : nth [a0 - 1/2 * (u1 * a5 - u2 * a4), a1 - 1/2 * (u2 * a3 - u0 * a5), a2 - 1/2 * (u0 * a4 - u1 * a3), a3, a4, a5] i
        = nth [a0 + (a4 * u2 - a5 * u1) - 1/2 * (a4 * nth (X 0) 2 - a5 * nth (X 0) 1), a1 + (a5 * u0 - a3 * u2) - 1/2 * (a5 * nth (X 0) 0 - a3 * nth (X 0) 2),
            a2 + (a3 * u1 - a4 * u0) - 1/2 * (a3 * nth (X 0) 1 - a4 * nth (X 0) 0)] i := by
      interval_cases i <;> simp only [nth_cons_zero, nth_cons_succ, ← hu0, ← hu1, ← hu2] <;> ring
    rw [e]
    refine this.congr_of_eventuallyEq ?_
    filter_upwards [hev1, hev2] with t ht1 ht2
    have hψn : ¬ eps < ((qt (X t) 3).vec.smul (2 * (1 / (qt (X t) 3).w - (qt (X t) 3).vec.normSq /
        (3 * ((qt (X t) 3).w * (qt (X t) 3).w * (qt (X t) 3).w))))).norm := by
      apply not_lt.mpr
      have : ((qt (X t) 3).vec.smul (2 * (1 / (qt (X t) 3).w - (qt (X t) 3).vec.normSq /
        (3 * ((qt (X t) 3).w * (qt (X t) 3).w * (qt (X t) 3).w))))).norm
          = Real.sqrt ((F t * nth (X t) 3) * (F t * nth (X t) 3) + (F t * nth (X t) 4) * (F t * nth (X t) 4) + (F t * nth (X t) 5) * (F t * nth (X t) 5)) := by
        simp [Vec3.norm, Vec3.normSq, Vec3.smul, qt, Quat.vec, F]
      rw [this]; exact le_of_lt ht2
    simp only [logF, SE3Log, toSE3, SO3Log_regime3 eps _ ht1, so3JlInv_taylor eps _ hψn, se3.toList]
    interval_cases i <;> simp [Vec3.toList, Vec3.smul, Vec3.normSq, Quat.vec, qt, v3]
  · obtain ⟨j, hj, rfl⟩ : ∃ j, j < 3 ∧ i = 3 + j := ⟨i - 3, by omega, by omega⟩
    have := hψ j hj
    have e : nth [a0 - 1/2 * (u1 * a5 - u2 * a4), a1 - 1/2 * (u2 * a3 - u0 * a5), a2 - 1/2 * (u0 * a4 - u1 * a3), a3, a4, a5] (3 + j)
        = nth [a3, a4, a5] j := by interval_cases j <;> simp
    rw [e]
    refine this.congr_of_eventuallyEq ?_
    filter_upwards [hev1] with t ht1
    simp only [logF, SE3Log, toSE3, SO3Log_regime3 eps _ ht1, se3.toList]
    interval_cases j <;> simp [Vec3.toList, Vec3.smul, Vec3.normSq, Quat.vec, qt, v3]

end PP.AD
