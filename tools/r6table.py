#!/usr/bin/env python3
"""regenerate the round-6 part of DESIGN.md §10.2 (between the R6 markers) from seeded/*-6 and seeded/harmless/*"""
import json, glob, re, os
V = "/verif"
def one(s, n=230):
    s = " ".join(str(s).split())
    return (s[:n] + "…") if len(s) > n else s
rows, det, missed, nofail = [], 0, 0, 0
for d in sorted(glob.glob(f"{V}/seeded/C??-6")):
    m = json.load(open(d + "/meta.json")); v = m.get("verif", {})
    fr = v.get("first_run", "?")
    if fr == "detected": det += 1; f = "detected"
    elif fr == "nofail": nofail += 1; f = "**violation without a failing input**"
    else: missed += 1; f = "**missed**"
    caught = v.get("retest") or (v.get("note", "") if fr == "detected" else "requested (see note): " + one(v.get("note", ""), 160))
    rows.append(f"| {os.path.basename(d)} | {one(m.get('summary',''), 260).replace('|','/')} | {one(m.get('needs',''), 200).replace('|','/')} | {f} | {one(caught, 260).replace('|','/')} |")
hs = sorted(glob.glob(f"{V}/seeded/harmless/*"))
quiet = [h for h in hs if json.load(open(h + "/meta.json")).get("verif", {}).get("first_run") == "quiet"]
alarms = [(os.path.basename(h), json.load(open(h + "/meta.json"))["verif"]) for h in hs if h not in quiet]
hsum = (f"{len(hs)} delivered, {len(quiet)} quiet on every check they were run against at the first run. "
        + (" ".join(f"**False alarm** on {n}: {one(v.get('first_run',''), 300)}" + (f" — now: {v['retest']}." if v.get('retest') else "") for n, v in alarms) if alarms else ""))
tot = (f"Round 6 ({len(rows)} breaking changes delivered): {det} detected at the first run, {nofail} reported only as a violation without a failing input, "
       f"{missed} missed → classes (39)–(52) (full text `docs/lessons7.txt`).")
block = ("<!-- R6 BEGIN -->\n*Harmless rewrites:* " + hsum + "\n\n| seed | change (one line) | needs | first run | caught by (after strengthening) |\n|---|---|---|---|---|\n"
         + "\n".join(rows) + "\n\n" + tot + "\n<!-- R6 END -->")
p = f"{V}/DESIGN.md"; s = open(p).read()
if "<!-- R6 BEGIN -->" in s:
    s = re.sub(r"<!-- R6 BEGIN -->.*?<!-- R6 END -->", lambda _: block, s, flags=re.S)
else:
    a = s.index("*Harmless rewrites:* ROUND6_H_SUMMARY"); b = s.index("ROUND6_TOTALS") + len("ROUND6_TOTALS")
    s = s[:a] + block + s[b:]
open(p, "w").write(s)
print(tot); print(hsum[:300])
