"""C08 — LM never accepts a worse loss, restores rejected trials, reports the true loss.

Model: lean/Pose/Model/LMLoop.lean; theorems: lean/Proofs/Props/C08.lean (lm_halts, trials_le,
returns_loss_at_params, monotone_unless_exhausted, reject_restores, solver_raise_safe, lm_accept_spec,
lm_raise_spec, lmCall_spec, lmRun_consistent, adaptive_step, trust_step, *_bounds, gn_step_spec, …).

Everything is observed through public API only: a recording *solver* (user-supplied solvers are part of
the property's quantifier; it can scale the real solution to engineer k worse trials, return a scripted
step, or raise at the j-th solve), a recording *strategy* wrapper around the real library strategy, and
the optimizer attributes `loss / last / reject_count / param_groups` and the model parameters.

Correspondence streams (implementation vs the Lean model run in 192-bit arithmetic)
  upd      : `strategy.update` called directly on engineered (pg, last, loss, J, D, R): qualities in thin
             bands around `high` / `low` (and exactly on them), dampings on / next to `min` / `max`,
             zero steps (quality NaN), both dtypes — damping / radius / down after the update;
  hist     : 30 consecutive updates on one `pg` (state carried along) vs `stratRun`;
  lm       : histories of ≤ 30 `step()` calls on residual models (linear well/ill conditioned, cubic,
             Rosenbrock, exponential fit, arctan, SO3/SE3 pose inversion, mixed Lie+Euclidean with two
             kernels, scripted 1-D) with `k = 0..reject+1` engineered worse trials per call, `reject` in
             0..16, the three strategies with random legal hyper-parameters, solver raising at the j-th
             solve: the model is driven by the observed trial losses and must reproduce every decision
             (restored / kept / break), `reject_count`, `loss`, `last`, the number of solves and the
             damping / radius / down after every trial;
  gn       : GaussNewton histories (returned loss, `last`, raising solver);
  loss     : `RobustModel.loss` vs `robustLoss` (kernel dispatch, sum over the last dimension).
Hardening pass (DESIGN §10.2 classes): a deterministic corner corpus runs first (`run_corpus`, independent of
VERIF_SEED); `edithist` stream (one strategy object serving several param groups of different size/dtype, caller edits of
pg between updates); pairs of optimizers sharing one strategy object; per-call presentation of the same data as plain /
clone / strided / slice / transposed views with sentinels; parameters that are views of larger buffers; caller edits of
`optimizer.reject` and `param_groups` between calls; shared solver / kernel objects; extreme-but-valid settings
(reject 24/40, hyper-parameters 1e±30, scales 1e±8, start on the optimum); mixed-regime items in the loss stream.
Hardening pass 2 (kinds 10–18): argument combinations (weight in ctor / step, explicit correctors, kernel spellings,
positional / keyword constructors and step(), input containers, folded target, frozen parameters), the user's model
raising inside step() (atomic before the first trial), twins = the same history under a value-preserving variation (grad
modes, operands requiring grad, containers, call styles, state_dict copy of the optimizer taking over while the original is
used in between, copy / deepcopy / pickle of the strategy), interleaved groups of GN / LM / dtypes, special sizes and
rank-3 outputs, trial losses a couple of ulps worse / better.
Oracles on the real code (each is a clause of the property itself, evaluated directly):
  true-loss, monotone-unless-exhausted, restore, solver-raise, trials ≤ reject+1, state continuity,
  documented strategy transition, [min,max] bounds, GN bookkeeping, purity of the caller's tensors / buffers / callback
  arguments, configuration and strategy-object attributes untouched, values handed out earlier never change, the update
  really moved the parameters, loop-law (every decision), crash / wrong return type → failing input.
"""
from __future__ import annotations

import contextlib
import copy as _copy_module
import io
import math
from fractions import Fraction

import torch
from torch import nn

from . import common
from .common import Ctx, to_wire, wire_list

META = {
    "rule": "upd: engineered (strategy, hyper-parameters, pg, quality) with the quality placed at thresholds*(1±2^-k), "
            "exactly on thresholds (dyadic data), negative, zero-step (NaN), huge; damping on/near min/max; "
            "hist: 30 updates threaded on one pg; lm/gn: scenario = (family, seed, dtype, kernel, solver, strategy+hyper, "
            "reject 0..16, per-call number k of engineered worse trials 0..reject+1, global raise positions, ≤30 calls); "
            "scripted 1-D scenarios enumerate every ending (accept / equal / exhausted / raise) after k rejections for "
            "every k ≤ reject+1; a case (= one step() call or one update) is non-trivial when at least one trial or a "
            "non-identity update happened, distinct by (stream, family, strategy, reject, k, ending, dtype, call bucket)",
    "trusted": ["the user model's forward (residuals) and torch autograd for its Jacobian (external; J is property C04/C07)",
                "the linear solve itself (the solver is property C07/C10): returns D or raises; what it is handed is compared with the model for "
                "unweighted dense trials: A's off-diagonal part = JᵀJ and b = −JᵀR (stream normal, `SolvesDamped`), A's diagonal = "
                "clamp(diag JᵀJ)·Π(1+damping) over the trials of the call (stream diag, `lmDiag`)"],
    "assumptions": ["retr (retr p d) (neg d) = p (hypothesis hinv of the loop theorems): exact over ℝ for Euclidean parameters "
                    "(vec_retr_inv) and for SO3 in the closed-form branch (so3_retr_inv); on the real code checked up to "
                    "round-off of the retraction by the `restore` oracle",
                    "same data on every call and nobody else writes the parameters between calls (the property's premise)",
                    "h.smin ≤ h.smax and 0 < h.smin for the bound theorems (constructor does not assert it; generated only rarely otherwise "
                    "and then only the transition, not the bound, is checked)"],
    "partial": ["IEEE: comparisons `last < loss`, `quality > high` are modelled over ℝ; a quality within rounding distance of a "
                "threshold is accepted on either side (measured, not proved); the sign of a zero denominator is an input of the model (`verdictZ`); "
                "a NaN/inf produced by the code from finite in-range inputs is a failure, a non-finite value coming from the user model, autograd, "
                "the solver or dtype overflow ends the scenario (counted as abandoned.<cause>)",
                "restore is proved exactly (retraction contract); 'up to round-off' on floats is measured by the restore oracle"],
}


def pp():
    import pypose
    return pypose


EPS = dict(common.EPS, float16=2.0 ** -10, bfloat16=2.0 ** -7)
KINDS = {"constant": 0, "adaptive": 1, "trust": 2}
VERDICTS = ["very", "ok", "bad"]
KCODE = {"huber": 1, "pseudohuber": 2, "cauchy": 3, "shift": 4}


# ============================================================================ small helpers

def raw(t):
    """plain detached clone of a (Lie)Tensor / Parameter"""
    return torch.Tensor.as_subclass(t.detach(), torch.Tensor).clone()


def fl(x) -> float:
    return float(x)


def frac(x) -> Fraction:
    return cfr(x)


def rel_close(a: float, b: Fraction, tol: float) -> bool:
    if not math.isfinite(a):
        return False                     # a NaN/inf of the implementation agrees with no model value
    a = Fraction(a)
    if a == b:
        return True
    # gradual underflow: below 2^-1022 the spacing of doubles is the absolute 2^-1074, not relative eps
    return abs(a - b) <= Fraction(tol) * max(abs(a), abs(b)) + Fraction(8, 2 ** 1074)


FMAX = 1.7976931348623157e308


def wf(x) -> str:
    """wire token; ±inf (overflowed trial loss) travels as ±max float — same side of every comparison"""
    x = float(x)
    if math.isinf(x):
        x = FMAX if x > 0 else -FMAX
    return to_wire(x)


def cfr(x) -> Fraction:
    """Fraction of a float with ±inf clamped to ±max float (the convention of `wf`)"""
    x = float(x)
    if math.isinf(x):
        x = FMAX if x > 0 else -FMAX
    return Fraction(x)


def far(a, b, tol, dtype) -> bool:
    """|a - b| > tol, where a float32/float64 `inf` agrees with any true value beyond that dtype's range"""
    xmax = max(getattr(a, "xmax", 0.0), getattr(b, "xmax", 0.0))   # largest ‖r‖² (an intermediate of the loss)
    a, b = float(a), float(b)
    if math.isnan(a) or math.isnan(b):
        return True                      # NaN agrees with nothing (every `x > tol` test is False on NaN)
    if math.isinf(a) or math.isinf(b):
        big = float(torch.finfo(getattr(torch, dtype)).max) / 4
        return not (min(a, b) > big or max(a, b) < -big or xmax > big)
    return not (abs(a - b) <= tol)


def all_finite(*tensors) -> bool:
    return all(bool(torch.isfinite(torch.Tensor.as_subclass(t.detach(), torch.Tensor)).all()) for t in tensors)


def pg_state(pg) -> dict:
    return {k: float(pg[k]) for k in ("damping", "radius", "down") if k in pg}


def pg_hyper(pg, strat) -> dict:
    """read-only entries as the update will see them"""
    return {"high": float(pg.get("high", 1.0)), "low": float(pg.get("low", 1.0)), "up": float(pg.get("up", 2.0)),
            "factor": float(pg.get("factor", 0.5)), "down0": float(getattr(strat, "down", pg.get("down", 0.5))),
            "smin": float(getattr(strat, "min", 1.0)), "smax": float(getattr(strat, "max", 1.0))}


def hyper_wire(h) -> str:
    return wire_list([h["high"], h["low"], h["up"], h["factor"], h["down0"], h["smin"], h["smax"]])


def state_wire(s) -> str:
    return wire_list([s["damping"], s.get("radius", 1.0), s.get("down", 0.5)])


def make_strategy(spec, positional=False):
    S = pp().optim.strategy
    kind = spec["kind"]
    if positional:      # same arguments by position (constructor signatures of strategy.py)
        if kind == "constant":
            return S.Constant(spec["damping"])
        if kind == "adaptive":
            return S.Adaptive(spec["damping"], spec["high"], spec["low"], spec["up"], spec["down"], spec["min"], spec["max"])
        return S.TrustRegion(spec["radius"], spec["high"], spec["low"], spec["up"], spec["down"], spec["factor"],
                             spec["min"], spec["max"])
    if kind == "constant":
        return S.Constant(damping=spec["damping"])
    if kind == "adaptive":
        return S.Adaptive(damping=spec["damping"], high=spec["high"], low=spec["low"], up=spec["up"], down=spec["down"],
                          min=spec["min"], max=spec["max"])
    return S.TrustRegion(radius=spec["radius"], high=spec["high"], low=spec["low"], up=spec["up"], down=spec["down"],
                         factor=spec["factor"], min=spec["min"], max=spec["max"])


def classify(qv, high, low) -> str:
    if qv is None:
        return "bad"  # NaN
    if qv > high:
        return "very"
    if qv > low:
        return "ok"
    return "bad"


def doc_update(kind, h, s, verdict):
    """the documented update rule (docstrings of strategy.py), float arithmetic — used as the oracle on the real
    code once model and implementation disagree"""
    clamp = lambda x: max(h["smin"], min(x, h["smax"]))
    s = dict(s)
    if kind == "constant":
        return s
    if kind == "adaptive":
        d = s["damping"] * s["down"] if verdict == "very" else (s["damping"] if verdict == "ok" else s["damping"] * h["up"])
        s["damping"] = clamp(d)
        return s
    r = 1.0 / s["damping"]
    if verdict == "very":
        r, dn = h["up"] * r, h["down0"]
    elif verdict == "ok":
        r, dn = r, h["down0"]
    else:
        r, dn = r * s["down"], s["down"] * h["factor"]
    s["down"], s["radius"] = clamp(dn), clamp(r)
    s["damping"] = 1.0 / s["radius"]
    return s


def quality_exact(last, loss, J, D, R):
    """exact (Fraction) numerator, denominator and conditioning of the documented step quality"""
    Jf = [[frac(v) for v in row] for row in J.tolist()]
    Df = [frac(v) for v in D.flatten().tolist()]
    Rf = [frac(v) for v in R.flatten().tolist()]
    u = [sum((a * b for a, b in zip(row, Df)), Fraction(0)) for row in Jf]
    terms = [ui * (2 * r + ui) for ui, r in zip(u, Rf)]
    den = -sum(terms, Fraction(0))
    num = frac(last) - frac(loss)
    mag = sum((abs(t) for t in terms), Fraction(0))
    umag = [sum((abs(a * b) for a, b in zip(row, Df)), Fraction(0)) for row in Jf]
    mag2 = sum((um * (2 * abs(r) + um) for um, r in zip(umag, Rf)), Fraction(0))
    return num, den, max(mag, mag2)


def quality_float(last, loss, J, D, R):
    """replica of the float computation (same expression as strategy.py) — only used to recognise the *exact regime*"""
    with torch.no_grad():
        qv = (last - loss) / -((J @ D).mT @ (2 * R + J @ D)).squeeze()
    return float(qv)


def den_sign_bit(J, D, R) -> int:
    """sign bit of the denominator exactly as strategy.py computes it: `-((J @ D).mT @ (2 * R + J @ D)).squeeze()`
    (1 = the float is negative or -0.)"""
    with torch.no_grad():
        den = -((J @ D).mT @ (2 * R + J @ D)).squeeze()
    return int(bool(torch.signbit(den)))


def allowed_verdicts(h, last, loss, J, D, R, dtype):
    """verdicts the floating-point code may legitimately reach: the exact one, plus its neighbours when the exact
    quality is within rounding distance of a threshold. In the exact regime (the float replica reproduces the exact
    quality) only the exact verdict."""
    num, den, mag = quality_exact(last, loss, J, D, R)
    eps = EPS[dtype]
    if den == 0:
        if num == 0:
            return {"bad"}, None
        # x / ±0. = ±inf: the sign of the zero decides (model `verdictZ`); the code's zero is -0. when J D = 0
        neg = den_sign_bit(J, D, R) == 1
        return {"very" if ((num > 0) != neg) else "bad"}, None
    qx = num / den
    out = {classify(qx, Fraction(h["high"]), Fraction(h["low"]))}
    qf = quality_float(last, loss, J, D, R)
    if not math.isfinite(qf) or not all_finite(J @ D, (J @ D).mT @ (2 * R + J @ D)) or math.isinf(float(loss)):
        # an intermediate overflowed the dtype (inf/inf = NaN, ...): outside the modelled domain, any branch
        return {"very", "ok", "bad"}, qx
    # torch compares a tensor with the Python-float threshold after converting the threshold to the tensor's dtype
    tdt = getattr(torch, dtype)
    hr, lr = float(torch.tensor(h["high"], dtype=tdt)), float(torch.tensor(h["low"], dtype=tdt))
    out.add(classify(qx, cfr(hr), cfr(lr)))
    if math.isfinite(qf) and Fraction(qf) == qx:
        return out, qx
    cond = (mag / abs(den)) if den != 0 else Fraction(1)
    lmag = abs(frac(last)) + abs(frac(loss))
    cn = (lmag / abs(num)) if num != 0 else Fraction(1)
    delta = Fraction(16 * eps) * (1 + cond + cn) + Fraction(4 * eps)  # + rounding of the threshold to the dtype
    for sgn in (-1, 1):
        qq = qx * (1 + sgn * delta)
        out.add(classify(qq, Fraction(h["high"]), Fraction(h["low"])))
        for thr_scale in (1 - 2 * eps, 1 + 2 * eps):
            out.add(classify(qq, Fraction(h["high"]) * Fraction(thr_scale), Fraction(h["low"]) * Fraction(thr_scale)))
    if math.isfinite(qf):
        out.add(classify(qf, h["high"], h["low"]))
        out.add(classify(Fraction(qf), cfr(hr), cfr(lr)))        # float quality against the threshold as rounded to the dtype
    # the band is an interval of qualities: every verdict between the extreme ones is reachable too
    order = ["bad", "ok", "very"]
    if Fraction(h["low"]) <= Fraction(h["high"]):
        idx = [order.index(v) for v in out]
        out = set(order[min(idx):max(idx) + 1])
    return out, qx


# ============================================================================ recording wrappers

def strategy_attrs(st) -> dict:
    """public state of a strategy object (must not be changed by `update`: all mutable state lives in pg)"""
    out = {}
    if isinstance(st, _InnerProxy):
        st = object.__getattribute__(st, "_obj")
    for k, v in vars(st).items():
        if k in ("vfh08_flavour",):
            continue
        if isinstance(v, dict):
            out[k] = dict(v)
        elif isinstance(v, (int, float, bool, str, type(None))):
            out[k] = v
    return out


def diff_attrs(a: dict, b: dict) -> list:
    return sorted(k for k in set(a) | set(b) if a.get(k, "<absent>") != b.get(k, "<absent>"))


class RecStrategy:
    """user-supplied strategy object: records what `update` is called with and what it does to pg"""

    def __init__(self, inner):
        self.vfh08_inner = inner
        self.defaults = inner.defaults
        self.vfh08_log = []
        self.vfh08_module = None

    # LM reads .min/.max nowhere; keep attribute access transparent
    def __getattr__(self, name):
        if name == "vfh08_inner" or name.startswith("__"):
            raise AttributeError(name)          # copy / pickle probe special names before `inner` exists
        return getattr(self.vfh08_inner, name)

    def update(self, pg, last, loss, J, D, R, *args, **kwargs):
        hyp = pg_hyper(pg, self.vfh08_inner)
        if getattr(self, "vfh08_doc_hyper", None):
            hyp.update(self.vfh08_doc_hyper)        # documented defaults, not values read back from the (default-constructed) object
        ev = {"pg_before": pg_state(pg), "hyper": hyp, "last": last.detach().clone(),
              "loss": loss.detach().clone(), "J": J.detach().clone(), "D": D.detach().clone(), "R": R.detach().clone(),
              "params": [raw(p) for p in self.vfh08_module.parameters()] if self.vfh08_module is not None else None,
              "refs": (J, D, R, last, loss), "pg_full_before": {k: v for k, v in pg.items() if k != "params"}}
        attrs = strategy_attrs(self.vfh08_inner)
        self.vfh08_inner.update(pg, last=last, loss=loss, J=J, D=D, R=R)
        ev["pg_after"] = pg_state(pg)
        ev["pg_full_after"] = {k: v for k, v in pg.items() if k != "params"}
        ev["strategy_attrs_changed"] = diff_attrs(attrs, strategy_attrs(self.vfh08_inner))
        ev["args_changed"] = [nm for nm, ref, cl in zip("J D R last loss".split(), ev["refs"],
                                                        (ev["J"], ev["D"], ev["R"], ev["last"], ev["loss"]))
                              if not torch.equal(torch.Tensor.as_subclass(ref.detach(), torch.Tensor), cl)]
        self.vfh08_log.append(ev)


_SUBCLS = {}


def rec_strategy_subclass(inner, flavour):
    """the recorder as a USER SUBCLASS of the library strategy class of `inner` (so that isinstance(strategy, Adaptive) holds
    for what LM receives). flavour 'delegate': update records and then applies the library rule of its base class;
    flavour 'props': like 'delegate', and `min` / `max` / `down` are properties of the subclass, not instance attributes;
    flavour 'own': update applies the user's own law (damping ×3 after a worse trial, ÷3 otherwise) — LM must call exactly
    this method, once per completed trial, and nothing else may touch pg."""
    base = type(inner)
    key = (base, flavour)
    if key not in _SUBCLS:
        def update(self, pg, last, loss, J, D, R, *args, **kwargs):
            RecStrategy.update(self, pg, last, loss, J, D, R, *args, **kwargs)

        def inner_update(self, pg, last, loss, J, D, R):
            if flavour == "own":
                pg["damping"] = pg["damping"] * 3.0 if bool(loss > last) else pg["damping"] / 3.0
            else:
                base.update(self, pg, last=last, loss=loss, J=J, D=D, R=R)
        members = {"update": update, "vfh08_apply": inner_update}
        if flavour == "props":
            # the subclass exposes min / max / down as PROPERTIES (computed from private fields) instead of attributes
            for nm_ in ("min", "max", "down"):
                members[nm_] = property(lambda self, _n=nm_: self.__dict__["vfh08_p_" + _n])
        _SUBCLS[key] = type("User" + base.__name__, (base,), members)
    obj = _copy_module.copy(inner)
    if flavour == "props":
        for nm_ in ("min", "max", "down"):
            if nm_ in obj.__dict__:
                obj.__dict__["vfh08_p_" + nm_] = obj.__dict__.pop(nm_)
            else:
                obj.__dict__["vfh08_p_" + nm_] = 1.0
    obj.__class__ = _SUBCLS[key]
    obj.vfh08_log, obj.vfh08_module, obj.vfh08_flavour = [], None, flavour
    obj.vfh08_inner = _InnerProxy(obj)
    return obj


class _InnerProxy:
    """what RecStrategy.update calls `self.vfh08_inner`: attribute reads go to the strategy object itself, `update` to its law"""

    def __init__(self, obj):
        object.__setattr__(self, "_obj", obj)

    def __getattr__(self, name):
        return getattr(object.__getattribute__(self, "_obj"), name)

    def update(self, pg, last, loss, J, D, R):
        o = object.__getattribute__(self, "_obj")
        return o.vfh08_apply(pg, last, loss, J, D, R)


def rec_solver_subclass(rec, base_name):
    """a user solver DERIVING from a shipped solver class; its forward is the recording solver `rec` around the base
    class's own forward"""
    S = pp().optim.solver
    base = {"cholesky": S.Cholesky, "pinv": S.PINV, "lstsq": S.LSTSQ}[base_name]

    class UserSolver(base):
        def forward(self, A, b):
            return rec(A, b)
    us = UserSolver()
    rec.inner = lambda A, b: base.forward(us, A, b)
    return us


class ScriptedFailure(RuntimeError):
    pass


class ModelFailure(RuntimeError):
    """raised by the user's model (scripted) — a user callback failing inside step()"""


class TrialLimit(BaseException):
    """raised by the recording solver when one call keeps asking for solves far beyond reject+1; a BaseException so
    that `except Exception` inside step() cannot swallow it (otherwise a non-terminating loop would hang the check)"""


class RecSolver:
    """user-supplied linear solver. `plan(call, trial, nsolve)` -> ("raise",) | ("scale", s) | ("target", fn)"""

    def __init__(self, inner, plan):
        self.inner, self.plan = inner, plan
        self.nsolve = 0
        self.call = 0
        self.trial = 0
        self.log = []
        self.opt = None
        self.module = None
        self.limit = 10 ** 9

    def __call__(self, A, b):
        if self.trial > self.limit:
            raise TrialLimit(f"{self.trial} solves in one call")
        act = self.plan(self.call, self.trial, self.nsolve)
        ev = {"nsolve": self.nsolve, "trial": self.trial, "params": [raw(p) for p in self.module.parameters()],
              "Ab_finite": bool(torch.isfinite(A).all()) and bool(torch.isfinite(b).all()) if not (A.is_sparse or A.layout != torch.strided) else True,
              "opt_loss": getattr(self.opt, "loss", None), "opt_last": getattr(self.opt, "last", None),
              "rc": getattr(self.opt, "reject_count", None), "action": act[0]}
        if ev["opt_loss"] is not None:
            ev["opt_loss"] = float(ev["opt_loss"])
        if ev["opt_last"] is not None:
            ev["opt_last"] = float(ev["opt_last"])
        self.nsolve += 1
        self.trial += 1
        self.log.append(ev)
        if act[0] == "raise":
            ev["raised"] = True
            raise ScriptedFailure("scripted solver failure")
        if act[0] == "target":
            D = act[1](A, b, self.module)
        else:
            try:
                D = self.inner(A=A, b=b)
            except Exception:
                ev["raised"] = True
                ev["action"] = "natural-raise"
                raise
            D = D * act[1]
        ev["raised"] = False
        ev["D"] = D.detach().clone()
        ev["D_ref"] = D
        if act[0] == "scale" and A.layout == torch.strided and A.numel() <= 900 and self.trial <= 2:
            # the linear system of this trial as the code built it (model `SolvesDamped`, op c08.normal)
            ev["A"], ev["b"], ev["scale"] = A.detach().clone(), b.detach().clone(), float(act[1])
        return D


# ============================================================================ residual model families

def _rand(g, *shape, dt=torch.float64):
    return torch.randn(*shape, generator=g, dtype=torch.float64).to(dt)


def build_problem(scn):
    """-> (module, input, target, lie_flags) deterministic in scn"""
    P = pp()
    dt = getattr(torch, scn["dtype"])
    g = torch.Generator().manual_seed(scn["fam_seed"])
    fam = scn["family"]
    if fam == "lin":
        n, M, d = scn["n"], scn["M"], scn["d"]
        rows = M * d
        if rows > 300:
            A = _rand(g, rows, n) * scn["ascale"]         # many residuals: plain random design matrix
        else:
            U, _ = torch.linalg.qr(_rand(g, rows, rows))
            V, _ = torch.linalg.qr(_rand(g, n, n))
            kk = min(rows, n)
            sv = torch.tensor([10.0 ** (-scn["logcond"] * i / max(1, kk - 1)) for i in range(kk)], dtype=torch.float64) * scn["ascale"]
            A = (U[:, :kk] * sv) @ V[:, :kk].T
        theta0 = _rand(g, n) * scn["start"]
        b = _rand(g, M, d)
        frozen, fold = scn.get("frozen"), scn.get("fold_target")
        off0 = (_rand(g, M, d) * 0.1) if frozen else None
        bt = b.to(dt)

        class Lin(nn.Module):
            def __init__(self):
                super().__init__()
                if frozen == "first":
                    self.off = nn.Parameter(off0.to(dt), requires_grad=False)
                self.theta = nn.Parameter(theta0.to(dt))
                if frozen == "last":
                    self.off = nn.Parameter(off0.to(dt), requires_grad=False)

            def forward(self, A):
                out = (A @ self.theta).view(M, d)
                if frozen:
                    out = out + self.off
                out = out - bt if fold else out
                return out.view(1, M, d) if out3d else out         # rank-3 output: the residual dimension is the LAST one
        out3d = bool(scn.get("out3d"))
        return Lin(), A.to(dt), (None if fold else (bt.view(1, M, d) if out3d else bt))
    if fam == "cubic":
        n = scn["n"]
        theta0 = (_rand(g, n) * scn["start"] + 2.0)
        x = _rand(g, n)

        class Cubic(nn.Module):
            def __init__(self):
                super().__init__()
                self.t = nn.Parameter(theta0.to(dt))

            def forward(self, x):
                return (self.t ** 3 - x).view(scn["M"], -1)
        return Cubic(), x.to(dt), None
    if fam == "rosen":
        theta0 = _rand(g, 2) * scn["start"] + torch.tensor([-1.2, 1.0], dtype=torch.float64)

        class Rosen(nn.Module):
            def __init__(self):
                super().__init__()
                self.t = nn.Parameter(theta0.to(dt))

            def forward(self, c):
                x, y = self.t[0], self.t[1]
                return torch.stack([c * (y - x * x), 1 - x]).view(2, 1)
        return Rosen(), torch.tensor(10.0, dtype=dt), None
    if fam == "expfit":
        tt = torch.linspace(0, 1, scn["M"], dtype=torch.float64)
        y = 2.0 * torch.exp(-1.5 * tt) + 0.01 * _rand(g, scn["M"])
        theta0 = torch.tensor([1.0, 0.0], dtype=torch.float64) + _rand(g, 2) * scn["start"]

        class ExpFit(nn.Module):
            def __init__(self):
                super().__init__()
                self.t = nn.Parameter(theta0.to(dt))

            def forward(self, tt):
                return (self.t[0] * torch.exp(self.t[1] * tt)).view(-1, 1)
        return ExpFit(), tt.to(dt), y.view(-1, 1).to(dt)
    if fam == "atan":
        n = scn["n"]
        theta0 = _rand(g, n) * scn["start"] + 3.0
        y = _rand(g, n) * 0.3

        class Atan(nn.Module):
            def __init__(self):
                super().__init__()
                self.t = nn.Parameter(theta0.to(dt))

            def forward(self, c):
                return torch.atan(c * self.t).view(-1, 1)
        return Atan(), torch.tensor(2.0, dtype=dt), y.view(-1, 1).to(dt)
    if fam in ("so3", "se3"):
        B = scn["M"]
        alg, da = (P.so3, 3) if fam == "so3" else (P.se3, 6)
        X0 = alg(_rand(g, B, da) * scn["start"]).Exp().to(dt)
        inp = alg(_rand(g, B, da) * 0.8).Exp().to(dt)

        class PoseInv(nn.Module):
            def __init__(self):
                super().__init__()
                self.pose = P.Parameter(X0)

            def forward(self, inp):
                return (self.pose @ inp).Log().tensor()
        return PoseInv(), inp, None
    if fam == "mixed":
        B = scn["M"]
        X0 = P.se3(_rand(g, B, 6) * scn["start"]).Exp().to(dt)
        inp = P.se3(_rand(g, B, 6) * 0.8).Exp().to(dt)
        w0 = _rand(g, 3) + 2.0
        c = _rand(g, 3) + 1.5

        class Mixed(nn.Module):
            def __init__(self):
                super().__init__()
                self.pose = P.Parameter(X0)
                self.w = nn.Parameter(w0.to(dt))

            def forward(self, inp, c):
                return (self.pose @ inp).Log().tensor(), (self.w * self.w * c - 1).view(1, 3)
        return Mixed(), (inp, c.to(dt)), None
    if fam == "alias":
        # a model whose outputs ARE its input (a view) and its parameter (a view): the library must not do in-place
        # arithmetic on what the callback returned
        n = scn["n"]
        theta0 = _rand(g, n) * scn["start"] + 1.0
        x = _rand(g, 1, n)
        b = _rand(g, 1, n) * 0.1

        class Alias(nn.Module):
            def __init__(self):
                super().__init__()
                self.t = nn.Parameter(theta0.to(dt))

            def forward(self, x):
                return x.view(1, n), self.t.view(1, n)
        return Alias(), x.to(dt), [None, b.to(dt)]
    if fam == "script1d":
        th0 = scn["start"]

        class S1(nn.Module):
            def __init__(self):
                super().__init__()
                self.t = nn.Parameter(torch.tensor([th0], dtype=dt))

            def forward(self, x):
                return (self.t * x).view(1, 1)
        return S1(), torch.tensor(1.0, dtype=dt), None
    raise ValueError(fam)


def make_kernels(spec):
    """spec: None | [name, delta] | [[name, delta] | None, ...]"""
    K = pp().optim.kernel
    if spec is None:
        return None
    def one(s):
        if s is None:
            return None
        key = (s[0], float(s[1]))      # kernel objects are shared between optimizers of one run as well
        if key not in _SHARED["kernels"]:
            if s[0] == "shift":
                # a USER kernel: derives from the shipped Huber and overrides forward (rho(x) = Huber(x) - delta², may be < 0)
                class ShiftedHuber(K.Huber):
                    def forward(self, input):
                        return super().forward(input) - self.delta2
                _SHARED["kernels"][key] = ShiftedHuber(s[1])
            else:
                _SHARED["kernels"][key] = {"huber": K.Huber, "pseudohuber": K.PseudoHuber, "cauchy": K.Cauchy}[s[0]](s[1])
        return _SHARED["kernels"][key]
    if isinstance(spec[0], str):
        return one(spec)
    return [one(s) for s in spec]


def kernel_list(spec):
    """normalised list of (name, delta) as RobustModel will see it"""
    if spec is None:
        return [None]
    if isinstance(spec[0], str):
        return [spec]
    return list(spec)


def rho(kspec, x):
    """documented kernel functions, float64 (independent of pypose.optim.kernel)"""
    if kspec is None:
        return x
    name, d = kspec
    if name == "huber":
        return torch.where(x.sqrt() < d, x, 2 * d * x.sqrt() - d * d)
    if name == "pseudohuber":
        return 2 * d * d * ((x / (d * d) + 1).sqrt() - 1)
    if name == "cauchy":
        return d * d * torch.log1p(x / (d * d))
    if name == "shift":
        return torch.where(x.sqrt() < d, x, 2 * d * x.sqrt() - d * d) - d * d
    raise ValueError(name)


def residuals_of(module, inp, target):
    with torch.no_grad():
        if isinstance(inp, dict):
            out = module(**inp)
        elif isinstance(inp, (tuple, list)):
            out = module(*inp)
        else:
            out = module(inp)
    outs = list(out) if isinstance(out, (tuple, list)) else [out]
    if target is not None:
        tg = list(target) if isinstance(target, (tuple, list)) else [target]
        outs = [o if t is None else o - t for o, t in zip(outs, tg)]
    return outs


def rho_scale(kspec, x):
    """magnitude of the intermediates of the kernel formula (its float evaluation has an absolute error of
    a few eps times this, e.g. 2δ²(√(1+x/δ²) − 1) cancels for small x; kernel accuracy itself is property C09)"""
    if kspec is None:
        return x
    name, d = kspec
    return rho(kspec, x).abs() + (2 * d * d if name != "cauchy" else d * d)


def loss_and_scale(outs, kspec):
    ks = kernel_list(kspec)
    total, scale, xmax = 0.0, 0.0, 0.0
    for i, r in enumerate(outs):
        kk = ks[i] if len(ks) > 1 else ks[0]
        x = r.detach().double().square().sum(-1)
        total += float(rho(kk, x).sum())
        scale += float(rho_scale(kk, x).sum())
        xmax = max(xmax, float(x.max()) if x.numel() else 0.0)
    return total, scale, xmax


class TL(float):
    """a loss value carrying the magnitude its float evaluation is accurate to"""
    scale = 0.0
    xmax = 0.0
    lay = 0.0


def true_loss(module, inp, target, kspec):
    """the robust loss Σ_outputs Σ_items ρ_i(‖r‖²), own formulas, float64 accumulation"""
    total, scale, xmax = loss_and_scale(residuals_of(module, inp, target), kspec)
    v = TL(total)
    v.scale, v.xmax = scale, xmax
    return v


def with_params(module, values, fn):
    """evaluate fn() with the parameters temporarily set to `values` (list of raw tensors)"""
    saved = [raw(p) for p in module.parameters()]
    with torch.no_grad():
        for p, v in zip(module.parameters(), values):
            p.data.copy_(v)
        try:
            return fn()
        finally:
            for p, v in zip(module.parameters(), saved):
                p.data.copy_(v)


def param_dist(a_list, b_list):
    """max abs component difference"""
    return max((float((a.double() - b.double()).abs().max()) if a.numel() else 0.0) for a, b in zip(a_list, b_list))


def lie_kinds(module):
    """per parameter: 'SE3' / 'SO3' for pose parameters, None for Euclidean ones"""
    P = pp()
    out = []
    for p in module.parameters():
        if isinstance(p, P.LieTensor) and p.shape[-1] == 7:
            out.append("SE3")
        elif isinstance(p, P.LieTensor) and p.shape[-1] == 4:
            out.append("SO3")
        else:
            out.append(None)
    return out


def restore_excess(kinds, before, after, dmag, eps, trial=None):
    """largest (difference / allowed round-off) over the parameters after Retr(Retr(p, D), -D).
    Euclidean: (p + D) - D, 16·eps·(|p| + |D|).  Quaternion part of a pose: 64·eps·(1 + |D|)² (the angle's own rounding).
    Translation part of an SE3 pose: the accuracy property C01 grants to the translation block of Exp, 4·√eps·scale
    (the closed-form coefficients (1-cos θ)/θ² cancel for small non-zero angles)."""
    worst, info = 0.0, ""
    dm = min(dmag, 1e140)
    for idx, (kd, a, b) in enumerate(zip(kinds, before, after)):
        a, b = a.double(), b.double()
        if kd == "SE3":
            parts = [("translation", a[..., :3], b[..., :3], 4 * math.sqrt(eps) * (1.0 + dm + float(a[..., :3].abs().max()))),
                     ("rotation", a[..., 3:], b[..., 3:], 64 * eps * (1.0 + dm) ** 2)]
        elif kd == "SO3":
            parts = [("rotation", a, b, 64 * eps * (1.0 + dm) ** 2)]
        else:
            if trial is not None:
                # element by element: (p_i + D_i) - D_i, round-off 16·eps·(|p_i| + |p_i + D_i|); no global magnitude factor
                tr = trial[idx].double()
                tol = 16 * eps * (a.abs() + tr.abs()) + 1e-300
            else:
                tol = torch.full_like(a, 16 * eps * ((float(a.abs().max()) if a.numel() else 0.0) + dm) + 1e-300)
            if a.numel():
                ratio = (a - b).abs() / tol
                j = int(ratio.flatten().argmax())
                if bool(torch.isnan(ratio).any()):
                    j = int(torch.isnan(ratio).flatten().nonzero()[0])
                if not (float(ratio.flatten()[j]) <= worst):
                    worst = float("inf") if math.isnan(float(ratio.flatten()[j])) else float(ratio.flatten()[j])
                    info = (f"euclidean entry {j} differs by {float((a - b).abs().flatten()[j]):.3e} "
                            f"(allowed {float(tol.flatten()[j]):.3e})")
            continue
        for name, x, y, tol in parts:
            if not x.numel():
                continue
            dist = float((x - y).abs().max())
            if bool(torch.isnan(x - y).any()):
                dist = float("inf")
            if not (dist / tol <= worst):
                worst, info = dist / tol, f"{name} part differs by {dist:.3e} (allowed {tol:.3e})"
    return worst, info


def param_mag(a_list):
    return max((float(a.double().abs().max()) if a.numel() else 0.0) for a in a_list)


# ============================================================================ views, aliases, shared objects

SENT = 7.25
_SHARED = {"solvers": {}, "kernels": {}}


def present(t, form):
    """the same data presented to one call as `form`: 'plain' (the caller's tensor itself), 'clone', 'strided'
    (non-contiguous view of a buffer twice as wide), 'slice' (interior of a larger buffer).
    -> (tensor to pass, check) ; check() returns a description of a purity violation or None"""
    P = pp()
    if t is None:
        return None, (lambda: None)
    if isinstance(t, (tuple, list)):
        parts = [present(x, form) for x in t]
        return type(t)(a for a, _ in parts), (lambda: next((m for m in (c() for _, c in parts) if m), None))
    if isinstance(t, dict):
        parts = {k: present(x, form) for k, x in t.items()}
        return {k: a for k, (a, _) in parts.items()}, (lambda: next((m for m in (c() for _, c in parts.values()) if m), None))
    if not isinstance(t, torch.Tensor):
        return t, (lambda: None)            # python scalar
    is_lie = isinstance(t, P.LieTensor)
    base = raw(t)
    buf, view = None, None
    if form == "plain":
        return t, (lambda: None if torch.equal(raw(t), base) else "the caller's tensor was modified by step()")
    if form == "clone":
        view = base.clone()
    elif form == "transposed" and base.dim() >= 2:
        buf = base.transpose(-1, -2).contiguous()
        view = buf.transpose(-1, -2)                      # same values, column-major storage
        mask = torch.zeros_like(buf, dtype=torch.bool)
    elif form in ("strided", "transposed") and base.dim() >= 1:
        # every second column of a padded buffer: rows are not contiguous and not collapsible to one stride
        w = base.shape[-1]
        buf = torch.full(base.shape[:-1] + (2 * w + 3,), SENT, dtype=base.dtype)
        buf[..., 1:1 + 2 * w:2] = base
        view = buf[..., 1:1 + 2 * w:2]
        mask = torch.ones_like(buf, dtype=torch.bool)
        mask[..., 1:1 + 2 * w:2] = False
    else:   # slice
        if base.dim() == 0:
            buf = torch.stack([torch.tensor(SENT, dtype=base.dtype), base, torch.tensor(SENT, dtype=base.dtype)])
            view = buf[1]
            mask = torch.tensor([True, False, True])
        else:
            buf = torch.full((base.shape[0] + 4,) + tuple(base.shape[1:]), SENT, dtype=base.dtype)
            buf[2:-2] = base
            view = buf[2:-2]
            mask = torch.zeros_like(buf, dtype=torch.bool)
            mask[:2] = True
            mask[-2:] = True
    arg = P.LieTensor(view, ltype=t.ltype) if is_lie else view

    def check():
        if not torch.equal(view, base):
            return f"an argument passed as a {form} view was modified by step()"
        if buf is not None and not bool((buf[mask] == SENT).all()):
            return f"storage outside the {form} view passed to step() was written"
        return None
    return arg, check


def apply_param_view(module, mode):
    """re-allocate every 1-D Euclidean parameter as a view ('slice' contiguous / 'strided') into a larger buffer with
    sentinels; returns the list of (buffer, mask of cells outside the view)"""
    P = pp()
    out = []
    if not mode:
        return out
    for name, p in list(module._parameters.items()):
        if isinstance(p, P.LieTensor) or p.dim() != 1:
            continue
        n = p.numel()
        buf = torch.full((2 * n + 4,), SENT, dtype=p.dtype)
        mask = torch.ones(2 * n + 4, dtype=torch.bool)
        if mode == "slice":
            view = buf[2:2 + n]
            mask[2:2 + n] = False
        else:
            view = buf[2:2 + 2 * n:2]
            mask[2:2 + 2 * n:2] = False
        view.copy_(p.detach())
        module._parameters[name] = nn.Parameter(view)
        out.append((buf, mask))
    return out


def optimizer_attrs(opt, is_lm, kind=None) -> dict:
    """public configuration that a step() call has no business changing"""
    pg = opt.param_groups[0]
    mutable = {"params", "damping", "radius"} | ({"down"} if kind == "trust" else set())
    if kind == "constant":
        mutable = {"params", "radius"}
    d = {"solver": id(opt.solver), "weight": id(opt.weight), "jackwargs": dict(opt.jackwargs),
         "correctors": [id(c) for c in opt.corrector], "kernels": [id(k) for k in opt.model.kernel],
         "defaults": {k: v for k, v in opt.defaults.items()}, "groups": len(opt.param_groups),
         "pg": {k: v for k, v in pg.items() if k not in mutable}}
    if is_lm:
        d.update(reject=opt.reject, strategy=id(opt.strategy), sparse=opt.sparse)
    return d


ARGNAME = {"alias": "x", "lin": "A", "cubic": "x", "rosen": "c", "expfit": "tt", "atan": "c", "so3": "inp", "se3": "inp", "script1d": "x"}


def make_weight(scn, module, inp, dt):
    """SPD weight for a single-output model: 'dd' (d×d) or 'Mdd' (one block per item)"""
    spec = scn.get("weight")
    if not spec:
        return None, None
    with torch.no_grad():
        out = module(**inp) if isinstance(inp, dict) else (module(*inp) if isinstance(inp, (tuple, list)) else module(inp))
    if isinstance(out, (tuple, list)) or out.dim() < 1:
        return None, None
    d = out.shape[-1]
    g = torch.Generator().manual_seed(scn["fam_seed"] ^ 0x5EED)

    def spd(*batch):
        a = torch.randn(*batch, d, d, generator=g, dtype=torch.float64) * 0.3
        return (a @ a.mT + torch.eye(d, dtype=torch.float64) * spec.get("scale", 1.0)).to(dt)
    shp = tuple(out.shape[:-1]) if spec.get("shape") == "Mdd" else ()
    w1, w2 = spd(*shp), spd(*shp)
    where = spec.get("where", "ctor")
    return (w1 if where in ("ctor", "both") else None), (w2 if where in ("step", "both") else None)


def make_corrector(scn, kernels):
    """explicit corrector object(s) (otherwise LM/GN build FastTriggs from the kernel, or Trivial)"""
    C = pp().optim.corrector
    K = pp().optim.kernel
    spec = scn.get("corrector")
    if not spec:
        return None
    cls = C.FastTriggs if spec == "fast" else C.Triggs
    ks = kernels if isinstance(kernels, (list, tuple)) else [kernels]
    cs = [cls(k if k is not None else K.Huber(1.0)) for k in ks]
    return cs[0] if len(cs) == 1 else cs


# ============================================================================ LM / GN scenarios

def make_solver(name):
    """one instance of each library solver per run, shared by every scenario (sizes and dtypes vary between uses)"""
    S = pp().optim.solver
    if name not in _SHARED["solvers"]:
        _SHARED["solvers"][name] = (S.Cholesky() if name == "cholesky" else S.PINV() if name == "pinv" else
                                    S.LSTSQ() if name == "lstsq" else (lambda A, b: torch.linalg.solve(A, b)))
    return _SHARED["solvers"][name]


def scn_plan(scn):
    """plan(call, trial, nsolve) from the scenario's script"""
    bad = scn["bad"]
    raise_at = set(scn.get("raise_at", []))
    raise_ct = {tuple(x) for x in scn.get("raise_ct", [])}
    bs, gs = scn["bad_scale"], scn["good_scale"]

    def plan(call, trial, nsolve):
        if nsolve in raise_at or (call, trial) in raise_ct:
            return ("raise",)
        k = bad[call] if call < len(bad) else 0
        return ("scale", bs if trial < k else gs)
    return plan


REL_WORSE = {"a": 1e-12, "b": 1e-10, "c": 1e-8, "d": 1e-7, "e": 1e-6, "f": 1e-5}
REL_BETTER = {"A": 1e-12, "C": 1e-8, "F": 1e-5}


def script1d_plan(scn, module):
    """scripted 1-D: per call a string over W (worse), B (better), E (equal loss), X (raise)"""
    scripts = scn["scripts"]

    def plan(call, trial, nsolve):
        s = scripts[call] if call < len(scripts) else "B"
        c = s[trial] if trial < len(s) else "B"
        if c == "X":
            return ("raise",)

        def target(A, b, mod=None):
            th = float((mod if mod is not None else module).t.detach()[0])
            if c == "W":
                t = th * 2 if th != 0 else 1.0
            elif c == "E":
                t = -th
            elif c in REL_WORSE or c in REL_BETTER:
                # loss θ² worse / better by a relative amount between round-off and "visible": a hidden isclose-style
                # tolerance in the accept test lives exactly there
                rr = REL_WORSE.get(c) or -REL_BETTER[c]
                t = th * math.sqrt(1.0 + rr)
            elif c in "UL":
                # loss θ² a couple of ulps worse (U) / better (L) than the current one: the accept test has no tolerance
                tt = torch.tensor(abs(th), dtype=A.dtype)
                nxt = torch.nextafter(tt, torch.tensor(float("inf") if c == "U" else 0.0, dtype=A.dtype))
                t = float(nxt) * (1.0 if th >= 0 else -1.0)
                return (torch.tensor([[t]], dtype=A.dtype) - torch.tensor([[th]], dtype=A.dtype))
            else:
                t = th / 2
            return torch.tensor([[t - th]], dtype=A.dtype)
        return ("target", target)
    return plan


def nonfinite_gate(scn, dtype, module, tl, given, given_true, pg0, sol, ups, final, ret, opt, is_lm, call):
    """None when everything the call produced is finite (an overflowed `inf` loss whose true value is beyond the dtype
    counts as finite: it is modelled as ±max-float). Otherwise ("fail", message) when the first non-finite value was
    produced by the code under test from finite, in-range inputs, or ("abandon", tag) when it comes from the user model,
    autograd, the linear solver or from overflow of the dtype (outside the modelled domain)."""
    fmax = float(torch.finfo(getattr(torch, dtype)).max)
    big = math.sqrt(fmax) / 16

    def fin(x):
        return math.isfinite(float(x))

    def safe(v):
        # own float64 evaluation: finite, and every intermediate of the dtype evaluation is far from the dtype's range
        return math.isfinite(float(v)) and abs(float(v)) < fmax / 4 and getattr(v, "xmax", 0.0) < fmax / 4

    def pts_verdict(what, mag):
        if mag <= big:
            return ("fail", f"non-finite result: {what} although the parameters and all steps so far are finite and at most "
                            f"{mag:.3e} in magnitude (call {call})")
        return ("abandon", "parameter-overflow")

    if not safe(given_true):
        return ("abandon", "given-loss-overflow")
    if hasattr(opt, "last") and not fin(opt.last):
        return ("fail", f"non-finite result: optimizer.last = {float(opt.last)!r} but the loss at the parameters the call was given is "
                        f"{float(given_true)!r} (call {call})")
    mag = param_mag(given)
    if pg0 is not None and not all(fin(v) for v in pg0.values()):
        return ("abandon", "pg-non-finite-before-call")       # set by the scenario itself or already reported
    ui = 0
    for t, ev in enumerate(sol):
        if not all_finite(*ev["params"]):
            return pts_verdict(f"the parameters before trial {t} (after restoring trial {t - 1}) contain NaN/inf", mag)
        for nm in ("opt_loss", "opt_last"):
            if ev.get(nm) is not None and not math.isfinite(ev[nm]):
                return ("fail", f"non-finite result: optimizer.{nm[4:]} = {ev[nm]!r} at the top of trial {t}; the loss at the parameters the "
                                f"call was given is {float(given_true)!r} (call {call})")
        if not ev.get("Ab_finite", True):
            return ("abandon", "normal-equations")            # user model / autograd (the damping is checked where it is produced)
        if ev["raised"] or "D" not in ev:
            continue
        if not all_finite(ev["D"]):
            return ("abandon", "solver-step")
        mag = max(mag, float(ev["D"].abs().max()) if ev["D"].numel() else 0.0)
        if ui >= len(ups):
            continue
        up = ups[ui]
        ui += 1
        if up["params"] is not None and not all_finite(*up["params"]):
            return pts_verdict(f"the parameters after update_parameter(D) in trial {t} contain NaN/inf", mag)
        if not all_finite(up["J"], up["R"]):
            return ("abandon", "jacobian-residual")
        l = float(up["loss"])
        if not math.isfinite(l):
            lt = with_params(module, up["params"], tl) if up["params"] is not None else None
            if lt is not None and safe(lt):
                return ("fail", f"non-finite result: model.loss gave {l!r} for trial {t}; the robust loss at the trial parameters is "
                                f"{float(lt)!r} (call {call})")
            if math.isnan(l):
                return ("abandon", "trial-loss-nan")
        JD = up["J"] @ up["D"]
        st_in = (all(fin(v) for v in up["pg_before"].values()) and all(fin(v) for v in up["hyper"].values()) and fin(up["last"])
                 and math.isfinite(l) and all_finite(JD, JD.mT @ (2 * up["R"] + JD)))
        if not all(fin(v) for v in up["pg_after"].values()):
            if st_in:
                num, den, _ = quality_exact(up["last"], up["loss"], up["J"], up["D"], up["R"])
                q = "0/0" if den == 0 and num == 0 else (f"{float(num)!r}/0" if den == 0 else repr(float(num / den)))
                return ("fail", f"non-finite result: strategy.update turned {up['pg_before']} into {up['pg_after']} for finite arguments: "
                                f"step quality {q}, high={up['hyper']['high']!r}, low={up['hyper']['low']!r} (trial {t}, call {call})")
            return ("abandon", "strategy-input-overflow")
    if not all_finite(*final):
        return pts_verdict("the parameters left behind contain NaN/inf", mag)
    if is_lm and not all(fin(v) for v in pg_state(opt.param_groups[0]).values()):
        return ("abandon", "pg-non-finite")
    for nm, v in (("step returned", ret), ("optimizer.loss =", getattr(opt, "loss", None))):
        if v is None or not isinstance(v, torch.Tensor) or v.numel() != 1 or fin(v):
            continue
        t_f = tl()
        if safe(t_f):
            return ("fail", f"non-finite result: {nm} {float(v)!r}; the robust loss at the parameters left behind is {float(t_f)!r} "
                            f"(call {call}, {len(sol)} trials)")
        if math.isnan(float(v)) or not is_lm:
            return ("abandon", "returned-loss-overflow")
    return None


class CallLog:
    pass


def run_optimizer_scenario(ctx: Ctx, scn, collect, shared_inner=None, sink=None):
    """runs the scenario on the real code, evaluates the oracles, appends model requests to `collect`.
    Returns number of failures raised by the oracles."""
    n0 = len(ctx.failures)
    for _ in scenario_steps(ctx, scn, collect, shared_inner, sink):
        pass
    return len(ctx.failures) - n0


def scenario_steps(ctx: Ctx, scn, collect, shared_inner=None, sink=None):
    """generator: each `next()` performs one step() call of the scenario with all its oracles (so that several
    optimizers — possibly sharing a strategy object — can be interleaved)"""
    try:
        yield from _scenario_steps(ctx, scn, collect, shared_inner, sink)
    except (common.InfraError, ScriptedFailure, TrialLimit, GeneratorExit):
        raise
    except Exception as e:
        # any misbehaviour of the implementation (exception, wrong type/shape, missing attribute, an event sequence
        # without the structure of the loop) is a failing input of the property, never a failure of the harness
        import traceback
        tb = traceback.format_exc()
        where = "inside pypose" if "/pypose/" in tb else "while reading the optimizer's observable state"
        ctx.fail(scn, f"crash: {type(e).__name__}: {str(e)[:160]} ({where}); {tb.strip().splitlines()[-3].strip()[:160]}")


def _scenario_steps(ctx: Ctx, scn, collect, shared_inner=None, sink=None):
    import copy as _copy
    import pickle as _pickle
    P = pp()
    n0 = len(ctx.failures)
    ddt = scn.get("default_dtype")

    @contextlib.contextmanager
    def dd():
        """process-wide default dtype in force while the library code runs (construction and step)"""
        if not ddt:
            yield
            return
        old_ = torch.get_default_dtype()
        torch.set_default_dtype(getattr(torch, ddt))
        try:
            yield
        finally:
            torch.set_default_dtype(old_)
    module, inp, target = build_problem(scn)
    if scn.get("sub_model"):
        base_cls = type(module)

        class SubModel(base_cls):          # a user model deriving from another model, overriding forward
            def forward(self, *a, **k):
                out = base_cls.forward(self, *a, **k)
                return tuple(2 * o for o in out) if isinstance(out, tuple) else 2 * out
        module.__class__ = SubModel
    pbufs = apply_param_view(module, scn.get("param_view"))
    # how the single input is handed to step(): tensor / (tensor,) / [tensor] / {name: tensor} / python scalar
    cont = scn.get("input_container", "tensor")
    if scn.get("scalar_input") and isinstance(inp, torch.Tensor) and inp.dim() == 0:
        inp = float(inp)
    if cont != "tensor" and not isinstance(inp, (tuple, list, dict)) and scn["family"] in ARGNAME:
        inp = (inp,) if cont == "tuple" else [inp] if cont == "list" else {ARGNAME[scn["family"]]: inp}
    dtype = scn["dtype"]
    eps = EPS[dtype]
    kspec = scn.get("kernel")
    is_lm = scn["opt"] == "lm"
    if scn["family"] == "script1d":
        plan = script1d_plan(scn, module)
    else:
        plan = scn_plan(scn)
    solver = RecSolver(make_solver(scn["solver"]), plan)
    solver.module = module
    kern = make_kernels(kspec)
    if scn.get("kernel_wrap") == "list1" and kern is not None and not isinstance(kern, (list, tuple)):
        kern = [kern]                                   # a list with one kernel serves every output, like the bare kernel
    corr = make_corrector(scn, kern)
    w_ctor, w_step = make_weight(scn, module, inp, getattr(torch, scn["dtype"]))
    positional = scn.get("ctor_style") == "positional"
    vec = scn.get("vectorize", True)

    def construct(mod, solver_, inner_):
        """optimizer for `mod` exactly as the scenario prescribes"""
        rec_ = solver_
        solver_.module = mod
        solver_obj = solver_
        if scn.get("sub_solver") and scn["solver"] in ("cholesky", "pinv", "lstsq"):
            solver_obj = rec_solver_subclass(solver_, scn["solver"])
        solver_ = solver_obj
        omit = set(scn.get("defaults") or [])
        if omit:
            # optional arguments OMITTED: the library builds its own default objects; the recorders are wrapped around those
            # objects afterwards, and everything is compared with the DOCUMENTED defaults
            kw = {}
            if "solver" not in omit:
                kw["solver"] = solver_
            if is_lm and "strategy" not in omit:
                kw["strategy"] = RecStrategy(inner_)
            if "kernel" not in omit:
                kw["kernel"] = kern
            if is_lm and "reject" not in omit:
                kw["reject"] = scn["reject"]
            opt_ = (P.optim.LM if is_lm else P.optim.GN)(mod, **kw)
            bad = []
            if "solver" in omit:
                want_cls = P.optim.solver.Cholesky if is_lm else P.optim.solver.PINV
                if type(opt_.solver) is not want_cls:
                    bad.append(f"default solver is {type(opt_.solver).__name__}")
                rec_.inner = opt_.solver
                opt_.solver = rec_
            strat_ = None
            if is_lm:
                if "strategy" in omit:
                    if type(opt_.strategy) is not P.optim.strategy.TrustRegion:
                        bad.append(f"default strategy is {type(opt_.strategy).__name__}")
                    doc = {"radius": 1e6, "damping": 1e-6, "high": 0.5, "low": 1e-3, "up": 2.0, "down": 0.5, "factor": 0.5,
                           "min": 1e-6, "max": 1e32}
                    got = {k_: opt_.param_groups[0].get(k_) for k_ in doc}
                    if got != doc:
                        bad.append(f"param group {got} instead of the documented defaults {doc}")
                    strat_ = RecStrategy(opt_.strategy)
                    strat_.vfh08_doc_hyper = {"down0": 0.5, "smin": 1e-6, "smax": 1e16}
                    opt_.strategy = strat_
                else:
                    strat_ = kw["strategy"]
                strat_.vfh08_module = mod
                if "reject" in omit and opt_.reject != 16:
                    bad.append(f"default reject is {opt_.reject}")
            if "kernel" in omit and not (len(opt_.model.kernel) == 1 and type(opt_.model.kernel[0]).__name__ == "Trivial"):
                bad.append("default kernel is not [Trivial()]")
            if bad:
                ctx.fail(scn, "defaults: an optimizer built with omitted arguments does not have the documented defaults: " + "; ".join(bad))
            ctx.count("class.defaults-omitted." + "+".join(sorted(omit)))
            rec_.opt = opt_
            return opt_, strat_
        if is_lm:
            strat_ = rec_strategy_subclass(inner_, scn["sub_strategy"]) if scn.get("sub_strategy") else RecStrategy(inner_)
            strat_.vfh08_module = mod
            if positional:
                opt_ = P.optim.LM(mod, solver_, strat_, kern, corr, w_ctor, scn["reject"], scn["lm_min"], scn["lm_max"], vec)
            else:
                opt_ = P.optim.LM(mod, solver=solver_, strategy=strat_, kernel=kern, corrector=corr, weight=w_ctor,
                                  reject=scn["reject"], min=scn["lm_min"], max=scn["lm_max"], vectorize=vec)
        else:
            strat_ = None
            if positional:
                opt_ = P.optim.GN(mod, solver_, kern, corr, w_ctor, vec)
            else:
                opt_ = P.optim.GN(mod, solver=solver_, kernel=kern, corrector=corr, weight=w_ctor, vectorize=vec)
        rec_.opt = opt_
        return opt_, strat_
    with dd():
        opt, strat = construct(module, solver, (shared_inner if shared_inner is not None else make_strategy(scn["strategy"], positional))
                               if is_lm else None)
    own_law = is_lm and scn.get("sub_strategy") == "own"
    call_style = scn.get("call_style", "positional")
    grad_mode = scn.get("grad_mode")

    def do_step(o_, a_, t_):
        """step(input, target, weight) in the scenario's spelling"""
        kw = {"weight": w_step} if w_step is not None else {}
        if call_style == "keyword":
            return o_.step(input=a_, target=t_, **kw)
        if call_style == "mixed":
            return o_.step(a_, target=t_, **kw)
        if w_step is not None:
            return o_.step(a_, t_, w_step)
        return o_.step(a_, t_)
    fwd_raise = {int(c): v for c, v in (scn.get("fwd_raise") or [])}      # call -> "pre" | trial index
    arm = {"phase": None}
    inner_forward = module.forward

    def guarded_forward(*a, **k):
        ph = arm["phase"]
        if ph is not None and ((ph == "pre" and solver.trial == 0) or (ph != "pre" and solver.trial == int(ph) + 1)):
            arm["phase"] = None
            raise ModelFailure("scripted failure of the user's model")
        return inner_forward(*a, **k)
    if fwd_raise:
        module.forward = guarded_forward
    copy_at, copy_what = scn.get("copy_at"), scn.get("copy_what")
    orig = None
    frozen0 = [raw(p) if not p.requires_grad else None for p in module.parameters()]
    reject = scn.get("reject", 0)
    solver.limit = reject + 40
    cur_args = [inp, target, "plain"]      # the tensors of the current call (same data; layout may differ from call to call)

    def tl():
        v = true_loss(module, cur_args[0], cur_args[1], kspec)
        if cur_args[2] in ("strided", "transposed"):
            # the user model's forward may legitimately run on a contiguous copy: its rounding differs (only) by this much
            w = true_loss(module, inp, target, kspec)
            v.lay = abs(float(v) - float(w))
        return v
    lie = scn["family"] in ("so3", "se3", "mixed")
    kinds = lie_kinds(module)
    forms = scn.get("forms") or []
    pg_edits = scn.get("pg_edits") or []
    reject_edits = {int(c): int(v) for c, v in (scn.get("reject_edits") or [])}
    skind = scn["strategy"]["kind"] if is_lm else None
    handed_out = []       # (tensor object returned by an earlier call / left in optimizer.last, its value then)

    def fail(what):
        ctx.fail(scn, what)

    layout_slack = 0.0
    drift = 0.0           # |L(restored params) - L(params before the trials)| accumulated since the last kept trial
    prev_loss = None      # optimizer.loss after the previous call (float)
    prev_pg = None
    gn_steps = []
    gn_obs = []
    first_loss = None
    for call in range(scn["ncalls"]):
        if call:
            yield call
        # the caller edits public state between calls: optimizer.reject, entries of param_groups
        if is_lm and call in reject_edits:
            opt.reject = reject = reject_edits[call]
            ctx.count("class.reject-edit")
            solver.limit = reject + 40
        pg = opt.param_groups[0]
        if is_lm:
            for c_, key, val in pg_edits:
                if c_ == call and key in pg:
                    ctx.count(f"class.pg-edit.{key}")
                    pg[key] = val
                    if key == "damping" and "radius" in pg:
                        pg["radius"] = 1.0 / val       # reachable states only
                    prev_pg = None                      # continuity is re-based on the edited group
        if copy_at is not None and call == copy_at:
            ctx.count(f"class.copy.{copy_what}")
            if copy_what == "state_dict":
                # the documented way to copy an optimizer (copy.deepcopy of a torch Optimizer keeps only defaults / state /
                # param_groups and is unusable for LM/GN on the unchanged tree — observation, see notes): deep copy of the
                # model, a fresh optimizer with the same arguments, load_state_dict. From now on the COPY is observed, the
                # original keeps being used in between (each must follow its own law).
                orig = {"opt": opt, "solver": solver}
                sd = _copy.deepcopy(opt.state_dict())
                module = _copy.deepcopy(module)
                solver2 = RecSolver(solver.inner, solver.plan)
                solver2.nsolve, solver2.limit = solver.nsolve, solver.limit
                inner2 = _copy.deepcopy(strat.vfh08_inner) if is_lm else None
                solver = solver2
                opt, strat = construct(module, solver, inner2)
                opt.load_state_dict(sd)
                if is_lm:
                    opt.reject = reject
                inner_forward = module.forward
                pbufs, handed_out, kinds = [], [], lie_kinds(module)
                pg = opt.param_groups[0]
                prev_pg = None
            elif is_lm and copy_what in ("strategy-deepcopy", "strategy-copy", "strategy-pickle"):
                strat.vfh08_inner = (_copy.deepcopy(strat.vfh08_inner) if copy_what == "strategy-deepcopy" else
                               _copy.copy(strat.vfh08_inner) if copy_what == "strategy-copy" else
                               _pickle.loads(_pickle.dumps(strat.vfh08_inner)))
        solver.call, solver.trial = call, 0
        s0, u0 = len(solver.log), (len(strat.vfh08_log) if strat else 0)
        given = [raw(p) for p in module.parameters()]
        gms, rgs = scn.get("grad_modes"), scn.get("req_grads")
        gm_ = gms[call % len(gms)] if gms else grad_mode
        form = forms[call % len(forms)] if forms else "plain"
        inp_c, chk_in = present(inp, form)
        tgt_c, chk_tg = present(target, form if form != "plain" else "plain")
        # the user model's forward rounds differently for another memory layout of the same data: the loss cached by
        # the previous call may differ from the loss evaluated through this call's tensors by that much
        prev_true = float(tl())
        cur_args[0], cur_args[1], cur_args[2] = inp_c, tgt_c, form
        given_true = tl()
        # (accumulated until a kept trial refreshes the cache)
        layout_slack = (layout_slack + abs(prev_true - float(given_true))) if call else 0.0
        had_cache = hasattr(opt, "loss")
        cached = float(opt.loss) if had_cache else None
        pg_before_call = pg_state(pg) if is_lm else None
        hyper_call = pg_hyper(pg, strat.vfh08_inner) if is_lm else None
        attrs0 = optimizer_attrs(opt, is_lm, None if own_law else skind)
        ctx.count(f"class.input-form.{form}")
        if call == 0 and scn.get("param_view"):
            ctx.count(f"class.param-view.{scn['param_view']}")
        if call == 0 and shared_inner is not None:
            ctx.count("class.shared-strategy-object")
        exc = None
        if (rgs[call % len(rgs)] if rgs else scn.get("input_requires_grad")):
            for t_ in (list(inp_c.values()) if isinstance(inp_c, dict) else list(inp_c) if isinstance(inp_c, (tuple, list)) else [inp_c]):
                if isinstance(t_, torch.Tensor) and not isinstance(t_, P.LieTensor) and t_.is_floating_point() and t_.grad_fn is None:
                    t_.requires_grad_(True)
        gctx2 = lambda: (torch.enable_grad() if gm_ == "enable_grad" else torch.no_grad() if gm_ == "no_grad" else
                         torch.inference_mode() if gm_ == "inference" else contextlib.nullcontext())
        gctx = gctx2()
        def ff(x):
            try:
                return float(x)
            except Exception:
                return repr(x)
        snap = {"loss": ff(opt.loss) if had_cache else None, "last": ff(opt.last) if hasattr(opt, "last") else "<absent>",
                "rc": getattr(opt, "reject_count", None), "pg": pg_state(pg) if is_lm else None}
        arm["phase"] = fwd_raise.get(call)
        ctx.count(f"class.call-style.{call_style}") if call == 0 else None
        with contextlib.redirect_stdout(io.StringIO()), gctx, dd():
            try:
                ret = do_step(opt, inp_c, tgt_c)
            except ModelFailure:
                exc = "model"
            except TrialLimit:
                ctx.fail(scn, f"trials: a call made more than {reject + 40} trials with reject={reject} (at most reject+1 allowed); "
                              f"the loop does not terminate (call {call})")
                return
            except ScriptedFailure as e:
                exc = e
            except Exception as e:
                nonfin = (not all_finite(*[p for p in module.parameters()])
                          or not all_finite(*[ev["D"] for ev in solver.log[s0:] if "D" in ev]))
                if "Jacobian contains Nan" in str(e) or nonfin:
                    exc = "abandon"      # overflowed parameters / NaN residuals: outside the property's domain
                elif not is_lm and solver.log[s0:] and solver.log[-1].get("action") == "natural-raise":
                    exc = e              # natural failure of a real solver inside GN (LM catches everything)
                else:
                    raise
        arm["phase"] = None
        if exc == "abandon":
            # the real code raised on non-finite data (modjac's NaN assertion, a solver on NaN input ...): find where the
            # first non-finite value came from, as for a call that returned
            gate = nonfinite_gate(scn, dtype, module, tl, given, given_true, pg_before_call, solver.log[s0:], strat.vfh08_log[u0:] if strat else [],
                                  [raw(p) for p in module.parameters()], None, opt, is_lm, call)
            if gate is not None and gate[0] == "fail":
                fail(gate[1])
                return
            ctx.count("abandoned.non-finite")
            ctx.count("abandoned." + (gate[1] if gate else "exception-on-non-finite"))
            break
        if exc == "model":
            # a user callback (the model's forward) raised inside step(): the call must be atomic
            phase = fwd_raise.get(call)
            ctx.count(f"class.model-raise.{'pre' if phase == 'pre' else 'trial'}")
            now = [raw(p) for p in module.parameters()]
            moved = param_dist(now, given) != 0.0
            state_changed = []
            if hasattr(opt, "loss") != had_cache or (had_cache and float(opt.loss) != snap["loss"]):
                state_changed.append("optimizer.loss")
            if is_lm and pg_state(pg) != snap["pg"]:
                state_changed.append("param group")
            if phase == "pre":
                if (ff(opt.last) if hasattr(opt, "last") else "<absent>") != snap["last"]:
                    state_changed.append("optimizer.last")
                if getattr(opt, "reject_count", None) != snap["rc"]:
                    state_changed.append("optimizer.reject_count")
            if sink is not None:
                sink.append({"ret": "exc:model", "params": now})
            if phase == "pre":
                if moved or state_changed:
                    fail(f"atomic: the model raised before the first trial of call {call}; parameters moved: {moved}, changed: {state_changed}")
                continue            # the caller catches the exception and simply calls step() again
            t_now = float(tl())
            consistent = (not moved and not state_changed) or (hasattr(opt, "loss") and not far(float(opt.loss), t_now, 64 * eps * abs(t_now) + 1e-300, dtype))
            ctx.count(f"probe.atomic-after-model-raise-in-trial={consistent}")
            if not consistent:
                msg = (f"atomic: the model raised while the loss of trial {phase} was evaluated (call {call}): the parameters stay at the "
                       f"trial point (moved: {moved}) but optimizer.loss = {float(opt.loss) if hasattr(opt, 'loss') else None!r} is the loss of the "
                       f"old parameters (loss at the parameters left behind: {t_now!r})")
                if not any(n_.startswith("probe: atomic") for n_ in ctx.notes):
                    ctx.notes.append("probe: " + msg + " [observation outside the property's text, see notes/C08.md]")
                return              # the cache is now stale by construction: nothing further can be checked
            prev_pg = pg_state(pg) if is_lm else None      # earlier trials of this call legitimately updated the group
            continue
        sol = solver.log[s0:]
        ups = strat.vfh08_log[u0:] if strat else []
        final = [raw(p) for p in module.parameters()]
        ntr = len(sol)
        # ---- non-finite values: found at their first occurrence. A NaN/inf produced by the code under test from finite
        #      inputs is a failure with the scenario as replay; only a non-finite value coming from a trusted component
        #      (user model / autograd / linear solver) or from genuine overflow of the dtype ends the scenario silently.
        gate = nonfinite_gate(scn, dtype, module, tl, given, given_true, pg_before_call, sol, ups, final, ret if exc is None else None,
                              opt, is_lm, call)
        if gate is not None:
            if gate[0] == "fail":
                fail(gate[1])
                return
            ctx.count("abandoned.non-finite")
            ctx.count("abandoned." + gate[1])
            break
        # (second line of defence; unreachable when the gate above is complete)
        if (not all_finite(*final) or not all_finite(*[e["D"] for e in sol if "D" in e])
                or not all_finite(*[t for u in ups for t in (u["J"], u["R"])])
                or any(math.isnan(float(u["loss"])) for u in ups) or (exc is None and (math.isnan(float(ret)) or (not is_lm and math.isinf(float(ret)))))
                or math.isnan(given_true) or math.isinf(given_true)
                or (is_lm and not math.isfinite(float(opt.last)))):
            ctx.count("abandoned.non-finite")
            ctx.count("abandoned.second-defence")
            break
        tol_loss = lambda v: 64 * eps * (max(abs(v), getattr(v, "scale", 0.0)) + 1e-300) + 2 * drift + 2 * getattr(v, "lay", 0.0)
        if sink is not None:
            sink.append({"ret": (float(ret) if exc is None else f"exc:{type(exc).__name__}"), "params": final,
                         "pg": pg_state(pg) if is_lm else None, "rc": getattr(opt, "reject_count", None),
                         "last": float(opt.last) if hasattr(opt, "last") else None, "ntr": ntr})
        for fz, now_ in zip(frozen0, final):
            if fz is not None and not torch.equal(fz, now_):
                fail(f"frozen: a parameter with requires_grad=False was changed by step() (call {call})")
        if orig is not None:
            # the original optimizer keeps being used between the calls of its copy
            orig["solver"].call, orig["solver"].trial = call, 0
            with contextlib.redirect_stdout(io.StringIO()):
                try:
                    with gctx2():
                        r_o = float(do_step(orig["opt"], inp_c, tgt_c))
                except (ScriptedFailure, Exception) as e_:
                    r_o = f"exc:{type(e_).__name__}"
            if sink is not None:
                sink[-1]["orig_ret"] = r_o
        tol_cache = lambda v: tol_loss(v) + 2 * layout_slack

        # ---- purity of the caller's tensors (views / slices of larger buffers), of parameter buffers outside the
        #      parameter views, of the tensors handed to the user's solver / strategy; configuration untouched
        for msg in (chk_in(), chk_tg()):
            if msg:
                fail(f"purity: {msg} (input form '{form}', call {call})")
        for buf, mask in pbufs:
            if not bool((buf[mask] == SENT).all()):
                fail(f"purity: storage outside a parameter that is a view of a larger buffer was written (call {call})")
        changed = diff_attrs(attrs0, optimizer_attrs(opt, is_lm, None if own_law else skind))
        if changed:
            fail(f"attributes: step() changed the optimizer's configuration {changed} (call {call})")
        for ev in sol:
            if "D_ref" in ev and not torch.equal(raw(ev["D_ref"]), ev["D"]):
                fail(f"callback-purity: the step returned by the user's solver was modified in place by step() (call {call})")
        for u in ups:
            if u["args_changed"] or not all(torch.equal(raw(r), c) for r, c in zip(u["refs"][:3], (u["J"], u["D"], u["R"]))):
                fail(f"callback-purity: tensors handed to strategy.update were modified afterwards (call {call})")
            if u["strategy_attrs_changed"]:
                fail(f"strategy-state: update() changed attributes {u['strategy_attrs_changed']} of the strategy object "
                     f"(all mutable state belongs to the param group) (call {call})")
            extra = diff_attrs({k: v for k, v in u["pg_full_before"].items() if k not in ("damping", "radius", "down")},
                               {k: v for k, v in u["pg_full_after"].items() if k not in ("damping", "radius", "down")})
            if extra:
                fail(f"strategy-state: update() changed read-only entries {extra} of the param group (call {call})")
        # ---- values handed out by earlier calls must not change afterwards (no in-place reuse of the cache tensors)
        for obj, val, where_ in handed_out:
            cur_v = float(obj)
            if cur_v != val and not (math.isnan(cur_v) and math.isnan(val)):
                fail(f"alias: the tensor {where_} changed from {val!r} to {cur_v!r} during a later call (call {call})")
                break
        if exc is None and isinstance(ret, torch.Tensor):
            handed_out.append((ret, float(ret), f"returned by step() in call {call}"))
            if hasattr(opt, "last") and isinstance(opt.last, torch.Tensor):
                handed_out.append((opt.last, float(opt.last), f"left in optimizer.last by call {call}"))
            handed_out = handed_out[-8:]
        if exc is None and (not isinstance(ret, torch.Tensor) or ret.numel() != 1):
            fail(f"return-type: step() returned {type(ret).__name__} of shape {tuple(getattr(ret, 'shape', ()))}, expected a scalar tensor "
                 f"(call {call})")
            return
        # ---- metadata: the loss is a 0-dim tensor of the model's dtype whatever the process-wide default dtype is; the
        #      damping stays a Python float; the tensors given to the user's strategy have the model's dtype
        if exc is None:
            want_dt = getattr(torch, dtype)
            meta = []
            for nm_, t_ in (("returned loss", ret), ("optimizer.loss", getattr(opt, "loss", None)), ("optimizer.last", getattr(opt, "last", None))):
                if isinstance(t_, torch.Tensor) and (t_.dtype != want_dt or t_.dim() != 0):
                    meta.append(f"{nm_}: dtype {t_.dtype}, shape {tuple(t_.shape)}")
            if is_lm and not isinstance(pg.get("damping"), float):
                meta.append(f"pg['damping'] is {type(pg.get('damping')).__name__}")
            for u in ups:
                for nm_, t_ in zip("J D R last loss".split(), u["refs"]):
                    if isinstance(t_, torch.Tensor) and t_.dtype != want_dt:
                        meta.append(f"strategy.update got {nm_} of dtype {t_.dtype}")
                        break
            if meta:
                fail(f"metadata: model dtype {want_dt}, default dtype {scn.get('default_dtype') or 'float32'}: " + "; ".join(meta[:3]) + f" (call {call})")

        if not is_lm:
            # ------------------------------------------------------------------ GaussNewton
            ctx.count(f"gn.{scn['family']}")
            if exc is not None:
                ctx.count("gn.raise")
                # exception propagates: nothing may have changed
                if param_dist(final, given) != 0.0:
                    fail("gn-raise: GaussNewton changed the parameters although the solver raised")
                if (hasattr(opt, "loss") != had_cache) or (had_cache and float(opt.loss) != cached):
                    fail("gn-raise: GaussNewton changed optimizer.loss although the solver raised")
                gn_steps.append((1, 0.0))
                gn_obs.append(None)
                ctx.note_case(("gn", scn["family"], "raise", dtype), True)
                continue
            retf = float(ret)
            if first_loss is None:
                first_loss = cached if had_cache else float(opt.last)
            t_final = tl()
            if float(opt.loss) != retf:
                fail(f"gn-return: GaussNewton.step returned {retf!r} but optimizer.loss is {float(opt.loss)!r}")
            if far(retf, t_final, tol_loss(t_final), dtype):
                fail(f"gn-true-loss: GaussNewton.step returned {retf!r}, the robust loss at the new parameters is {t_final!r} "
                     f"(call {call})")
            lastf = float(opt.last)
            if had_cache and lastf != cached:
                fail(f"gn-last: optimizer.last = {lastf!r} after the call but optimizer.loss was {cached!r} before it (call {call})")
            if far(lastf, given_true, tol_cache(given_true), dtype):
                fail(f"gn-last: optimizer.last = {lastf!r} but the loss at the previous parameters is {given_true!r} (call {call})")
            gn_steps.append((0, retf))
            gn_obs.append((retf, lastf))
            layout_slack = 0.0
            ctx.note_case(("gn", scn["family"], "ok", dtype, min(call, 3)), True)
            continue

        # ---------------------------------------------------------------------- LevenbergMarquardt
        retf = float(ret)
        optloss, optlast, rc = float(opt.loss), float(opt.last), int(opt.reject_count)
        ending = "none"
        if ntr:
            ending = "raise" if sol[-1]["raised"] else "break"
        n_upd = len(ups)
        ctx.count(f"lm.{scn['family']}.{scn['strategy']['kind']}")
        ctx.count(f"lm.rejections={min(ntr - 1, 17) if ntr else 0}")
        ctx.count(f"lm.ending={ending}")
        l0 = optlast      # the loss the loop started from, as the code itself recorded it (checked against the cache below)

        # ---- trials ≤ reject+1
        if ntr > reject + 1:
            fail(f"trials: a call made {ntr} trials with reject={reject} (at most reject+1 allowed) (call {call})")
        # ---- returned value is optimizer.loss and the true loss at the parameters left behind
        if optloss != retf:
            fail(f"return: step returned {retf!r} but optimizer.loss is {optloss!r} (call {call})")
        kept = ntr > 0 and not sol[-1]["raised"]
        if kept:
            t_final = tl()
            # the same clause through the Lean model: robust loss (constructor glue `normKernels` + `robustLoss`) of the
            # residuals at the parameters left behind, in 192-bit arithmetic
            res_ = residuals_of(module, cur_args[0], cur_args[1])
            if sum(r_.numel() for r_ in res_) <= 240 and all_finite(*res_) and "loss" in collect and math.isfinite(retf):
                collect["loss"].append({"line": "c08.lossk " + kspec_wire(kspec, scn.get("kernel_wrap")) + " " + outputs_wire(res_),
                                        "scn": scn, "call": call, "ret": retf, "tol": float(tol_loss(t_final))})
            if far(retf, t_final, tol_loss(t_final), dtype):
                fail(f"true-loss: step returned {retf!r}; the robust loss at the parameters it left behind is {t_final!r} "
                     f"(call {call}, {ntr} trials)")
        else:
            # ended by a raising solve (or no trial at all): parameters and loss as before that trial
            if param_dist(final, sol[-1]["params"] if ntr else given) != 0.0:
                fail(f"solver-raise: parameters changed by a trial whose solve raised (call {call})")
            t_final = given_true
            if far(retf, given_true, tol_cache(given_true), dtype):
                fail(f"solver-raise: solver raised at trial {ntr - 1}; step returned {retf!r} but the loss at the "
                     f"parameters (as before that trial) is {given_true!r} (call {call})")
            if ntr >= 2:
                # parameters were restored (up to round-off, checked by `restore`); the cached loss refers to the
                # parameters before the trials: allow for the loss difference between the two from now on
                drift += abs(float(tl()) - float(given_true))
        # ---- loss at the parameters given: optimizer.last
        if far(optlast, given_true, tol_cache(given_true), dtype):
            fail(f"last: optimizer.last = {optlast!r} but the loss at the parameters the call was given is {given_true!r} "
                 f"(call {call})")
        if had_cache and optlast != cached and not (abs(optlast - cached) <= tol_cache(given_true)):
            fail(f"last: optimizer.last = {optlast!r} differs from optimizer.loss = {cached!r} cached by the previous call "
                 f"(call {call})")
        # ---- never worse unless exhausted *in this call*
        rejections = max(ntr - 1, 0)
        if retf > optlast or retf > given_true + tol_cache(given_true):
            if rejections != reject:
                fail(f"monotone: step returned {retf!r} > loss at the given parameters {given_true!r} after only "
                     f"{rejections} rejections in this call (reject={reject}) (call {call})")
        if rc != rejections and ntr:
            fail(f"reject-count: optimizer.reject_count = {rc} but {rejections} trials were rejected in this call (call {call})")
        # ---- every rejected trial restores the parameters; trial losses are true losses
        trial_pts, ui_ = [], 0
        for ev in sol:
            if ev["raised"] or ui_ >= len(ups):
                trial_pts.append(None)
            else:
                trial_pts.append(ups[ui_]["params"])
                ui_ += 1
        for t, ev in enumerate(sol):
            # state at the top of the loop before trial t
            before = ev["params"]
            dmag = 0.0
            if t > 0:
                prev = sol[t - 1]
                dmag = float(prev["D"].abs().max()) if "D" in prev else 0.0
                worst, info = restore_excess(kinds, sol[t - 1]["params"], before, dmag, eps, trial=trial_pts[t - 1])
                if worst > 1.0:
                    fail(f"restore: after rejected trial {t - 1} the parameters differ from those before the trial: {info}, "
                         f"|D|={dmag:.3e} (call {call})")
                if ev["opt_loss"] != l0 or ev["opt_last"] != l0:
                    fail(f"restore-loss: after rejected trial {t - 1} optimizer.loss/last = {ev['opt_loss']!r}/{ev['opt_last']!r}, "
                         f"expected the loss before the trial {l0!r} (call {call})")
                if ev["rc"] != t:
                    fail(f"reject-count: reject_count = {ev['rc']} after {t} rejections (call {call})")
            elif param_dist(before, given) != 0.0:
                fail(f"first-trial: parameters changed before the first solve (call {call})")
        if any(ev["raised"] for ev in sol[:-1]):
            fail(f"solver-raise: the call went on with another trial after the solver raised (call {call})")
        ui = 0
        for t, ev in enumerate(sol):
            if ev["raised"]:
                continue
            if ui >= n_upd:
                fail(f"update-missing: no strategy.update for trial {t} (call {call})")
                break
            up = ups[ui]
            ui += 1
            if "A" in ev and not scn.get("weight") and up["J"].numel() <= 600 and call < 3 and all_finite(ev["A"], ev["b"]):
                nr_ = normal_request(scn, ev, up, dtype, call, t)
                if nr_ is not None:
                    collect.setdefault("normal", []).append(nr_)
                else:
                    ctx.count("normal.skipped-overflow")
                dr_ = diag_request(scn, ev, up, [u_["pg_before"]["damping"] for u_ in ups[:ui]], dtype, call, t)
                if dr_ is not None:
                    collect.setdefault("diag", []).append(dr_)
            # the trial point is Retr(parameters before the trial, D): for Euclidean parameters p + D entry by entry
            # (also when the parameter is a non-contiguous view: an update applied to a private copy moves nothing)
            if "D" in ev and up["params"] is not None:
                off = 0
                dflat = ev["D"].double().flatten()
                for kd_, b_, t_, fz_ in zip(kinds, ev["params"], up["params"], frozen0):
                    nel = b_.numel()
                    if fz_ is not None:
                        continue            # not trainable: no slice of D
                    if kd_ is None and off + nel <= dflat.numel():
                        want = b_.double().flatten() + dflat[off:off + nel]
                        err = (t_.double().flatten() - want).abs()
                        tolu = 4 * eps * (b_.double().flatten().abs() + dflat[off:off + nel].abs()) + 1e-300
                        if not bool((err <= tolu).all()):
                            j_ = int((err / tolu).argmax())
                            fail(f"update-applied: after update_parameter(D) entry {j_} of a Euclidean parameter is "
                                 f"{float(t_.double().flatten()[j_])!r}, expected p + D = {float(want[j_])!r} (trial {t}, call {call})")
                            break
                    off += nel
            lt = with_params(module, up["params"], tl)
            if far(up["loss"], lt, tol_loss(lt), dtype):
                fail(f"trial-loss: the loss given to strategy.update for trial {t} is {float(up['loss'])!r} but the robust loss "
                     f"at the trial parameters is {lt!r} (call {call})")
            if float(up["last"]) != l0:
                fail(f"trial-last: strategy.update got last={float(up['last'])!r}, the loss before the trial is {l0!r} (call {call})")
            # a non-final trial was rejected: it must have been worse; a kept final trial must not be worse unless exhausted
            if t < ntr - 1 and not (float(up["loss"]) > l0):
                fail(f"reject-better: trial {t} with loss {float(up['loss'])!r} <= {l0!r} was rejected (call {call})")
        if kept and ups:
            tolp = (64 if lie else 16) * eps * (param_mag(final) + 1.0) + 1e-300
            if param_dist(final, ups[-1]["params"]) != 0.0:
                fail(f"kept: the parameters left behind differ from the last trial point (call {call})")
        if n_upd != sum(1 for ev in sol if not ev["raised"]):
            fail(f"update-count: {n_upd} strategy updates for {sum(1 for ev in sol if not ev['raised'])} completed solves (call {call})")
        # ---- strategy state continuity and bounds
        if prev_pg is not None and pg_before_call != prev_pg:
            fail(f"pg-continuity: param group changed between calls: {prev_pg} -> {pg_before_call} (call {call})")
        cur = pg_before_call
        for j, up in enumerate(ups):
            if up["pg_before"] != cur:
                fail(f"pg-continuity: pg before update {j} is {up['pg_before']} but was {cur} after the previous one (call {call})")
            cur = up["pg_after"]
            h = up["hyper"]
            kind = scn["strategy"]["kind"]
            if h["smin"] <= h["smax"] and kind != "constant" and not own_law:
                keys = ["damping"] if kind == "adaptive" else ["radius", "down"]
                for kx in keys:
                    if not (h["smin"] <= cur[kx] <= h["smax"]):
                        fail(f"bounds: {kind} {kx} = {cur[kx]!r} outside [{h['smin']!r}, {h['smax']!r}] after an update (call {call})")
        if pg_state(pg) != cur:
            fail(f"pg-continuity: param group after the call {pg_state(pg)} != after the last update {cur} (call {call})")
        prev_pg = pg_state(pg)
        prev_loss = optloss
        if kept:
            drift = 0.0
            layout_slack = 0.0

        # ---- model requests: per-trial update + the whole loop
        kind = scn["strategy"]["kind"]
        Jc = ups[0]["J"] if ups else None
        if own_law:
            # a user strategy deriving from the library class with its own update law: LM must apply exactly that law
            for j, up in enumerate(ups):
                wantd = up["pg_before"]["damping"] * 3.0 if float(up["loss"]) > float(up["last"]) else up["pg_before"]["damping"] / 3.0
                exp_ = dict(up["pg_before"], damping=wantd)
                if up["pg_after"] != exp_:
                    fail(f"subclass-strategy: the user's update (damping ×3 after a worse trial, ÷3 otherwise) gives {exp_}, "
                         f"the param group holds {up['pg_after']} (call {call} update {j})")
        for j, up in enumerate(ups):
            if own_law:
                break
            if up["J"].numel() > 6000:
                # large problems: the documented rule directly (the 192-bit model would spend its time in J·D)
                allowed, qx = allowed_verdicts(up["hyper"], up["last"], up["loss"], up["J"], up["D"], up["R"], dtype)
                if not any(all(abs(doc_update(kind, up["hyper"], up["pg_before"], v_)[kx] - up["pg_after"][kx])
                               <= 16 * EPS["float64"] * abs(up["pg_after"][kx]) for kx in up["pg_after"]) for v_ in allowed):
                    fail(f"strategy-{kind}: large problem, quality {float(qx) if qx is not None else 'n/a'}: documented update of "
                         f"{up['pg_before']} does not give {up['pg_after']} (call {call} update {j})")
                continue
            if scn.get("tie_lm"):
                num_, den_, _m = quality_exact(up["last"], up["loss"], up["J"], up["D"], up["R"])
                if den_ != 0:
                    for key_ in ("high", "low"):
                        if num_ / den_ == Fraction(up["hyper"][key_]):
                            ctx.count(f"class.tie-lm.exact.{kind}.{key_}")
                else:
                    ctx.count(f"class.tie-lm.zero-den.{kind}")
            collect["upd"].append(upd_request(scn, kind, up, dtype, where=f"call {call} update {j}"))
        if ntr and n_upd == sum(1 for ev in sol if not ev["raised"]) and (not ups or (all(torch.equal(u["J"], Jc) and torch.equal(u["R"], ups[0]["R"]) for u in ups)
                                and Jc.numel() <= 4000)):
            if ups:
                Jd, Rd = Jc.double(), ups[0]["R"].double().flatten()
            else:
                Jd, Rd = torch.zeros(0, 0, dtype=torch.float64), torch.zeros(0, dtype=torch.float64)
            m, n = Jd.shape
            toks = [str(KINDS[kind]), hyper_wire(hyper_call), state_wire(pg_before_call), str(reject),
                    "1" if had_cache else "0", wf(l0), str(m), str(n), wire_list(Jd.flatten().tolist()),
                    wire_list(Rd.tolist()), str(ntr)]
            ui = 0
            for ev in sol:
                if ev["raised"]:
                    toks.append("1 0:0 0 " + wire_list([0.0] * n))
                else:
                    up = ups[ui]
                    ui += 1
                    toks.append("0 " + wf(up["loss"]) + f" {den_sign_bit(up['J'], up['D'], up['R'])} " +
                                wire_list(up["D"].double().flatten().tolist()))
            obs = []
            for t in range(1, ntr + 1):
                if t < ntr:
                    ev = sol[t]
                    obs.append({"p": 0, "loss": ev["opt_loss"], "last": ev["opt_last"], "rc": ev["rc"], "solves": t, "live": 1})
                else:
                    obs.append({"p": (ntr if kept else 0), "loss": max(min(optloss, FMAX), -FMAX), "last": optlast, "rc": rc,
                                "solves": ntr, "live": 0})
            states = [u["pg_after"] for u in ups]
            collect["lm"].append({"line": "c08.lm " + " ".join(toks), "scn": scn, "call": call, "obs": obs, "sol": [e["raised"] for e in sol],
                                  "states": states, "kind": kind, "ntr": ntr, "pg0": pg_before_call, "skip_state": own_law})
        elif ntr == 0:
            fail(f"no-trial: step made no trial at all (call {call})")
        sig = ("lm", scn["family"], kind, reject, rejections, ending, "worse" if retf > optlast else "ok", dtype, min(call, 4))
        ctx.note_case(sig, ntr > 0)

    if not is_lm and gn_steps:
        c0 = hasattr(opt, "loss") and False
        first = first_loss if first_loss is not None else 0.0
        line = f"c08.gn 0 {to_wire(first)} {len(gn_steps)} " + " ".join(f"{r}:0 {to_wire(l)}" for r, l in gn_steps)
        collect["gn"].append({"line": line, "scn": scn, "obs": gn_obs})


def update_nonfinite(kind, up, where=""):
    """message when `strategy.update` produced a NaN/inf entry from finite arguments whose quality computation stays inside
    the dtype (0/0 and x/0 qualities included: their branch is specified), else None"""
    fin = lambda x: math.isfinite(float(x))
    if all(fin(v) for v in up["pg_after"].values()) or up.get("raised"):
        return None                     # (a documented exception, e.g. ZeroDivisionError, leaves pg as it was at that point)
    JD = up["J"] @ up["D"]
    if not (all(fin(v) for v in up["pg_before"].values()) and all(fin(v) for v in up["hyper"].values()) and fin(up["last"])
            and fin(up["loss"]) and all_finite(up["J"], up["D"], up["R"], JD, JD.mT @ (2 * up["R"] + JD))):
        return None
    num, den, _ = quality_exact(up["last"], up["loss"], up["J"], up["D"], up["R"])
    q = "0/0" if den == 0 and num == 0 else (f"{float(num)!r}/0" if den == 0 else repr(float(num / den)))
    return (f"non-finite result: {kind} strategy.update turned {up['pg_before']} into {up['pg_after']} for finite arguments: "
            f"step quality {q}, high={up['hyper']['high']!r}, low={up['hyper']['low']!r} ({where})")


def upd_request(scn, kind, up, dtype, where=""):
    if not all(math.isfinite(v) for v in up["pg_before"].values()):
        # threaded after an update that already produced (and was reported for) a non-finite state: nothing to compare
        return {"line": None, "scn": scn, "kind": kind, "up": up, "dtype": dtype, "where": where}
    Jd = up["J"].double()
    m, n = Jd.shape
    line = (f"c08.upd {KINDS[kind]} 9 {hyper_wire(up['hyper'])} {state_wire(up['pg_before'])} {wf(up['last'])} "
            f"{wf(up['loss'])} {m} {n} {wire_list(Jd.flatten().tolist())} {wire_list(up['D'].double().flatten().tolist())} "
            f"{wire_list(up['R'].double().flatten().tolist())} {den_sign_bit(up['J'], up['D'], up['R'])}")
    return {"line": line, "scn": scn, "kind": kind, "up": up, "dtype": dtype, "where": where}


# ============================================================================ comparing with the model

def state_match(obs, want, tol):
    """obs: dict of floats; want: (damping, radius, down) Fractions"""
    keys = ["damping", "radius", "down"]
    for kx, w in zip(keys, want):
        if kx in obs and not rel_close(obs[kx], w, tol):
            return False
    return True


def settle_updates(ctx: Ctx, reqs, stream):
    """first pass: model's own verdict; second pass for mismatches: verdicts the float code may legitimately take"""
    live = []
    for r in reqs:
        msg = update_nonfinite(r["kind"], r["up"], r["where"]) if r["line"] is not None else None
        if msg:
            ctx.fail(r["scn"], msg)
        elif r["line"] is not None:
            live.append(r)
    reqs = live
    if not reqs:
        return
    reps = ctx.driver.run([r["line"] for r in reqs])
    retry = []
    for r, rep in zip(reqs, reps):
        st, toks = common.parse_reply(rep)
        if st != "ok":
            if toks.strip() == "ZeroDivisionError":
                ctx.count(f"{stream}.model-error.ZeroDivisionError")
                if r["up"].get("raised") != "ZeroDivisionError":
                    ctx.disagree(stream, r["scn"], f"{r['where']}: model: ZeroDivisionError, implementation: {r['up'].get('raised') or r['up']['pg_after']}")
                    ctx.fail(r["scn"], f"strategy-{r['kind']}: {r['where']}: `1. / pg[...]` with a zero operand must raise ZeroDivisionError, "
                                       f"the implementation produced {r['up'].get('raised') or r['up']['pg_after']}")
                continue
            raise common.InfraError(f"model error on c08.upd: {rep}")
        if r["up"].get("raised"):
            ctx.disagree(stream, r["scn"], f"{r['where']}: implementation raised {r['up']['raised']}, model gives a state")
            ctx.fail(r["scn"], f"strategy-{r['kind']}: {r['where']}: update raised {r['up']['raised']} on {r['up']['pg_before']}")
            continue
        nums = [common.from_wire(t) for t in toks]
        r["model"] = nums
        r["verdict"] = VERDICTS[int(nums[3])]
        ctx.count(f"{stream}.verdict.{r['kind']}.{r['verdict']}")
        if state_match(r["up"]["pg_after"], nums[:3], 16 * EPS["float64"]):
            continue
        up = r["up"]
        allowed, qx = allowed_verdicts(up["hyper"], up["last"], up["loss"], up["J"], up["D"], up["R"], r["dtype"])
        r["allowed"] = allowed
        r["qx"] = qx
        others = [v for v in allowed if v != r["verdict"]]
        if r["kind"] == "constant" or not others:
            report_update(ctx, r, stream)
        else:
            for v in others:
                line = r["line"].split(" ")
                line[2] = str(VERDICTS.index(v))
                retry.append((r, v, " ".join(line)))
    if retry:
        reps = ctx.driver.run([x[2] for x in retry])
        okset = set()
        for (r, v, _), rep in zip(retry, reps):
            nums = common.reply_nums(rep)
            if state_match(r["up"]["pg_after"], nums[:3], 16 * EPS["float64"]):
                okset.add(id(r))
                ctx.count(f"{stream}.threshold-ambiguous-accepted")
        done = set()
        for r, v, _ in retry:
            if id(r) in okset or id(r) in done:
                continue
            done.add(id(r))
            report_update(ctx, r, stream)


def report_update(ctx: Ctx, r, stream):
    up = r["up"]
    want = [float(x) for x in r["model"][:3]]
    ctx.disagree(stream, r["scn"], f"{r['where']}: {r['kind']} update from {up['pg_before']} with quality verdict {r['verdict']} "
                                  f"gives {up['pg_after']}, model (damping, radius, down) = {want}")
    # oracle: the documented rule itself
    allowed = r.get("allowed") or {r["verdict"]}
    for v in allowed:
        doc = doc_update(r["kind"], up["hyper"], up["pg_before"], v)
        if all(abs(doc[kx] - up["pg_after"][kx]) <= 16 * EPS["float64"] * abs(doc[kx]) for kx in up["pg_after"]):
            return
    v = r["verdict"]
    doc = doc_update(r["kind"], up["hyper"], up["pg_before"], v)
    q = r.get("qx")
    ctx.fail(r["scn"], f"strategy-{r['kind']}: {r['where']}: quality {float(q) if q is not None else 'n/a'} (high={up['hyper']['high']}, "
                       f"low={up['hyper']['low']}) is '{v}': documented update of {up['pg_before']} is "
                       f"{ {kx: doc[kx] for kx in up['pg_after']} } but the implementation produced {up['pg_after']}")


def settle_lm(ctx: Ctx, items, ambiguous_scn_calls):
    if not items:
        return
    reps = ctx.driver.run([it["line"] for it in items])
    for it, rep in zip(items, reps):
        st, toks = common.parse_reply(rep)
        if st != "ok":
            if toks.startswith("contract"):
                raise common.InfraError(f"stand-in contract violated: {rep}")
            raise common.InfraError(f"model error on c08.lm: {rep}")
        nums = [common.from_wire(t) for t in toks]
        ntr = it["ntr"]
        rows = [nums[9 * i: 9 * i + 9] for i in range(ntr + 1)]
        call = it["call"]
        skip_state = (id(it["scn"]), call) in ambiguous_scn_calls or it.get("skip_state")
        ui = 0
        for t in range(ntr):
            row, ob = rows[t], it["obs"][t]
            mp, mloss, mlast, mrc, msolves, mlive = row[0], row[1], row[2], int(row[3]), int(row[4]), int(row[5])
            want_p = 0 if ob["p"] == 0 else ob["p"]
            det = []
            if int(mp) != want_p:
                det.append(f"parameters: model at point {int(mp)} (0 = restored/as given, i = trial i-1 kept), implementation at {want_p}")
            if mloss != cfr(ob["loss"]):
                det.append(f"loss: model {float(mloss)!r} implementation {ob['loss']!r}")
            if mlast != cfr(ob["last"]):
                det.append(f"last: model {float(mlast)!r} implementation {ob['last']!r}")
            if mrc != ob["rc"]:
                det.append(f"reject_count: model {mrc} implementation {ob['rc']}")
            if msolves != ob["solves"]:
                det.append(f"solves: model {msolves} implementation {ob['solves']}")
            if mlive != ob["live"]:
                det.append("model continues the loop where the implementation stopped" if mlive else
                           "model has left the loop where the implementation makes another trial")
            if not it["sol"][t]:
                stt = it["states"][ui]
                ui += 1
                if not skip_state and not state_match(stt, row[6:9], 16 * EPS["float64"] * (t + 2)):
                    det.append(f"pg after trial {t}: model {[float(x) for x in row[6:9]]} implementation {stt}")
            if det:
                ctx.disagree("lm", it["scn"], f"call {call}, after pass {t + 1} of {ntr}: " + "; ".join(det))
                hard = [d for d in det if not d.startswith("pg after")]
                if hard:
                    # the decisions are the property's own law: with the observed trial losses a trial is rejected iff it is
                    # worse and fewer than `reject` were rejected; a raise or an accepted trial ends the call
                    ctx.fail(it["scn"], f"loop-law: call {call}, after pass {t + 1} of {ntr}: " + "; ".join(hard))
                break
        else:
            fin = rows[ntr]
            last = rows[ntr - 1] if ntr else None
            if last is not None and (fin[:6] != last[:6]):
                ctx.disagree("lm", it["scn"], f"call {call}: the model's lmStep (fuel reject+1) differs from the state after {ntr} passes")


def normal_request(scn, ev, up, dtype, call, t):
    """the linear system of one trial, as handed to the solver, against the two sides of the model's `SolvesDamped`:
    A·D vs Jᵀ(J D) + Λ⊙D with Λ = diag(A) − diag(JᵀJ) (so the off-diagonal part of A must be that of JᵀJ), b vs −JᵀR"""
    eps = EPS[dtype]
    J, R = up["J"].double(), up["R"].double().flatten()
    Dgiven = up["D"].double().flatten()          # what the loop used (the solver's step times the scripted scale)
    A, b = ev["A"].double(), ev["b"].double().flatten()
    m, n = J.shape
    lam = A.diagonal() - (J.T @ J).diagonal()
    Ja = J.abs()
    AD = A @ Dgiven
    tolv = 64 * eps * (Ja.T @ (Ja @ Dgiven.abs()) + A.diagonal().abs() * Dgiven.abs()) + 1e-300
    tolb = 64 * eps * (Ja.T @ R.abs()) + 1e-300
    if not all_finite(J, R, Dgiven, lam, AD, tolv, tolb):
        return None                # the harness' own float64 products overflow (scales near 1e±300): nothing to compare
    line = (f"c08.normal {m} {n} {wire_list(J.flatten().tolist())} {wire_list(lam.tolist())} {wire_list(Dgiven.tolist())} "
            f"{wire_list(R.tolist())}")
    return {"line": line, "scn": scn, "call": call, "t": t, "n": n, "AD": AD.tolist(), "b": b.tolist(),
            "tolv": tolv.tolist(), "tolb": tolb.tolist(),
            "genuine": ev["scale"] == 1.0, "lam_pos": bool((lam > 0).all()), "nonzero": bool((Dgiven != 0).any())}


def diag_request(scn, ev, up, damps, dtype, call, t):
    """the diagonal of the matrix handed to the solver against the model's `lmDiag` (clamp of diag(JᵀJ) to
    [pg['min'], pg['max']] once per call, then d += d·damping in every trial so far of the call)"""
    full = up.get("pg_full_before") or {}
    if "min" not in full or "max" not in full:
        return None
    lo, hi = float(full["min"]), float(full["max"])
    J = up["J"].double()
    m, n = J.shape
    obs = ev["A"].double().diagonal()
    if not (all(math.isfinite(v) for v in damps + [lo, hi]) and all_finite(J, obs, J.T @ J)):
        return None
    line = (f"c08.diag {to_wire(lo)} {to_wire(hi)} {m} {n} {wire_list(J.flatten().tolist())} {len(damps)} {wire_list(damps)}")
    return {"line": line, "scn": scn, "call": call, "t": t, "n": n, "obs": obs.tolist(),
            "rtol": 16 * EPS[dtype] * (m + 2 * len(damps) + 4), "damps": damps, "lo": lo, "hi": hi}


def settle_diag(ctx: Ctx, items):
    if not items:
        return
    reps = ctx.driver.run([it["line"] for it in items])
    for it, rep in zip(items, reps):
        nums = common.reply_nums(rep)
        n = it["n"]
        diag, shift = nums[:n], nums[n:2 * n]
        ctx.count("diag.compared")
        for j in range(n):
            if not (abs(Fraction(it["obs"][j]) - diag[j]) <= Fraction(it["rtol"]) * abs(diag[j]) + Fraction(1, 2 ** 1000)):
                ctx.disagree("diag", it["scn"], f"call {it['call']} trial {it['t']}: A[{j},{j}] handed to the solver = {it['obs'][j]!r}, model "
                                               f"lmDiag = {float(diag[j])!r} (min {it['lo']!r}, max {it['hi']!r}, dampings {it['damps']})")
                ctx.fail(it["scn"], f"normal-equations: diagonal entry {j} of the matrix handed to the solver is {it['obs'][j]!r}; "
                                    f"clamp((JᵀJ)_jj, {it['lo']!r}, {it['hi']!r})·Π(1+damping) over the dampings {it['damps']} of this call is "
                                    f"{float(diag[j])!r} (call {it['call']} trial {it['t']})")
                break
        else:
            ctx.count(f"diag.shift-{'positive' if all(x > 0 for x in shift) else 'nonpositive'}")
            ctx.note_case(("diag", it["scn"]["family"], it["scn"]["dtype"], len(it["damps"]), all(x > 0 for x in shift)), True)


def settle_normal(ctx: Ctx, items):
    if not items:
        return
    reps = ctx.driver.run([it["line"] for it in items])
    for it, rep in zip(items, reps):
        nums = common.reply_nums(rep)
        n = it["n"]
        lhs, rhs, den = nums[:n], nums[n:2 * n], nums[2 * n]
        ctx.count("normal.compared")
        for j in range(n):
            if not (abs(lhs[j] - Fraction(it["AD"][j])) <= Fraction(it["tolv"][j])):
                ctx.disagree("normal", it["scn"], f"call {it['call']} trial {it['t']}: (A D)[{j}] = {it['AD'][j]!r} for the matrix handed to the "
                                                 f"solver, model Jᵀ(J D) + Λ⊙D = {float(lhs[j])!r}")
                ctx.fail(it["scn"], f"normal-equations: the matrix handed to the solver is not JᵀJ + diag Λ: (A D)[{j}] = {it['AD'][j]!r}, "
                                    f"Jᵀ(J D) + Λ⊙D = {float(lhs[j])!r} (call {it['call']} trial {it['t']})")
                break
            if not (abs(rhs[j] - Fraction(it["b"][j])) <= Fraction(it["tolb"][j])):
                ctx.disagree("normal", it["scn"], f"call {it['call']} trial {it['t']}: b[{j}] = {it['b'][j]!r}, model −JᵀR = {float(rhs[j])!r}")
                ctx.fail(it["scn"], f"normal-equations: the right-hand side handed to the solver is not −JᵀR: b[{j}] = {it['b'][j]!r}, "
                                    f"−(JᵀR)[{j}] = {float(rhs[j])!r} (call {it['call']} trial {it['t']})")
                break
        else:
            if it["genuine"] and it["lam_pos"] and it["nonzero"]:
                # hypotheses of `qualityDen_pos_of_normal_equations` up to the accuracy of the solver: its conclusion, observed
                solved = all(abs(lhs[j] - rhs[j]) <= Fraction(1, 1000) * (abs(lhs[j]) + abs(rhs[j])) + Fraction(it["tolv"][j])
                             for j in range(n))
                ctx.count(f"normal.genuine.{'solved' if solved else 'inexact'}.den-{'positive' if den > 0 else 'nonpositive'}")
                if solved:
                    ctx.note_case(("normal", it["scn"]["family"], it["scn"]["strategy"]["kind"], it["scn"]["dtype"], n, den > 0), True)


def settle_lmloss(ctx: Ctx, items):
    if not items:
        return
    reps = ctx.driver.run([it["line"] for it in items])
    for it, rep in zip(items, reps):
        want = common.reply_nums(rep)[0]
        ctx.count("lm-loss.compared")
        if abs(Fraction(it["ret"]) - want) > Fraction(it["tol"]):
            ctx.disagree("lm-loss", it["scn"], f"call {it['call']}: step returned {it['ret']!r}, model lossOf at the parameters left "
                                              f"behind = {float(want)!r}")
            ctx.fail(it["scn"], f"true-loss: step returned {it['ret']!r}; the robust loss (model) at the parameters it left behind is "
                                f"{float(want)!r} (call {it['call']})")


def settle_gn(ctx: Ctx, items):
    if not items:
        return
    reps = ctx.driver.run([it["line"] for it in items])
    for it, rep in zip(items, reps):
        nums = common.reply_nums(rep)
        for i, ob in enumerate(it["obs"]):
            if ob is None:
                continue
            p, loss, last, have = nums[4 * i: 4 * i + 4]
            if loss != cfr(ob[0]) or last != cfr(ob[1]) or int(have) != 1:
                ctx.disagree("gn", it["scn"], f"GN call {i}: model (loss,last)=({float(loss)!r},{float(last)!r}) implementation {ob}")
                ctx.fail(it["scn"], f"gn-law: GN call {i}: returned loss / recorded previous loss should be ({float(loss)!r}, {float(last)!r}), "
                                    f"the implementation has {ob}")
                break


# ============================================================================ stream: direct strategy updates

def gen_strategy_spec(rng, kind=None):
    kind = kind or rng.choice(["constant", "adaptive", "trust"])
    dy = rng.random() < 0.5
    high = rng.choice([0.5, 0.25, 0.75, 0.125]) if dy else rng.choice([0.5, 0.9, 0.3, rng.uniform(0.05, 0.95)])
    low = rng.choice([2.0 ** -10, 0.125, 2.0 ** -4]) if dy else rng.choice([1e-3, 0.1, 1e-6, rng.uniform(1e-4, 0.4)])
    if rng.random() < 0.05:
        low, high = high, low   # legal (only positivity is asserted)
    up = rng.choice([2.0, 1.5, 10.0, 1.0 + 2.0 ** -8, rng.uniform(1.01, 8.0)])
    down = rng.choice([0.5, 0.25, 0.9, 0.0625, rng.uniform(0.01, 0.99)])
    factor = rng.choice([0.5, 0.25, 0.9, rng.uniform(0.05, 0.95)])
    damping = rng.choice([1e-9, 1e-6, 1e-4, 1e-3, 1e-2, 0.1, 1.0, 10.0, 1e3]) * rng.choice([1.0, 1.0, rng.uniform(0.5, 2.0)])
    mode = rng.random()
    if mode < 0.35:
        smin, smax = 1e-6, 1e16
    elif mode < 0.7:   # tight: clamps are reached within a few updates
        smin, smax = damping * rng.choice([1.0, 0.5, 0.1, 1e-3]), damping * rng.choice([1.0, 2.0, 7.0, 1e3])
    else:
        smin = rng.choice([1e-12, 1e-8, 1e-6, 1e-3, 0.1])
        smax = smin * rng.choice([1.0, 10.0, 1e4, 1e10, 1e20])
    if rng.random() < 0.1:
        # extreme but legal (the constructors only assert signs and the open unit interval)
        up = rng.choice([1e6, 1e3, 1.0 + 2.0 ** -30, up])
        down = rng.choice([1e-8, 1.0 - 2.0 ** -20, down])
        factor = rng.choice([1e-6, 1.0 - 2.0 ** -20, factor])
        high = rng.choice([1e-12, 1e6, high])
        low = rng.choice([1e-15, 1e3, low])
        damping = rng.choice([1e-30, 1e-15, 1e15, 1e30])
        smin, smax = rng.choice([(1e-300, 1e300), (1e-30, 1e30), (damping, damping), (1e-300, damping), (damping, 1e300)])
    if kind == "adaptive" and rng.random() < 0.06:
        smin = rng.choice([0.0, -1.0, -1e-6])          # sign of a bound is a convention, not a validity condition
    spec = {"kind": kind, "damping": damping, "high": high, "low": low, "up": up, "down": down, "factor": factor,
            "min": smin, "max": smax}
    if kind == "trust":
        # radius = 1/damping; tight bounds refer to the radius
        radius = 1.0 / damping
        if 0.35 <= mode < 0.7:
            spec["min"], spec["max"] = radius * rng.choice([1.0, 0.5, 0.1, 1e-3]), radius * rng.choice([1.0, 2.0, 7.0, 1e3])
            # the same bounds clamp `down` (0<down<1): keep them from making every down equal, sometimes
            if rng.random() < 0.5:
                spec["min"] = min(spec["min"], down * factor ** 3)
        spec["radius"] = radius
    return spec


def engineered_quality_case(rng, spec, dtype, exact):
    """tensors (last, loss, J, D, R) whose step quality is where we want it"""
    dt = getattr(torch, dtype)
    high, low = spec["high"], spec["low"]
    if exact:
        # dyadic data: J=[[1]], D=[a], R=[b], den = -(a (2b + a)) ; every float op exact
        a = rng.choice([-4.0, -2.0, -1.0, -0.5, 1.0, 2.0])
        b = rng.choice([-3.0, -1.0, 0.5, 1.0, 2.0, 4.0])
        den = -(a * (2 * b + a))
        if den == 0:
            b += 0.5
            den = -(a * (2 * b + a))
        tq = rng.choice([high, high, low, low, high + 2.0 ** -12, low - 2.0 ** -14, high - 2.0 ** -12, low + 2.0 ** -14, 0.0, -1.0, 4.0])
        loss = rng.choice([1.0, 8.0, 0.25])
        last = loss + tq * den
        J = torch.tensor([[1.0]], dtype=dt)
        D = torch.tensor([[a]], dtype=dt)
        R = torch.tensor([[b]], dtype=dt)
        return torch.tensor(last, dtype=dt), torch.tensor(loss, dtype=dt), J, D, R, "exact"
    m, n = rng.randint(1, 5), rng.randint(1, 4)
    g = torch.Generator().manual_seed(rng.randrange(1 << 30))
    J = torch.randn(m, n, generator=g, dtype=torch.float64)
    R = torch.randn(m, 1, generator=g, dtype=torch.float64) * rng.choice([1e-3, 1.0, 1e3])
    c = rng.random()
    if c < 0.08:
        D = torch.zeros(n, 1, dtype=torch.float64)       # zero step: 0/0
        region = "zero-step"
    else:
        # an LM-like step -(JtJ + lam I)^-1 Jt R scaled
        lam = rng.choice([1e-6, 1e-2, 1.0, 100.0])
        D = -torch.linalg.solve(J.T @ J + lam * torch.eye(n, dtype=torch.float64), J.T @ R) * rng.choice([1.0, 1.0, 0.3, -2.0, 3.0])
        region = "step"
    J, D, R = J.to(dt), D.to(dt), R.to(dt)
    den = float(-((J @ D).mT @ (2 * R + J @ D)).squeeze())
    ke = 10 if dtype == "float64" else 5
    rel = 2.0 ** -rng.randint(4, 30 if dtype == "float64" else 14)
    tq = rng.choice([high * (1 + rel), high * (1 - rel), low * (1 + rel), low * (1 - rel), (high + low) / 2, high * 3, low / 3,
                     0.0, -rng.uniform(0.1, 5), rng.uniform(0, 2), 1e6, -1e6])
    loss = abs(float(torch.randn(1, generator=g, dtype=torch.float64))) * rng.choice([1e-3, 1.0, 1e3]) + abs(tq * den)
    if region == "zero-step":
        last = loss if rng.random() < 0.7 else loss * 1.5
    else:
        last = loss + tq * den
    return torch.tensor(last, dtype=dt), torch.tensor(loss, dtype=dt), J, D, R, region


def place_damping(rng, spec, pg, strat):
    """put pg on / next to the clamp boundaries"""
    c = rng.random()
    if spec["kind"] == "constant":
        return
    lo, hi = strat.min, strat.max
    if lo <= 0:
        return          # a non-positive lower bound is legal, a non-positive damping is not
    if spec["kind"] == "adaptive":
        if c < 0.15:
            pg["damping"] = lo
        elif c < 0.3:
            pg["damping"] = hi
        elif c < 0.4:
            pg["damping"] = hi / spec["up"] * rng.choice([1 - 2.0 ** -20, 1.0, 1 + 2.0 ** -20])
        elif c < 0.5:
            pg["damping"] = lo / spec["down"] * rng.choice([1 - 2.0 ** -20, 1.0, 1 + 2.0 ** -20])
    elif spec["kind"] == "trust":
        if c < 0.15:
            pg["damping"] = 1.0 / lo
        elif c < 0.3:
            pg["damping"] = 1.0 / hi
        elif c < 0.4:
            pg["damping"] = spec["up"] / hi * rng.choice([1 - 2.0 ** -20, 1.0, 1 + 2.0 ** -20])
        elif c < 0.5:
            pg["down"] = rng.choice([lo, hi, spec["down"] * spec["factor"], 0.9])
        pg["radius"] = 1.0 / pg["damping"]      # reachable states only: radius and damping are always reciprocal


def run_upd_stream(ctx: Ctx, n, rng=None):
    rng = rng or ctx.rng
    reqs = []
    for i in range(n):
        spec = gen_strategy_spec(rng)
        dtype = rng.choice(["float64", "float64", "float32", "float32", "float16", "bfloat16"])
        strat = make_strategy(spec)
        pg = dict(strat.defaults)
        place_damping(rng, spec, pg, strat)
        exact = rng.random() < 0.3
        last, loss, J, D, R, region = engineered_quality_case(rng, spec, dtype, exact)
        if not all_finite(last, loss, J, D, R) or not all_finite(J @ D, (J @ D).mT @ (2 * R + J @ D)):
            # narrow dtypes overflow quickly: fall back to the small dyadic data
            last, loss, J, D, R, region = engineered_quality_case(rng, spec, dtype, True)
        rec = RecStrategy(strat)
        case = {"kind": "upd", "spec": spec, "pg": {k: float(v) for k, v in pg.items()}, "dtype": dtype,
                "last": float(last), "loss": float(loss), "J": J.tolist(), "D": D.tolist(), "R": R.tolist()}
        rec.update(pg, last=last, loss=loss, J=J, D=D, R=R)
        up = rec.vfh08_log[-1]
        reqs.append(upd_request(case, spec["kind"], up, dtype, where="direct update"))
        check_bounds_direct(ctx, case, spec["kind"], up)
        ctx.count(f"upd.{spec['kind']}.{region}")
        ctx.note_case(("upd", spec["kind"], region, dtype, common.sig_mag(up["pg_before"]["damping"]),
                       up["pg_after"] == up["pg_before"]), True)
        if i < 3:
            ctx.sample({"stream": "upd", "spec": spec, "pg_before": up["pg_before"], "pg_after": up["pg_after"]})
    settle_updates(ctx, reqs, "upd")


def check_bounds_direct(ctx, case, kind, up):
    h, cur = up["hyper"], up["pg_after"]
    if not all(math.isfinite(v) for v in cur.values()):
        return                          # reported (or excused) by `update_nonfinite`
    if h["smin"] <= h["smax"] and kind != "constant":
        for kx in (["damping"] if kind == "adaptive" else ["radius", "down"]):
            if not (h["smin"] <= cur[kx] <= h["smax"]):
                ctx.fail(case, f"bounds: {kind} {kx} = {cur[kx]!r} outside [{h['smin']!r}, {h['smax']!r}] after an update")
    if kind == "trust" and cur["radius"] > 0:
        if not (abs(cur["damping"] * cur["radius"] - 1.0) <= 8 * EPS["float64"]):
            ctx.fail(case, f"trust-inverse: damping {cur['damping']!r} is not 1/radius {cur['radius']!r} after an update")
    if kind == "constant" and cur != up["pg_before"]:
        ctx.fail(case, f"strategy-constant: Constant.update changed pg from {up['pg_before']} to {cur}")


def run_hist_case(ctx: Ctx, case):
    """30 updates threaded on one pg; qualities given directly through J=[[1]], D=[[1]], R=[[-1]] (den = 1) so that
    quality = last - loss"""
    import random
    rr = random.Random(case["seed"])
    spec = case["spec"]
    strat = make_strategy(spec)
    rec = RecStrategy(strat)
    pg = dict(strat.defaults)
    s0 = pg_state(pg)
    h0 = pg_hyper(pg, strat)
    dt = torch.float64
    J = torch.tensor([[1.0]], dtype=dt)
    D = torch.tensor([[1.0]], dtype=dt)
    R = torch.tensor([[-1.0]], dtype=dt)   # den = -(1*( -2 + 1)) = 1
    qs = []
    for i in range(case["n"]):
        c = rr.random()
        qv = -1.0 if c < case["pbad"] else (spec["high"] + 1.0 if c < case["pbad"] + case["pvery"] else (spec["high"] + spec["low"]) / 2)
        if spec["low"] >= spec["high"] and qv not in (-1.0,):
            qv = spec["high"] + 1.0
        qs.append(qv)
        rec.update(pg, last=torch.tensor(qv + 2.0, dtype=dt), loss=torch.tensor(2.0, dtype=dt), J=J, D=D, R=R)
    for i, up in enumerate(rec.vfh08_log):
        msg = update_nonfinite(spec["kind"], up, f"update {i} of a threaded history")
        if msg:
            ctx.fail(case, msg)
            return None
        check_bounds_direct(ctx, case, spec["kind"], up)
    line = (f"c08.stratrun {KINDS[spec['kind']]} {hyper_wire(h0)} {state_wire(s0)} " +
            " ".join(f"{to_wire((qv + 2.0) - 2.0)} 1:0" for qv in qs))
    return {"line": line, "case": case, "log": rec.vfh08_log, "spec": spec}


def run_edithist_case(ctx: Ctx, case):
    """one strategy object serving several param groups (different Jacobian sizes / dtypes), updates interleaved, and the
    caller editing the read-only entries of a group between updates so that the same quality changes its verdict:
    every update must read the *current* group, and touch only that group"""
    import random
    rr = random.Random(case["seed"])
    spec = case["spec"]
    strat = make_strategy(spec)
    rec = RecStrategy(strat)
    K = case["groups"]
    pgs = []
    for g in range(K):
        pg = dict(strat.defaults)
        pg["damping"] = pg["damping"] * (1.0 + g)
        if "radius" in pg:
            pg["radius"] = 1.0 / pg["damping"]
        pgs.append(pg)
    reqs = []
    toggles = {"high": [0.5, 0.25], "low": [2.0 ** -10, 0.125], "up": [2.0, 8.0], "down": [0.5, 0.125], "factor": [0.5, 0.25]}
    editable = [k for k in toggles if k in pgs[0] and not (spec["kind"] == "trust" and k == "down")]
    for i in range(case["n"]):
        g = rr.randrange(K)
        pg = pgs[g]
        if editable and rr.random() < 0.4:
            key = rr.choice(editable)
            pg[key] = rr.choice(toggles[key])
        qv = rr.choice([0.0625, 0.375, 0.75, -1.0])
        dt = torch.float64 if g % 2 == 0 else torch.float32
        m = g + 1
        J = torch.zeros(m, 1, dtype=dt)
        J[0, 0] = 1.0
        D = torch.ones(1, 1, dtype=dt)
        R = torch.zeros(m, 1, dtype=dt)
        R[0, 0] = -1.0                                   # den = -(1 * (-2 + 1)) = 1, quality = last - loss exactly
        others = [dict(p) for j, p in enumerate(pgs) if j != g]
        rec.update(pg, last=torch.tensor(qv + 2.0, dtype=dt), loss=torch.tensor(2.0, dtype=dt), J=J, D=D, R=R)
        up = rec.vfh08_log[-1]
        if [dict(p) for j, p in enumerate(pgs) if j != g] != others:
            ctx.fail(case, f"strategy-state: update {i} on param group {g} changed another param group served by the same strategy object")
        if up["strategy_attrs_changed"]:
            ctx.fail(case, f"strategy-state: update() changed attributes {up['strategy_attrs_changed']} of the strategy object")
        check_bounds_direct(ctx, case, spec["kind"], up)
        reqs.append(upd_request(case, spec["kind"], up, "float64" if g % 2 == 0 else "float32", where=f"update {i} (group {g})"))
    return reqs


def run_edithist_stream(ctx: Ctx, n, rng=None):
    rng = rng or ctx.rng
    reqs = []
    for i in range(n):
        kind = rng.choice(["adaptive", "trust", "adaptive", "trust", "constant"])
        spec = {"kind": kind, "damping": rng.choice([1e-3, 0.1, 1.0]), "high": 0.5, "low": 2.0 ** -10, "up": 2.0, "down": 0.5, "factor": 0.5,
                "min": 1e-6, "max": 1e16}
        if kind == "trust":
            spec["radius"] = 1.0 / spec["damping"]
        case = {"kind": "edithist", "spec": spec, "seed": rng.randrange(1 << 30), "n": 24, "groups": rng.choice([1, 2, 3])}
        reqs += run_edithist_case(ctx, case)
        ctx.count(f"class.edit-hist.{kind}.groups{case['groups']}")
        ctx.note_case(("edithist", kind, case["groups"], i), True)
    settle_updates(ctx, reqs, "edithist")


def run_init_stream(ctx: Ctx, n, rng=None):
    """what the strategy constructors (and LM's merge with its own defaults) put into the param group vs `initConstant /
    initAdaptive / initTrust`; arguments by keyword and by position"""
    rng = rng or ctx.rng
    P = pp()
    items = []
    for i in range(n):
        spec = gen_strategy_spec(rng)
        positional = rng.random() < 0.5
        strat = make_strategy(spec, positional)
        m = nn.Linear(1, 1)
        opt = P.optim.LM(m, strategy=strat, min=1e-6, max=1e32)
        pg = opt.param_groups[0]
        kind = spec["kind"]
        a, b = (spec["radius"], spec["down"]) if kind == "trust" else (spec["damping"], spec["down"])
        case = {"kind": "init", "spec": spec, "positional": positional}
        want_hyper = {"high": spec["high"], "low": spec["low"], "up": spec["up"]} if kind != "constant" else {}
        if kind == "trust":
            want_hyper["factor"] = spec["factor"]
        bad = [k_ for k_, v_ in want_hyper.items() if pg.get(k_) != v_]
        if kind != "constant" and (strat.min != spec["min"] or strat.max != spec["max"]):
            bad.append("min/max")
        if dict(strat.defaults) != {k_: v_ for k_, v_ in pg.items() if k_ in strat.defaults}:
            bad.append("param group differs from strategy.defaults")
        if pg.get("min") != 1e-6 or pg.get("max") != 1e32:
            bad.append("LM min/max")
        if bad:
            ctx.fail(case, f"init: {kind} constructed {'positionally' if positional else 'by keyword'}: wrong entries {bad} in the param group")
        items.append({"line": f"c08.init {KINDS[kind]} {to_wire(a)} {to_wire(b)}", "case": case, "pg": pg_state(pg), "kind": kind})
        ctx.count(f"init.{kind}")
        ctx.note_case(("init", kind, positional, common.sig_mag(a)), True)
    reps = ctx.driver.run([it["line"] for it in items])
    for it, rep in zip(items, reps):
        want = common.reply_nums(rep)
        obs = it["pg"]
        keys = {"constant": ["damping"], "adaptive": ["damping", "down"], "trust": ["damping", "radius", "down"]}[it["kind"]]
        for kx, w in zip(["damping", "radius", "down"], want):
            if kx in keys and (kx not in obs or not rel_close(obs[kx], w, 4 * EPS["float64"])):
                ctx.disagree("init", it["case"], f"{it['kind']}: pg[{kx!r}] = {obs.get(kx)!r}, model {float(w)!r}")
                ctx.fail(it["case"], f"init: {it['kind']} constructor: pg[{kx!r}] = {obs.get(kx)!r}, documented value {float(w)!r}")
                break


def run_hist_stream(ctx: Ctx, n, rng=None):
    rng = rng or ctx.rng
    items = []
    for i in range(n):
        spec = gen_strategy_spec(rng, kind=rng.choice(["adaptive", "trust", "trust"]))
        case = {"kind": "hist", "spec": spec, "seed": rng.randrange(1 << 30), "n": 30,
                "pbad": rng.choice([0.3, 0.6, 0.85]), "pvery": rng.choice([0.1, 0.3])}
        items.append(run_hist_case(ctx, case))
        ctx.count(f"hist.{spec['kind']}")
        ctx.note_case(("hist", spec["kind"], i), True)
    settle_hist(ctx, items)


def settle_hist(ctx: Ctx, items):
    items = [it for it in items if it is not None]
    if not items:
        return
    reps = ctx.driver.run([it["line"] for it in items])
    for it, rep in zip(items, reps):
        nums = common.reply_nums(rep)
        for i, up in enumerate(it["log"]):
            want = nums[3 * i: 3 * i + 3]
            if not state_match(up["pg_after"], want, 16 * EPS["float64"] * (i + 2)):
                ctx.disagree("hist", it["case"], f"update {i} of a threaded history ({it['spec']['kind']}): implementation {up['pg_after']} "
                                                 f"model {[float(x) for x in want]}")
                # oracle: documented rule applied to the implementation's own previous state
                qv = float(up["last"]) - float(up["loss"])
                v = classify(qv, up["hyper"]["high"], up["hyper"]["low"])
                doc = doc_update(it["spec"]["kind"], up["hyper"], up["pg_before"], v)
                if not all(abs(doc[kx] - up["pg_after"][kx]) <= 16 * EPS["float64"] * abs(doc[kx]) for kx in up["pg_after"]):
                    ctx.fail(it["case"], f"strategy-{it['spec']['kind']}: update {i} of a history: quality {qv} is '{v}', documented update of "
                                         f"{up['pg_before']} is { {kx: doc[kx] for kx in up['pg_after']} } but the implementation produced {up['pg_after']}")
                break


# ============================================================================ stream: RobustModel.loss

def run_loss_stream(ctx: Ctx, n, rng=None):
    rng = rng or ctx.rng
    P = pp()
    items = []
    for i in range(n):
        nout = rng.choice([1, 1, 2, 3])
        dtype = rng.choice(["float64", "float32", "float64", "float32", "float16", "bfloat16"])
        dt = getattr(torch, dtype)
        names = ["huber", "pseudohuber", "cauchy"]
        c = rng.random()
        if c < 0.25:
            kspec = None
        elif c < 0.55 or nout == 1:
            kspec = [rng.choice(names), rng.choice([0.1, 0.5, 1.0, 2.0])]
        else:
            kspec = [rng.choice([None, [rng.choice(names), rng.choice([0.1, 0.5, 1.0, 2.0])]]) for _ in range(nout)]
            if all(k is None for k in kspec):
                kspec[0] = ["huber", 0.5]
        seed = rng.randrange(1 << 30)
        case = {"kind": "loss", "nout": nout, "dtype": dtype, "kernel": kspec, "seed": seed,
                "shapes": [[rng.choice([1, 2, 3])] * rng.randint(0, 2) + [rng.choice([1, 2, 3, 6])] for _ in range(nout)],
                "scale": rng.choice([1e-3, 0.3, 1.0, 30.0]),
                # one output mixing regimes item by item: exact zero rows, tiny, on the Huber threshold, ordinary, large
                "mixed": rng.random() < 0.5, "via": rng.choice(["lm", "gn", "raw"]),
                "wrap": rng.choice([None, "list1"])}
        items.append(loss_case(ctx, case))
        ctx.count(f"loss.nout{nout}.{'none' if kspec is None else ('single' if isinstance(kspec[0], str) else 'list')}")
        ctx.note_case(("loss", nout, dtype, str(kspec)), True)
    reps = ctx.driver.run([it["line"] for it in items])
    for it, rep in zip(items, reps):
        want = common.reply_nums(rep)[0]
        got = it["got"]
        tol = 64 * EPS[it["case"]["dtype"]] * max(abs(float(want)), it["scale"], 1e-300)
        if it["case"]["dtype"] in ("float16", "bfloat16"):
            # gradual underflow of ‖r‖² in the narrow dtype: absolute spacing below the smallest normal number
            tiny = float(torch.finfo(getattr(torch, it["case"]["dtype"])).tiny)
            tol += 64 * EPS[it["case"]["dtype"]] * tiny * sum(int(math.prod(shp[:-1])) for shp in it["case"]["shapes"])
        if math.isnan(got):
            # finite residuals: overflow of the narrow dtype gives inf (handled below), never NaN
            ctx.fail(it["case"], f"non-finite result: RobustModel.loss returned nan for finite outputs; Σ ρ_i(‖r‖²) is {it['oracle']!r}")
            continue
        if not math.isfinite(got):
            if not far(got, float(want), tol, it["case"]["dtype"]):
                continue
            got = math.copysign(FMAX, got) if math.isinf(got) else 0.0
        if not (abs(Fraction(got) - want) <= Fraction(tol)):
            ctx.disagree("loss", it["case"], f"RobustModel.loss = {got!r}, model robustLoss = {float(want)!r}")
            if not (abs(got - it["oracle"]) <= tol):
                ctx.fail(it["case"], f"robust-loss: RobustModel.loss returned {got!r} but Σ ρ_i(‖r‖²) over the last dimension is {it['oracle']!r}")


def kspec_wire(kspec, wrap=None) -> str:
    """the `kernel=` argument as the user writes it (None / one kernel / list with None entries) for op c08.lossk"""
    one = lambda kk: f"{KCODE[kk[0]]} {to_wire(kk[1])}"
    if kspec is None:
        return "0"
    if isinstance(kspec[0], str):
        return ("2 1 " + one(kspec)) if wrap == "list1" else ("1 " + one(kspec))
    return f"2 {len(kspec)} " + " ".join("-" if kk is None else one(kk) for kk in kspec)


def outputs_wire(outs) -> str:
    toks = [str(len(outs))]
    for o in outs:
        o2 = o.double().reshape(-1, o.shape[-1])
        toks.append(f"{o2.shape[0]} {o2.shape[1]} " + wire_list(o2.flatten().tolist()))
    return " ".join(toks)


def run_empty_kernel(ctx: Ctx):
    """`kernel=[]` is accepted by the constructors; the first loss evaluation raises IndexError (`self.kernel[0]`): the model's
    `lossOfE` has that error branch"""
    P = pp()
    for via in ("lm", "gn"):
        class Fixed(nn.Module):
            def __init__(self):
                super().__init__()
                self.p = nn.Parameter(torch.zeros(1, dtype=torch.float64))

            def forward(self, x):
                return torch.ones(2, 2, dtype=torch.float64) + 0 * self.p
        case = {"kind": "empty-kernel", "via": via}
        try:
            rm = (P.optim.LM(Fixed(), kernel=[]) if via == "lm" else P.optim.GN(Fixed(), kernel=[])).model
            with torch.no_grad():
                got = float(rm.loss(torch.zeros(1, dtype=torch.float64), None))
            obs = f"value {got!r}"
        except IndexError:
            obs = "IndexError"
        except Exception as ex:
            obs = type(ex).__name__
        rep = ctx.driver.run(["c08.lossk 2 0 " + outputs_wire([torch.ones(2, 2, dtype=torch.float64)])])[0]
        st, toks = common.parse_reply(rep)
        want = toks.strip() if st != "ok" else "value"
        ctx.count(f"class.empty-kernel.{obs.split()[0]}")
        ctx.note_case(("empty-kernel", via), True)
        if want != obs:
            ctx.disagree("loss", case, f"kernel=[] through {via}: implementation {obs}, model {want}")
            ctx.fail(case, f"robust-loss: kernel=[] through {via}: the loss evaluation gives {obs}, the code path `self.kernel[0]` "
                           f"on an empty list is {want}")


def run_large_loss(ctx: Ctx, sizes, rng):
    """RobustModel.loss on 2^k, 2^k±1 items (several shapes with that item count): float64 oracle, split-consistency
    loss(x) = loss(x[:a]) + loss(x[a:]) for a few cut points, single items first / last / random alone, and the Lean model
    on a sample that contains the LAST item"""
    P = pp()
    items = []
    for N in sizes:
        dtype = rng.choice(["float64", "float32"])
        dt = getattr(torch, dtype)
        d = rng.choice([1, 2, 3])
        kspec = rng.choice([None, ["huber", 1.0], ["shift", 0.5], ["cauchy", 1.0]])
        g = torch.Generator().manual_seed(rng.randrange(1 << 30))
        x = (torch.randn(N, d, generator=g, dtype=torch.float64) * rng.choice([0.3, 1.0, 3.0])).to(dt)
        x[-1] = x[-1] * 0 + 100.0                    # the last item is conspicuous
        case = {"kind": "large-loss", "N": N, "d": d, "dtype": dtype, "kernel": kspec}
        shapes = [(N, d)] + ([(N // 2, 2, d)] if N % 2 == 0 else []) + [(1, N, d)]
        kern = make_kernels(kspec)

        def loss_of(t):
            class Fixed(nn.Module):
                def __init__(self):
                    super().__init__()
                    self.p = nn.Parameter(torch.zeros(1, dtype=dt))

                def forward(self, _):
                    return t + 0 * self.p
            rm = P.optim.LM(Fixed(), kernel=kern).model
            with torch.no_grad():
                return float(rm.loss(torch.zeros(1, dtype=dt), None))
        eps = EPS[dtype]
        want, scale, _ = loss_and_scale([x], kspec)
        # blocked / pairwise summation: error ≈ eps·log2(N)·Σ|terms| — no larger factor, or a dropped block remainder hides in it
        tol = 8 * eps * max(abs(want), scale) * max(1.0, math.log2(N))
        vals = [loss_of(x.reshape(shp)) for shp in shapes]
        for shp, v in zip(shapes, vals):
            if not (abs(v - want) <= tol):
                ctx.fail(case, f"robust-loss: {N} items as shape {shp}: RobustModel.loss = {v!r}, Σρ(‖r‖²) = {want!r}")
        cuts = {1, N // 2, N - 1} | {N - (N % (2 ** k_)) for k_ in (10, 12, 16, 18) if 0 < N % (2 ** k_) < N}
        for a in sorted(cuts):
            if 0 < a < N:
                parts = loss_of(x[:a]) + loss_of(x[a:])
                if not (abs(parts - vals[0]) <= tol):
                    ctx.fail(case, f"split-consistency: loss of {N} items = {vals[0]!r} but loss(x[:{a}]) + loss(x[{a}:]) = {parts!r}")
        for i in (0, N - 1, rng.randrange(N)):
            one = loss_of(x[i:i + 1])
            w1, s1, _ = loss_and_scale([x[i:i + 1]], kspec)
            if not (abs(one - w1) <= 64 * eps * max(abs(w1), s1)):
                ctx.fail(case, f"robust-loss: item {i} of {N} alone: {one!r}, expected {w1!r}")
        # the Lean model on the last 257 items (incl. the last one) + the loss of the rest from the implementation itself
        tail = x[-min(N, 257):]
        head_v = loss_of(x[:-tail.shape[0]]) if tail.shape[0] < N else 0.0
        items.append({"line": "c08.lossk " + kspec_wire(kspec) + " " + outputs_wire([tail]), "case": case, "got": vals[0] - head_v,
                      "tol": 2 * tol})
        # … and the very last item on its own: loss(x) − loss(x[:-1]) is its kernel value
        last_v = vals[0] - loss_of(x[:-1])
        wl_, sl_, _ = loss_and_scale([x[-1:]], kspec)
        if not (abs(last_v - wl_) <= 2 * tol + 64 * eps * sl_):
            ctx.fail(case, f"robust-loss: the last of {N} items contributes {last_v!r} to the loss, its kernel value is {wl_!r}")
        ctx.count(f"class.large-loss.N={N}")
        ctx.note_case(("large-loss", N, d, dtype, str(kspec)), True)
    reps = ctx.driver.run([it["line"] for it in items])
    for it, rep in zip(items, reps):
        want = common.reply_nums(rep)[0]
        if not math.isfinite(it["got"]) or abs(Fraction(it["got"]) - want) > Fraction(it["tol"]):
            ctx.disagree("large-loss", it["case"], f"loss of the last items: implementation {it['got']!r}, model {float(want)!r}")
            ctx.fail(it["case"], f"robust-loss: the last items of a batch of {it['case']['N']} contribute {it['got']!r}, expected {float(want)!r}")


def loss_case(ctx, case):
    P = pp()
    dt = getattr(torch, case["dtype"])
    g = torch.Generator().manual_seed(case["seed"])
    outs = [(torch.randn(*shp, generator=g, dtype=torch.float64) * case["scale"]) for shp in case["shapes"]]
    if case.get("mixed"):
        deltas = [kk[1] for kk in kernel_list(case["kernel"]) if kk is not None] or [1.0]
        ladder = [0.0, 1e-12, 1e-4, deltas[0], deltas[0] * (1 + 2.0 ** -20), deltas[0] * (1 - 2.0 ** -20), 1.0, 30.0, 1e4]
        for o in outs:
            rows = o.reshape(-1, o.shape[-1])
            for r in range(rows.shape[0]):
                nrm = float(rows[r].norm())
                tgt = ladder[int(torch.randint(0, len(ladder), (1,), generator=g))]
                rows[r] = rows[r] * (tgt / nrm) if nrm > 0 else rows[r] * 0
    if case["dtype"] in ("float16", "bfloat16"):
        outs = [o.clamp(-2.0, 2.0) for o in outs]          # ‖r‖² / δ² must stay inside the narrow dtype's range
    outs = [o.to(dt) for o in outs]

    class Fixed(nn.Module):
        def __init__(self):
            super().__init__()
            self.p = nn.Parameter(torch.zeros(1, dtype=dt))

        def forward(self, x):
            return tuple(o + 0 * self.p for o in outs) if len(outs) > 1 else outs[0] + 0 * self.p
    # through the optimizers' own constructors (kernel normalisation is part of the modelled code: `normKernels`)
    kern = make_kernels(case["kernel"])
    via = case.get("via", "lm")
    if via == "raw":
        k2 = kern
        if k2 is not None:
            k2 = [k2] if not isinstance(k2, (tuple, list)) else k2
            k2 = [kk if kk is not None else P.optim.optimizer.Trivial() for kk in k2]
        rm = P.optim.optimizer.RobustModel(Fixed(), k2)
    else:
        if case.get("wrap") == "list1" and kern is not None and not isinstance(kern, (tuple, list)):
            kern = [kern]
        rm = (P.optim.LM(Fixed(), kernel=kern) if via == "lm" else P.optim.GN(Fixed(), kernel=kern)).model
    with torch.no_grad():
        res = rm.loss(torch.zeros(1, dtype=dt), None)
        got = float(res)
    if res.dtype != dt or res.dim() != 0:
        ctx.fail(case, f"metadata: RobustModel.loss of {case['dtype']} residuals returned dtype {res.dtype}, shape {tuple(res.shape)}")
    oracle, scale, _ = loss_and_scale(outs, case["kernel"])
    return {"line": "c08.lossk " + kspec_wire(case["kernel"], case.get("wrap")) + " " + outputs_wire(outs), "case": case,
            "got": got, "oracle": oracle, "scale": scale}


# ============================================================================ scenario generation

FAMILIES = ["lin", "lin", "lin", "cubic", "rosen", "expfit", "atan", "so3", "se3", "mixed"]


def gen_scenario(rng, quick, opt="lm"):
    fam = rng.choice(FAMILIES)
    dtype = rng.choice(["float64", "float64", "float64", "float32"])
    reject = rng.choice([0, 1, 2, 3, 3, 4, 5, 8, 16, rng.randint(0, 16)])
    ncalls = rng.choice([1, 2, 3, 4, 6, 8]) if quick else rng.choice([2, 4, 8, 12, 20, 30])
    if rng.random() < 0.08:
        ncalls = 30
    scn = {"kind": "opt", "opt": opt, "family": fam, "fam_seed": rng.randrange(1 << 30), "dtype": dtype, "reject": reject,
           "ncalls": ncalls, "n": rng.randint(1, 4), "M": rng.randint(1, 3), "d": rng.choice([1, 2, 3]),
           "logcond": rng.choice([0, 0, 1, 3, 6, 9, 12]), "ascale": rng.choice([1.0, 1.0, 1e-3, 1e3]),
           "start": rng.choice([0.1, 0.5, 1.0, 2.0]), "lm_min": 1e-6, "lm_max": 1e32,
           "solver": rng.choice(["cholesky", "cholesky", "pinv", "lstsq", "solve"]),
           "vectorize": rng.random() < 0.8}
    if fam in ("so3", "se3", "mixed"):
        scn["M"] = rng.randint(1, 2)
    if fam == "cubic":
        scn["M"] = 1
    if rng.random() < 0.1:
        scn["lm_max"] = rng.choice([1.0, 1e-3])      # clamped diagonal: A may become indefinite, Cholesky raises by itself
    c = rng.random()
    names = ["huber", "pseudohuber", "cauchy"]
    if c < 0.6:
        scn["kernel"] = None
    elif c < 0.85 or fam != "mixed":
        scn["kernel"] = [rng.choice(names), rng.choice([0.3, 1.0, 2.0])]
    else:
        scn["kernel"] = [[rng.choice(names), rng.choice([0.3, 1.0])], rng.choice([None, [rng.choice(names), 1.0]])]
    if opt == "lm":
        spec = gen_strategy_spec(rng)
        if spec["min"] > spec["max"]:
            spec["min"], spec["max"] = spec["max"], spec["min"]
        scn["strategy"] = spec
    # per-call number of engineered worse trials: 0..reject+1 (+ occasionally beyond)
    bad = []
    for cidx in range(ncalls):
        r = rng.random()
        if r < 0.35:
            bad.append(0)
        elif r < 0.55:
            bad.append(rng.choice([reject, reject + 1]))
        elif r < 0.62:
            bad.append(reject + 2)
        else:
            bad.append(rng.randint(0, reject + 1))
    scn["bad"] = bad
    scn["bad_scale"] = rng.choice([-5.0, 3.0, 10.0, -1.0, 2.5, -0.5, 40.0])
    scn["good_scale"] = rng.choice([1.0, 1.0, 0.3, 0.7, 1.5])
    # global raise positions
    ra = []
    if rng.random() < 0.45:
        est = sum(min(b, reject) + 1 for b in bad)
        for _ in range(rng.choice([1, 1, 2, 3])):
            ra.append(rng.randrange(0, max(1, est)))
    scn["raise_at"] = sorted(set(ra))
    rc = []
    if rng.random() < 0.25:
        cidx = rng.randrange(ncalls)
        rc.append([cidx, rng.randint(0, min(bad[cidx], reject))])
    scn["raise_ct"] = rc
    if opt == "gn":
        scn["bad"] = [0] * ncalls
        scn["good_scale"] = rng.choice([1.0, 1.0, 0.5, -2.0, 3.0])
    harden_scenario(rng, scn)
    harden2_scenario(rng, scn)
    harden4_scenario(rng, scn)
    harden5_scenario(rng, scn)
    return scn


DOC_TRUST = {"kind": "trust", "damping": 1e-6, "radius": 1e6, "high": 0.5, "low": 1e-3, "up": 2.0, "down": 0.5, "factor": 0.5,
             "min": 1e-6, "max": 1e16}


def as_defaults(scn, omit=("strategy", "solver", "kernel", "reject")):
    """the scenario with optional constructor arguments OMITTED (and the documented defaults as the expectation)"""
    scn = dict(scn)
    is_lm = scn["opt"] == "lm"
    scn["defaults"] = [o for o in omit if is_lm or o in ("solver", "kernel")]
    if "strategy" in scn["defaults"]:
        scn["strategy"] = dict(DOC_TRUST)
    if "reject" in scn["defaults"]:
        scn["reject"] = 16
    if "solver" in scn["defaults"]:
        scn["solver"] = "cholesky" if is_lm else "pinv"
    if "kernel" in scn["defaults"]:
        scn["kernel"] = None
    scn["lm_min"], scn["lm_max"] = 1e-6, 1e32
    for k in ("weight", "corrector", "kernel_wrap", "ctor_style", "sub_strategy", "sub_solver", "pg_edits", "reject_edits",
              "vectorize", "copy_at", "copy_what"):
        scn.pop(k, None)
    return scn


def harden5_scenario(rng, scn):
    """arguments omitted (library-built default objects), models whose outputs alias input / parameter, strategy subclasses
    with properties"""
    if rng.random() < 0.12:
        new = as_defaults(scn, rng.choice([("strategy", "solver", "kernel", "reject"), ("strategy",), ("solver", "kernel"),
                                           ("strategy", "reject")]))
        scn.clear()
        scn.update(new)
        return
    if scn["opt"] == "lm" and scn["strategy"]["kind"] != "constant" and "sub_strategy" not in scn and rng.random() < 0.1:
        scn["sub_strategy"] = "props"
    if rng.random() < 0.06:
        scn["family"] = "alias"
        scn["n"] = rng.choice([1, 2, 3])
        for k in ("weight", "scalar_input", "input_container", "fold_target", "frozen", "out3d"):
            scn.pop(k, None)
        if scn.get("kernel") is not None and not isinstance(scn["kernel"][0], str):
            scn["kernel"] = scn["kernel"][:2]


def harden4_scenario(rng, scn):
    """user subclasses of library classes, per-call grad modes, process-wide default dtype, negative losses, large counts"""
    fam, opt = scn["family"], scn["opt"]
    if opt == "lm" and rng.random() < 0.2:
        scn["sub_strategy"] = rng.choice(["delegate", "delegate", "own"])
        scn.pop("pg_edits", None) if scn["sub_strategy"] == "own" else None
    if scn.get("solver") in ("cholesky", "pinv", "lstsq") and rng.random() < 0.2:
        scn["sub_solver"] = True
    if rng.random() < 0.12:
        scn["sub_model"] = True
    if rng.random() < 0.12 and (scn.get("kernel") is None or isinstance(scn["kernel"][0], str)):
        scn["kernel"] = ["shift", rng.choice([0.5, 1.0, 3.0])]          # user kernel, negative losses
    if rng.random() < 0.12:
        scn["grad_modes"] = [rng.choice([None, "no_grad", "enable_grad"]) for _ in range(3)]
        scn["req_grads"] = [rng.random() < 0.5 for _ in range(4)]
    if rng.random() < 0.15:
        scn["default_dtype"] = "float64" if scn["dtype"] == "float32" else rng.choice(["float64", "float32"])
    if fam == "lin" and rng.random() < 0.06:
        k = rng.choice([5, 7, 9, 10])
        scn["M"], scn["d"], scn["n"] = (2 ** k) + rng.choice([-1, 0, 1]), 1, rng.choice([1, 2, 3])
        scn["ncalls"] = min(scn["ncalls"], 2)
        scn.pop("weight", None)
        scn["out3d"] = False
    if fam == "lin" and rng.random() < 0.04:
        scn["n"] = rng.choice([31, 32, 33, 65])
        scn["M"], scn["d"] = scn["n"] + rng.choice([0, 1, 5]), 1
        scn["ncalls"] = min(scn["ncalls"], 2)
        scn.pop("weight", None)
        scn["out3d"] = False


SIZES = [(1, 1, 1), (3, 3, 3), (3, 1, 3), (1, 3, 3), (2, 3, 2), (5, 2, 3), (7, 1, 1), (3, 3, 1), (2, 1, 6), (4, 5, 1)]


def harden2_scenario(rng, scn):
    """argument combinations of constructors / step(), frozen parameters, the user's model raising, special sizes"""
    fam, opt, ncalls = scn["family"], scn["opt"], scn["ncalls"]
    single = fam not in ("mixed", "script1d")
    if single and rng.random() < 0.15:
        scn["weight"] = {"where": rng.choice(["ctor", "step", "both"]), "shape": rng.choice(["dd", "dd", "Mdd"]),
                         "scale": rng.choice([1.0, 1e-3, 50.0])}
    if rng.random() < 0.15:
        scn["corrector"] = rng.choice(["fast", "triggs"])          # with or without a kernel
    if scn.get("kernel") is not None and isinstance(scn["kernel"][0], str) and rng.random() < 0.3:
        scn["kernel_wrap"] = "list1"
    if fam == "lin":
        if rng.random() < 0.2:
            scn["frozen"] = rng.choice(["first", "last"])
        if rng.random() < 0.2:
            scn["fold_target"] = True
        if rng.random() < 0.25:
            scn["n"], scn["M"], scn["d"] = rng.choice(SIZES)
        if rng.random() < 0.2:
            scn["out3d"] = True
    if rng.random() < 0.2:
        scn["call_style"] = rng.choice(["keyword", "mixed"])
    if rng.random() < 0.15:
        scn["ctor_style"] = "positional"
    if fam in ARGNAME and fam != "script1d" and rng.random() < 0.2:
        scn["input_container"] = rng.choice(["tuple", "list", "dict"])
    if rng.random() < 0.1:
        scn["grad_mode"] = rng.choice(["enable_grad", "no_grad"])
        scn["input_requires_grad"] = rng.random() < 0.5
    if rng.random() < 0.12:
        c = rng.randrange(ncalls)
        k = (scn.get("bad") or [0] * ncalls)[c] if c < len(scn.get("bad") or []) else 0
        scn["fwd_raise"] = [[c, rng.choice(["pre", "pre", rng.randint(0, max(0, min(k, scn.get("reject", 0))))])]]
        if opt == "gn":
            scn["fwd_raise"] = [[c, "pre"]]


TWIN_VARIANTS = [{"grad_modes": ["no_grad", None, "enable_grad"], "req_grads": [False, True, True]},
                 {"grad_modes": ["enable_grad", "no_grad"], "req_grads": [True, False]}, {"default_dtype": "float64"},
                 {"default_dtype": "float64", "ctor_style": "positional"}, {"sub_strategy": "delegate"}, {"sub_solver": True},
                 {"call_style": "keyword"}, {"call_style": "mixed"}, {"ctor_style": "positional"}, {"input_container": "tuple"},
                 {"input_container": "list"}, {"input_container": "dict"}, {"grad_mode": "enable_grad"},
                 {"grad_mode": "enable_grad", "input_requires_grad": True}, {"grad_mode": "no_grad"}, {"kernel_wrap": "list1"},
                 {"forms": ["clone"]}, {"copy_what": "state_dict"}, {"copy_what": "strategy-deepcopy"}, {"copy_what": "strategy-copy"},
                 {"copy_what": "strategy-pickle"}, {"scalar_input": True},
                 {"call_style": "keyword", "ctor_style": "positional", "input_container": "dict"},
                 {"copy_what": "state_dict", "grad_mode": "enable_grad", "call_style": "mixed"}]


def twin_scenarios(rng, n, quick=True, opt=None):
    out = []
    for _ in range(n):
        scn = gen_scenario(rng, quick, opt or rng.choice(["lm", "lm", "lm", "gn"]))
        for k in ("fwd_raise", "pg_edits", "reject_edits"):
            scn.pop(k, None)
        scn["ncalls"] = max(3, min(scn["ncalls"], 6))
        var = dict(rng.choice(TWIN_VARIANTS))
        if "copy_what" in var:
            if scn["opt"] == "gn" and var["copy_what"] != "state_dict":
                var["copy_what"] = "state_dict"
            var["copy_at"] = rng.randrange(1, scn["ncalls"])
            scn.pop("param_view", None)
        if "input_container" in var and scn["family"] == "mixed":
            var = {"call_style": "keyword"}
        if "kernel_wrap" in var and (scn.get("kernel") is None or not isinstance(scn["kernel"][0], str)):
            scn["kernel"] = ["huber", 0.5]
        if "scalar_input" in var and scn["family"] not in ("rosen", "atan"):
            scn["family"] = "rosen"
            scn.pop("weight", None)
        scn["twin"] = var
        out.append(scn)
    return out


def harden_scenario(rng, scn):
    """per-call variation of everything the caller controls, views / aliases, extreme-but-valid settings"""
    fam, opt, ncalls, reject = scn["family"], scn["opt"], scn["ncalls"], scn.get("reject", 0)
    if rng.random() < 0.6:
        scn["forms"] = [rng.choice(["plain", "clone", "strided", "slice", "transposed"]) for _ in range(min(ncalls, 6))]
    if fam in ("lin", "cubic", "rosen", "expfit", "atan", "mixed") and rng.random() < 0.35:
        scn["param_view"] = rng.choice(["slice", "strided"])
    if opt == "lm" and ncalls >= 2:
        kind = scn["strategy"]["kind"]
        if rng.random() < 0.3:
            keys = {"constant": ["damping"], "adaptive": ["damping", "high", "low", "up", "down"],
                    "trust": ["damping", "high", "low", "up", "down", "factor"]}[kind]
            edits = []
            for _ in range(rng.choice([1, 1, 2])):
                key = rng.choice(keys)
                val = {"damping": rng.choice([1e-9, 1e-3, 1.0, 50.0]), "high": rng.choice([0.25, 0.9]), "low": rng.choice([2.0 ** -10, 0.2]),
                       "up": rng.choice([1.5, 10.0]), "down": rng.choice([0.1, 0.5, 0.9]), "factor": rng.choice([0.25, 0.9])}[key]
                edits.append([rng.randrange(1, ncalls), key, val])
            scn["pg_edits"] = edits
        if rng.random() < 0.25:
            scn["reject_edits"] = [[rng.randrange(1, ncalls), rng.choice([0, 1, 2, reject + 3])]]
    if rng.random() < 0.06 and opt == "lm":
        scn["reject"] = rng.choice([24, 40])            # beyond the documented default, still valid
    if rng.random() < 0.08:
        scn["ascale"] = rng.choice([1e-8, 1e8])
    if rng.random() < 0.05:
        scn["start"] = 0.0 if fam in ("lin", "so3", "se3") else scn["start"]


def script_scenarios(rng, rejects, kinds, ncalls_extra=True, ks=None):
    """scripted 1-D: every ending after every k ≤ reject+1 rejections; plus multi-call mixes"""
    out = []
    for reject in rejects:
        for k in range(0, reject + 2):
            if ks is not None and k not in ks:
                continue
            for end in "BEXW":
                s = "W" * k + end
                for kind in kinds:
                    spec = gen_strategy_spec(rng, kind=kind)
                    if spec["min"] > spec["max"]:
                        spec["min"], spec["max"] = spec["max"], spec["min"]
                    scripts = [s]
                    if ncalls_extra:
                        # a second and third call: the counters / cached loss / damping carry over
                        scripts += [rng.choice(["W" * reject + "W", "W" * rng.randint(0, reject + 1) + rng.choice("BEX"),
                                                "B", "W" * (reject + 1) + "B"]) for _ in range(2)]
                    out.append({"kind": "opt", "opt": "lm", "family": "script1d", "fam_seed": 0,
                                "dtype": rng.choice(["float64", "float32"]), "reject": reject, "ncalls": len(scripts),
                                "scripts": scripts, "start": rng.choice([1.0, 3.0, -2.0, 0.75]), "lm_min": 1e-6, "lm_max": 1e32,
                                "solver": "solve", "kernel": None, "strategy": spec, "n": 1, "M": 1, "d": 1})
    return out


def tie_lm_scenarios():
    out = []
    for kind in ("adaptive", "trust"):
        for dtype in ("float64", "float32"):
            for (high, low) in ((1.0, 0.25), (4.0, 1.0), (1.0, 1.0)):
                spec = {"kind": kind, "damping": 0.25, "high": high, "low": low, "up": 2.0, "down": 0.5, "factor": 0.5,
                        "min": 2.0 ** -10, "max": 2.0 ** 10}
                if kind == "trust":
                    spec["radius"] = 4.0
                for start, scripts in ((3.0, ["B", "WB", "WWB"]), (0.75, ["E", "WWW", "WE"])):
                    out.append({"kind": "opt", "opt": "lm", "family": "script1d", "fam_seed": 0, "dtype": dtype, "reject": 2, "ncalls": 3,
                                "scripts": scripts, "start": start, "lm_min": 1e-6, "lm_max": 1e32, "solver": "solve", "kernel": None,
                                "strategy": dict(spec), "n": 1, "M": 1, "d": 1, "tie_lm": True})
    return out


def run_tie_reruns(ctx: Ctx, probes):
    """any family: run a history once, read the step quality of its first trials AS THE CODE COMPUTES IT (a float of the model's
    dtype), make that very float the `high` (then the `low`) threshold and run the history again: the comparison inside
    strategy.update is then an exact floating tie reached through LM.step on ordinary data. Where the exact rational quality
    differs from the float the verdict band admits both neighbours, but a non-finite state, an exception or a branch that
    matches neither neighbour is reported."""
    import copy
    total = {"upd": [], "lm": [], "gn": [], "loss": []}
    for scn in probes:
        c0 = {"upd": [], "lm": [], "gn": [], "loss": []}
        run_optimizer_scenario(ctx, {k: v for k, v in scn.items() if k != "tie_probe"}, c0)
        qs = []
        for r in c0["upd"][:3]:
            up = r["up"]
            qf = quality_float(up["last"], up["loss"], up["J"], up["D"], up["R"])
            if math.isfinite(qf) and 0.0 < qf < 1e6 and qf not in qs:
                qs.append(qf)
        for qf in qs[:2]:
            for key in ("high", "low"):
                s2 = copy.deepcopy({k: v for k, v in scn.items() if k != "tie_probe"})
                st = s2["strategy"]
                st[key] = qf
                if key == "high" and st["low"] > qf:
                    st["low"] = qf / 4
                if key == "low" and st["high"] < qf:
                    st["high"] = qf * 4
                s2["tie_rerun"] = key
                n0 = len(total["upd"])
                run_optimizer_scenario(ctx, s2, total)
                hit = any(quality_float(r["up"]["last"], r["up"]["loss"], r["up"]["J"], r["up"]["D"], r["up"]["R"]) == qf
                          for r in total["upd"][n0:])
                ctx.count(f"class.tie-lm.rerun.{key}.{'hit' if hit else 'miss'}")
                ctx.note_case(("tie-rerun", scn["family"], st["kind"], key, scn["dtype"], hit), hit)
    settle_collect(ctx, total)


def run_opt_stream(ctx: Ctx, scns):
    collect = {"upd": [], "lm": [], "gn": [], "loss": []}
    for i, scn in enumerate(scns):
        if scn.get("pair"):
            run_pair(ctx, scn, collect)
        elif scn.get("twin"):
            run_twin(ctx, scn, collect)
        else:
            run_optimizer_scenario(ctx, scn, collect)
        if i < 2:
            ctx.sample({"stream": scn["opt"], **{k: v for k, v in scn.items() if k not in ("bad",)}}, cap=8)
    settle_collect(ctx, collect)


def settle_collect(ctx: Ctx, collect):
    settle_updates(ctx, collect["upd"], "lm-upd")
    # calls whose per-trial update was threshold-ambiguous: strategy state not compared in the threaded model run
    amb = set()
    for r in collect["upd"]:
        if "allowed" in r and len(r["allowed"]) > 1:
            try:
                callno = int(r["where"].split()[1])
            except Exception:
                continue
            amb.add((id(r["scn"]), callno))
    settle_lm(ctx, collect["lm"], amb)
    settle_gn(ctx, collect["gn"])
    settle_lmloss(ctx, collect["loss"])
    settle_normal(ctx, collect.get("normal", []))
    settle_diag(ctx, collect.get("diag", []))


TWIN_KEYS = ("call_style", "ctor_style", "input_container", "scalar_input", "grad_mode", "input_requires_grad", "kernel_wrap",
             "copy_at", "copy_what", "forms", "grad_modes", "req_grads", "default_dtype", "sub_strategy", "sub_solver", "defaults")


def run_twin(ctx: Ctx, scn, collect):
    """the same history twice: once plainly, once with a variation that must not change any VALUE (keyword instead of
    positional arguments, another container for the input, grad mode, operands requiring grad, a deep copy / pickle of the
    optimizer or strategy taking over in the middle, a one-element kernel list). Bitwise equal observations required."""
    base = {k: v for k, v in scn.items() if k != "twin" and k not in TWIN_KEYS}
    var = {**base, **scn["twin"]}
    sa, sb = [], []
    run_optimizer_scenario(ctx, base, collect, sink=sa)
    n0 = len(ctx.failures)
    run_optimizer_scenario(ctx, var, collect, sink=sb)
    for f in ctx.failures[n0:]:
        if f["case"] is var:
            f["case"] = scn
    what = ", ".join(f"{k}={v}" for k, v in scn["twin"].items())
    ctx.count("class.twin." + "+".join(sorted(scn["twin"])))
    if len(sa) != len(sb):
        ctx.fail(scn, f"twin: with [{what}] the history has {len(sb)} completed calls instead of {len(sa)}")
        return
    for i, (a, b) in enumerate(zip(sa, sb)):
        diffs = []
        for key in ("ret", "pg", "rc", "last", "ntr"):
            va, vb = a.get(key), b.get(key)
            if key in ("last", "ret") and scn["twin"].get("copy_what") == "state_dict" and isinstance(va, float) and isinstance(vb, float):
                # the copy has no loss cache: it recomputes the loss at the (possibly restored) parameters — equal up to the
                # round-off of the restore (theorem cache_transparent); a call ended by a raising solve returns that value
                if abs(va - vb) <= 4096 * EPS[scn["dtype"]] * max(abs(va), abs(vb)):
                    continue
            if key == "last" and scn["twin"].get("copy_what") == "state_dict" and (va is None or vb is None):
                continue            # `last` is not part of the state dict: a fresh copy has none until its first completed step
            if va != vb and not (isinstance(va, float) and isinstance(vb, float) and math.isnan(va) and math.isnan(vb)):
                diffs.append(f"{key}: {va!r} -> {vb!r}")
        if "params" in a and "params" in b and (len(a["params"]) != len(b["params"]) or
                                                  any(not torch.equal(x, y) for x, y in zip(a["params"], b["params"]))):
            diffs.append("parameters differ")
        if "orig_ret" in b and b["orig_ret"] != a.get("ret"):
            diffs.append(f"the original optimizer, used in between, returned {b['orig_ret']!r} instead of {a.get('ret')!r}")
        if diffs:
            ctx.fail(scn, f"twin: call {i} gives different values with [{what}]: " + "; ".join(diffs))
            return


def run_pair(ctx: Ctx, scn, collect):
    """two LM optimizers on two different problems share ONE strategy object; their step() calls are interleaved
    (`pattern`: string over A/B). Each has its own param group, so each must behave exactly as if it were alone."""
    spec = scn["pair"]
    share = spec.get("share_strategy", True)
    others = [dict(o) for o in (spec.get("others") or [spec["other"]])]
    inner = make_strategy(scn["strategy"]) if (share and scn["opt"] == "lm") else None
    gens = {"A": scenario_steps(ctx, scn, collect, inner)}
    for i, o in enumerate(others):
        if share and o["opt"] == "lm":
            o["strategy"] = scn["strategy"]
        o["pair_role"] = "BCDE"[i]
        gens["BCDE"[i]] = scenario_steps(ctx, o, collect, inner if o["opt"] == "lm" else None)
    ctx.count(f"class.interleaved-group.{len(gens)}{'.shared-strategy' if share else ''}")
    # failures found while running the others are reported with the whole group so that the replay re-creates it
    n0 = len(ctx.failures)
    names = "".join(gens)
    for ch in spec["pattern"] + names * 40:
        if ch in gens:
            try:
                next(gens[ch])
            except StopIteration:
                del gens[ch]
        if not gens:
            break
    for f in ctx.failures[n0:]:
        if any(f["case"] is o for o in others):
            f["case"] = scn
            f["what"] += " [another optimizer of an interleaved group" + (" sharing one strategy object]" if share else "]")


def default_groups(rng, n, quick=True):
    """groups of 2–3 optimizers all built with omitted arguments, interleaved"""
    out = []
    for _ in range(n):
        members = []
        for _m in range(rng.choice([2, 3])):
            sc = gen_scenario(rng, quick, rng.choice(["lm", "lm", "gn"]))
            for k in ("pair", "twin", "fwd_raise", "grad_modes", "req_grads", "default_dtype", "sub_model"):
                sc.pop(k, None)
            sc = as_defaults(sc)
            sc["ncalls"] = max(2, min(sc["ncalls"], 4))
            if sc["opt"] == "lm":
                sc["bad"] = [rng.randint(0, 3) for _ in range(sc["ncalls"])]
                if rng.random() < 0.6:
                    sc["defaults"] = [d_ for d_ in sc["defaults"] if d_ != "reject"]
                    sc["reject"] = rng.choice([0, 1, 2])
            members.append(sc)
        a = members[0]
        a["pair"] = {"others": members[1:], "pattern": "".join(rng.choice("ABC"[:len(members)]) for _ in range(10)),
                     "share_strategy": False}
        out.append(a)
    return out


def pair_scenarios(rng, n, quick=True):
    out = []
    for _ in range(n):
        a = gen_scenario(rng, quick, "lm")
        b = gen_scenario(rng, quick, "lm")
        if a["strategy"]["kind"] == "constant":
            a["strategy"] = gen_strategy_spec(rng, kind=rng.choice(["adaptive", "trust"]))
        for x in (a, b):
            x["ncalls"] = max(2, min(x["ncalls"], 5))
            x.pop("pg_edits", None)
            if x.pop("defaults", None):          # sharing an explicit strategy object excludes omitting it
                x["lm_min"], x["lm_max"] = 1e-6, 1e32
        b.pop("strategy", None)
        a["pair"] = {"other": b, "pattern": "".join(rng.choice("AB") for _ in range(12))}
        out.append(a)
    return out


def corpus_scenarios(quick=True):
    """deterministic corner corpus (independent of VERIF_SEED), run before anything random"""
    import random
    rc = random.Random(0xC08)
    out = []
    # every ending after every k <= reject+1 rejections, three strategies, three calls (counter / cache / damping carry over)
    out += script_scenarios(rc, [0, 1], ["constant", "adaptive", "trust"])
    out += script_scenarios(rc, [3], ["constant", "adaptive", "trust"], ncalls_extra=not quick)
    out += script_scenarios(rc, [16], ["trust"], ks={0, 1, 8, 15, 16, 17}, ncalls_extra=not quick)
    dflt = {"constant": {"kind": "constant", "damping": 1e-4, "high": 0.5, "low": 1e-3, "up": 2.0, "down": 0.5, "factor": 0.5,
                         "min": 1e-6, "max": 1e16},
            "adaptive": {"kind": "adaptive", "damping": 1e-2, "high": 0.5, "low": 1e-3, "up": 3.0, "down": 0.4, "factor": 0.5,
                         "min": 1e-6, "max": 1e16},
            "trust": {"kind": "trust", "damping": 1e-3, "radius": 1e3, "high": 0.5, "low": 1e-3, "up": 2.0, "down": 0.5,
                      "factor": 0.5, "min": 1e-6, "max": 1e16}}

    def base(fam, kind, **kw):
        scn = {"kind": "opt", "opt": "lm", "family": fam, "fam_seed": 1234, "dtype": "float64", "reject": 5, "ncalls": 4,
               "n": 2, "M": 2, "d": 1, "logcond": 0, "ascale": 1.0, "start": 1.0, "lm_min": 1e-6, "lm_max": 1e32,
               "solver": "cholesky", "vectorize": True, "kernel": None, "strategy": dict(dflt[kind]), "bad": [0] * 8,
               "bad_scale": -5.0, "good_scale": 1.0, "raise_at": [], "raise_ct": []}
        scn.update(kw)
        return scn
    for kind in ("constant", "adaptive", "trust"):
        # natural rejections (Newton on atan overshoots) and the solver raising at the j-th solve of the run, every j
        for j in range(0, 9):
            out.append(base("atan", kind, n=2, start=0.2, raise_at=[j], ncalls=4))
        # engineered: k worse trials then raise, directly after the rejections, and again in the next call
        for k in (1, 2, 5):
            out.append(base("lin", kind, bad=[k, k, 0, 0], raise_ct=[[0, k], [1, 1]], good_scale=0.3))
        # stale reject counter / cached loss: a call with rejections followed by a call with reject+1 worse trials
        out.append(base("lin", kind, reject=2, bad=[2, 3, 3, 0], good_scale=0.3, ncalls=4))
        out.append(base("lin", kind, reject=0, bad=[0, 1, 1, 0], good_scale=0.3, ncalls=4))
        # views / aliases / per-call presentation, parameters inside larger buffers, caller edits between calls
        out.append(base("lin", kind, forms=["plain", "strided", "slice", "transposed"], param_view="slice", M=3, d=2, bad=[1, 0, 2, 0], good_scale=0.3))
        out.append(base("atan", kind, n=3, forms=["slice", "strided", "transposed"], param_view="strided", start=0.2))
        out.append(base("se3", kind, M=2, forms=["strided", "plain", "slice"], start=0.5, bad=[1, 2, 0, 1], good_scale=0.3))
        out.append(base("mixed", kind, M=1, kernel=[["huber", 0.3], ["cauchy", 1.0]], forms=["clone", "strided"], param_view="slice",
                        start=0.5, bad=[2, 0, 1, 0], good_scale=0.3))
        out.append(base("lin", kind, pg_edits=[[1, "damping", 50.0], [2, "damping", 1e-9]] + ([[3, "up", 10.0]] if kind != "constant" else []),
                        reject_edits=[[1, 0], [2, 3]], bad=[1, 1, 4, 0], good_scale=0.3))
        # extreme but valid: reject far beyond the default, starting on the optimum (zero steps), huge / tiny scales, float32
        out.append({"kind": "opt", "opt": "lm", "family": "script1d", "fam_seed": 0, "dtype": "float64", "reject": 40, "ncalls": 2,
                    "scripts": ["W" * 40 + "B", "W" * 41], "start": 1.0, "lm_min": 1e-6, "lm_max": 1e32, "solver": "solve",
                    "kernel": None, "strategy": dict(dflt[kind]), "n": 1, "M": 1, "d": 1})
        out.append({"kind": "opt", "opt": "lm", "family": "script1d", "fam_seed": 0, "dtype": "float32", "reject": 2, "ncalls": 3,
                    "scripts": ["B", "WB", "WWW"], "start": 0.0, "lm_min": 1e-6, "lm_max": 1e32, "solver": "solve",
                    "kernel": None, "strategy": dict(dflt[kind]), "n": 1, "M": 1, "d": 1})
        out.append(base("lin", kind, ascale=1e8, dtype="float64", bad=[1, 0, 2, 0], good_scale=0.3))
        out.append(base("lin", kind, ascale=1e-8, dtype="float32", bad=[1, 0, 2, 0], good_scale=0.3))
        ext = dict(dflt[kind], up=1e6, down=1e-8, factor=1e-6, min=1e-300, max=1e300)
        out.append(base("lin", kind, strategy=ext, bad=[3, 0, 5, 0], good_scale=0.3))
    # GaussNewton: history with raises, views, kernels
    for fam in ("lin", "so3"):
        out.append({**base(fam, "constant", M=1), "opt": "gn", "ncalls": 5, "raise_at": [1, 3], "forms": ["strided", "plain", "slice"],
                    "kernel": ["huber", 1.0], "solver": "pinv", "good_scale": 0.5})
    # ---- pass 5
    dbase = as_defaults(base("atan", "trust", start=0.2, ncalls=4, raise_at=[2], bad=[1, 2, 0, 1], good_scale=0.5))
    out.append(dbase)
    # arguments omitted vs the same arguments spelled out: identical histories
    ex = base("atan", "trust", start=0.2, ncalls=4, raise_at=[2], strategy=dict(DOC_TRUST), reject=16, solver="cholesky",
              bad=[1, 2, 0, 1], good_scale=0.5)
    ex["twin"] = {"defaults": ["strategy", "solver", "kernel", "reject"]}
    out.append(ex)
    # several default-built optimizers in one process, stepped interleaved, each against the documented defaults
    for pattern in ("ABCABCABCABC", "AAABBBCCCABC"):
        # engineered rejections so that the optimizers' down-factors / dampings differ while they are interleaved
        a = as_defaults(base("atan", "trust", start=0.2, ncalls=4, bad=[2, 0, 3, 1], good_scale=0.5))
        b_ = as_defaults(base("rosen", "trust", start=0.5, ncalls=4, fam_seed=7, bad=[0, 3, 0, 2], good_scale=0.5))
        c_ = as_defaults(base("cubic", "trust", n=2, M=1, start=0.5, ncalls=4, fam_seed=8, dtype="float32", bad=[1, 1, 2, 0],
                              good_scale=0.5))
        a["pair"] = {"others": [b_, c_], "pattern": pattern, "share_strategy": False}
        out.append(a)
    # calls that END in the unsuccessful state (rejections exhausted / solver raising after a rejection), so that the strategy
    # state differs between the optimizers at the moment the other one is stepped
    for pattern in ("ABABABAB", "AABBABBA"):
        # Newton steps on atan from |θ| ≈ 3 overshoot: genuinely "unsuccessful" trials (positive predicted decrease, worse
        # loss) shrink radius and down-factor; with reject = 1 / 2 the calls end in that state
        a = as_defaults(base("atan", "trust", n=2, start=0.2, reject=1, ncalls=5, fam_seed=21), omit=("strategy", "solver", "kernel"))
        b_ = as_defaults(base("atan", "trust", n=1, start=0.3, reject=2, ncalls=5, fam_seed=22, raise_ct=[[1, 1]]),
                         omit=("strategy", "solver", "kernel"))
        a["pair"] = {"others": [b_], "pattern": pattern, "share_strategy": False}
        out.append(a)
    g1 = as_defaults({**base("lin", "constant", M=2), "opt": "gn", "ncalls": 3, "good_scale": 0.5})
    g2 = as_defaults({**base("so3", "constant", M=2, start=0.5, fam_seed=3), "opt": "gn", "ncalls": 3, "good_scale": 0.5})
    g1["pair"] = {"others": [g2], "pattern": "ABABAB", "share_strategy": False}
    out.append(g1)
    for kind in ("constant", "adaptive", "trust"):
        # outputs that alias the input and the parameter
        out.append(base("alias", kind, n=3, kernel=None, bad=[1, 0, 2, 0], good_scale=0.5, forms=["plain", "strided", "slice"]))
        out.append(base("alias", kind, n=2, kernel=[["huber", 0.5], ["cauchy", 1.0]], bad=[0, 1, 0, 1], good_scale=0.5, raise_at=[1]))
        out.append({**base("alias", kind, n=2, kernel=["huber", 1.0]), "opt": "gn", "ncalls": 3, "good_scale": 0.5})
        # strategy subclass with min / max / down as properties
        if kind != "constant":
            out.append(base("lin", kind, sub_strategy="props", bad=[1, 2, 0, 1], good_scale=0.3,
                            strategy=dict(dflt[kind], min=1e-3, max=2e-2 if kind == "adaptive" else 4e3)))
        # trial losses worse / better by 1e-12 … 1e-5 relative: no tolerance in the accept test
        for ch in "abcdefACF":
            out.append({"kind": "opt", "opt": "lm", "family": "script1d", "fam_seed": 0, "dtype": "float64", "reject": 2, "ncalls": 2,
                        "scripts": [ch, "W" + ch], "start": 3.0, "lm_min": 1e-6, "lm_max": 1e32, "solver": "solve",
                        "kernel": None, "strategy": dict(dflt[kind]), "n": 1, "M": 1, "d": 1})
    # ---- pass 7: step quality EXACTLY on a threshold through LM.step itself. The scripted 1-D model is linear, so with dyadic
    # data the quality (last - loss) / (predicted decrease) is exactly 1 for every trial (worse trials included); thresholds
    # high = 1 / low = 1 / high = low = 1 put it on each comparison of the if / elif chain. The rules: == high is "successful"
    # (state unchanged), == low is "unsuccessful". Equal losses (ending E: 0/-0. = NaN quality) are in the same histories.
    out += tie_lm_scenarios()
    for fam, kw in (("lin", dict(bad=[1, 0, 2, 0], good_scale=0.3)), ("atan", dict(start=0.2, n=2)), ("rosen", dict(start=0.5, fam_seed=7)),
                    ("so3", dict(M=2, start=0.5, bad=[0, 1, 0, 0], good_scale=0.5))):
        for kind, dt_ in (("adaptive", "float64"), ("trust", "float32")):
            b_ = base(fam, kind, dtype=dt_, ncalls=3, **kw)
            b_["tie_probe"] = True
            out.append(b_)
    # ---- pass 4
    for kind in ("constant", "adaptive", "trust"):
        # user subclasses of library classes: strategy (library rule through the subclass / its own law), solver, kernel, model
        out.append(base("lin", kind, sub_strategy="delegate", bad=[1, 2, 0, 1], good_scale=0.3, raise_at=[2]))
        out.append(base("atan", kind, start=0.2, sub_strategy="own", ncalls=4))
        out.append(base("lin", kind, sub_solver=True, solver="cholesky", bad=[1, 0, 2, 0], good_scale=0.3, raise_at=[1]))
        out.append(base("lin", kind, sub_solver=True, solver="pinv", sub_strategy="delegate", sub_model=True, kernel=["shift", 1.0],
                        bad=[2, 0, 1, 0], good_scale=0.3))
        out.append(base("mixed", kind, M=1, start=0.5, kernel=[["shift", 0.5], ["huber", 1.0]], sub_model=True, bad=[1, 0, 1, 0],
                        good_scale=0.3, ncalls=3))
        # negative losses (user kernel), sign conventions
        out.append(base("lin", kind, kernel=["shift", 3.0], bad=[1, 3, 0, 6], good_scale=0.3, raise_ct=[[1, 2]]))
        out.append({"kind": "opt", "opt": "lm", "family": "script1d", "fam_seed": 0, "dtype": "float64", "reject": 2, "ncalls": 3,
                    "scripts": ["WB", "E", "WWW"], "start": 0.25, "lm_min": 1e-6, "lm_max": 1e32, "solver": "solve",
                    "kernel": ["shift", 2.0], "strategy": dict(dflt[kind]), "n": 1, "M": 1, "d": 1})
        # a cache must not be poisoned by the mode of an earlier call: orders of grad modes / operands requiring grad
        for gm, rg in ((["no_grad", None, "enable_grad", None], [False, True, True, False]),
                       (["enable_grad", "no_grad", None, "enable_grad"], [True, False, False, True])):
            b_ = base("lin", kind, bad=[1, 0, 2, 0], good_scale=0.3)
            b_["twin"] = {"grad_modes": gm, "req_grads": rg}
            out.append(b_)
        # process-wide default dtype × model dtype (metadata oracle + twin)
        for dd_, mdt in (("float64", "float32"), ("float32", "float64"), ("float64", "float64")):
            b_ = base("lin" if kind != "trust" else "se3", kind, M=2, dtype=mdt, start=0.5, bad=[1, 0, 2, 0], good_scale=0.3,
                      kernel=["huber", 1.0])
            b_["twin"] = {"default_dtype": dd_}
            out.append(b_)
        # many residuals / parameters around 2^k
        M_ = {"constant": 1023, "adaptive": 1024, "trust": 1025}[kind]
        if not quick or kind == "trust":
            out.append(base("lin", kind, n=2, M=M_, d=1, ncalls=2, bad=[1, 0], good_scale=0.5, kernel=["huber", 1.0],
                            dtype=("float64", "float32")[M_ % 2]))
        out.append(base("lin", kind, n=(31, 32, 33)[("constant", "adaptive", "trust").index(kind)], M=40, d=1, ncalls=2,
                        bad=[1, 0], good_scale=0.5))
    if not quick:
        out.append(base("lin", "trust", n=2, M=16385, d=1, ncalls=1, bad=[1], good_scale=0.5, kernel=None))
        out.append(base("lin", "adaptive", n=1, M=4097, d=1, ncalls=2, bad=[1, 0], good_scale=0.5, kernel=["huber", 1.0], dtype="float32"))
    out.append(base("lin", "adaptive", n=129, M=130, d=1, ncalls=2, bad=[1, 0], good_scale=0.5, solver="pinv"))
    # ---- hardening pass 2
    for kind in ("constant", "adaptive", "trust"):
        # accept test without tolerance: a trial a couple of ulps worse / better after k rejections
        for reject in (0, 2):
            for k in range(0, reject + 1):
                for end in "UL":
                    out.append({"kind": "opt", "opt": "lm", "family": "script1d", "fam_seed": 0, "dtype": ("float64", "float32")[k % 2],
                                "reject": reject, "ncalls": 2, "scripts": ["W" * k + end, "B"], "start": 3.0, "lm_min": 1e-6,
                                "lm_max": 1e32, "solver": "solve", "kernel": None, "strategy": dict(dflt[kind]), "n": 1, "M": 1, "d": 1})
        # the user's model raising: before the first trial of every call (atomic: verdict) / during a trial (observation)
        out.append(base("atan", kind, start=0.2, ncalls=5, fwd_raise=[[0, "pre"], [2, "pre"], [3, "pre"]]))
        out.append(base("lin", kind, bad=[1, 2, 0, 1], good_scale=0.3, ncalls=4, fwd_raise=[[1, "pre"]], kernel=["huber", 0.5]))
        out.append(base("lin", kind, bad=[2, 2, 0, 0], good_scale=0.3, ncalls=3, fwd_raise=[[1, 1]]))
        # argument combinations: kernel xor corrector, weight in constructor xor step, frozen parameter, folded target,
        # keyword / positional, containers, single kernel for several outputs in every spelling
        for i, combo in enumerate([
                {"kernel": ["huber", 0.5], "corrector": None}, {"kernel": None, "corrector": "fast"},
                {"kernel": ["cauchy", 1.0], "corrector": "triggs"}, {"weight": {"where": "ctor", "shape": "dd"}},
                {"weight": {"where": "step", "shape": "Mdd"}}, {"weight": {"where": "both", "shape": "dd"}, "kernel": ["pseudohuber", 1.0]},
                {"frozen": "first"}, {"frozen": "last", "fold_target": True, "call_style": "keyword"},
                {"fold_target": True, "input_container": "dict", "ctor_style": "positional"},
                {"input_container": "list", "call_style": "mixed", "weight": {"where": "step", "shape": "dd"}}]):
            n_, M_, d_ = SIZES[i % len(SIZES)]
            out.append(base("lin", kind, n=n_, M=M_, d=d_, bad=[1, 0, 2, 0], good_scale=0.3, **combo))
        for kspec in (["huber", 0.3], [["huber", 0.3]], [["huber", 0.3], None], [["cauchy", 1.0], ["pseudohuber", 0.5]]):
            kk = kspec[0] if (len(kspec) == 1 and isinstance(kspec[0], list)) else kspec
            out.append(base("mixed", kind, M=1, kernel=kk, kernel_wrap=("list1" if len(kspec) == 1 else None), start=0.5,
                            bad=[1, 0, 1, 0], good_scale=0.3, ncalls=3))
        # special sizes (feature dimension 3, batch = feature dimension, 1, primes), also with a rank-3 output
        for i, (n_, M_, d_) in enumerate(SIZES):
            out.append(base("lin", kind, n=n_, M=M_, d=d_, ncalls=2, bad=[1, 0], good_scale=0.5, kernel=["huber", 1.0],
                            out3d=(i % 2 == 0)))
    # value-preserving variations (twins), every kind once per strategy family
    for i, var in enumerate(TWIN_VARIANTS):
        kind = ("constant", "adaptive", "trust")[i % 3]
        fam = "rosen" if "scalar_input" in var else "lin" if "input_requires_grad" in var else ("lin", "atan", "se3")[i % 3]
        b = base(fam, kind, start=0.3 if fam != "lin" else 1.0, bad=[1, 2, 0, 1], good_scale=0.3, ncalls=4, raise_at=[3],
                 kernel=["huber", 0.5] if "kernel_wrap" in var else None, M=2)
        v = dict(var)
        if "copy_what" in v:
            v["copy_at"] = 2
        b["twin"] = v
        out.append(b)
        if "copy_what" in var or "grad_mode" in var:
            g = {**base("lin", "constant", ncalls=4, M=2), "opt": "gn", "good_scale": 0.5, "raise_at": [1]}
            if var.get("copy_what", "state_dict") == "state_dict":
                g["twin"] = {**var, **({"copy_at": 2} if "copy_what" in var else {})}
                out.append(g)
    # interleaved groups without sharing: GN and LM, float32 and float64, Lie and Euclidean, several orders
    for pattern in ("ABCABCABC", "CBACBAABC", "AAABBBCCC"):
        a = base("lin", "trust", bad=[1, 0, 2, 0], good_scale=0.3, ncalls=3)
        b2 = {**base("so3", "constant", M=2, start=0.5, ncalls=3, dtype="float32", fam_seed=5), "opt": "gn", "good_scale": 0.5}
        c2 = base("se3", "adaptive", M=1, start=0.5, ncalls=3, dtype="float32", fam_seed=9, bad=[0, 1, 0], good_scale=0.3,
                  kernel=["huber", 1.0])
        a["pair"] = {"others": [b2, c2], "pattern": pattern, "share_strategy": False}
        out.append(a)
    # two optimizers sharing one strategy object
    for kind in ("adaptive", "trust"):
        a = base("lin", kind, bad=[1, 2, 0, 1], good_scale=0.3, ncalls=4)
        b = base("atan", kind, start=0.2, ncalls=4, dtype="float32", fam_seed=77)
        b.pop("strategy")
        a["pair"] = {"other": b, "pattern": "ABBAABAB"}
        out.append(a)
    return out


def alias_probes(ctx: Ctx):
    """OBSERVATIONS (recorded in the evidence notes, not verdicts): what the unchanged implementation does when the
    caller steps outside the property's premise (a history that consists of step() calls only)."""
    P = pp()

    class Q(nn.Module):
        def __init__(self):
            super().__init__()
            self.t = nn.Parameter(torch.tensor([3.0], dtype=torch.float64))

        def forward(self, x):
            return (self.t * x).view(1, 1)
    x = torch.tensor(1.0, dtype=torch.float64)
    try:
        m = Q()
        opt = P.optim.LM(m, strategy=P.optim.strategy.Constant(1e-6), reject=3)
        r0 = opt.step(x)
        same = r0 is opt.loss
        ctx.count(f"probe.returned-tensor-is-the-cache={same}")
        with torch.no_grad():
            m.t.copy_(torch.tensor([5.0], dtype=torch.float64))
        opt.step(x)
        stale = float(opt.last) != 25.0
        ctx.count(f"probe.cache-stale-after-caller-moved-parameters={stale}")
        ctx.notes.append(f"probe: step() returns its cache tensor by reference: {same}; optimizer.last after the caller moved the "
                         f"parameters between calls is the stale cache: {stale} (both outside the property's premise; see notes/C08.md)")
    except Exception as e:
        ctx.notes.append(f"probe failed: {e!r}")


def direct_update(strat, pg, last, loss, J, D, R):
    """strategy.update called directly; exceptions are part of the observation"""
    rec = RecStrategy(strat)
    before = pg_state(pg)
    try:
        rec.update(pg, last=last, loss=loss, J=J, D=D, R=R)
        return rec.vfh08_log[-1]
    except ZeroDivisionError:
        return {"pg_before": before, "hyper": pg_hyper(pg, strat), "last": last, "loss": loss, "J": J, "D": D, "R": R,
                "pg_after": pg_state(pg), "raised": "ZeroDivisionError", "params": None}


def run_zero_cases(ctx: Ctx):
    """the zero-denominator case as the code has it (J D = 0: the sign of the floating zero decides between -inf and
    +inf, 0/0 is NaN) and the ZeroDivisionError branch of TrustRegion (`1. / pg['damping']` with damping = 0, reachable
    with TrustRegion(radius=inf))"""
    reqs = []
    for kind in ("adaptive", "trust"):
        for dtype in ("float64", "float32"):
            dt = getattr(torch, dtype)
            for rsign in (1.0, -1.0):
                for dval in (0.0, -0.0):
                    for num in (1.0, -1.0, 0.0):
                        spec = {"kind": kind, "damping": 0.5, "radius": 2.0, "high": 0.5, "low": 0.125, "up": 2.0, "down": 0.5,
                                "factor": 0.5, "min": 2.0 ** -10, "max": 2.0 ** 10}
                        strat = make_strategy(spec)
                        pg = dict(strat.defaults)
                        J = torch.tensor([[1.0], [2.0]], dtype=dt)
                        D = torch.tensor([[dval]], dtype=dt)
                        R = torch.tensor([[rsign], [rsign]], dtype=dt)
                        last, loss = torch.tensor(2.0 + num, dtype=dt), torch.tensor(2.0, dtype=dt)
                        case = {"kind": "upd", "spec": spec, "pg": {k: float(v) for k, v in pg.items()}, "dtype": dtype,
                                "last": float(last), "loss": float(loss), "J": J.tolist(), "D": D.tolist(), "R": R.tolist()}
                        up_ = direct_update(strat, pg, last, loss, J, D, R)
                        reqs.append(upd_request(case, kind, up_, dtype, where="zero-denominator corpus"))
                        ctx.count(f"class.zero-den.signbit={den_sign_bit(J, D, R)}")
    # TrustRegion with a zero damping (radius = inf): ZeroDivisionError
    for rad in (float("inf"),):
        spec = {"kind": "trust", "damping": 0.0, "radius": rad, "high": 0.5, "low": 0.125, "up": 2.0, "down": 0.5,
                "factor": 0.5, "min": 1e-6, "max": 1e16}
        strat = make_strategy(spec)
        pg = dict(strat.defaults)
        dt = torch.float64
        J, D, R = torch.tensor([[1.0]], dtype=dt), torch.tensor([[1.0]], dtype=dt), torch.tensor([[-1.0]], dtype=dt)
        case = {"kind": "upd", "spec": {**spec, "radius": 1e308}, "pg": {k: float(v) for k, v in pg.items() if math.isfinite(float(v))},
                "dtype": "float64", "last": 3.0, "loss": 2.0, "J": J.tolist(), "D": D.tolist(), "R": R.tolist(), "zero_damping": True}
        up_ = direct_update(strat, pg, torch.tensor(3.0, dtype=dt), torch.tensor(2.0, dtype=dt), J, D, R)
        up_["pg_before"] = {"damping": 0.0, "radius": 1.0, "down": 0.5}      # `inf` does not travel; only damping = 0 matters
        reqs.append(upd_request(case, "trust", up_, "float64", where="TrustRegion(radius=inf)"))
        ctx.count("class.zero-damping")
    settle_updates(ctx, reqs, "zero")


def run_tie_updates(ctx: Ctx):
    """exact coincidences: damping exactly on min / max, damping·up exactly max, damping·down exactly min, high == low,
    quality exactly on a threshold (all dyadic: every float operation is exact), for every strategy and both dtypes"""
    reqs = []
    for kind in ("adaptive", "trust"):
        for dtype in ("float64", "float32"):
            dt = getattr(torch, dtype)
            for (lo, hi, dmp, up, down) in ((0.25, 4.0, 0.25, 2.0, 0.5), (0.25, 4.0, 4.0, 2.0, 0.5), (0.25, 4.0, 2.0, 2.0, 0.5),
                                            (0.25, 4.0, 0.5, 2.0, 0.5), (1.0, 1.0, 1.0, 4.0, 0.25), (0.125, 8.0, 1.0, 8.0, 0.125)):
                for (high, low) in ((0.5, 0.125), (0.25, 0.25)):
                    for qv in (high, low, 0.375, -1.0, 2.0):
                        spec = {"kind": kind, "damping": dmp, "radius": 1.0 / dmp, "high": high, "low": low, "up": up, "down": down,
                                "factor": 0.5, "min": lo, "max": hi}
                        strat = make_strategy(spec)
                        pg = dict(strat.defaults)
                        rec = RecStrategy(strat)
                        J = torch.tensor([[1.0]], dtype=dt)
                        D = torch.tensor([[1.0]], dtype=dt)
                        R = torch.tensor([[-1.0]], dtype=dt)          # den = 1, quality = last - loss exactly
                        last, loss = torch.tensor(qv + 2.0, dtype=dt), torch.tensor(2.0, dtype=dt)
                        case = {"kind": "upd", "spec": spec, "pg": {k: float(v) for k, v in pg.items()}, "dtype": dtype,
                                "last": float(last), "loss": float(loss), "J": J.tolist(), "D": D.tolist(), "R": R.tolist()}
                        rec.update(pg, last=last, loss=loss, J=J, D=D, R=R)
                        up_ = rec.vfh08_log[-1]
                        check_bounds_direct(ctx, case, kind, up_)
                        reqs.append(upd_request(case, kind, up_, dtype, where="tie corpus"))
                        ctx.count("class.tie-update")
    settle_updates(ctx, reqs, "tie")


_REPEAT = {}


def repeat_scenarios():
    dflt = {"kind": "trust", "damping": 1e-3, "radius": 1e3, "high": 0.5, "low": 1e-3, "up": 2.0, "down": 0.5, "factor": 0.5,
            "min": 1e-6, "max": 1e16}
    common_ = {"kind": "opt", "fam_seed": 4321, "reject": 3, "ncalls": 3, "n": 2, "M": 2, "d": 1, "logcond": 0, "ascale": 1.0,
               "start": 0.5, "lm_min": 1e-6, "lm_max": 1e32, "solver": "cholesky", "vectorize": True, "bad": [1, 0, 2],
               "bad_scale": -5.0, "good_scale": 0.5, "raise_at": [], "raise_ct": []}
    return [{**common_, "opt": "lm", "family": "se3", "dtype": "float32", "kernel": ["huber", 1.0], "strategy": dict(dflt)},
            {**common_, "opt": "lm", "family": "lin", "dtype": "float64", "kernel": None, "strategy": dict(dflt), "M": 1, "n": 1},
            {**common_, "opt": "gn", "family": "so3", "dtype": "float64", "kernel": ["cauchy", 1.0], "solver": "pinv"}]


def repeat_check(ctx: Ctx, first=False):
    """the same calls at the very beginning and at the very end of the run (every other operation of the run in between:
    other dtypes, single items and batches, GN and LM, Lie and Euclidean): bit-for-bit identical"""
    for i, scn in enumerate(repeat_scenarios()):
        sink = []
        run_optimizer_scenario(ctx, scn, {"upd": [], "lm": [], "gn": [], "loss": []}, sink=sink)
        key = [(o.get("ret"), [t.tolist() for t in o.get("params", [])]) for o in sink]
        if first:
            _REPEAT[i] = key
        elif _REPEAT.get(i) is not None and _REPEAT[i] != key:
            ctx.fail(scn, "repeat: the same history gives different values at the beginning and at the end of the process "
                          "(state left behind by other calls)")
    ctx.count("class.repeat-check")


def run_corpus(ctx: Ctx):
    repeat_check(ctx, first=True)
    import random
    rc = random.Random(0xC08C)
    run_upd_stream(ctx, 300, rc)
    run_init_stream(ctx, 60, rc)
    run_tie_updates(ctx)
    run_zero_cases(ctx)
    run_empty_kernel(ctx)
    run_large_loss(ctx, [255, 257, 4097, 16385, 65537, 2 ** 17 + 37] if ctx.quick else
                   [2 ** k + e_ for k in range(6, 17) for e_ in (-1, 0, 1)] + [100003, 131073, 2 ** 18 + 1, 2 ** 18 + 37, 2 ** 20 + 1], rc)
    run_hist_stream(ctx, 24, rc)
    run_edithist_stream(ctx, 20, rc)
    run_loss_stream(ctx, 40, rc)
    corpus = corpus_scenarios(ctx.quick)
    run_opt_stream(ctx, [s_ for s_ in corpus if not s_.get("tie_probe")])
    run_tie_reruns(ctx, [s_ for s_ in corpus if s_.get("tie_probe")])
    alias_probes(ctx)


def reset_shared():
    _SHARED["solvers"].clear()
    _SHARED["kernels"].clear()


def run(ctx: Ctx):
    import os, time, sys
    if os.environ.get("C08_PROF"):
        g = globals()
        for nm in [k for k in g if k.startswith("run_") or k.startswith("settle_") or k in ("repeat_check", "alias_probes")]:
            fn = g[nm]
            if getattr(fn, "_prof", False):
                continue
            def mk(fn, nm):
                def w(*a, **k):
                    t0 = time.time()
                    try:
                        return fn(*a, **k)
                    finally:
                        print(f"PROF {nm} {time.time() - t0:.2f}", file=sys.stderr)
                w._prof = True
                return w
            g[nm] = mk(fn, nm)
    rng = ctx.rng
    torch.set_num_threads(1)      # tiny tensors: threads only add contention on a shared box
    reset_shared()
    run_corpus(ctx)
    run_upd_stream(ctx, ctx.pick(800, 12000))
    run_init_stream(ctx, ctx.pick(60, 600))
    run_hist_stream(ctx, ctx.pick(60, 600))
    run_edithist_stream(ctx, ctx.pick(20, 300))
    run_loss_stream(ctx, ctx.pick(80, 800))
    # scripted 1-D: exhaustive endings for every reject (quick: a rotating subset of rejects + all small ones)
    if ctx.quick:
        rejects = [2] + sorted(rng.sample(range(4, 16), 1))
        kinds = [rng.choice(["constant", "adaptive", "trust"])]
        scr = script_scenarios(rng, rejects, kinds)
    else:
        scr = script_scenarios(rng, list(range(0, 17)), ["constant", "adaptive", "trust"])
    run_opt_stream(ctx, scr)
    scns = [gen_scenario(rng, ctx.quick, "lm") for _ in range(ctx.pick(48, 900))]
    scns += [gen_scenario(rng, ctx.quick, "gn") for _ in range(ctx.pick(20, 200))]
    scns += pair_scenarios(rng, ctx.pick(8, 80), ctx.quick)
    scns += twin_scenarios(rng, ctx.pick(12, 250), ctx.quick)
    scns += default_groups(rng, ctx.pick(4, 40), ctx.quick)
    run_opt_stream(ctx, scns)
    repeat_check(ctx)


def search(ctx: Ctx):
    """after a broken proof / correspondence: hunt for a concrete failing input with the oracles alone
    (all endings for every reject, every strategy; more random histories; a grid of direct updates)"""
    rng = ctx.rng
    scr = script_scenarios(rng, list(range(0, 17)), ["constant", "adaptive", "trust"])
    collect = {"upd": [], "lm": [], "gn": [], "loss": []}
    for scn in scr:
        run_optimizer_scenario(ctx, scn, collect)
        if ctx.failures:
            return
    import time
    t0 = time.time()
    for _ in range(400):
        scn = gen_scenario(rng, False, rng.choice(["lm", "lm", "gn"]))
        run_optimizer_scenario(ctx, scn, collect)
        if ctx.failures or time.time() - t0 > 90:
            break
    if ctx.failures:
        return
    # strategies: documented rule on the implementation's own inputs
    for r in collect["upd"]:
        up = r["up"]
        allowed, qx = allowed_verdicts(up["hyper"], up["last"], up["loss"], up["J"], up["D"], up["R"], r["dtype"])
        ok = False
        for v in allowed:
            doc = doc_update(r["kind"], up["hyper"], up["pg_before"], v)
            if all(abs(doc[kx] - up["pg_after"][kx]) <= 16 * EPS["float64"] * abs(doc[kx]) for kx in up["pg_after"]):
                ok = True
        if not ok:
            r["verdict"] = sorted(allowed)[0]
            r["qx"] = qx
            r["model"] = [Fraction(0)] * 3
            r["allowed"] = allowed
            v = classify(qx, Fraction(up["hyper"]["high"]), Fraction(up["hyper"]["low"])) if qx is not None else "bad"
            doc = doc_update(r["kind"], up["hyper"], up["pg_before"], v)
            ctx.fail(r["scn"], f"strategy-{r['kind']}: {r['where']}: documented update of {up['pg_before']} for verdict '{v}' is "
                               f"{ {kx: doc[kx] for kx in up['pg_after']} } but the implementation produced {up['pg_after']}")
            return


def replay(ctx: Ctx, case) -> bool:
    c = case["case"]
    kind = c.get("kind")
    n0 = len(ctx.failures)
    reset_shared()
    if kind == "opt":
        collect = {"upd": [], "lm": [], "gn": [], "loss": []}
        if c.get("pair"):
            run_pair(ctx, c, collect)
        elif c.get("twin"):
            run_twin(ctx, c, collect)
        else:
            run_optimizer_scenario(ctx, c, collect)
        settle_updates(ctx, collect["upd"], "lm-upd")
        settle_lm(ctx, collect["lm"], set())
        settle_gn(ctx, collect["gn"])
        settle_lmloss(ctx, collect["loss"])
        settle_normal(ctx, collect.get("normal", []))
        settle_diag(ctx, collect.get("diag", []))
    elif kind == "upd":
        spec = c["spec"]
        dt = getattr(torch, c["dtype"])
        strat = make_strategy(spec)
        pg = dict(strat.defaults)
        pg.update(c["pg"])
        rec = RecStrategy(strat)
        rec.update(pg, last=torch.tensor(c["last"], dtype=dt), loss=torch.tensor(c["loss"], dtype=dt),
                   J=torch.tensor(c["J"], dtype=dt), D=torch.tensor(c["D"], dtype=dt), R=torch.tensor(c["R"], dtype=dt))
        up = rec.vfh08_log[-1]
        print("  pg before:", up["pg_before"], "after:", up["pg_after"])
        check_bounds_direct(ctx, c, spec["kind"], up)
        settle_updates(ctx, [upd_request(c, spec["kind"], up, c["dtype"], where="direct update")], "upd")
    elif kind == "hist":
        settle_hist(ctx, [run_hist_case(ctx, c)])
    elif kind == "empty-kernel":
        run_empty_kernel(ctx)
    elif kind == "init":
        import random
        print("  (init cases are re-generated from the spec)")
        strat = make_strategy(c["spec"], c.get("positional", False))
        print("  strategy.defaults:", strat.defaults)
    elif kind == "edithist":
        settle_updates(ctx, run_edithist_case(ctx, c), "edithist")
    elif kind == "loss":
        it = loss_case(ctx, c)
        print("  RobustModel.loss:", it["got"], " Σρ(‖r‖²):", it["oracle"])
        if not (abs(it["got"] - it["oracle"]) <= 64 * EPS[c["dtype"]] * max(abs(it["oracle"]), it["scale"])):
            ctx.fail(c, "robust-loss: mismatch")
    for f in ctx.failures[n0:]:
        print("  fails:", f["what"])
    for d in ctx.disagreements:
        print("  model/implementation disagreement:", d["detail"][:400])
    return len(ctx.failures) == n0 and not ctx.disagreements
