import Pose.Wire
import Pose.Model.Batch
import Pose.Gen.Handled
import Pose.Gen.LTypes
/-! Driver ops for C06: they *run the model's own definitions* (`binop`, `addOp`, `unopFlat`, `IMap.steps`,
`catFlat`, `overwriteFlat`, `gatherFlat`, `scatterFlat`, `torchFunction`, `Retain.retain`) on tagged items
(an item is tagged with its flat index) and print shapes / tags.  All tokens are naturals or short words.
Lists travel as `n x₁ … xₙ`. -/
namespace PP.Driver
open PP Wire Batch

/-- read `n x₁ … xₙ` from the front -/
def takeList (ts : List String) : Except String (List Nat × List String) := do
  match ts with
  | [] => throw "arity"
  | n :: rest =>
    let n ← nat n
    let (xs, rest') ← take n rest
    let xs ← nats xs
    return (xs, rest')

def tagT (s : Shape) : T Nat := ⟨s, fun k => k⟩

def fmtShape (s : Shape) : String := s!"S {s.length}" ++ String.join (s.map fun d => s!" {d}")

def fmtOutPairs (r : Out (Nat × Nat)) : String :=
  let n := numel r.shape
  fmtShape r.shape ++ s!" L {r.last} N {n}" ++
    String.join ((List.range n).map fun k => let p := r.data k; s!" {p.1} {p.2}")

def fmtPairs (out : Shape) (f : Nat → Nat × Nat) : String :=
  let n := numel out
  fmtShape out ++ s!" N {n}" ++ String.join ((List.range n).map fun k => let p := f k; s!" {p.1} {p.2}")

def fmtSrc (out : Shape) (f : Nat → Nat) : String :=
  let n := numel out
  fmtShape out ++ s!" N {n}" ++ String.join ((List.range n).map fun k => s!" {f k}")

partial def parseSteps : List String → Except String (List Step)
  | [] => return []
  | "R" :: rest => do let (s, r) ← takeList rest; return Step.reshape s :: (← parseSteps r)
  | "P" :: rest => do let (p, r) ← takeList rest; return Step.permute p :: (← parseSteps r)
  | "I" :: d :: rest => do
      let d ← nat d; let (ix, r) ← takeList rest; return Step.index d ix :: (← parseSteps r)
  | "E" :: rest => do let (s, r) ← takeList rest; return Step.expand s :: (← parseSteps r)
  | "T" :: rest => do let (s, r) ← takeList rest; return Step.repeat_ s :: (← parseSteps r)
  | t :: _ => throw s!"bad-step:{t}"

partial def takeShapes : Nat → List String → Except String (List Shape × List String)
  | 0, ts => return ([], ts)
  | m + 1, ts => do
    let (s, r) ← takeList ts
    let (ss, r') ← takeShapes m r
    return (s :: ss, r')

def parseLeaf (s : String) : Except String Leaf :=
  if s == "T" then .ok Leaf.tensor
  else if s == "O" then .ok Leaf.other
  else if s.startsWith "L" then
    match (s.drop 1).toNat? with
    | some k => .ok (Leaf.lie k)
    | none => .error s!"bad-leaf:{s}"
  else .error s!"bad-leaf:{s}"

def fmtLeaf : Leaf → String
  | .tensor => "T"
  | .other => "O"
  | .lie k => s!"L{k}"

open Retain in
/-- body in prefix form: `r` ret, `x` raise, `c<slot>` call then continuation, `n` nest (inner, continuation; the nested
context iterates in the order `ord`), `t` try (inner, handler, continuation) -/
partial def parseBody (ord : List Nat) : List String → Except String (Retain.Body × List String)
  | "r" :: rest => return (.ret, rest)
  | "x" :: rest => return (.raise, rest)
  | "n" :: rest => do
    let (inner, r1) ← parseBody ord rest
    let (k, r2) ← parseBody ord r1
    return (.nest ord inner k, r2)
  | "t" :: rest => do
    let (inner, r1) ← parseBody ord rest
    let (h, r2) ← parseBody ord r1
    let (k, r3) ← parseBody ord r2
    return (.try_ inner h k, r3)
  | t :: rest =>
    if t.startsWith "c" then
      match (t.drop 1).toNat? with
      | some s => do let (k, r) ← parseBody ord rest; return (.call s k, r)
      | none => throw s!"bad-body:{t}"
    else throw s!"bad-body:{t}"
  | [] => throw "arity"

open Retain in
def fmtFn : Retain.Fn → String
  | .orig s => s!"o{s}"
  | .wrap f => "w" ++ fmtFn f

def sepBar (ts : List String) : List String × List String :=
  (ts.takeWhile (· ≠ "|"), (ts.dropWhile (· ≠ "|")).drop 1)

def parseLT (s : String) : Except String LT :=
  match LT.all.find? (fun t => (reprStr t).endsWith ("." ++ s)) with
  | some t => .ok t
  | none => .error s!"bad-ltype:{s}"

def parseOp (s : String) : Except String Op :=
  match Op.all.find? (fun t => (reprStr t).endsWith ("." ++ s)) with
  | some t => .ok t
  | none => .error s!"bad-op:{s}"

def ltName (t : LT) : String := ((reprStr t).splitOn ".").getLast!

def opsC06 : List (String × Handler) := [
  -- c06.torchbshape n a… n b…   → torch's own loop (`torchBroadcast`)
  ("c06.torchbshape", fun ts => do
      let (a, r1) ← takeList ts
      let (b, _) ← takeList r1
      match torchBroadcast a b with
      | none => throw "raise"
      | some o => return fmtShape o),
  -- c06.sig <op> <ltype> n ls…   → `lie <ltype> S …full shape` | `tensor S …full shape` | err raise
  ("c06.sig", fun ts => do
      match ts with
      | op :: lt :: rest =>
        let op ← parseOp op; let lt ← parseLT lt
        let (ls, _) ← takeList rest
        match sig op lt with
        | none => throw "raise"
        | some r => match r with
          | .lie t => return s!"lie {ltName t} " ++ fmtShape (r.shape ls) ++ (if initOk t (r.shape ls) then " init-ok" else " init-FAILS")
          | .tensor _ => return "tensor - " ++ fmtShape (r.shape ls)
      | _ => throw "arity"),
  -- c06.effect <name>   → fresh | view | inplace, and whether the name follows the in-place convention
  ("c06.effect", fun ts => do
      match ts with
      | [name] => match (semOf name).map effectOf with
        | some e => return ((reprStr e).splitOn ".").getLast! ++ (if inplaceName name then " underscore" else " plain")
        | none => throw "no-semantics"
      | _ => throw "arity"),
  -- c06.ltypes   → the generated LieType table compiled into this binary
  ("c06.ltypes", fun _ => return " ".intercalate (PP.Gen.ltypes.map fun r => s!"{r.1}:{r.2.1}:{r.2.2.1}:{r.2.2.2}")),
  -- c06.bcast dOut dDecl  n sx…  n sy…     → binop on tagged items
  ("c06.bcast", fun ts => do
      match ts with
      | dOut :: dDecl :: rest =>
        let dOut ← nat dOut; let dDecl ← nat dDecl
        let (sx, r1) ← takeList rest
        let (sy, _) ← takeList r1
        match binop (fun a b => (a, b)) dOut dDecl (tagT sx) (tagT sy) with
        | none => throw "raise"
        | some r => return fmtOutPairs r
      | _ => throw "arity"),
  -- c06.add d  n sx…  n sa…   → addOp on tagged items; pair = (tag of a, tag of x)
  ("c06.add", fun ts => do
      match ts with
      | d :: rest =>
        let d ← nat d
        let (sx, r1) ← takeList rest
        let (sa, _) ← takeList r1
        -- items of x are (0, tag); the retraction records which `a` item met which `x` item
        let x : T (Nat × Nat) := ⟨sx, fun k => (0, k)⟩
        match addOp (fun a (xi : Nat × Nat) => (a, xi.2)) d x (tagT sa) with
        | none => throw "raise"
        | some r => return fmtOutPairs r
      | _ => throw "arity"),
  -- c06.unflat dOut dDecl n sx…   → unopFlat
  ("c06.unflat", fun ts => do
      match ts with
      | dOut :: dDecl :: rest =>
        let dOut ← nat dOut; let dDecl ← nat dDecl
        let (sx, _) ← takeList rest
        match unopFlat (fun a => (a, a)) dOut dDecl (tagT sx) with
        | none => throw "raise"
        | some r => return fmtOutPairs r
      | _ => throw "arity"),
  -- c06.view n s… (L dim start step len | S dim idx | E n s'… | P n p…)*   → offset, strides and lshape of the view of a contiguous tensor
  ("c06.view", fun ts => do
      let (s, r1) ← takeList ts
      let rec go (fuel : Nat) (v : View Nat) (ts : List String) : Except String (View Nat) :=
        match fuel, ts with
        | _, [] => pure v
        | 0, _ => throw "fuel"
        | f + 1, "L" :: a :: b :: c :: d :: rest => do
          go f (v.slice (← nat a) (← nat b) (← nat c) (← nat d)) rest
        | f + 1, "S" :: a :: b :: rest => do
          go f (v.select (← nat a) (← nat b)) rest
        | f + 1, "E" :: rest => do
          let (s', r2) ← takeList rest
          go f (v.expand s') r2
        | f + 1, "P" :: rest => do
          let (p, r2) ← takeList rest
          if !(isPerm p v.shape.length) then throw "raise"
          go f (v.permute p) r2
        | _, _ => throw "token"
      let v ← go ts.length (View.ofT (tagT s)) r1
      return s!"{v.offset} | {fmtShape v.strides} | {fmtShape v.shape}"),
  -- c06.bshape n a… n b…   → broadcastShapes only
  ("c06.bshape", fun ts => do
      let (a, r1) ← takeList ts
      let (b, _) ← takeList r1
      match broadcastShapes a b with
      | none => throw "raise"
      | some o => return fmtShape o),
  -- c06.steps n s… <steps>   → pipeline on one input
  ("c06.steps", fun ts => do
      let (s, r1) ← takeList ts
      let sts ← parseSteps r1
      match (IMap.id s).steps sts with
      | none => throw "raise"
      | some m => return fmtSrc m.out m.src),
  -- c06.cat dim m (n s…)*m
  ("c06.cat", fun ts => do
      match ts with
      | dim :: m :: rest =>
        let dim ← nat dim; let m ← nat m
        let (ss, _) ← takeShapes m rest
        match catFlat ss dim with
        | none => throw "raise"
        | some (out, f) => return fmtPairs out f
      | _ => throw "arity"),
  -- c06.overwrite dim n s… n idx…
  ("c06.overwrite", fun ts => do
      match ts with
      | dim :: rest =>
        let dim ← nat dim
        let (s, r1) ← takeList rest
        let (idx, _) ← takeList r1
        match overwriteFlat s dim idx with
        | none => throw "raise"
        | some (out, f) => return fmtPairs out f
      | _ => throw "arity"),
  -- c06.gather dim n s… n si… n index…
  ("c06.gather", fun ts => do
      match ts with
      | dim :: rest =>
        let dim ← nat dim
        let (s, r1) ← takeList rest
        let (si, r2) ← takeList r1
        let (ix, _) ← takeList r2
        match gatherFlat s si dim (fun k => ix.getD k 0) with
        | none => throw "raise"
        | some (out, f) => return fmtSrc out f
      | _ => throw "arity"),
  -- c06.scatter dim n s… n si… n ssrc… n index…
  ("c06.scatter", fun ts => do
      match ts with
      | dim :: rest =>
        let dim ← nat dim
        let (s, r1) ← takeList rest
        let (si, r2) ← takeList r1
        let (ssrc, r3) ← takeList r2
        let (ix, _) ← takeList r3
        return fmtPairs s (scatterFlat s si ssrc dim (fun k => ix.getD k 0))
      | _ => throw "arity"),
  -- c06.tf name <arg leaves> | <result leaves>      with the regenerated list
  ("c06.tf", fun ts => do
      match ts with
      | name :: rest =>
        let (a, r) := sepBar rest
        let args ← a.mapM parseLeaf
        let res ← r.mapM parseLeaf
        match torchFunction PP.Gen.handled name args res with
        | none => throw "indexerror"
        | some out => return " ".intercalate (out.map fmtLeaf)
      | _ => throw "arity"),
  -- c06.handled     → the list compiled into this binary
  ("c06.handled", fun _ => return " ".intercalate PP.Gen.handled),
  -- c06.sem name
  ("c06.sem", fun ts => do
      match ts with
      | [name] => match semOf name with
        | some s => return (reprStr s)
        | none => throw "no-semantics"
      | _ => throw "arity"),
  -- c06.retain <cur|slot> o0 o1 o2 failAt(-1 = none) <body>    → slots 0..4, outcome, call log
  ("c06.retain", fun ts => do
      match ts with
      | pol :: o0 :: o1 :: o2 :: fa :: rest =>
        let ord ← nats [o0, o1, o2]
        let fa ← int fa
        let H : Retain.Home := if pol == "slot" then Retain.homeSlot else Retain.homeCur
        let (body, _) ← parseBody ord rest
        let r := Retain.retain H ord Retain.pristine body (if fa < 0 then none else some fa.toNat)
        let slots := " ".intercalate ((List.range 5).map fun q => fmtFn (r.1 q))
        let oc := match r.2.1 with | .ok => "ok" | .raised => "raised"
        return slots ++ " " ++ oc ++ " " ++ " ".intercalate (r.2.2.map fmtFn)
      | _ => throw "arity"),
  -- c06.mulsig <ltype> <same|lie|tensor|scalar> w n ls…   → result kind / full shape of `Mul` with that partner
  ("c06.mulsig", fun ts => do
      match ts with
      | lt :: kind :: w :: rest =>
        let lt ← parseLT lt
        let (ls, _) ← takeList rest
        let p : Partner ← (if kind == "same" then pure Partner.sameLie
          else if kind == "lie" then do let q ← parseLT w; pure (Partner.lieOther q)
          else if kind == "tensor" then do let n ← nat w; pure (Partner.tensor n)
          else pure Partner.scalar)
        match mulSig lt p with
        | none => throw "raise"
        | some r => match r with
          | .lie t => return s!"lie {ltName t} " ++ fmtShape (r.shape ls)
          | .tensor _ => return "tensor - " ++ fmtShape (r.shape ls)
      | _ => throw "arity"),
  -- c06.tfc name <arg objs> | <result objs>   objs: L<k> LieTensor, P<k> pp.Parameter, T, O;   reply: obj codes, `!` = new object
  ("c06.tfc", fun ts => do
      match ts with
      | name :: rest =>
        let (a, r) := sepBar rest
        let po := fun (s : String) => (if s == "T" then Except.ok Obj.tensor else if s == "O" then .ok Obj.other
          else match (s.drop 1).toNat? with
            | some k => if s.startsWith "P" then .ok (Obj.param k) else if s.startsWith "L" then .ok (Obj.lie k) else .error s!"bad-obj:{s}"
            | none => .error s!"bad-obj:{s}" : Except String Obj)
        let args ← a.mapM po
        let res ← r.mapM po
        match torchFunctionCls PP.Gen.handled name args res with
        | none => throw "indexerror"
        | some out => return " ".intercalate (out.map fun p =>
            (match p.1 with | .lie k => s!"L{k}" | .param k => s!"P{k}" | .tensor => "T" | .other => "O") ++ (if p.2 then "" else "!"))
      | _ => throw "arity")
]

end PP.Driver
