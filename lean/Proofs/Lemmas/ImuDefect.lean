import Proofs.Lemmas.ImuCov
import Mathlib.Tactic.Positivity
import Mathlib.Tactic.Linarith
import Mathlib.Tactic.GCongr
/-!
# C16, pass 3: chunk invariance for EVERY increment — the exact defect of `vel` / `pos` and its bound

`SO3_Act` is `q.act v = q v q* + (1 − ‖q‖²) v`; it composes exactly only for unit quaternions.  For arbitrary
quaternions the difference `actDefect` is explicit, linear in `v`, and bounded by the norm defects.
-/
namespace PP.Imu
open PP Vec3 Quat

/-! ## Euclidean norm of `Vec3` -/

theorem vdot_sq_le (u v : Vec3 ℝ) : (u.dot v) ^ 2 ≤ u.normSq * v.normSq := by
  unfold Vec3.dot Vec3.normSq
  nlinarith [sq_nonneg (u.x * v.y - u.y * v.x), sq_nonneg (u.y * v.z - u.z * v.y), sq_nonneg (u.z * v.x - u.x * v.z)]

theorem vdot_le (u v : Vec3 ℝ) : u.dot v ≤ u.norm * v.norm := by
  have h := vdot_sq_le u v
  have hu := Vec3.norm_sq u
  have hv := Vec3.norm_sq v
  have hn : 0 ≤ u.norm * v.norm := mul_nonneg (Vec3.norm_nonneg u) (Vec3.norm_nonneg v)
  by_contra hc
  have hc := not_le.mp hc
  have : (u.norm * v.norm) ^ 2 < (u.dot v) ^ 2 := by nlinarith
  have e : (u.norm * v.norm) ^ 2 = u.normSq * v.normSq := by rw [← hu, ← hv]; ring
  linarith

theorem vnormSq_add (u v : Vec3 ℝ) : (u.add v).normSq = u.normSq + 2 * u.dot v + v.normSq := by
  unfold Vec3.add Vec3.normSq Vec3.dot; ring

theorem vnorm_add_le (u v : Vec3 ℝ) : (u.add v).norm ≤ u.norm + v.norm := by
  have hu := Vec3.norm_sq u
  have hv := Vec3.norm_sq v
  have hd := vdot_le u v
  have hs : (u.add v).norm = Real.sqrt (u.add v).normSq := rfl
  rw [hs, Real.sqrt_le_left (add_nonneg (Vec3.norm_nonneg u) (Vec3.norm_nonneg v)), vnormSq_add]
  nlinarith

theorem vnorm_smul (c : ℝ) (v : Vec3 ℝ) : (v.smul c).norm = |c| * v.norm := by
  have hs : (v.smul c).norm = Real.sqrt (v.smul c).normSq := rfl
  have hv : v.norm = Real.sqrt v.normSq := rfl
  rw [hs, hv, Vec3.normSq_smul, Real.sqrt_mul (mul_self_nonneg c), Real.sqrt_mul_self_eq_abs]

theorem vnorm_neg (v : Vec3 ℝ) : v.neg.norm = v.norm := by
  have h1 : v.neg.norm = Real.sqrt v.neg.normSq := rfl
  have h2 : v.norm = Real.sqrt v.normSq := rfl
  rw [h1, h2]; congr 1; unfold Vec3.neg Vec3.normSq; ring

theorem vsub_eq (u v : Vec3 ℝ) : u.sub v = u.add v.neg := by ext <;> lie_unfold <;> ring

theorem vnorm_sub_le (u v : Vec3 ℝ) : (u.sub v).norm ≤ u.norm + v.norm := by
  rw [vsub_eq]; have := vnorm_add_le u v.neg; rwa [vnorm_neg] at this

theorem vnorm_zero : (Vec3.zero : Vec3 ℝ).norm = 0 := by
  have : (Vec3.zero : Vec3 ℝ).norm = Real.sqrt (Vec3.zero : Vec3 ℝ).normSq := rfl
  rw [this]; unfold Vec3.zero Vec3.normSq; simp

theorem qnormSq_nonneg (q : Quat ℝ) : 0 ≤ q.normSq := by
  unfold Quat.normSq; nlinarith [mul_self_nonneg q.x, mul_self_nonneg q.y, mul_self_nonneg q.z, mul_self_nonneg q.w]

/-- `‖q v q*‖ = ‖q‖² ‖v‖` -/
theorem sandwich_norm (q : Quat ℝ) (v : Vec3 ℝ) : (q.sandwich v).norm = q.normSq * v.norm := by
  have h1 : (q.sandwich v).norm = Real.sqrt (q.sandwich v).normSq := rfl
  have h2 : v.norm = Real.sqrt v.normSq := rfl
  rw [h1, h2, Quat.sandwich_normSq, Real.sqrt_mul (sq_nonneg _), Real.sqrt_sq (qnormSq_nonneg q)]

/-! ## the composition defect of `SO3_Act` -/

/-- `R₀·(Q R) v` computed at once minus `(R₀ Q)·(R v)` computed in two steps — what a chunk boundary changes -/
noncomputable def actDefect (p q r : Quat ℝ) (v : Vec3 ℝ) : Vec3 ℝ :=
  (p.act ((q.mul r).act v)).sub ((p.mul q).act (r.act v))

theorem actDefect_unit (p q r : Quat ℝ) (hp : p.normSq = 1) (hq : q.normSq = 1) (hr : r.normSq = 1) (v : Vec3 ℝ) :
    actDefect p q r v = Vec3.zero := by
  unfold actDefect
  rw [Quat.act_mul q r hq hr, Quat.act_mul p q hp hq]
  ext <;> lie_unfold <;> ring

theorem actDefect_add (p q r : Quat ℝ) (u v : Vec3 ℝ) : actDefect p q r (u.add v) = (actDefect p q r u).add (actDefect p q r v) := by
  unfold actDefect; simp only [Quat.act_add]; ext <;> simp only [Vec3.add, Vec3.sub] <;> ring

/-- the defect written with the multiplicative sandwich maps and the norm defects `α_x = 1 − ‖x‖²` -/
theorem actDefect_formula (p q r : Quat ℝ) (v : Vec3 ℝ) :
    actDefect p q r v =
      ((((((p.sandwich v).smul (1 - q.normSq * r.normSq)).add
        (((q.mul r).sandwich v).smul (1 - p.normSq))).add
        (v.smul ((1 - p.normSq) * (1 - q.normSq * r.normSq)))).sub
        (((p.mul q).sandwich v).smul (1 - r.normSq))).sub
        ((r.sandwich v).smul (1 - p.normSq * q.normSq))).sub
        (v.smul ((1 - p.normSq * q.normSq) * (1 - r.normSq))) := by
  unfold actDefect
  rw [Quat.act_eq_sandwich p, Quat.act_eq_sandwich (q.mul r), Quat.act_eq_sandwich (p.mul q), Quat.act_eq_sandwich r,
    Quat.normSq_mul, Quat.normSq_mul]
  -- sandwich is linear and multiplicative
  have lin : ∀ (x : Quat ℝ) (a b : Vec3 ℝ), x.sandwich (a.add b) = (x.sandwich a).add (x.sandwich b) := by
    intro x a b; unfold Quat.sandwich; ext <;> lie_unfold <;> ring
  have lins : ∀ (x : Quat ℝ) (c : ℝ) (a : Vec3 ℝ), x.sandwich (a.smul c) = (x.sandwich a).smul c := by
    intro x c a; unfold Quat.sandwich; ext <;> lie_unfold <;> ring
  rw [lin, lins, lin, lins, Quat.sandwich_mul p q, Quat.sandwich_mul q r, Quat.sandwich_mul p q]
  ext <;> simp only [Vec3.add, Vec3.sub, Vec3.smul] <;> ring

/-- the factor bounding the defect: all six terms vanish when the three norms are 1 -/
noncomputable def kappa (np nq nr : ℝ) : ℝ :=
  |1 - nq * nr| * np + |1 - np| * (nq * nr) + |1 - np| * |1 - nq * nr| + |1 - nr| * (np * nq) + |1 - np * nq| * nr
    + |1 - np * nq| * |1 - nr|

theorem actDefect_norm_le (p q r : Quat ℝ) (v : Vec3 ℝ) :
    (actDefect p q r v).norm ≤ kappa p.normSq q.normSq r.normSq * v.norm := by
  rw [actDefect_formula]
  have t1 := vnorm_smul (1 - q.normSq * r.normSq) (p.sandwich v)
  have t2 := vnorm_smul (1 - p.normSq) ((q.mul r).sandwich v)
  have t3 := vnorm_smul ((1 - p.normSq) * (1 - q.normSq * r.normSq)) v
  have t4 := vnorm_smul (1 - r.normSq) ((p.mul q).sandwich v)
  have t5 := vnorm_smul (1 - p.normSq * q.normSq) (r.sandwich v)
  have t6 := vnorm_smul ((1 - p.normSq * q.normSq) * (1 - r.normSq)) v
  rw [sandwich_norm] at t1 t2 t4 t5
  rw [Quat.normSq_mul] at t2 t4
  rw [abs_mul] at t3 t6
  set A := (p.sandwich v).smul (1 - q.normSq * r.normSq)
  set B := ((q.mul r).sandwich v).smul (1 - p.normSq)
  set C := v.smul ((1 - p.normSq) * (1 - q.normSq * r.normSq))
  set D := ((p.mul q).sandwich v).smul (1 - r.normSq)
  set E := (r.sandwich v).smul (1 - p.normSq * q.normSq)
  set G := v.smul ((1 - p.normSq * q.normSq) * (1 - r.normSq))
  have s1 := vnorm_sub_le ((((A.add B).add C).sub D).sub E) G
  have s2 := vnorm_sub_le (((A.add B).add C).sub D) E
  have s3 := vnorm_sub_le ((A.add B).add C) D
  have s4 := vnorm_add_le (A.add B) C
  have s5 := vnorm_add_le A B
  unfold kappa
  nlinarith [Vec3.norm_nonneg v]

/-- with a unit first factor and every other norm within `η` of 1 the defect is at most `(3η + 3η²)‖v‖` -/
theorem actDefect_norm_le_eta (p q r : Quat ℝ) (v : Vec3 ℝ) (η : ℝ) (hp : p.normSq = 1)
    (hq : |1 - q.normSq| ≤ η) (hr : |1 - r.normSq| ≤ η) (hqr : |1 - q.normSq * r.normSq| ≤ η) :
    (actDefect p q r v).norm ≤ (3 * η + 3 * η ^ 2) * v.norm := by
  have h := actDefect_norm_le p q r v
  have hη : 0 ≤ η := le_trans (abs_nonneg _) hq
  have nq1 : q.normSq ≤ 1 + η := by have := abs_le.mp hq; linarith
  have nr1 : r.normSq ≤ 1 + η := by have := abs_le.mp hr; linarith
  have nq0 := qnormSq_nonneg q
  have nr0 := qnormSq_nonneg r
  have hv := Vec3.norm_nonneg v
  have hk : kappa p.normSq q.normSq r.normSq ≤ 3 * η + 3 * η ^ 2 := by
    unfold kappa
    rw [hp]
    simp only [sub_self, abs_zero, zero_mul, mul_one, one_mul, add_zero]
    have a1 : |1 - r.normSq| * q.normSq ≤ η * (1 + η) := mul_le_mul hr nq1 nq0 hη
    have a2 : |1 - q.normSq| * r.normSq ≤ η * (1 + η) := mul_le_mul hq nr1 nr0 hη
    have a3 : |1 - q.normSq| * |1 - r.normSq| ≤ η * η := mul_le_mul hq hr (abs_nonneg _) hη
    nlinarith
  calc (actDefect p q r v).norm ≤ kappa p.normSq q.normSq r.normSq * v.norm := h
    _ ≤ (3 * η + 3 * η ^ 2) * v.norm := mul_le_mul_of_nonneg_right hk hv

/-- norm of the product of `j` increments each within `ε` of unit: within `(1+ε)^j − 1` of 1 -/
theorem seqR_normSq_near (eps : ℝ) (fr : Nat → Frame ℝ) (ε : ℝ) (N : Nat)
    (hu : ∀ i, i < N → |1 - (dr eps (fr i)).normSq| ≤ ε) :
    ∀ j, j ≤ N → |1 - (seqR eps fr j).normSq| ≤ (1 + ε) ^ j - 1 := by
  intro j
  induction j with
  | zero => intro _; simp only [seqR, pow_zero, sub_self]; have : (Quat.one : Quat ℝ).normSq = 1 := by lie_unfold; ring
            rw [this]; simp
  | succ n ih =>
    intro hj
    have h1 := ih (by omega)
    have h2 := hu n (by omega)
    rw [seqR, Quat.normSq_mul]
    set a := (seqR eps fr n).normSq
    set b := (dr eps (fr n)).normSq
    have hb0 : 0 ≤ b := qnormSq_nonneg _
    have hb1 : b ≤ 1 + ε := by have := abs_le.mp h2; linarith
    have e : 1 - a * b = (1 - a) * b + (1 - b) := by ring
    rw [e]
    have hP : 0 ≤ (1 + ε) ^ n - 1 := le_trans (abs_nonneg _) h1
    calc |(1 - a) * b + (1 - b)| ≤ |(1 - a) * b| + |1 - b| := abs_add_le _ _
      _ = |1 - a| * b + |1 - b| := by rw [abs_mul, abs_of_nonneg hb0]
      _ ≤ ((1 + ε) ^ n - 1) * (1 + ε) + ε := add_le_add (mul_le_mul h1 hb1 hb0 hP) h2
      _ = (1 + ε) ^ (n + 1) - 1 := by ring

/-! ## the exact chunk defect of the recursion, for arbitrary increments -/

/-- defect contributed by frame `m + j` when the stream is cut after `m` frames -/
noncomputable def eDef (eps : ℝ) (g : Vec3 ℝ) (R0 : Quat ℝ) (fr : Nat → Frame ℝ) (m j : Nat) : Vec3 ℝ :=
  actDefect R0 (seqR eps fr m) (seqR eps (fun i => fr (m + i)) j) (aSeq eps g R0 fr (m + j))

/-- accumulated velocity defect after `j` frames of the second chunk -/
noncomputable def defV (eps : ℝ) (g : Vec3 ℝ) (R0 : Quat ℝ) (fr : Nat → Frame ℝ) (m : Nat) : Nat → Vec3 ℝ
  | 0 => Vec3.zero
  | j+1 => (defV eps g R0 fr m j).add ((eDef eps g R0 fr m j).smul (fr (m + j)).dt)

/-- accumulated position defect -/
noncomputable def defP (eps : ℝ) (g : Vec3 ℝ) (R0 : Quat ℝ) (fr : Nat → Frame ℝ) (m : Nat) : Nat → Vec3 ℝ
  | 0 => Vec3.zero
  | j+1 => ((defP eps g R0 fr m j).add ((defV eps g R0 fr m j).smul (fr (m + j)).dt)).add
      (((eDef eps g R0 fr m j).smul (q 1 2)).smul ((fr (m + j)).dt * (fr (m + j)).dt))

theorem act_split (eps : ℝ) (g : Vec3 ℝ) (R0 : Quat ℝ) (fr : Nat → Frame ℝ) (m j : Nat) :
    R0.act (((seqR eps fr m).mul (seqR eps (fun i => fr (m + i)) j)).act (aSeq eps g R0 fr (m + j)))
      = ((R0.mul (seqR eps fr m)).act ((seqR eps (fun i => fr (m + i)) j).act (aSeq eps g R0 fr (m + j)))).add
          (eDef eps g R0 fr m j) := by
  unfold eDef actDefect
  ext <;> simp only [Vec3.add, Vec3.sub] <;> ring

theorem preSeq_t_shift (eps : ℝ) (g : Vec3 ℝ) (R0 R0' : Quat ℝ) (fr : Nat → Frame ℝ) (m j : Nat) :
    (preSeq eps g R0 fr (m + j)).t = (preSeq eps g R0 fr m).t + (preSeq eps g R0' (fun i => fr (m + i)) j).t := by
  induction j with
  | zero => simp [preSeq, Pre.init]
  | succ n ih => rw [show m + (n+1) = (m+n)+1 from rfl, preSeq_t_succ, preSeq_t_succ, ih]; ring

/-- **the recursion restarted after `m` frames, for ARBITRARY quaternions**: exact, with the defect explicit -/
theorem preSeq_shift_general (eps : ℝ) (g : Vec3 ℝ) (R0 : Quat ℝ) (fr : Nat → Frame ℝ) (m : Nat) :
    ∀ j,
      R0.act (preSeq eps g R0 fr (m+j)).dv =
        ((R0.act (preSeq eps g R0 fr m).dv).add
          ((R0.mul (seqR eps fr m)).act (preSeq eps g (R0.mul (seqR eps fr m)) (fun i => fr (m + i)) j).dv)).add
          (defV eps g R0 fr m j) ∧
      R0.act (preSeq eps g R0 fr (m+j)).dp =
        ((((R0.act (preSeq eps g R0 fr m).dp).add
          ((R0.act (preSeq eps g R0 fr m).dv).smul (preSeq eps g (R0.mul (seqR eps fr m)) (fun i => fr (m + i)) j).t)).add
          ((R0.mul (seqR eps fr m)).act (preSeq eps g (R0.mul (seqR eps fr m)) (fun i => fr (m + i)) j).dp))).add
          (defP eps g R0 fr m j) := by
  intro j
  induction j with
  | zero =>
    simp only [Nat.add_zero, preSeq, Pre.init, Quat.act_zero, defV, defP]
    constructor <;> (ext <;> lie_unfold <;> ring)
  | succ n ih =>
    obtain ⟨h2, h3⟩ := ih
    have ha := aSeq_shift eps g R0 fr m n
    have hs := act_split eps g R0 fr m n
    rw [show m + (n+1) = (m+n)+1 from rfl]
    constructor
    · rw [preSeq_dv_succ, preSeq_dv_succ, Quat.act_add, Quat.act_smul, h2, seqR_shift eps fr m n, hs, ha]
      simp only [Quat.act_add, Quat.act_smul, defV]
      ext <;> simp only [Vec3.add, Vec3.smul] <;> ring
    · rw [preSeq_dp_succ, preSeq_dp_succ, preSeq_t_succ]
      simp only [Quat.act_add, Quat.act_smul]
      rw [h3, h2, seqR_shift eps fr m n, hs, ha]
      simp only [Quat.act_add, Quat.act_smul, defP]
      ext <;> simp only [Vec3.add, Vec3.smul] <;> ring

/-- composed outputs: continuing from the carried state = the stream from the start, up to the explicit defect -/
theorem compose_shift_general (eps : ℝ) (g p0 : Vec3 ℝ) (R0 : Quat ℝ) (v0 : Vec3 ℝ) (fr : Nat → Frame ℝ) (m j : Nat) :
    let s := compose p0 R0 v0 (preSeq eps g R0 fr m)
    let c := compose s.pos s.rot s.vel (preSeq eps g s.rot (fun i => fr (m + i)) j)
    let o := compose p0 R0 v0 (preSeq eps g R0 fr (m + j))
    o.rot = c.rot ∧ o.vel = c.vel.add (defV eps g R0 fr m j) ∧ o.pos = c.pos.add (defP eps g R0 fr m j) := by
  obtain ⟨h2, h3⟩ := preSeq_shift_general eps g R0 fr m j
  have h4 := preSeq_t_shift eps g R0 (R0.mul (seqR eps fr m)) fr m j
  simp only [compose, preSeq_dR]
  refine ⟨?_, ?_, ?_⟩
  · rw [seqR_shift eps fr m j, Quat.mul_assoc']
  · rw [h2]; ext <;> simp only [Vec3.add] <;> ring
  · rw [h3, h4]; ext <;> simp only [Vec3.add, Vec3.smul] <;> ring

/-- the defects vanish identically when the start and all increments are unit -/
theorem defects_zero (eps : ℝ) (g : Vec3 ℝ) (R0 : Quat ℝ) (fr : Nat → Frame ℝ) (N : Nat) (hR0 : R0.normSq = 1)
    (hu : ∀ i, i < N → (dr eps (fr i)).normSq = 1) (m : Nat) :
    ∀ j, m + j ≤ N → defV eps g R0 fr m j = Vec3.zero ∧ defP eps g R0 fr m j = Vec3.zero := by
  intro j
  induction j with
  | zero => intro _; exact ⟨rfl, rfl⟩
  | succ n ih =>
    intro hN
    obtain ⟨h1, h2⟩ := ih (by omega)
    have hRm : (seqR eps fr m).normSq = 1 := seqR_unit eps fr N hu m (by omega)
    have hu' : ∀ i, i < N - m → (dr eps (fr (m + i))).normSq = 1 := fun i hi => hu (m+i) (by omega)
    have hRn : (seqR eps (fun i => fr (m + i)) n).normSq = 1 :=
      seqR_unit eps (fun i => fr (m + i)) (N - m) hu' n (by omega)
    have he : eDef eps g R0 fr m n = Vec3.zero := actDefect_unit _ _ _ hR0 hRm hRn _
    simp only [defV, defP, h1, h2, he]
    constructor <;> (ext <;> lie_unfold <;> ring)

/-! ## bounds -/

/-- `Σ_{i<j} |dt_i| ‖a_i‖` over the second chunk -/
noncomputable def sumA (eps : ℝ) (g : Vec3 ℝ) (R0 : Quat ℝ) (fr : Nat → Frame ℝ) (m : Nat) : Nat → ℝ
  | 0 => 0
  | j+1 => sumA eps g R0 fr m j + |(fr (m + j)).dt| * (aSeq eps g R0 fr (m + j)).norm

/-- `Σ_{i<j} (|dt_i| Σ_{l<i} |dt_l| ‖a_l‖ + ½ dt_i² ‖a_i‖)` -/
noncomputable def sumP (eps : ℝ) (g : Vec3 ℝ) (R0 : Quat ℝ) (fr : Nat → Frame ℝ) (m : Nat) : Nat → ℝ
  | 0 => 0
  | j+1 => sumP eps g R0 fr m j + |(fr (m + j)).dt| * sumA eps g R0 fr m j
      + 1 / 2 * ((fr (m + j)).dt * (fr (m + j)).dt) * (aSeq eps g R0 fr (m + j)).norm

theorem defect_bounds (eps : ℝ) (g : Vec3 ℝ) (R0 : Quat ℝ) (fr : Nat → Frame ℝ) (m n : Nat) (K : ℝ)
    (hK : ∀ j, j < n → (eDef eps g R0 fr m j).norm ≤ K * (aSeq eps g R0 fr (m + j)).norm) :
    ∀ j, j ≤ n → (defV eps g R0 fr m j).norm ≤ K * sumA eps g R0 fr m j ∧
      (defP eps g R0 fr m j).norm ≤ K * sumP eps g R0 fr m j := by
  intro j
  induction j with
  | zero => intro _; simp only [defV, defP, sumA, sumP, vnorm_zero, mul_zero, le_refl, and_self]
  | succ i ih =>
    intro hj
    obtain ⟨h1, h2⟩ := ih (by omega)
    have he := hK i (by omega)
    have hd := abs_nonneg (fr (m + i)).dt
    have hdd : 0 ≤ (fr (m + i)).dt * (fr (m + i)).dt := mul_self_nonneg _
    constructor
    · simp only [defV, sumA]
      have t := vnorm_add_le (defV eps g R0 fr m i) ((eDef eps g R0 fr m i).smul (fr (m + i)).dt)
      rw [vnorm_smul] at t
      nlinarith [mul_le_mul_of_nonneg_left he hd]
    · simp only [defP, sumP]
      have t1 := vnorm_add_le ((defP eps g R0 fr m i).add ((defV eps g R0 fr m i).smul (fr (m + i)).dt))
        (((eDef eps g R0 fr m i).smul (q 1 2)).smul ((fr (m + i)).dt * (fr (m + i)).dt))
      have t2 := vnorm_add_le (defP eps g R0 fr m i) ((defV eps g R0 fr m i).smul (fr (m + i)).dt)
      rw [vnorm_smul] at t2
      rw [vnorm_smul, vnorm_smul, abs_of_nonneg hdd] at t1
      have hq : |(q 1 2 : ℝ)| = 1 / 2 := by simp only [q_real]; norm_num
      rw [hq] at t1
      nlinarith [mul_le_mul_of_nonneg_left he hdd, mul_le_mul_of_nonneg_left h1 hd]

/-! ### several cuts: accumulated measures over the whole stream -/

/-- `Σ_{i<j} |dt_{m+i}|` -/
noncomputable def tAbs (fr : Nat → Frame ℝ) (m : Nat) : Nat → ℝ
  | 0 => 0
  | j+1 => tAbs fr m j + |(fr (m + j)).dt|

theorem sumA_nonneg (eps : ℝ) (g : Vec3 ℝ) (R0 : Quat ℝ) (fr : Nat → Frame ℝ) (m j : Nat) : 0 ≤ sumA eps g R0 fr m j := by
  induction j with
  | zero => simp [sumA]
  | succ n ih => simp only [sumA]; have := mul_nonneg (abs_nonneg (fr (m + n)).dt) (Vec3.norm_nonneg (aSeq eps g R0 fr (m + n))); linarith

theorem tAbs_nonneg (fr : Nat → Frame ℝ) (m j : Nat) : 0 ≤ tAbs fr m j := by
  induction j with
  | zero => simp [tAbs]
  | succ n ih => simp only [tAbs]; have := abs_nonneg (fr (m + n)).dt; linarith

theorem sumP_nonneg (eps : ℝ) (g : Vec3 ℝ) (R0 : Quat ℝ) (fr : Nat → Frame ℝ) (m j : Nat) : 0 ≤ sumP eps g R0 fr m j := by
  induction j with
  | zero => simp [sumP]
  | succ n ih =>
    simp only [sumP]
    have h1 := mul_nonneg (abs_nonneg (fr (m + n)).dt) (sumA_nonneg eps g R0 fr m n)
    have h2 := mul_nonneg (mul_nonneg (by norm_num : (0:ℝ) ≤ 1 / 2) (mul_self_nonneg (fr (m + n)).dt))
      (Vec3.norm_nonneg (aSeq eps g R0 fr (m + n)))
    linarith

/-- the measures of the whole stream split at a cut -/
theorem sumA_add (eps : ℝ) (g : Vec3 ℝ) (R0 : Quat ℝ) (fr : Nat → Frame ℝ) (m j : Nat) :
    sumA eps g R0 fr 0 (m + j) = sumA eps g R0 fr 0 m + sumA eps g R0 fr m j := by
  induction j with
  | zero => simp [sumA]
  | succ n ih =>
    rw [show m + (n+1) = (m+n)+1 from rfl]
    simp only [sumA, ih, Nat.zero_add]
    ring

theorem sumP_add (eps : ℝ) (g : Vec3 ℝ) (R0 : Quat ℝ) (fr : Nat → Frame ℝ) (m j : Nat) :
    sumP eps g R0 fr 0 (m + j) = sumP eps g R0 fr 0 m + sumP eps g R0 fr m j + sumA eps g R0 fr 0 m * tAbs fr m j := by
  induction j with
  | zero => simp [sumP, tAbs]
  | succ n ih =>
    rw [show m + (n+1) = (m+n)+1 from rfl]
    simp only [sumP, tAbs, ih, Nat.zero_add, sumA_add eps g R0 fr m n]
    ring

theorem preSeq_t_abs (eps : ℝ) (g : Vec3 ℝ) (R0 : Quat ℝ) (fr : Nat → Frame ℝ) (m j : Nat) :
    |(preSeq eps g R0 (fun i => fr (m + i)) j).t| ≤ tAbs fr m j := by
  induction j with
  | zero => simp [preSeq, Pre.init, tAbs]
  | succ n ih =>
    rw [preSeq_t_succ]
    simp only [tAbs]
    exact le_trans (abs_add_le _ _) (add_le_add ih (le_refl _))

/-- same rotation, perturbed start velocity / position: the outputs shift by `δv` and `δp + t·δv` -/
theorem compose_perturbed (p p' : Vec3 ℝ) (R : Quat ℝ) (v v' : Vec3 ℝ) (s : Pre ℝ) :
    (compose p R v s).rot = (compose p' R v' s).rot ∧
    (compose p R v s).vel.sub (compose p' R v' s).vel = v.sub v' ∧
    (compose p R v s).pos.sub (compose p' R v' s).pos = (p.sub p').add ((v.sub v').smul s.t) := by
  simp only [compose]
  refine ⟨trivial, ?_, ?_⟩ <;> (ext <;> simp only [Vec3.add, Vec3.sub, Vec3.smul] <;> ring)

/-- one more chunk: from a carried state whose rotation is exact and whose velocity / position are off by at most
`K·c·TA`, `K·c·TP`, every output of the next call is off by at most `K·(c+1)·TA`, `K·(c+1)·TP` -/
theorem step_defect (eps : ℝ) (g : Vec3 ℝ) (st S : State ℝ) (fr : Nat → Frame ℝ) (N' x : Nat) (K c : ℝ) (hK0 : 0 ≤ K) (hc : 0 ≤ c)
    (hK : ∀ j, j < x → (eDef eps g st.rot fr N' j).norm ≤ K * (aSeq eps g st.rot fr (N' + j)).norm)
    (hrot : S.rot = (compose st.pos st.rot st.vel (preSeq eps g st.rot fr N')).rot)
    (hv : ((compose st.pos st.rot st.vel (preSeq eps g st.rot fr N')).vel.sub S.vel).norm ≤ K * c * sumA eps g st.rot fr 0 N')
    (hp : ((compose st.pos st.rot st.vel (preSeq eps g st.rot fr N')).pos.sub S.pos).norm ≤ K * c * sumP eps g st.rot fr 0 N')
    (j : Nat) (hj : j ≤ x) :
    let C := compose S.pos S.rot S.vel (preSeq eps g S.rot (fun i => fr (N' + i)) j)
    let O := compose st.pos st.rot st.vel (preSeq eps g st.rot fr (N' + j))
    O.rot = C.rot ∧ (O.vel.sub C.vel).norm ≤ K * (c + 1) * sumA eps g st.rot fr 0 (N' + j) ∧
      (O.pos.sub C.pos).norm ≤ K * (c + 1) * sumP eps g st.rot fr 0 (N' + j) := by
  intro C O
  obtain ⟨g1, g2, g3⟩ := compose_shift_general eps g st.pos st.rot st.vel fr N' j
  obtain ⟨b1, b2⟩ := defect_bounds eps g st.rot fr N' x K hK j hj
  set O' := compose st.pos st.rot st.vel (preSeq eps g st.rot fr N') with hO'
  obtain ⟨q1, q2, q3⟩ := compose_perturbed O'.pos S.pos O'.rot O'.vel S.vel (preSeq eps g O'.rot (fun i => fr (N' + i)) j)
  have hC : C = compose S.pos O'.rot S.vel (preSeq eps g O'.rot (fun i => fr (N' + i)) j) := by
    show compose S.pos S.rot S.vel (preSeq eps g S.rot (fun i => fr (N' + i)) j) = _
    rw [hrot]
  have hA := sumA_add eps g st.rot fr N' j
  have hP := sumP_add eps g st.rot fr N' j
  have nA := sumA_nonneg eps g st.rot fr N' j
  have nA0 := sumA_nonneg eps g st.rot fr 0 N'
  have nP := sumP_nonneg eps g st.rot fr N' j
  have nP0 := sumP_nonneg eps g st.rot fr 0 N'
  have nT := tAbs_nonneg fr N' j
  have ht := preSeq_t_abs eps g O'.rot fr N' j
  refine ⟨?_, ?_, ?_⟩
  · show O.rot = C.rot
    rw [hC]; exact g1.trans q1
  · have e : O.vel.sub C.vel = (defV eps g st.rot fr N' j).add (O'.vel.sub S.vel) := by
      show (compose st.pos st.rot st.vel (preSeq eps g st.rot fr (N' + j))).vel.sub C.vel = _
      rw [g2, hC, ← q2]
      ext <;> simp only [Vec3.add, Vec3.sub] <;> ring
    rw [e, hA]
    have t := vnorm_add_le (defV eps g st.rot fr N' j) (O'.vel.sub S.vel)
    nlinarith [mul_nonneg hK0 nA, mul_nonneg hK0 nA0, mul_nonneg (mul_nonneg hK0 hc) nA]
  · have e : O.pos.sub C.pos = ((defP eps g st.rot fr N' j).add (O'.pos.sub S.pos)).add
        ((O'.vel.sub S.vel).smul (preSeq eps g O'.rot (fun i => fr (N' + i)) j).t) := by
      show (compose st.pos st.rot st.vel (preSeq eps g st.rot fr (N' + j))).pos.sub C.pos = _
      rw [g3, hC]
      have := q3
      ext <;> simp only [Vec3.add, Vec3.sub, Vec3.smul] at this ⊢ <;>
        (first | (have hx := congrArg Vec3.x this; simp only [Vec3.add, Vec3.sub, Vec3.smul] at hx; linarith)
               | (have hy := congrArg Vec3.y this; simp only [Vec3.add, Vec3.sub, Vec3.smul] at hy; linarith)
               | (have hz := congrArg Vec3.z this; simp only [Vec3.add, Vec3.sub, Vec3.smul] at hz; linarith))
    rw [e, hP]
    have t1 := vnorm_add_le ((defP eps g st.rot fr N' j).add (O'.pos.sub S.pos))
      ((O'.vel.sub S.vel).smul (preSeq eps g O'.rot (fun i => fr (N' + i)) j).t)
    have t2 := vnorm_add_le (defP eps g st.rot fr N' j) (O'.pos.sub S.pos)
    rw [vnorm_smul] at t1
    have t3 : |(preSeq eps g O'.rot (fun i => fr (N' + i)) j).t| * (O'.vel.sub S.vel).norm
        ≤ tAbs fr N' j * (K * c * sumA eps g st.rot fr 0 N') :=
      mul_le_mul ht hv (Vec3.norm_nonneg _) nT
    nlinarith [mul_nonneg hK0 nP, mul_nonneg hK0 nP0, mul_nonneg (mul_nonneg hK0 hc) nP,
      mul_nonneg (mul_nonneg hK0 nA0) nT, mul_nonneg (mul_nonneg (mul_nonneg hK0 hc) nA0) nT]

/-- carried state after feeding the chunks `rs.reverse` to one object (the list is written LAST chunk first) -/
noncomputable def stAfterR (cfg : Cfg ℝ) (st : State ℝ) (fr : Nat → Frame ℝ) : List Nat → State ℝ
  | [] => st
  | m :: rs => (call cfg (stAfterR cfg st fr rs) none (fun i => fr (rs.sum + i)) m).st

/-- `stAfterR` is the state the model's `runChunks` ends in -/
theorem runChunks_append (cfg : Cfg ℝ) (ms : List Nat) : ∀ (st : State ℝ) (fr : Nat → Frame ℝ) (x : Nat),
    runChunks cfg st fr (ms ++ [x]) = runChunks cfg st fr ms ++
      [call cfg (((runChunks cfg st fr ms).getLast?.map (·.st)).getD st) none (fun i => fr (ms.sum + i)) x] := by
  induction ms with
  | nil => intro st fr x; simp [runChunks]
  | cons m ms ih =>
    intro st fr x
    simp only [List.cons_append, runChunks, ih, List.sum_cons]
    have hf : (fun i => (fun j => fr (m + j)) (ms.sum + i)) = fun i => fr (m + ms.sum + i) := by
      funext i; simp only [Nat.add_assoc]
    rw [hf]
    congr 2
    cases h : (runChunks cfg (call cfg st none fr m).st (fun j => fr (m + j)) ms).getLast? with
    | none =>
      have : ms = [] := by
        cases ms with
        | nil => rfl
        | cons a b => simp [runChunks] at h
      subst this
      simp [runChunks]
    | some r =>
      have hne : runChunks cfg (call cfg st none fr m).st (fun j => fr (m + j)) ms ≠ [] := by
        intro h0; rw [h0] at h; simp at h
      rw [List.getLast?_cons_of_ne_nil hne, h]
      rfl

theorem stAfterR_eq (cfg : Cfg ℝ) (st : State ℝ) (fr : Nat → Frame ℝ) (rs : List Nat) :
    stAfterR cfg st fr rs = ((runChunks cfg st fr rs.reverse).getLast?.map (·.st)).getD st := by
  induction rs with
  | nil => simp [stAfterR, runChunks]
  | cons x rs ih =>
    simp only [stAfterR, List.reverse_cons, runChunks_append, List.getLast?_append, List.getLast?_singleton,
      List.sum_reverse, ih]
    simp

/-- invariant over any number of cuts: after feeding the chunks `rs.reverse` the carried rotation is exact and the carried
velocity / position are within `K·(#chunks)·ΣA`, `K·(#chunks)·ΣP` of the one-call state -/
theorem stAfterR_bound (cfg : Cfg ℝ) (hr : cfg.reset = false) (hp : cfg.propCov = true) (st : State ℝ) (fr : Nat → Frame ℝ)
    (N : Nat) (K : ℝ) (hK0 : 0 ≤ K)
    (hK : ∀ m j, m + j < N → (eDef cfg.eps cfg.g st.rot fr m j).norm ≤ K * (aSeq cfg.eps cfg.g st.rot fr (m + j)).norm)
    (rs : List Nat) :
    (∀ m ∈ rs, 1 ≤ m) → rs.sum ≤ N →
      let S := stAfterR cfg st fr rs
      let O := compose st.pos st.rot st.vel (preSeq cfg.eps cfg.g st.rot fr rs.sum)
      S.rot = O.rot ∧ (O.vel.sub S.vel).norm ≤ K * (rs.length : ℝ) * sumA cfg.eps cfg.g st.rot fr 0 rs.sum ∧
        (O.pos.sub S.pos).norm ≤ K * (rs.length : ℝ) * sumP cfg.eps cfg.g st.rot fr 0 rs.sum := by
  induction rs with
  | nil =>
    intro _ _
    simp only [stAfterR, List.sum_nil, preSeq, compose, Pre.init, Quat.mul_one', Quat.act_zero, List.length_nil,
      Nat.cast_zero, mul_zero, zero_mul]
    refine ⟨trivial, ?_, ?_⟩
    · have : (st.vel.add Vec3.zero).sub st.vel = (Vec3.zero : Vec3 ℝ) := by ext <;> lie_unfold <;> ring
      rw [this, vnorm_zero]
    · have : (((st.pos.add Vec3.zero).add (st.vel.smul (k 0 : ℝ))).sub st.pos) = (Vec3.zero : Vec3 ℝ) := by
        ext <;> lie_unfold <;> ring
      rw [this, vnorm_zero]
  | cons m rs ih =>
    intro hms hN
    have hm : 1 ≤ m := hms m (by simp)
    simp only [List.sum_cons] at hN
    obtain ⟨i1, i2, i3⟩ := ih (fun y hy => hms y (by simp [hy])) (by omega)
    have hstep := step_defect cfg.eps cfg.g st (stAfterR cfg st fr rs) fr rs.sum m K (rs.length : ℝ) hK0
      (Nat.cast_nonneg _) (fun j hj => hK rs.sum j (by omega)) i1 i2 i3 m (le_refl m)
    -- the new carried state is the last frame of the call
    have hlast := call_out_eq cfg (stAfterR cfg st fr rs) (fun i => fr (rs.sum + i)) m (m - 1) (by omega)
    have e : m - 1 + 1 = m := by omega
    rw [e] at hlast
    have hst : (stAfterR cfg st fr (m :: rs)).rot = (compose (stAfterR cfg st fr rs).pos (stAfterR cfg st fr rs).rot
          (stAfterR cfg st fr rs).vel (preSeq cfg.eps cfg.g (stAfterR cfg st fr rs).rot (fun i => fr (rs.sum + i)) m)).rot ∧
        (stAfterR cfg st fr (m :: rs)).vel = (compose (stAfterR cfg st fr rs).pos (stAfterR cfg st fr rs).rot
          (stAfterR cfg st fr rs).vel (preSeq cfg.eps cfg.g (stAfterR cfg st fr rs).rot (fun i => fr (rs.sum + i)) m)).vel ∧
        (stAfterR cfg st fr (m :: rs)).pos = (compose (stAfterR cfg st fr rs).pos (stAfterR cfg st fr rs).rot
          (stAfterR cfg st fr rs).vel (preSeq cfg.eps cfg.g (stAfterR cfg st fr rs).rot (fun i => fr (rs.sum + i)) m)).pos := by
      simp only [stAfterR]
      rw [call_st cfg _ _ m hp hr]
      simp only [hlast, and_self]
    simp only [List.sum_cons, List.length_cons, Nat.cast_add, Nat.cast_one]
    rw [Nat.add_comm m rs.sum, hst.1, hst.2.1, hst.2.2]
    obtain ⟨s1, s2, s3⟩ := hstep
    exact ⟨s1.symm, s2, s3⟩


/-! ### closed forms of the recursively defined bounds -/

/-- `(1+ε)^n − 1 ≤ 2nε` as long as `2nε ≤ 1` -/
theorem pow_one_add_le (ε : ℝ) (hε : 0 ≤ ε) : ∀ n : Nat, 2 * (n : ℝ) * ε ≤ 1 → (1 + ε) ^ n ≤ 1 + 2 * (n : ℝ) * ε := by
  intro n
  induction n with
  | zero => intro _; simp
  | succ n ih =>
    intro h
    have hn : (0:ℝ) ≤ (n : ℝ) := Nat.cast_nonneg n
    push_cast at h ⊢
    have h' : 2 * (n : ℝ) * ε ≤ 1 := by nlinarith
    have := ih h'
    have h1 : (0:ℝ) ≤ 1 + ε := by linarith
    calc (1 + ε) ^ (n + 1) = (1 + ε) ^ n * (1 + ε) := pow_succ _ _
      _ ≤ (1 + 2 * (n : ℝ) * ε) * (1 + ε) := mul_le_mul_of_nonneg_right this h1
      _ ≤ 1 + 2 * ((n : ℝ) + 1) * ε := by nlinarith [mul_nonneg hn hε, mul_nonneg (mul_nonneg hn hε) hε]

/-- the factor `K = 3η + 3η²`, `η = (1+ε)^N − 1`, is at most `12·N·ε` when `2Nε ≤ 1` -/
theorem K_closed (ε : ℝ) (hε : 0 ≤ ε) (N : Nat) (h : 2 * (N : ℝ) * ε ≤ 1) :
    3 * ((1 + ε) ^ N - 1) + 3 * ((1 + ε) ^ N - 1) ^ 2 ≤ 12 * (N : ℝ) * ε := by
  have h1 := pow_one_add_le ε hε N h
  have h0 : (0:ℝ) ≤ (1 + ε) ^ N - 1 := by
    have : (1:ℝ) ≤ (1 + ε) ^ N := one_le_pow₀ (by linarith)
    linarith
  have hη : (1 + ε) ^ N - 1 ≤ 2 * (N : ℝ) * ε := by linarith
  have hη1 : (1 + ε) ^ N - 1 ≤ 1 := le_trans hη h
  nlinarith

/-- `ΣA` in closed form: `Σ_{i<n} |dt_{m+i}|·‖a_{m+i}‖` -/
theorem sumA_closed (eps : ℝ) (g : Vec3 ℝ) (R0 : Quat ℝ) (fr : Nat → Frame ℝ) (m n : Nat) :
    sumA eps g R0 fr m n = ∑ i ∈ Finset.range n, |(fr (m + i)).dt| * (aSeq eps g R0 fr (m + i)).norm := by
  induction n with
  | zero => simp [sumA]
  | succ n ih => rw [Finset.sum_range_succ, ← ih]; rfl

/-- `ΣP` in closed form: `Σ_{i<n} (|dt_i|·Σ_{l<i}|dt_l|‖a_l‖ + ½ dt_i²‖a_i‖)` -/
theorem sumP_closed (eps : ℝ) (g : Vec3 ℝ) (R0 : Quat ℝ) (fr : Nat → Frame ℝ) (m n : Nat) :
    sumP eps g R0 fr m n = ∑ i ∈ Finset.range n, (|(fr (m + i)).dt| *
        (∑ l ∈ Finset.range i, |(fr (m + l)).dt| * (aSeq eps g R0 fr (m + l)).norm)
      + 1 / 2 * ((fr (m + i)).dt * (fr (m + i)).dt) * (aSeq eps g R0 fr (m + i)).norm) := by
  induction n with
  | zero => simp [sumP]
  | succ n ih => rw [Finset.sum_range_succ, ← ih, ← sumA_closed]; simp only [sumP]; ring


end PP.Imu
