import Proofs.Lemmas.ImuCov
import Proofs.Lemmas.ImuDefect
/-!
# C16 — IMU preintegration equals the documented recursion and is chunking-invariant

Model: `Pose/Model/Imu.lean` (one batch item of `IMUPreintegrator`: `integrate` through the C12 scan, `predict`,
`propagate_cov`, `forward` with carried buffers, `_check`).  All statements are over the model at `α = ℝ`.

* recursion clause      : `par_eq_seq_integrate`, `par_eq_seq`, `par_eq_seq_init` — every frame count, no hypothesis;
* chunk invariance      : `chunk_invariant_two`, `chunk_invariant` — every split into consecutive chunks, `reset = False`,
                          states `rot, vel, pos` AND the carried covariance / `Rij`;
* rank equivalence      : `rank_equiv_H`, `rank_equiv_FH`, `rank_assert`;
* covariance            : `cov_psd` (+ symmetric) for a call, `cov_psd_history` over any sequence of calls,
                          `cov_eq_recursion` — the returned covariance is the documented `C ← A C Aᵀ + B`.
The hypothesis "unit increments" of the chunk theorems is discharged by `dr_unit_closed` / `dr_unit_zero`.
-/
namespace PP.Imu
open PP M9 Matrix

/-! ## 1. parallel-prefix integration = the documented sequential recursion (every `F`) -/

/-- `integrate`: for every frame count `F` and every frame `j < F` the returned increments `Dr, Dv, Dp, Dt` and the
gravity-free acceleration are those of the recursion `dR ← dR·Exp(w dt)`, `dv ← dv + dR a dt`,
`dp ← dp + dv dt + ½ dR a dt²` — any gyro/acc/dt, with or without supplied rotation, any gravity, any `eps`. -/
theorem par_eq_seq_integrate (eps : ℝ) (g : Vec3 ℝ) (R0 : Quat ℝ) (fr : Nat → Frame ℝ) (F j : Nat) (hj : j < F) :
    qAt (integrate eps g R0 fr F).incR (j+1) = (preSeq eps g R0 fr (j+1)).dR ∧
    vAt (integrate eps g R0 fr F).incV (j+1) = (preSeq eps g R0 fr (j+1)).dv ∧
    vAt (integrate eps g R0 fr F).incP (j+1) = (preSeq eps g R0 fr (j+1)).dp ∧
    sAt (integrate eps g R0 fr F).incT j = (preSeq eps g R0 fr (j+1)).t ∧
    vAt (integrate eps g R0 fr F).a j = removeG g R0 (preSeq eps g R0 fr (j+1)).dR (fr j) :=
  ⟨integ_incR eps g R0 fr F (j+1) (by omega), integ_incV eps g R0 fr F (j+1) (by omega),
   integ_incP eps g R0 fr F (j+1) (by omega), integ_incT eps g R0 fr F j hj,
   by rw [integ_a eps g R0 fr F j hj, preSeq_dR]; rfl⟩

/-- `forward` (default initial state = carried buffers): frame `j` of the returned `rot, vel, pos` is the
recursion composed with the state the call starts from: `R = R₀ΔR`, `v = v₀ + R₀Δv`, `p = p₀ + R₀Δp + v₀Δt`. -/
theorem par_eq_seq (cfg : Cfg ℝ) (st : State ℝ) (fr : Nat → Frame ℝ) (F j : Nat) (hj : j < F) :
    outAt (call cfg st none fr F).outs j = compose st.pos st.rot st.vel (preSeq cfg.eps cfg.g st.rot fr (j+1)) :=
  call_out_eq cfg st fr F j hj

/-- the same with an explicit `init_state` argument -/
theorem par_eq_seq_init (cfg : Cfg ℝ) (st : State ℝ) (i : Init ℝ) (fr : Nat → Frame ℝ) (F j : Nat) (hj : j < F) :
    outAt (call cfg st (some i) fr F).outs j = compose i.pos i.rot i.vel (preSeq cfg.eps cfg.g i.rot fr (j+1)) := by
  show outAt (tab F (predictAt i.pos i.rot i.vel (integrate cfg.eps cfg.g i.rot fr F))) j = _
  unfold outAt
  rw [getD_tab _ _ _ _ hj, predictAt_eq cfg.eps cfg.g i.pos i.rot i.vel fr F j hj]

/-- exactly `F` frames are returned -/
theorem outs_size (cfg : Cfg ℝ) (st : State ℝ) (init : Option (Init ℝ)) (fr : Nat → Frame ℝ) (F : Nat) :
    (call cfg st init fr F).outs.size = F := by
  show (tab F _).size = F
  exact tab_size _ _

/-! ## 2. chunk invariance (`reset = False`) -/

/-- the increments are exactly unit on the closed-form branch of `so3 Exp` … -/
theorem dr_unit_closed (eps : ℝ) (h0 : 0 ≤ eps) (f : Frame ℝ) (h : eps < (f.gyro.smul f.dt).norm) :
    (dr eps f).normSq = 1 := so3Exp_normSq_closed eps _ h0 h

/-- … and for a vanishing rate -/
theorem dr_unit_zero (eps : ℝ) (h0 : 0 ≤ eps) (f : Frame ℝ) (h : (f.gyro.smul f.dt).normSq = 0) :
    (dr eps f).normSq = 1 := by
  have hn : (f.gyro.smul f.dt).norm = 0 := by unfold Vec3.norm; rw [h]; simp
  have hlt : ¬ eps < (f.gyro.smul f.dt).norm := by rw [hn]; exact not_lt.mpr h0
  have := so3Exp_normSq_taylor eps _ hlt
  rw [h] at this
  unfold dr
  linarith [this]

/-- **Two chunks.** One call on `m + n` frames versus a call on the first `m ≥ 1` frames followed by a call on the
remaining `n` frames on the same object: identical `rot, vel, pos` frame by frame, identical covariance
(as matrices), and the carried state afterwards represents the same point of the stream. -/
theorem chunk_invariant_two (cfg : Cfg ℝ) (hr : cfg.reset = false) (hp : cfg.propCov = true) (hl : cfg.left = false)
    (st : State ℝ) (fr : Nat → Frame ℝ) (m n : Nat) (hm : 1 ≤ m) (hn : 1 ≤ n) (hR0 : st.rot.normSq = 1)
    (hu : ∀ i, i < m + n → (dr cfg.eps (fr i)).normSq = 1) :
    let r1 := call cfg st none fr m
    let r2 := call cfg r1.st none (fun i => fr (m + i)) n
    let r := call cfg st none fr (m + n)
    (∀ j, j < m → outAt r1.outs j = outAt r.outs j) ∧
    (∀ j, j < n → outAt r2.outs j = outAt r.outs (m + j)) ∧
    (∃ c2 c, r2.cov = some c2 ∧ r.cov = some c ∧ toM c2 = toM c) ∧
    r2.st.pos = r.st.pos ∧ r2.st.rot = r.st.rot ∧ r2.st.vel = r.st.vel ∧ toM r2.st.cov = toM r.st.cov ∧
    (∀ x, rijMul r2.st.Rij x = rijMul r.st.Rij x) := by
  intro r1 r2 r
  have h0 := rep_zero cfg.eps cfg.g st fr
  have hz : (fun i => fr (0 + i)) = fr := by funext i; rw [Nat.zero_add]
  -- the one call
  obtain ⟨ho, _, ⟨c, hc, hcm⟩, hrep⟩ := call_rep cfg hr hp hl st fr (m + n) hR0 hu 0 st h0 (m + n) (by omega) (by omega)
  rw [hz] at ho hc hrep
  -- first chunk
  obtain ⟨ho1, _, _, hrep1⟩ := call_rep cfg hr hp hl st fr (m + n) hR0 hu 0 st h0 m hm (by omega)
  rw [hz] at ho1 hrep1
  -- second chunk
  obtain ⟨ho2, _, ⟨c2, hc2, hcm2⟩, hrep2⟩ := call_rep cfg hr hp hl st fr (m + n) hR0 hu (0 + m) r1.st hrep1 n hn (by omega)
  simp only [Nat.zero_add] at ho ho1 ho2 hc2 hcm hcm2 hrep hrep2
  refine ⟨fun j hj => ?_, fun j hj => ?_, ⟨c2, c, hc2, hc, by rw [hcm2, hcm]⟩, ?_, ?_, ?_, ?_, ?_⟩
  · rw [ho1 j hj, ho j (by omega)]
  · rw [ho2 j hj, ho (m + j) (by omega)]
  · rw [hrep2.pos, hrep.pos]
  · rw [hrep2.rot, hrep.rot]
  · rw [hrep2.vel, hrep.vel]
  · rw [hrep2.cov, hrep.cov]
  · intro x; rw [hrep2.rij, hrep.rij]

/-- **Any chunking.** For every list of chunk lengths `ms` (each `≥ 1`): feeding the stream chunk by chunk to one
object with `reset = False` returns, concatenated, exactly the frames of the single call on `ms.sum` frames; the
covariance returned by the last chunk is the covariance of the single call; the carried states agree. -/
theorem chunk_invariant (cfg : Cfg ℝ) (hr : cfg.reset = false) (hp : cfg.propCov = true) (hl : cfg.left = false)
    (st : State ℝ) (fr : Nat → Frame ℝ) (ms : List Nat) (hms : ∀ m ∈ ms, 1 ≤ m) (hne : ms ≠ [])
    (hR0 : st.rot.normSq = 1) (hu : ∀ i, i < ms.sum → (dr cfg.eps (fr i)).normSq = 1) :
    concatOuts (runChunks cfg st fr ms) = (call cfg st none fr ms.sum).outs.toList ∧
    ∃ rl c cl, (runChunks cfg st fr ms).getLast? = some rl ∧ rl.cov = some cl ∧
      (call cfg st none fr ms.sum).cov = some c ∧ toM cl = toM c ∧
      rl.st.pos = (call cfg st none fr ms.sum).st.pos ∧ rl.st.rot = (call cfg st none fr ms.sum).st.rot ∧
      rl.st.vel = (call cfg st none fr ms.sum).st.vel ∧ toM rl.st.cov = toM (call cfg st none fr ms.sum).st.cov ∧
      (∀ x, rijMul rl.st.Rij x = rijMul (call cfg st none fr ms.sum).st.Rij x) := by
  have h0 := rep_zero cfg.eps cfg.g st fr
  have hz : (fun i => fr (0 + i)) = fr := by funext i; rw [Nat.zero_add]
  have hpos : 1 ≤ ms.sum := by
    cases ms with
    | nil => exact absurd rfl hne
    | cons a b => have := hms a (by simp); simp only [List.sum_cons]; omega
  obtain ⟨h1, h2⟩ := runChunks_spec cfg hr hp hl st fr ms.sum hR0 hu ms 0 st h0 hms (by omega)
  obtain ⟨rl, hrl, ⟨cl, hcl, hclm⟩, hrepl⟩ := h2 hne
  obtain ⟨ho, hs, ⟨c, hc, hcm⟩, hrep⟩ := call_rep cfg hr hp hl st fr ms.sum hR0 hu 0 st h0 ms.sum hpos (by omega)
  rw [hz] at h1 hrl ho hs hc hrep
  simp only [Nat.zero_add] at h1 ho hclm hcm hrepl hrep
  constructor
  · rw [h1, toList_eq_map _ _ hs]
    apply List.map_congr_left
    intro j hj
    rw [ho j (by simpa using hj)]
  · refine ⟨rl, c, cl, hrl, hcl, hc, by rw [hclm, hcm], ?_, ?_, ?_, ?_, ?_⟩
    · rw [hrepl.pos, hrep.pos]
    · rw [hrepl.rot, hrep.rot]
    · rw [hrepl.vel, hrep.vel]
    · rw [hrepl.cov, hrep.cov]
    · intro x; rw [hrepl.rij, hrep.rij]

/-- **Rotation and covariance: any chunking, NO hypothesis on the quaternions** (also in the Taylor band of `Exp`,
also for non-unit initial rotation): the returned rotations, the covariance of the last chunk and the carried
`rot` / `cov` / `Rij` are those of the single call — associativity of the quaternion and matrix products only. -/
theorem chunk_invariant_rot_cov (cfg : Cfg ℝ) (hr : cfg.reset = false) (hp : cfg.propCov = true)
    (hl : cfg.left = false) (st : State ℝ) (fr : Nat → Frame ℝ) (ms : List Nat) (hms : ∀ m ∈ ms, 1 ≤ m)
    (hne : ms ≠ []) :
    (concatOuts (runChunks cfg st fr ms)).map Out.rot = ((call cfg st none fr ms.sum).outs.toList).map Out.rot ∧
    ∃ rl c cl, (runChunks cfg st fr ms).getLast? = some rl ∧ rl.cov = some cl ∧
      (call cfg st none fr ms.sum).cov = some c ∧ toM cl = toM c ∧
      rl.st.rot = (call cfg st none fr ms.sum).st.rot ∧ toM rl.st.cov = toM (call cfg st none fr ms.sum).st.cov ∧
      (∀ x, rijMul rl.st.Rij x = rijMul (call cfg st none fr ms.sum).st.Rij x) := by
  have h0 := repRC_zero cfg.eps cfg.g st fr
  have hz : (fun i => fr (0 + i)) = fr := by funext i; rw [Nat.zero_add]
  have hpos : 1 ≤ ms.sum := by
    cases ms with
    | nil => exact absurd rfl hne
    | cons a b => have := hms a (by simp); simp only [List.sum_cons]; omega
  obtain ⟨h1, h2⟩ := runChunks_specRC cfg hr hp hl st fr ms 0 st h0 hms
  obtain ⟨rl, hrl, ⟨cl, hcl, hclm⟩, hrepl⟩ := h2 hne
  obtain ⟨ho, ⟨c, hc, hcm⟩, hrep⟩ := call_repRC cfg hr hp hl st fr 0 st h0 ms.sum hpos
  have hs : (call cfg st none fr ms.sum).outs.size = ms.sum := by rw [call_outs, tab_size]
  rw [hz] at h1 hrl ho hc hrep
  simp only [Nat.zero_add] at h1 ho hclm hcm hrepl hrep
  constructor
  · rw [h1, toList_eq_map _ _ hs, List.map_map]
    apply List.map_congr_left
    intro j hj
    simp only [Function.comp]
    rw [ho j (by simpa using hj)]
  · refine ⟨rl, c, cl, hrl, hcl, hc, by rw [hclm, hcm], ?_, ?_, ?_⟩
    · rw [hrepl.rot, hrep.rot]
    · rw [hrepl.cov, hrep.cov]
    · intro x; rw [hrepl.rij, hrep.rij]

/-- with `reset = True` nothing is carried: the object's state after a call is the state before it -/
theorem reset_keeps_state (cfg : Cfg ℝ) (hr : cfg.reset = true) (st : State ℝ) (init : Option (Init ℝ))
    (fr : Nat → Frame ℝ) (F : Nat) : (call cfg st init fr F).st = st := call_st_reset cfg st init fr F hr

/-- with `reset = True` every call of a history is the call on a fresh copy of the object -/
theorem reset_history (cfg : Cfg ℝ) (hr : cfg.reset = true) (ms : List Nat) :
    ∀ (st : State ℝ) (fr : Nat → Frame ℝ) (k : Nat) (hk : k < ms.length),
      (runChunks cfg st fr ms)[k]? = some (call cfg st none (fun i => fr ((ms.take k).sum + i)) ms[k]) := by
  induction ms with
  | nil => intro st fr k hk; simp at hk
  | cons m ms ih =>
    intro st fr k hk
    cases k with
    | zero => simp [runChunks]
    | succ k =>
      simp only [runChunks, List.getElem?_cons_succ, call_st_reset cfg st none fr m hr, List.take_succ_cons,
        List.sum_cons, List.getElem_cons_succ]
      rw [ih st _ k (by simpa using hk)]
      simp only [Nat.add_assoc]

/-- zero gravity: the (supplied or integrated) rotation plays no role in the acceleration -/
theorem zero_gravity (R0 Rnext : Quat ℝ) (f : Frame ℝ) : removeG Vec3.zero R0 Rnext f = f.acc := by
  unfold removeG
  cases f.rot <;> simp only [Quat.act_zero] <;> (ext <;> lie_unfold <;> ring)

/-- a supplied rotation makes the acceleration independent of the initial rotation and of the integrated one -/
theorem known_rot_accel (g : Vec3 ℝ) (R0 R0' Rn Rn' : Quat ℝ) (f : Frame ℝ) (r : Quat ℝ) (h : f.rot = some r) :
    removeG g R0 Rn f = removeG g R0' Rn' f := by
  unfold removeG; rw [h]

/-- the returned rotations stay unit quaternions (unit start, unit increments) -/
theorem out_rot_unit (cfg : Cfg ℝ) (st : State ℝ) (fr : Nat → Frame ℝ) (F j : Nat) (hj : j < F)
    (hR0 : st.rot.normSq = 1) (hu : ∀ i, i < F → (dr cfg.eps (fr i)).normSq = 1) :
    (outAt (call cfg st none fr F).outs j).rot.normSq = 1 := by
  rw [par_eq_seq cfg st fr F j hj]
  simp only [compose, preSeq_dR]
  rw [Quat.normSq_mul, hR0, seqR_unit cfg.eps fr F hu (j+1) (by omega)]
  ring

/-! ## 3. input ranks `(H)`, `(F,H)`, `(B,F,H)` -/

theorem checkShape_idem (s : List Nat) : checkShape (checkShape s) = checkShape s := by
  match s with
  | [] => rfl
  | [_] => rfl
  | [_, _] => rfl
  | _ :: _ :: _ :: _ => rfl

theorem length_checkShape (s : List Nat) (h1 : 0 < s.length) (h3 : s.length ≤ 3) : (checkShape s).length = 3 := by
  match s with
  | [] => simp at h1
  | [_] => rfl
  | [_, _] => rfl
  | [_, _, _] => rfl
  | _ :: _ :: _ :: _ :: _ => simp at h3; omega

theorem rankOk_lift (a d g : List Nat) (h : rankOk a d g = true) :
    rankOk (checkShape a) (checkShape d) (checkShape g) = true := by
  unfold rankOk at h ⊢
  simp only [Bool.and_eq_true, decide_eq_true_eq, beq_iff_eq] at h ⊢
  obtain ⟨⟨⟨h1, h2⟩, h3⟩, h4⟩ := h
  rw [length_checkShape a h1 (by omega), length_checkShape d (by omega) (by omega),
    length_checkShape g (by omega) h4]
  simp

/-- **Rank lifting.** Whenever the rank assertion passes (equal ranks in `1..3`), calling `forward` on the raw
tensors is the same as calling it on the `_check`ed `(B,F,H)` tensors with the same data — for every item. -/
theorem rank_lift_equiv (cfg : Cfg ℝ) (st : State ℝ) (dt gyro acc : Tens ℝ) (rot : Option (Tens ℝ))
    (gcov acov : Vec3 ℝ) (b : Nat) (h : rankOk acc.shape dt.shape gyro.shape = true) :
    forwardItem cfg st dt gyro acc rot gcov acov b
      = forwardItem cfg st dt.lift gyro.lift acc.lift (rot.map Tens.lift) gcov acov b := by
  have hl : ∀ t : Tens ℝ, t.lift.lift = t.lift := fun t => by unfold Tens.lift; simp only [checkShape_idem]
  unfold forwardItem
  have h' : rankOk acc.lift.shape dt.lift.shape gyro.lift.shape = true := rankOk_lift _ _ _ h
  rw [if_pos h, if_pos h']
  simp only [hl, Option.map_map]
  congr 3
  cases rot with
  | none => rfl
  | some r => simp only [Option.map_some, Function.comp, hl]

/-- `(H) ≡ (1,1,H)` -/
theorem rank_equiv_H (cfg : Cfg ℝ) (st : State ℝ) (h1 h2 h3 : Nat) (d1 d2 d3 : Array ℝ) (gcov acov : Vec3 ℝ) (b : Nat) :
    forwardItem cfg st ⟨[h1], d1⟩ ⟨[h2], d2⟩ ⟨[h3], d3⟩ none gcov acov b
      = forwardItem cfg st ⟨[1, 1, h1], d1⟩ ⟨[1, 1, h2], d2⟩ ⟨[1, 1, h3], d3⟩ none gcov acov b :=
  rank_lift_equiv cfg st ⟨[h1], d1⟩ ⟨[h2], d2⟩ ⟨[h3], d3⟩ none gcov acov b rfl

/-- `(F,H) ≡ (1,F,H)`, with a supplied rotation of the same rank -/
theorem rank_equiv_FH (cfg : Cfg ℝ) (st : State ℝ) (F1 F2 F3 F4 h1 h2 h3 h4 : Nat) (d1 d2 d3 d4 : Array ℝ)
    (gcov acov : Vec3 ℝ) (b : Nat) :
    forwardItem cfg st ⟨[F1, h1], d1⟩ ⟨[F2, h2], d2⟩ ⟨[F3, h3], d3⟩ (some ⟨[F4, h4], d4⟩) gcov acov b
      = forwardItem cfg st ⟨[1, F1, h1], d1⟩ ⟨[1, F2, h2], d2⟩ ⟨[1, F3, h3], d3⟩ (some ⟨[1, F4, h4], d4⟩) gcov acov b :=
  rank_lift_equiv cfg st ⟨[F1, h1], d1⟩ ⟨[F2, h2], d2⟩ ⟨[F3, h3], d3⟩ (some ⟨[F4, h4], d4⟩) gcov acov b rfl

/-- the rank assertion: accepted iff the three ranks are equal and in `1..3` -/
theorem rank_assert (cfg : Cfg ℝ) (st : State ℝ) (dt gyro acc : Tens ℝ) (rot : Option (Tens ℝ))
    (gcov acov : Vec3 ℝ) (b : Nat) :
    (∃ r, forwardItem cfg st dt gyro acc rot gcov acov b = .ok r) ↔
      (1 ≤ acc.shape.length ∧ acc.shape.length = dt.shape.length ∧ dt.shape.length = gyro.shape.length ∧
        gyro.shape.length ≤ 3) := by
  unfold forwardItem rankOk
  constructor
  · intro ⟨r, hr⟩
    split at hr
    · rename_i h
      simp only [Bool.and_eq_true, decide_eq_true_eq, beq_iff_eq] at h
      omega
    · cases hr
  · intro ⟨h1, h2, h3, h4⟩
    have : (decide (0 < acc.shape.length) && acc.shape.length == dt.shape.length &&
        dt.shape.length == gyro.shape.length && decide (gyro.shape.length ≤ 3)) = true := by
      simp only [Bool.and_eq_true, decide_eq_true_eq, beq_iff_eq]
      omega
    rw [if_pos this]
    exact ⟨_, rfl⟩

/-! ## 4. the propagated covariance -/

/-- admissible frame for the covariance clause: `dt ≥ 0`, non-negative measurement covariances -/
def FrameOk (f : Frame ℝ) : Prop :=
  0 ≤ f.dt ∧ (0 ≤ f.gcov.x ∧ 0 ≤ f.gcov.y ∧ 0 ≤ f.gcov.z) ∧ (0 ≤ f.acov.x ∧ 0 ≤ f.acov.y ∧ 0 ≤ f.acov.z)

/-- **PSD.** The returned 9×9 covariance is symmetric positive semidefinite whenever the covariance the call starts
from is — for every frame count, ANY order of the cumulative product, any rotation inputs. -/
theorem cov_psd (cfg : Cfg ℝ) (hp : cfg.propCov = true) (st : State ℝ) (fr : Nat → Frame ℝ) (F : Nat)
    (h0 : (toM st.cov).PosSemidef) (hf : ∀ j, j < F → FrameOk (fr j)) :
    ∃ c, (call cfg st none fr F).cov = some c ∧ (toM c).PosSemidef ∧ (toM c)ᵀ = toM c := by
  refine ⟨_, call_cov cfg st fr F hp, ?_, ?_⟩
  · apply propagateCov_psd _ _ _ _ _ h0
    intro j hj
    obtain ⟨h1, h2, h3⟩ := hf j hj
    exact noise_psd _ _ h1 h2 h3
  · have : (toM (propagateCov cfg.left F
        (fun j => matA (covInAt st.Rij cfg.eps (integrate cfg.eps cfg.g st.rot fr F) fr j))
        (fun j => noise cfg.eps (covInAt st.Rij cfg.eps (integrate cfg.eps cfg.g st.rot fr F) fr j)) st.cov)).PosSemidef := by
      apply propagateCov_psd _ _ _ _ _ h0
      intro j hj
      obtain ⟨h1, h2, h3⟩ := hf j hj
      exact noise_psd _ _ h1 h2 h3
    have hh := this.isHermitian
    rwa [Matrix.IsHermitian, Matrix.conjTranspose_eq_transpose_of_trivial] at hh

/-- the carried covariance stays PSD (whatever `reset` / `prop_cov`) -/
theorem cov_state_psd (cfg : Cfg ℝ) (st : State ℝ) (fr : Nat → Frame ℝ) (F : Nat)
    (h0 : (toM st.cov).PosSemidef) (hf : ∀ j, j < F → FrameOk (fr j)) :
    (toM (call cfg st none fr F).st.cov).PosSemidef := by
  by_cases hr : cfg.reset = true
  · rw [call_st_reset cfg st none fr F hr]; exact h0
  · by_cases hp : cfg.propCov = true
    · have hr' : cfg.reset = false := by simpa using hr
      rw [call_st cfg st fr F hp hr']
      apply propagateCov_psd _ _ _ _ _ h0
      intro j hj
      obtain ⟨h1, h2, h3⟩ := hf j hj
      exact noise_psd _ _ h1 h2 h3
    · have hr' : cfg.reset = false := by simpa using hr
      have hp' : cfg.propCov = false := by simpa using hp
      simp only [call, hr', hp', Bool.false_eq_true, if_false]
      exact h0

/-- **PSD over histories.** Starting from a PSD covariance (e.g. the zero matrix of a new object), after ANY sequence
of calls every returned covariance is symmetric PSD. -/
theorem cov_psd_history (cfg : Cfg ℝ) (hp : cfg.propCov = true) (ms : List Nat) :
    ∀ (st : State ℝ) (fr : Nat → Frame ℝ), (toM st.cov).PosSemidef → (∀ j, FrameOk (fr j)) →
      ∀ r ∈ runChunks cfg st fr ms, ∃ c, r.cov = some c ∧ (toM c).PosSemidef ∧ (toM c)ᵀ = toM c := by
  induction ms with
  | nil => intro st fr _ _ r hr; simp [runChunks] at hr
  | cons m ms ih =>
    intro st fr h0 hf r hr
    simp only [runChunks, List.mem_cons] at hr
    rcases hr with rfl | hr
    · exact cov_psd cfg hp st fr m h0 (fun j _ => hf j)
    · exact ih _ _ (cov_state_psd cfg st fr m h0 (fun j _ => hf j)) (fun j => hf (m + j)) r hr

/-- **The covariance is the documented recursion** `C_{k+1} = A_k C_k A_kᵀ + B_k` (time-ordered product, as in the
repaired code), for every frame count: `A_k`, `B_k` built from `Rij_k = Rij·ΔR_{k+1}`, `Exp(w_k dt_k)`, the
gravity-free acceleration `a_k`, `dt_k` and the measurement covariances. -/
theorem cov_eq_recursion (cfg : Cfg ℝ) (hp : cfg.propCov = true) (hl : cfg.left = false) (st : State ℝ)
    (fr : Nat → Frame ℝ) (F : Nat) :
    ∃ c, (call cfg st none fr F).cov = some c ∧
      toM c = covRec (fun j => toM (matA (cinSpec cfg.eps cfg.g st.rot st.Rij fr j)))
        (fun j => toM (noise cfg.eps (cinSpec cfg.eps cfg.g st.rot st.Rij fr j))) (toM st.cov) F := by
  refine ⟨_, call_cov cfg st fr F hp, ?_⟩
  rw [hl, propagateCov_eq_rec]
  apply covRec_congr
  intro j hj
  rw [covInAt_eq _ _ _ _ _ F j hj]
  exact ⟨rfl, rfl⟩

/-- the model-level recursion `covSeq` (what the driver's specification mode folds) is `covRec` -/
theorem covSeq_toM (A B : Nat → M9 ℝ) (C0 : M9 ℝ) (n : Nat) :
    toM (covSeq A B C0 n) = covRec (fun j => toM (A j)) (fun j => toM (B j)) (toM C0) n := by
  induction n with
  | zero => rfl
  | succ n ih => simp only [covSeq, covRec, toM_add, toM_mul, toM_transpose, ih]

/-- `propagate_cov` in the repaired order = the model-level recursion, entry by entry -/
theorem propagateCov_eq_covSeq (F : Nat) (A B : Nat → M9 ℝ) (C0 : M9 ℝ) (i j : Nat) (hi : i < 9) (hj : j < 9) :
    (propagateCov false F A B C0).get i j = (covSeq A B C0 F).get i j := by
  have h := propagateCov_eq_rec F A B C0
  rw [← covSeq_toM] at h
  have := congrFun (congrFun h ⟨i, hi⟩) ⟨j, hj⟩
  simpa [toM_apply] using this

/-- the model of `/repo` uses the time-ordered product -/
theorem code_order : codeLeft = false := rfl

/-- an explicit `init_state` equal to the carried buffers (no `cov` / `Rij` keys) changes nothing -/
theorem explicit_init_default (cfg : Cfg ℝ) (st : State ℝ) (fr : Nat → Frame ℝ) (F : Nat) :
    call cfg st (some ⟨st.pos, st.rot, st.vel, none, none⟩) fr F = call cfg st none fr F := rfl

/-- why small examples could not see the reversed product (D27): for one frame, and for two frames from a zero
covariance, both orders of the cumulative product give the same covariance -/
theorem cov_orders_agree_small (F : Nat) (A B : Nat → M9 ℝ) (C0 : M9 ℝ)
    (h : F ≤ 1 ∨ (F = 2 ∧ toM C0 = 0)) :
    toM (propagateCov true F A B C0) = toM (propagateCov false F A B C0) := by
  rw [toM_propagateCov, toM_propagateCov]
  rcases h with h | ⟨rfl, h0⟩
  · have : F = 0 ∨ F = 1 := by omega
    rcases this with rfl | rfl
    · simp [qProd]
    · simp [Finset.sum_range_succ, qProd, toM_mul, toM_one]
  · simp [Finset.sum_range_succ, qProd, toM_mul, toM_one, bSeq, h0]

/-! ## 5. object reuse, per-call arguments, item-wise = batched (hardening pass) -/

/-- **History independence with a full explicit `init_state`.** When `init_state` carries `pos, rot, vel, cov` and the
`Rij` key, the frames and the covariance a call returns do not depend on the object's carried buffers at all
(whatever happened in earlier calls, whatever `reset`). -/
theorem explicit_init_full_independent (cfg : Cfg ℝ) (st st' : State ℝ) (i : Init ℝ) (c : M9 ℝ)
    (r : Option (Quat ℝ)) (hc : i.cov = some c) (hr : i.Rij = some r) (fr : Nat → Frame ℝ) (F : Nat) :
    (call cfg st (some i) fr F).outs = (call cfg st' (some i) fr F).outs ∧
    (call cfg st (some i) fr F).cov = (call cfg st' (some i) fr F).cov := by
  simp only [call, hc, hr, and_self]

/-- **Per-call arguments only.** With `reset = True` the result of a call is a function of the constructor state and
of THIS call's arguments: two objects with the same constructor state give the same result whatever calls (any
sizes, any arguments) each has served before. -/
theorem reset_call_history_free (cfg : Cfg ℝ) (hr : cfg.reset = true) (st : State ℝ)
    (ms ms' : List Nat) (fr0 fr0' : Nat → Frame ℝ) (init : Option (Init ℝ)) (fr : Nat → Frame ℝ) (F : Nat) :
    let after := fun (l : List Nat) (f : Nat → Frame ℝ) => ((runChunks cfg st f l).getLast?.map (·.st)).getD st
    call cfg (after ms fr0) init fr F = call cfg (after ms' fr0') init fr F := by
  have key : ∀ (l : List Nat) (f : Nat → Frame ℝ) (s : State ℝ), ∀ r ∈ runChunks cfg s f l, r.st = s := by
    intro l
    induction l with
    | nil => intro f s r h; simp [runChunks] at h
    | cons m l ih =>
      intro f s r h
      simp only [runChunks, List.mem_cons] at h
      rcases h with rfl | h
      · exact call_st_reset cfg s none f m hr
      · have := ih _ _ r h
        rw [this, call_st_reset cfg s none f m hr]
  have aft : ∀ (l : List Nat) (f : Nat → Frame ℝ),
      ((runChunks cfg st f l).getLast?.map (·.st)).getD st = st := by
    intro l f
    cases h : (runChunks cfg st f l).getLast? with
    | none => rfl
    | some r => simp only [Option.map_some, Option.getD_some]; exact key l f st r (List.mem_of_getLast? h)
  simp only [aft]

/-- **Item-wise = batched.** Item `b` of a call on `(B,F,H)` tensors only reads item `b`'s entries: two batches
(possibly of different batch size) that agree on item `b` give the same result for that item. -/
theorem item_independent (cfg : Cfg ℝ) (st : State ℝ) (dt gyro acc dt' gyro' acc' : Tens ℝ) (gcov acov : Vec3 ℝ)
    (b b' : Nat) (hF : dt.lift.F = dt'.lift.F)
    (hok : rankOk acc.shape dt.shape gyro.shape = rankOk acc'.shape dt'.shape gyro'.shape)
    (hdt : ∀ f c, dt.lift.at3 b f c = dt'.lift.at3 b' f c)
    (hg : ∀ f c, gyro.lift.at3 b f c = gyro'.lift.at3 b' f c)
    (ha : ∀ f c, acc.lift.at3 b f c = acc'.lift.at3 b' f c) :
    forwardItem cfg st dt gyro acc none gcov acov b = forwardItem cfg st dt' gyro' acc' none gcov acov b' := by
  unfold forwardItem
  rw [hok]
  simp only
  rw [hF]
  have : framesOf dt.lift gyro.lift acc.lift (Option.map Tens.lift none) gcov acov b
      = framesOf dt'.lift gyro'.lift acc'.lift (Option.map Tens.lift none) gcov acov b' := by
    funext f
    simp only [framesOf, Tens.vec, hdt, hg, ha, Option.map_none]
  rw [this]

/-! ## 6. error paths are atomic (hardening pass 2) -/

/-- **A call that raises changes nothing.** -/
theorem failed_call_atomic (cfg : Cfg ℝ) (st : State ℝ) (q : CallReq ℝ) (h : q.ok = false) :
    callE cfg st q = (.error "raise", st) := by
  simp only [callE, h, Bool.false_eq_true, if_false]

/-- a successful request is the plain call -/
theorem ok_call (cfg : Cfg ℝ) (st : State ℝ) (q : CallReq ℝ) (h : q.ok = true) :
    callE cfg st q = (.ok (call cfg st q.init q.fr q.F), (call cfg st q.init q.fr q.F).st) := by
  simp only [callE, h, if_true]

/-- **Histories with failures.** The caller catches every exception and goes on (retries, feeds the next chunk): the
successful results and the final carried state are exactly those of the history WITHOUT the failed calls — for every
sequence of requests, every position and number of failures. -/
theorem failures_invisible (cfg : Cfg ℝ) (qs : List (CallReq ℝ)) :
    ∀ st : State ℝ,
      okResults (runReqs cfg st qs).1 = okResults (runReqs cfg st (qs.filter (·.ok))).1 ∧
      (runReqs cfg st qs).2 = (runReqs cfg st (qs.filter (·.ok))).2 := by
  induction qs with
  | nil => intro st; exact ⟨rfl, rfl⟩
  | cons q qs ih =>
    intro st
    by_cases h : q.ok = true
    · have hf : (q :: qs).filter (·.ok) = q :: qs.filter (·.ok) := by simp [List.filter, h]
      rw [hf]
      simp only [runReqs, ok_call cfg st q h, okResults]
      obtain ⟨h1, h2⟩ := ih (call cfg st q.init q.fr q.F).st
      exact ⟨by rw [h1], h2⟩
    · have h' : q.ok = false := by simpa using h
      have hf : (q :: qs).filter (·.ok) = qs.filter (·.ok) := by simp [List.filter, h']
      rw [hf]
      simp only [runReqs, failed_call_atomic cfg st q h', okResults]
      exact ih st

/-- retry after a failure = the call without the failure (the chunk is integrated once, not twice) -/
theorem retry_after_failure (cfg : Cfg ℝ) (st : State ℝ) (q : CallReq ℝ) (h : q.ok = true) :
    okResults (runReqs cfg st [{ q with ok := false }, q]).1 = okResults (runReqs cfg st [q]).1 ∧
    (runReqs cfg st [{ q with ok := false }, q]).2 = (runReqs cfg st [q]).2 := by
  have := failures_invisible cfg [{ q with ok := false }, q] st
  simpa [List.filter, h] using this

/-! ## 7. chunk invariance for EVERY increment: exact defect and bound (pass 3) -/

/-- **Two chunks, arbitrary quaternions (no hypothesis at all).** Rotations agree exactly; velocity and position of the
one-call run equal those of the chunked run plus the explicit defects `defV`, `defP` (sums of `actDefect` terms, each
of which vanishes when start and increments are unit). -/
theorem chunk_two_general (cfg : Cfg ℝ) (hr : cfg.reset = false) (hp : cfg.propCov = true) (st : State ℝ)
    (fr : Nat → Frame ℝ) (m n : Nat) (hm : 1 ≤ m) (j : Nat) (hj : j < n) :
    let r1 := call cfg st none fr m
    let r2 := call cfg r1.st none (fun i => fr (m + i)) n
    let r := call cfg st none fr (m + n)
    (outAt r.outs (m + j)).rot = (outAt r2.outs j).rot ∧
    (outAt r.outs (m + j)).vel = (outAt r2.outs j).vel.add (defV cfg.eps cfg.g st.rot fr m (j+1)) ∧
    (outAt r.outs (m + j)).pos = (outAt r2.outs j).pos.add (defP cfg.eps cfg.g st.rot fr m (j+1)) := by
  intro r1 r2 r
  have hlast := par_eq_seq cfg st fr m (m - 1) (by omega)
  have e : m - 1 + 1 = m := by omega
  rw [e] at hlast
  have hst : r1.st.pos = (compose st.pos st.rot st.vel (preSeq cfg.eps cfg.g st.rot fr m)).pos ∧
      r1.st.rot = (compose st.pos st.rot st.vel (preSeq cfg.eps cfg.g st.rot fr m)).rot ∧
      r1.st.vel = (compose st.pos st.rot st.vel (preSeq cfg.eps cfg.g st.rot fr m)).vel := by
    show (call cfg st none fr m).st.pos = _ ∧ (call cfg st none fr m).st.rot = _ ∧ (call cfg st none fr m).st.vel = _
    rw [call_st cfg st fr m hp hr]
    simp only [hlast, and_self]
  have h2 := par_eq_seq cfg r1.st (fun i => fr (m + i)) n j hj
  have h := par_eq_seq cfg st fr (m + n) (m + j) (by omega)
  show (outAt (call cfg st none fr (m + n)).outs (m + j)).rot = (outAt (call cfg r1.st none _ n).outs j).rot ∧ _
  rw [h, h2, hst.1, hst.2.1, hst.2.2]
  exact compose_shift_general cfg.eps cfg.g st.pos st.rot st.vel fr m (j+1)

/-- every frame's composition defect is at most `(3η + 3η²)‖a‖` when the start is unit and every increment's squared
norm is within `ε` of 1, `η = (1+ε)^(m+n) − 1` -/
theorem eDef_bound (eps : ℝ) (g : Vec3 ℝ) (R0 : Quat ℝ) (fr : Nat → Frame ℝ) (m n : Nat) (ε : ℝ) (hε : 0 ≤ ε)
    (hR0 : R0.normSq = 1) (hu : ∀ i, i < m + n → |1 - (dr eps (fr i)).normSq| ≤ ε) (j : Nat) (hj : j < n) :
    (eDef eps g R0 fr m j).norm ≤
      (3 * ((1 + ε) ^ (m + n) - 1) + 3 * ((1 + ε) ^ (m + n) - 1) ^ 2) * (aSeq eps g R0 fr (m + j)).norm := by
  have h1 : (1:ℝ) ≤ 1 + ε := by linarith
  have mono : ∀ a, a ≤ m + n → (1 + ε) ^ a - 1 ≤ (1 + ε) ^ (m + n) - 1 := fun a ha => by
    have := pow_le_pow_right₀ h1 ha; linarith
  have hq := seqR_normSq_near eps fr ε (m + n) hu m (by omega)
  have hu' : ∀ i, i < n → |1 - (dr eps (fr (m + i))).normSq| ≤ ε := fun i hi => hu (m + i) (by omega)
  have hr := seqR_normSq_near eps (fun i => fr (m + i)) ε n hu' j (by omega)
  have hqr := seqR_normSq_near eps fr ε (m + n) hu (m + j) (by omega)
  rw [seqR_shift eps fr m j, Quat.normSq_mul] at hqr
  unfold eDef
  exact actDefect_norm_le_eta R0 _ _ _ _ hR0 (le_trans hq (mono m (by omega))) (le_trans hr (mono j (by omega)))
    (le_trans hqr (mono (m + j) (by omega)))

/-- **Two chunks, every increment, quantitative.** Unit start, every increment's squared norm within `ε` of 1 (no other
assumption on rates, accelerations, time steps): the chunked velocity / position differ from the one-call values by at
most `(3η + 3η²)` times the accumulated `Σ|dt|‖a‖`, resp. its double sum; `η = (1+ε)^(m+n) − 1`. -/
theorem chunk_two_defect_bound (cfg : Cfg ℝ) (hr : cfg.reset = false) (hp : cfg.propCov = true) (st : State ℝ)
    (fr : Nat → Frame ℝ) (m n : Nat) (hm : 1 ≤ m) (ε : ℝ) (hε : 0 ≤ ε) (hR0 : st.rot.normSq = 1)
    (hu : ∀ i, i < m + n → |1 - (dr cfg.eps (fr i)).normSq| ≤ ε) (j : Nat) (hj : j < n) :
    let r1 := call cfg st none fr m
    let r2 := call cfg r1.st none (fun i => fr (m + i)) n
    let r := call cfg st none fr (m + n)
    let K := 3 * ((1 + ε) ^ (m + n) - 1) + 3 * ((1 + ε) ^ (m + n) - 1) ^ 2
    (outAt r.outs (m + j)).rot = (outAt r2.outs j).rot ∧
    ((outAt r.outs (m + j)).vel.sub (outAt r2.outs j).vel).norm ≤ K * sumA cfg.eps cfg.g st.rot fr m (j+1) ∧
    ((outAt r.outs (m + j)).pos.sub (outAt r2.outs j).pos).norm ≤ K * sumP cfg.eps cfg.g st.rot fr m (j+1) := by
  intro r1 r2 r K
  obtain ⟨h1, h2, h3⟩ := chunk_two_general cfg hr hp st fr m n hm j hj
  obtain ⟨b1, b2⟩ := defect_bounds cfg.eps cfg.g st.rot fr m n K
    (fun i hi => eDef_bound cfg.eps cfg.g st.rot fr m n ε hε hR0 hu i hi) (j+1) (by omega)
  refine ⟨h1, ?_, ?_⟩
  · have e : (outAt r.outs (m + j)).vel.sub (outAt r2.outs j).vel = defV cfg.eps cfg.g st.rot fr m (j+1) := by
      rw [h2]; ext <;> simp only [Vec3.add, Vec3.sub] <;> ring
    rw [e]; exact b1
  · have e : (outAt r.outs (m + j)).pos.sub (outAt r2.outs j).pos = defP cfg.eps cfg.g st.rot fr m (j+1) := by
      rw [h3]; ext <;> simp only [Vec3.add, Vec3.sub] <;> ring
    rw [e]; exact b2

/-- every increment `Exp(w dt)` of the model — closed form AND Taylor branch — has squared norm within `eps⁶` of 1 -/
theorem dr_near_unit (eps : ℝ) (h0 : 0 ≤ eps) (h1 : eps ≤ 1) (f : Frame ℝ) : |1 - (dr eps f).normSq| ≤ eps ^ 6 := by
  rw [abs_sub_comm]; exact so3Exp_normSq_near eps _ h0 h1

/-- **Chunk invariance of `vel` / `pos` for EVERY stream** (any rates incl. the Taylor band `0 < ‖w dt‖ ≤ eps`, any
accelerations, any time steps, with or without supplied rotation): for `0 ≤ eps ≤ 1` and a unit start the chunked and the
one-call results agree up to `(3η + 3η²)·Σ|dt|‖a‖` with `η = (1+eps⁶)^(m+n) − 1` — for float64 and 200 frames `η < 2⁻³⁰⁴`. -/
theorem chunk_two_every_stream (cfg : Cfg ℝ) (hr : cfg.reset = false) (hp : cfg.propCov = true) (h0 : 0 ≤ cfg.eps)
    (h1 : cfg.eps ≤ 1) (st : State ℝ) (hR0 : st.rot.normSq = 1) (fr : Nat → Frame ℝ) (m n : Nat) (hm : 1 ≤ m)
    (j : Nat) (hj : j < n) :
    let r1 := call cfg st none fr m
    let r2 := call cfg r1.st none (fun i => fr (m + i)) n
    let r := call cfg st none fr (m + n)
    let K := 3 * ((1 + cfg.eps ^ 6) ^ (m + n) - 1) + 3 * ((1 + cfg.eps ^ 6) ^ (m + n) - 1) ^ 2
    (outAt r.outs (m + j)).rot = (outAt r2.outs j).rot ∧
    ((outAt r.outs (m + j)).vel.sub (outAt r2.outs j).vel).norm ≤ K * sumA cfg.eps cfg.g st.rot fr m (j+1) ∧
    ((outAt r.outs (m + j)).pos.sub (outAt r2.outs j).pos).norm ≤ K * sumP cfg.eps cfg.g st.rot fr m (j+1) :=
  chunk_two_defect_bound cfg hr hp st fr m n hm (cfg.eps ^ 6) (by positivity) hR0
    (fun i _ => dr_near_unit cfg.eps h0 h1 (fr i)) j hj

/-- the general statement contains the exact one: unit increments ⇒ zero defect -/
theorem chunk_two_exact_of_unit (cfg : Cfg ℝ) (hr : cfg.reset = false) (hp : cfg.propCov = true) (st : State ℝ)
    (fr : Nat → Frame ℝ) (m n : Nat) (hm : 1 ≤ m) (hR0 : st.rot.normSq = 1)
    (hu : ∀ i, i < m + n → (dr cfg.eps (fr i)).normSq = 1) (j : Nat) (hj : j < n) :
    outAt (call cfg st none fr (m + n)).outs (m + j)
      = outAt (call cfg (call cfg st none fr m).st none (fun i => fr (m + i)) n).outs j := by
  obtain ⟨h1, h2, h3⟩ := chunk_two_general cfg hr hp st fr m n hm j hj
  obtain ⟨d1, d2⟩ := defects_zero cfg.eps cfg.g st.rot fr (m + n) hR0 hu m (j+1) (by omega)
  rw [d1] at h2
  rw [d2] at h3
  have e : ∀ a b : Out ℝ, a.rot = b.rot → a.vel = b.vel → a.pos = b.pos → a = b := by
    intro a b; cases a; cases b; simp only [Out.mk.injEq]; exact fun x y z => ⟨x, y, z⟩
  apply e _ _ h1
  · rw [h2]; ext <;> lie_unfold <;> ring
  · rw [h3]; ext <;> lie_unfold <;> ring

/-- non-vacuity: a stream in the Taylor band (`‖w dt‖ = 2⁻⁶⁰ ≤ eps = 2⁻⁵²`) satisfies the hypotheses of
`chunk_two_every_stream` although its increments are not exactly unit -/
example : ∃ (cfg : Cfg ℝ) (st : State ℝ), cfg.reset = false ∧ cfg.propCov = true ∧ 0 ≤ cfg.eps ∧ cfg.eps ≤ 1 ∧
    st.rot.normSq = 1 := by
  refine ⟨⟨(2:ℝ)^(-52:ℤ), ⟨0, 0, 9.81⟩, false, true, false⟩, State.fresh ⟨1, 2, 3⟩ ⟨0.6, 0, 0, 0.8⟩ ⟨0, 1, 0⟩,
    rfl, rfl, by positivity, ?_, ?_⟩
  · show (2:ℝ)^(-52:ℤ) ≤ 1
    rw [_root_.zpow_neg]; exact inv_le_one_of_one_le₀ (by norm_num)
  · simp only [State.fresh]; lie_unfold; norm_num


/-! ## 8. argument resolution of `forward` (pass 3) -/

/-- per-call covariance vs constructor covariance: not given → the module's value on every frame; one `(B,1,3)` row → that
row on every frame; `(B,F,3)` → frame by frame -/
theorem resolveCov_spec (dflt v : Vec3 ℝ) (f : Nat → Vec3 ℝ) (j : Nat) :
    resolveCov dflt CovArg.none j = dflt ∧ resolveCov dflt (CovArg.row v) j = v ∧ resolveCov dflt (CovArg.rows f) j = f j :=
  ⟨rfl, rfl, rfl⟩

/-- the two covariance arguments are resolved independently: giving exactly one leaves the other at the module's value -/
theorem one_cov_given (modG modA : Vec3 ℝ) (f : Nat → Vec3 ℝ) (raw : Nat → RawFrame ℝ) (j : Nat) :
    (resolveFrames modG modA (CovArg.rows f) CovArg.none raw j).gcov = f j ∧
    (resolveFrames modG modA (CovArg.rows f) CovArg.none raw j).acov = modA ∧
    (resolveFrames modG modA CovArg.none (CovArg.rows f) raw j).gcov = modG ∧
    (resolveFrames modG modA CovArg.none (CovArg.rows f) raw j).acov = f j := ⟨rfl, rfl, rfl, rfl⟩

/-- a `(B,1,3)` covariance is the `(B,F,3)` covariance with equal rows -/
theorem row_eq_const_rows (cfg : Cfg ℝ) (modG modA : Vec3 ℝ) (st : State ℝ) (init : Option (InitDict ℝ)) (v : Vec3 ℝ)
    (ac : CovArg ℝ) (raw : Nat → RawFrame ℝ) (F : Nat) :
    forwardArgs cfg modG modA st init (CovArg.row v) ac raw F
      = forwardArgs cfg modG modA st init (CovArg.rows fun _ => v) ac raw F := rfl

/-- no `init_state`, no per-call covariances: the plain call with the module's covariances on every frame -/
theorem forwardArgs_default (cfg : Cfg ℝ) (modG modA : Vec3 ℝ) (st : State ℝ) (raw : Nat → RawFrame ℝ) (F : Nat) :
    forwardArgs cfg modG modA st none CovArg.none CovArg.none raw F =
      (.ok (call cfg st none (fun j => ⟨(raw j).dt, (raw j).gyro, (raw j).acc, (raw j).rot, modG, modA⟩) F),
       (call cfg st none (fun j => ⟨(raw j).dt, (raw j).gyro, (raw j).acc, (raw j).rot, modG, modA⟩) F).st) := by
  have e : resolveFrames modG modA CovArg.none CovArg.none raw
      = fun j => ⟨(raw j).dt, (raw j).gyro, (raw j).acc, (raw j).rot, modG, modA⟩ := by funext j; rfl
  simp only [forwardArgs, resolveInit, e]

/-- a complete dict: the call starts from the dict's `pos, rot, vel`; `cov` = the dict's unless absent / None; `Rij` = the
dict's (possibly None) if the key is present -/
theorem forwardArgs_dict (cfg : Cfg ℝ) (modG modA : Vec3 ℝ) (st : State ℝ) (p : Vec3 ℝ) (r : Quat ℝ) (v : Vec3 ℝ)
    (cov : Option (Option (M9 ℝ))) (rij : Option (Option (Quat ℝ))) (gc ac : CovArg ℝ) (raw : Nat → RawFrame ℝ) (F : Nat) :
    (forwardArgs cfg modG modA st (some ⟨some p, some r, some v, cov, rij⟩) gc ac raw F).1 =
      .ok (call cfg st (some ⟨p, r, v, joinCov cov, rij⟩)
        (resolveFrames modG modA gc ac raw) F) := by
  simp only [forwardArgs, resolveInit]

/-- `'cov': None` is the same as no `'cov'` key -/
theorem cov_none_is_absent (p : Option (Vec3 ℝ)) (r : Option (Quat ℝ)) (v : Option (Vec3 ℝ)) (rij : Option (Option (Quat ℝ))) :
    resolveInit (some ⟨p, r, v, some none, rij⟩) = resolveInit (some ⟨p, r, v, none, rij⟩) := by
  cases p <;> cases r <;> cases v <;> rfl

/-- a dict without one of the required keys raises, and the object is untouched -/
theorem missing_key_atomic (cfg : Cfg ℝ) (modG modA : Vec3 ℝ) (st : State ℝ) (d : InitDict ℝ) (gc ac : CovArg ℝ)
    (raw : Nat → RawFrame ℝ) (F : Nat) (h : d.pos = none ∨ d.rot = none ∨ d.vel = none) :
    forwardArgs cfg modG modA st (some d) gc ac raw F = (.error "KeyError", st) := by
  obtain ⟨p, r, v, c, j⟩ := d
  simp only at h
  cases p <;> cases r <;> cases v <;> simp_all [forwardArgs, resolveInit]

/-- accepted dicts are exactly those with the three required keys -/
theorem resolveInit_ok_iff (d : InitDict ℝ) :
    (∃ i, resolveInit (some d) = .ok i) ↔ (d.pos.isSome ∧ d.rot.isSome ∧ d.vel.isSome) := by
  obtain ⟨p, r, v, c, j⟩ := d
  cases p <;> cases r <;> cases v <;> simp [resolveInit]

/-- `rot, vel, pos` do not depend on any covariance argument (per-call or constructor) -/
theorem outs_independent_of_cov (cfg : Cfg ℝ) (st : State ℝ) (init : Option (Init ℝ)) (fr fr' : Nat → Frame ℝ) (F : Nat)
    (h : ∀ j, (fr j).dt = (fr' j).dt ∧ (fr j).gyro = (fr' j).gyro ∧ (fr j).acc = (fr' j).acc ∧ (fr j).rot = (fr' j).rot)
    (j : Nat) (hj : j < F) :
    outAt (call cfg st init fr F).outs j = outAt (call cfg st init fr' F).outs j := by
  have hpre : ∀ (R0 : Quat ℝ) n, preSeq cfg.eps cfg.g R0 fr n = preSeq cfg.eps cfg.g R0 fr' n := by
    intro R0 n
    induction n with
    | zero => rfl
    | succ n ih =>
      obtain ⟨h1, h2, h3, h4⟩ := h n
      simp only [preSeq, ih, preStep, dr, removeG, h1, h2, h3, h4]
  cases init with
  | none => rw [par_eq_seq cfg st fr F j hj, par_eq_seq cfg st fr' F j hj, hpre]
  | some i => rw [par_eq_seq_init cfg st i fr F j hj, par_eq_seq_init cfg st i fr' F j hj, hpre]

/-- covariance and rotation the call starts from, after resolving `init_state` against the carried buffers -/
noncomputable def startCov (st : State ℝ) : Option (Init ℝ) → M9 ℝ
  | some i => (match i.cov with | some c => c | none => st.cov)
  | none => st.cov
noncomputable def startRij (st : State ℝ) : Option (Init ℝ) → Option (Quat ℝ)
  | some i => (match i.Rij with | some r => r | none => st.Rij)
  | none => st.Rij
noncomputable def startRot (st : State ℝ) : Option (Init ℝ) → Quat ℝ
  | some i => i.rot
  | none => st.rot

theorem call_cov_gen (cfg : Cfg ℝ) (st : State ℝ) (init : Option (Init ℝ)) (fr : Nat → Frame ℝ) (F : Nat)
    (hp : cfg.propCov = true) :
    (call cfg st init fr F).cov = some (propagateCov cfg.left F
      (fun j => matA (covInAt (startRij st init) cfg.eps (integrate cfg.eps cfg.g (startRot st init) fr F) fr j))
      (fun j => noise cfg.eps (covInAt (startRij st init) cfg.eps (integrate cfg.eps cfg.g (startRot st init) fr F) fr j))
      (startCov st init)) := by
  cases init with
  | none => simp only [call, hp, if_true, startCov, startRij, startRot]
  | some i =>
    obtain ⟨p, r, v, c, rj⟩ := i
    cases c <;> cases rj <;> simp only [call, hp, if_true, startCov, startRij, startRot]

/-- **Covariance = documented recursion, any `init_state`, per-call covariances frame by frame, every `F`.** -/
theorem cov_eq_recursion_init (cfg : Cfg ℝ) (hp : cfg.propCov = true) (hl : cfg.left = false) (st : State ℝ)
    (init : Option (Init ℝ)) (fr : Nat → Frame ℝ) (F : Nat) :
    ∃ c, (call cfg st init fr F).cov = some c ∧
      toM c = covRec (fun j => toM (matA (cinSpec cfg.eps cfg.g (startRot st init) (startRij st init) fr j)))
        (fun j => toM (noise cfg.eps (cinSpec cfg.eps cfg.g (startRot st init) (startRij st init) fr j)))
        (toM (startCov st init)) F := by
  refine ⟨_, call_cov_gen cfg st init fr F hp, ?_⟩
  rw [hl, propagateCov_eq_rec]
  apply covRec_congr
  intro j hj
  rw [covInAt_eq _ _ _ _ _ F j hj]
  exact ⟨rfl, rfl⟩

/-- **PSD, any `init_state`, any product order, every `F`**: the returned covariance is symmetric PSD whenever the
covariance the call starts from (the dict's, else the carried one) is. -/
theorem cov_psd_init (cfg : Cfg ℝ) (hp : cfg.propCov = true) (st : State ℝ) (init : Option (Init ℝ))
    (fr : Nat → Frame ℝ) (F : Nat) (h0 : (toM (startCov st init)).PosSemidef) (hf : ∀ j, j < F → FrameOk (fr j)) :
    ∃ c, (call cfg st init fr F).cov = some c ∧ (toM c).PosSemidef ∧ (toM c)ᵀ = toM c := by
  have hpsd : (toM (propagateCov cfg.left F
      (fun j => matA (covInAt (startRij st init) cfg.eps (integrate cfg.eps cfg.g (startRot st init) fr F) fr j))
      (fun j => noise cfg.eps (covInAt (startRij st init) cfg.eps (integrate cfg.eps cfg.g (startRot st init) fr F) fr j))
      (startCov st init))).PosSemidef := by
    apply propagateCov_psd _ _ _ _ _ h0
    intro j hj
    obtain ⟨h1, h2, h3⟩ := hf j hj
    exact noise_psd _ _ h1 h2 h3
  refine ⟨_, call_cov_gen cfg st init fr F hp, hpsd, ?_⟩
  have hh := hpsd.isHermitian
  rwa [Matrix.IsHermitian, Matrix.conjTranspose_eq_transpose_of_trivial] at hh

/-- resolved frames are admissible for the covariance clause when the module's and the per-call covariances are
non-negative and `dt ≥ 0` -/
theorem resolveFrames_ok (modG modA : Vec3 ℝ) (gc ac : CovArg ℝ) (raw : Nat → RawFrame ℝ) (j : Nat)
    (hdt : 0 ≤ (raw j).dt)
    (hg : 0 ≤ (resolveCov modG gc j).x ∧ 0 ≤ (resolveCov modG gc j).y ∧ 0 ≤ (resolveCov modG gc j).z)
    (ha : 0 ≤ (resolveCov modA ac j).x ∧ 0 ≤ (resolveCov modA ac j).y ∧ 0 ≤ (resolveCov modA ac j).z) :
    FrameOk (resolveFrames modG modA gc ac raw j) := ⟨hdt, hg, ha⟩

example : resolveInit (some (⟨some ⟨1, 2, 3⟩, some ⟨0.6, 0, 0, 0.8⟩, some ⟨0, 1, 0⟩, some none, none⟩ : InitDict ℝ))
    = .ok (some ⟨⟨1, 2, 3⟩, ⟨0.6, 0, 0, 0.8⟩, ⟨0, 1, 0⟩, none, none⟩) := rfl
example : ∃ d : InitDict ℝ, d.pos = none ∨ d.rot = none ∨ d.vel = none := ⟨⟨none, none, none, none, none⟩, Or.inl rfl⟩


/-! ## 9. sign and size of the gravity constant (round 4, class 26) -/

/-- the rotation `removeG` uses: the supplied one, else `R₀ · ΔR` after the step -/
noncomputable def usedRot (R0 Rnext : Quat ℝ) (f : Frame ℝ) : Quat ℝ :=
  match f.rot with
  | some r => r
  | none => R0.mul Rnext

theorem removeG_usedRot (g : Vec3 ℝ) (R0 Rnext : Quat ℝ) (f : Frame ℝ) :
    removeG g R0 Rnext f = f.acc.sub ((usedRot R0 Rnext f).conj.act g) := by
  unfold removeG usedRot; cases f.rot <;> rfl

/-- **The recursion holds for EVERY real gravity constant** — positive (z-up), negative (z-down / NED), zero, tiny, huge: the
gravity vector `(0,0,g_z)` enters only through `a = acc − R⁻¹ g`. -/
theorem par_eq_seq_every_gravity (eps gz : ℝ) (reset propCov left : Bool) (st : State ℝ) (fr : Nat → Frame ℝ) (F j : Nat)
    (hj : j < F) :
    outAt (call ⟨eps, ⟨0, 0, gz⟩, reset, propCov, left⟩ st none fr F).outs j
      = compose st.pos st.rot st.vel (preSeq eps ⟨0, 0, gz⟩ st.rot fr (j+1)) :=
  par_eq_seq _ st fr F j hj

/-- flipping the sign of the gravity constant turns the subtraction into an addition (z-down convention) -/
theorem removeG_neg_gravity (g : Vec3 ℝ) (R0 Rnext : Quat ℝ) (f : Frame ℝ) :
    removeG g.neg R0 Rnext f = f.acc.add ((usedRot R0 Rnext f).conj.act g) := by
  rw [removeG_usedRot, Quat.act_neg]; ext <;> lie_unfold <;> ring

/-- **Gravity removal can be skipped only for `g = 0`**: with a unit rotation, `a = acc` iff the gravity vector is zero —
in particular NOT for any negative gravity constant. -/
theorem zero_g_fast_path_iff (g : Vec3 ℝ) (R0 Rnext : Quat ℝ) (f : Frame ℝ) (hu : (usedRot R0 Rnext f).normSq = 1) :
    removeG g R0 Rnext f = f.acc ↔ g = Vec3.zero := by
  rw [removeG_usedRot]
  have hc : (usedRot R0 Rnext f).conj.normSq = 1 := by rw [Quat.normSq_conj, hu]
  constructor
  · intro h
    have hz : ((usedRot R0 Rnext f).conj.act g).normSq = 0 := by
      have e : (usedRot R0 Rnext f).conj.act g = f.acc.sub (f.acc.sub ((usedRot R0 Rnext f).conj.act g)) := by
        ext <;> lie_unfold <;> ring
      rw [e, h]; lie_unfold; ring
    rw [Quat.act_normSq _ hc] at hz
    have hx : g.x = 0 ∧ g.y = 0 ∧ g.z = 0 := by
      unfold Vec3.normSq at hz
      refine ⟨?_, ?_, ?_⟩ <;> nlinarith [mul_self_nonneg g.x, mul_self_nonneg g.y, mul_self_nonneg g.z]
    ext <;> simp [Vec3.zero, hx.1, hx.2.1, hx.2.2]
  · intro h
    rw [h, Quat.act_zero]; ext <;> lie_unfold <;> ring

/-- a negative gravity constant is NOT zero gravity: the acceleration differs from the raw measurement by exactly `|g_z|` -/
theorem negative_gravity_is_removed (gz : ℝ) (hg : gz < 0) (R0 Rnext : Quat ℝ) (f : Frame ℝ)
    (hu : (usedRot R0 Rnext f).normSq = 1) : removeG ⟨0, 0, gz⟩ R0 Rnext f ≠ f.acc := by
  intro h
  have := (zero_g_fast_path_iff ⟨0, 0, gz⟩ R0 Rnext f hu).mp h
  have hz : gz = 0 := by
    have := congrArg Vec3.z this
    simpa [Vec3.zero] using this
  linarith

example : (usedRot (⟨0.6, 0, 0, 0.8⟩ : Quat ℝ) Quat.one ⟨0.01, ⟨0, 0, 0⟩, ⟨0, 0, -9.81⟩, none, ⟨1e-5, 1e-5, 1e-5⟩, ⟨6e-3, 6e-3, 6e-3⟩⟩).normSq = 1 := by
  simp only [usedRot, Quat.mul_one']; lie_unfold; norm_num


/-! ## non-vacuity of the hypotheses -/

example : (⟨0.6, 0, 0, 0.8⟩ : Quat ℝ).normSq = 1 := by lie_unfold; norm_num
example : (toM (State.fresh (⟨1, 2, 3⟩ : Vec3 ℝ) ⟨0.6, 0, 0, 0.8⟩ ⟨0, 1, 0⟩).cov).PosSemidef := by
  simp only [State.fresh, toM_zero]; exact Matrix.PosSemidef.zero
example : FrameOk (⟨0.01, ⟨0.1, 0.2, 0.3⟩, ⟨0, 0, 9.81⟩, none, ⟨1e-5, 1e-5, 1e-5⟩, ⟨6e-3, 6e-3, 6e-3⟩⟩ : Frame ℝ) := by
  unfold FrameOk; norm_num
/-- a frame on the closed-form branch: `‖w dt‖ = 2·(1/2) = 1 > 2⁻⁵²` -/
example : (dr ((2:ℝ)^(-52:ℤ)) (⟨1/2, ⟨2, 0, 0⟩, ⟨0, 0, 9.81⟩, none, ⟨1e-5, 1e-5, 1e-5⟩, ⟨6e-3, 6e-3, 6e-3⟩⟩ : Frame ℝ)).normSq = 1 := by
  apply dr_unit_closed _ (by positivity)
  have : (Vec3.smul (1/2 : ℝ) (⟨2, 0, 0⟩ : Vec3 ℝ)).norm = 1 := by
    unfold Vec3.norm Vec3.normSq Vec3.smul; norm_num
  show _ < (Vec3.smul (1/2 : ℝ) (⟨2, 0, 0⟩ : Vec3 ℝ)).norm
  rw [this]
  have : ((2:ℝ)^(-52:ℤ)) < 1 := by
    rw [_root_.zpow_neg]; exact inv_lt_one_of_one_lt₀ (by norm_num)
  exact this
/-- the hypotheses of `chunk_invariant` hold together: a constant-rate stream, chunks `[2,1,3]` -/
example : ∃ (cfg : Cfg ℝ) (st : State ℝ) (fr : Nat → Frame ℝ) (ms : List Nat),
    cfg.reset = false ∧ cfg.propCov = true ∧ cfg.left = false ∧ (∀ m ∈ ms, 1 ≤ m) ∧ ms ≠ [] ∧
    st.rot.normSq = 1 ∧ (∀ i, i < ms.sum → (dr cfg.eps (fr i)).normSq = 1) ∧ (toM st.cov).PosSemidef ∧
    (∀ j, FrameOk (fr j)) := by
  refine ⟨⟨(2:ℝ)^(-52:ℤ), ⟨0, 0, 9.81⟩, false, true, false⟩, State.fresh ⟨1, 2, 3⟩ ⟨0.6, 0, 0, 0.8⟩ ⟨0, 1, 0⟩,
    fun _ => ⟨1/2, ⟨2, 0, 0⟩, ⟨0, 0, 9.81⟩, none, ⟨1e-5, 1e-5, 1e-5⟩, ⟨6e-3, 6e-3, 6e-3⟩⟩, [2, 1, 3],
    rfl, rfl, rfl, by decide, by decide, ?_, ?_, ?_, ?_⟩
  · simp only [State.fresh]; lie_unfold; norm_num
  · intro i _
    apply dr_unit_closed _ (by positivity)
    have : (Vec3.smul (1/2 : ℝ) (⟨2, 0, 0⟩ : Vec3 ℝ)).norm = 1 := by
      unfold Vec3.norm Vec3.normSq Vec3.smul; norm_num
    show _ < (Vec3.smul (1/2 : ℝ) (⟨2, 0, 0⟩ : Vec3 ℝ)).norm
    rw [this, _root_.zpow_neg]
    exact inv_lt_one_of_one_lt₀ (by norm_num)
  · simp only [State.fresh, toM_zero]; exact Matrix.PosSemidef.zero
  · intro j; unfold FrameOk; norm_num
example : rankOk [3] [1] [3] = true ∧ rankOk [5, 3] [5, 1] [5, 3] = true ∧ rankOk [2, 5, 3] [5, 1] [2, 5, 3] = false := by
  decide

end PP.Imu
