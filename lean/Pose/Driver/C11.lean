import Pose.Wire
import Pose.Driver.Lie
import Pose.Model.Convert
import Pose.Model.ConvertCall
/-!
# Driver ops for C11 (matrix / Euler conversions)

* `c11.from_matrix <SO3|SE3|Sim3|RxSO3> <33|34|44> <check 0|1> <n> <rtol> <atol> nums…`
  `n` items, each `9 | 12 | 16` numbers row-major → `ok` flattened storage of the `n` results, or
  `err notOrthogonal | detNotOne | notFullRank | nonFinite`.  The determinant kernel is instantiated by `detB`
  (cofactor formula, rounding residue snapped to 0; the harness checks `torch.det` against `c11.det` separately).
* `c11.region <atol> 9 nums`  → index `0..3` of the selected candidate and the four `t_i`
* `c11.warn <ty> <lay> <check> <n> <rtol> <atol> nums…` → `1` iff the 4×4 last-row warning is issued (only `mat2SE3` / `mat2Sim3`, batch-level)
* `c11.det 9 nums`, `c11.euler2SO3 r p y`, `c11.euler <eps> x y z w` (→ roll pitch yaw flag),
  `c11.eulermat r p y` (→ 9 numbers of `Rz·Ry·Rx`)
-/
namespace PP.Driver
open PP Wire

def m3 (l : List B) (o : Nat := 0) : Mat3 B := ⟨v3 l o, v3 l (o+3), v3 l (o+6)⟩

def l1 (v : Vec3 B) : B := BigF.add (BigF.add (BigF.abs v.x) (BigF.abs v.y)) (BigF.abs v.z)

/-- stand-in for the determinant kernel: the cofactor formula in 192-bit arithmetic, with values below
`2⁻¹⁴⁰·‖r0‖₁‖r1‖₁‖r2‖₁` (pure rounding residue of the 192-bit sums on an exactly singular matrix) snapped to `0`.
It meets the contract `detK M = det M` to `2⁻¹⁴⁰` of the natural scale, far inside every tolerance used. -/
def detB (M : Mat3 B) : B :=
  let d := M.det
  let sc := BigF.mul (BigF.mul (l1 M.r0) (l1 M.r1)) (l1 M.r2)
  if BigF.le (BigF.abs d) (BigF.scale2 sc (-140)) then BigF.zero else d

def layOf (s : String) : Except String (Layout × Nat × Nat) :=
  match s with
  | "33" => .ok (.m33, 3, 3)
  | "34" => .ok (.m34, 3, 4)
  | "44" => .ok (.m44, 4, 4)
  | _ => .error s!"bad-layout:{s}"

def tyOf (s : String) : Except String GTy :=
  match s with
  | "SO3" => .ok .SO3
  | "SE3" => .ok .SE3
  | "Sim3" => .ok .Sim3
  | "RxSO3" => .ok .RxSO3
  | _ => .error s!"bad-type:{s}"

/-- split `xs` into `n` chunks of length `len` -/
def chunks (len : Nat) : Nat → List B → List (List B)
  | 0, _ => []
  | n+1, xs => xs.take len :: chunks len n (xs.drop len)

def toRows (cols : Nat) (rows : Nat) (xs : List B) : DMat B :=
  (List.range rows).map fun i => (xs.drop (i * cols)).take cols

def matIn (lay : Layout) (rows cols : Nat) (xs : List B) : MatIn B := MatIn.ofDMat lay (toRows cols rows xs)

def optNum (s : String) : Except String (Option B) :=
  if s == "-" then .ok none else (num s).map some

/-- `c11.call <from_matrix|direct> <SO3|SE3|Sim3|RxSO3|other> <rank> <rows> <cols> <n> <check 1|0|-> <rtol|-> <atol|-> nums…`
the call glue: shape validation, dispatch, defaults (`-` = argument not given) -/
def callOp : Handler := fun ts => do
  match ts with
  | ent :: ty :: rank :: rows :: cols :: n :: chk :: rt :: at_ :: rest =>
    let rank ← nat rank; let rows ← nat rows; let cols ← nat cols; let n ← nat n
    let lt : Option GTy := match ty with
      | "SO3" => some .SO3 | "SE3" => some .SE3 | "Sim3" => some .Sim3 | "RxSO3" => some .RxSO3 | _ => none
    let e ← match ent, lt with
      | "from_matrix", l => pure (Entry.fromMatrix l)
      | "direct", some t => pure (Entry.direct t)
      | _, _ => throw "bad-entry"
    let check : Option Bool := if chk == "-" then none else some (chk == "1")
    let rtol ← optNum rt
    let atol ← optNum at_
    let data ← nums rest
    if data.length != n * rows * cols then throw s!"arity:{data.length}" else
    let Ms := (chunks (rows * cols) n data).map (toRows cols rows)
    match convCall detB e rank rows cols ⟨check, rtol, atol⟩ Ms with
    | .ok out => return fmt out.flatten
    | .error err => throw err.name
  | _ => throw "arity"

def opsC11 : List (String × Handler) := [
  ("c11.call", callOp),
  ("c11.eulercall", fun ts => do
      match ts with
      | e :: rest =>
        let eps ← optNum e
        let xs ← nums rest
        if xs.length != 4 then throw "arity" else
        let p := qt xs
        let ee := eps.getD defEulerEps
        return fmt ((SO3eulerCall eps p).toList ++ [if eulerRegular ee p then BigF.ofInt 1 else BigF.ofInt 0, (eulerT p).t2])
      | _ => throw "arity"),
  ("c11.from_matrix", fun ts => do
      match ts with
      | ty :: lay :: chk :: n :: rest =>
        let ty ← tyOf ty
        let (lay, rows, cols) ← layOf lay
        let chk ← nat chk
        let n ← nat n
        let xs ← nums rest
        match xs with
        | rtol :: atol :: data =>
          if data.length != n * rows * cols then throw s!"arity:{data.length}" else
          let ms := (chunks (rows * cols) n data).map (matIn lay rows cols)
          match fromMatrixBatch ty detB (chk == 1) rtol atol ms with
          | .ok out => return fmt out.flatten
          | .error e => throw e.name
        | _ => throw "arity"
      | _ => throw "arity"),
  ("c11.region", numeric fun xs =>
      match xs with
      | atol :: rest =>
        if rest.length != 9 then .error "arity" else
        let T := (m3 rest).transpose
        let r := mat2SO3Region atol T
        .ok [BigF.ofInt r, (cand0 T).t, (cand1 T).t, (cand2 T).t, (cand3 T).t]
      | _ => .error "arity"),
  ("c11.warn", fun ts => do
      match ts with
      | ty :: lay :: chk :: n :: rest =>
        let ty ← tyOf ty
        let (lay, rows, cols) ← layOf lay
        let chk ← nat chk
        let n ← nat n
        let xs ← nums rest
        match xs with
        | rtol :: atol :: data =>
          if data.length != n * rows * cols then throw "arity" else
          let ms := (chunks (rows * cols) n data).map (matIn lay rows cols)
          return (if lastRowWarnBatch ty (chk == 1) rtol atol ms then "1:0" else "0:0")
        | _ => throw "arity"
      | _ => throw "arity"),
  ("c11.det", numeric fun xs => if xs.length != 9 then .error "arity" else .ok [detB (m3 xs)]),
  ("c11.euler2SO3", numeric fun xs => if xs.length != 3 then .error "arity" else .ok (euler2SO3 (v3 xs)).toList),
  ("c11.euler", numeric fun xs =>
      match xs with
      | eps :: rest =>
        if rest.length != 4 then .error "arity" else
        let p := qt rest
        .ok ((SO3euler eps p).toList ++ [if eulerRegular eps p then BigF.ofInt 1 else BigF.ofInt 0, (eulerT p).t2])
      | _ => .error "arity"),
  ("c11.eulermat", numeric fun xs => if xs.length != 3 then .error "arity" else .ok (eulerMat (v3 xs)).toList)
]

end PP.Driver
