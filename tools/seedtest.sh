#!/bin/bash
# Rehearse one stored mutation: tools/seedtest.sh <seeddir> <scratch worktree of /repo> <prop> [more props…]
# (create the worktree with: git -C /repo worktree add --detach /tmp/wtm HEAD ; remove it afterwards)
sd=$(realpath "$1"); wt=$2; shift 2
H=$(git -C /repo rev-parse HEAD)
git -C $wt checkout -q -- . ; git -C $wt checkout -q --detach $H
PYTHONPATH=$wt /venv/bin/python $sd/demo.py >/dev/null 2>&1; c=$?
if ! git -C $wt apply $sd/patch.diff 2>/tmp/apply.err; then echo "APPLY FAILED $(head -2 /tmp/apply.err)"; exit 0; fi
PYTHONPATH=$wt /venv/bin/python $sd/demo.py >/dev/null 2>&1; m=$?
echo "== $sd: demo clean rc=$c patched rc=$m"
for p in "$@"; do
  out=$(cd "$(dirname "$0")/.." && PYPOSE_REPO=$wt timeout 1500 /venv/bin/python check.py --property $p --tier quick --no-lean 2>&1)
  echo "$out" | grep "VIOLATION" | head -1
  echo "$out" | grep "$p quick" | tail -1
done
git -C $wt checkout -q -- .
