/-
C04 (pass 3): the exact-gradient theorem for all programs with the transcendental nodes discharged by explicit regime
conditions on the values at the evaluation point (`Regimes`), instead of the abstract hypothesis `TransSpec`.
-/
import Proofs.Lemmas.AutogradJinvp
set_option linter.unusedSimpArgs false
set_option linter.unusedVariables false
namespace PP.AD
open PP

/-- the argument of an `Exp` node lies where `*_Exp.backward` is proved exact: closed-form branches (`θ > eps`; for `se3` also
`θ > 0.05`, the switch of `calcQ`), or rotation part exactly zero; for `sim3` only the zero vector (elsewhere `sim3_Jl` is a
truncated series — exact only up to the documented truncation). -/
def ExpRegime (g : Grp) (eps : ℝ) (x : DVec ℝ) : Prop :=
  match g with
  | .SO3 => eps < (v3 x).norm ∨ v3 x = ⟨0, 0, 0⟩
  | .SE3 => (eps < (v3 x 3).norm ∧ (5:ℝ)/100 < (v3 x 3).norm) ∨ v3 x 3 = ⟨0, 0, 0⟩
  | .RxSO3 => eps < (v3 x).norm ∨ v3 x = ⟨0, 0, 0⟩
  | .Sim3 => v3 x = ⟨0, 0, 0⟩ ∧ v3 x 3 = ⟨0, 0, 0⟩ ∧ nth x 6 = 0

/-- the argument of a `Log` node lies where `*_Log.backward` is proved exact: regime 1 of `SO3_Log` with the closed-form
branch of `so3_Jl_inv` (for `SE3` also of `calcQ`), or rotation part exactly the identity (`q = ±1`); for `Sim3` only the
identity element. -/
def LogRegime (g : Grp) (eps : ℝ) (X : DVec ℝ) : Prop :=
  match g with
  | .SO3 => (eps < (qt X).vec.norm ∧ eps < |(qt X).w| ∧ eps < (v3 (logF .SO3 eps X)).norm) ∨ (qt X).vec = ⟨0, 0, 0⟩
  | .SE3 => (eps < (qt X 3).vec.norm ∧ eps < |(qt X 3).w| ∧ eps < (v3 (logF .SE3 eps X) 3).norm ∧
        (5:ℝ)/100 < (v3 (logF .SE3 eps X) 3).norm ∧ Real.sin (1/2 * (v3 (logF .SE3 eps X) 3).norm) ≠ 0) ∨
      (qt X 3).vec = ⟨0, 0, 0⟩
  | .RxSO3 => (eps < (qt X).vec.norm ∧ eps < |(qt X).w| ∧ eps < (v3 (logF .RxSO3 eps X)).norm) ∨ (qt X).vec = ⟨0, 0, 0⟩
  | .Sim3 => v3 X = ⟨0, 0, 0⟩ ∧ (qt X 3).vec = ⟨0, 0, 0⟩ ∧ nth X 7 = 1

/-- every `Exp` / `Log` node of the program is evaluated in a proved regime, and every `Jinvp` node has its `Log` in a proved regime
and the external kernel `dJ` meeting its contract there.  A condition on the *point* `env0` only. -/
def Regimes (dJ : DJ ℝ) (eps : ℝ) (env0 : List (DVec ℝ)) : Prog → Prop
  | .leaf _ => True
  | .un o g p => Regimes dJ eps env0 p ∧
      (match o with
       | .Exp => ExpRegime g eps (eval eps env0 p)
       | .Log => LogRegime g eps (eval eps env0 p)
       | _ => True)
  | .bin o g p q => Regimes dJ eps env0 p ∧ Regimes dJ eps env0 q ∧
      (match o with
       | .Jinvp => LogRegime g eps (eval eps env0 p) ∧ DJSpec dJ g eps (logF g eps (eval eps env0 p)) (eval eps env0 q)
       | _ => True)

theorem exp_nodeOK_of_regime (dJ : DJ ℝ) (eps : ℝ) (heps : 0 < eps) (lt : List Ty) (env : ℝ → List (DVec ℝ)) (tan : List (DVec ℝ))
    (g : Grp) (p : Prog) (hp : NodeOK dJ eps lt env tan p) (hR : ExpRegime g eps (eval eps (env 0) p)) :
    NodeOK dJ eps lt env tan (.un .Exp g p) := by
  cases g
  · rcases hR with h | h
    · exact so3_Exp_nodeOK dJ eps (le_of_lt heps) lt env tan p hp h
    · exact so3_Exp_zero_nodeOK dJ eps heps lt env tan p hp h
  · rcases hR with ⟨h1, h2⟩ | h
    · exact se3_Exp_nodeOK dJ eps (le_of_lt heps) lt env tan p hp h1 h2
    · exact se3_Exp_zero_nodeOK dJ eps heps lt env tan p hp h
  · rcases hR with h | h
    · exact rxso3_Exp_nodeOK dJ eps (le_of_lt heps) lt env tan p hp h
    · exact rxso3_Exp_zero_nodeOK dJ eps heps lt env tan p hp h
  · obtain ⟨h1, h2, h3⟩ := hR
    exact sim3_Exp_zero_nodeOK dJ eps heps lt env tan p hp h1 h2 h3

theorem v3_logF_RxSO3 (eps : ℝ) (X : DVec ℝ) :
    v3 (logF .RxSO3 eps X) = v3 (logF .SO3 eps [nth X 0, nth X 1, nth X 2, nth X 3]) := by
  simp [logF, RxSO3Log, toRx, rxso3.toList, Vec3.toList, qt, v3]

theorem log_nodeOK_of_regime (dJ : DJ ℝ) (eps : ℝ) (heps : 0 < eps) (lt : List Ty) (env : ℝ → List (DVec ℝ)) (tan : List (DVec ℝ))
    (g : Grp) (p : Prog) (hp : NodeOK dJ eps lt env tan p) (hR : LogRegime g eps (eval eps (env 0) p)) :
    NodeOK dJ eps lt env tan (.un .Log g p) := by
  cases g
  · rcases hR with ⟨h1, h2, h3⟩ | h
    · exact so3_Log_nodeOK dJ eps (le_of_lt heps) lt env tan p hp h1 h2 h3
    · exact so3_Log_identity_nodeOK dJ eps heps lt env tan p hp h
  · rcases hR with ⟨h1, h2, h3, h4, h5⟩ | h
    · exact se3_Log_nodeOK dJ eps (le_of_lt heps) lt env tan p hp h1 h2 h3 h4 h5
    · exact se3_Log_identity_nodeOK dJ eps heps lt env tan p hp h
  · rcases hR with ⟨h1, h2, h3⟩ | h
    · exact rxso3_Log_nodeOK dJ eps (le_of_lt heps) lt env tan p hp h1 h2 (by rw [← v3_logF_RxSO3]; exact h3)
    · exact rxso3_Log_identity_nodeOK dJ eps heps lt env tan p hp h
  · obtain ⟨h1, h2, h3⟩ := hR
    exact sim3_Log_identity_nodeOK dJ eps heps lt env tan p hp h1 h2 h3

/-- **`Regimes` implies `TransSpec`**: every transcendental node of the program is locally correct. -/
theorem transSpec_of_regimes (dJ : DJ ℝ) (hdJ : DJShape dJ) (eps : ℝ) (heps : 0 < eps) (lt : List Ty) (env : ℝ → List (DVec ℝ))
    (tan : List (DVec ℝ)) (hleaf : ∀ i t, lt[i]? = some t → CurveOK t (fun s => (env s).getD i []) (tan.getD i []))
    (p : Prog) (hR : Regimes dJ eps (env 0) p) : TransSpec dJ eps lt env tan p := by
  induction p with
  | leaf i => trivial
  | un o g p ih =>
    simp only [Regimes] at hR
    obtain ⟨hRp, ho⟩ := hR
    have hT := ih hRp
    have hN : NodeOK dJ eps lt env tan p := eval_tangent_of_transSpec dJ eps lt env tan hleaf p hT
    refine ⟨hT, ?_⟩
    cases o with
    | Exp => exact exp_nodeOK_of_regime dJ eps heps lt env tan g p hN ho
    | Log => exact log_nodeOK_of_regime dJ eps heps lt env tan g p hN ho
    | Inv => trivial
    | Matrix => trivial
  | bin o g p q ihp ihq =>
    simp only [Regimes] at hR
    obtain ⟨hRp, hRq, ho⟩ := hR
    have hTp := ihp hRp
    have hTq := ihq hRq
    have hNp : NodeOK dJ eps lt env tan p := eval_tangent_of_transSpec dJ eps lt env tan hleaf p hTp
    have hNq : NodeOK dJ eps lt env tan q := eval_tangent_of_transSpec dJ eps lt env tan hleaf q hTq
    refine ⟨hTp, hTq, ?_⟩
    cases o with
    | Jinvp =>
      obtain ⟨hL, hD⟩ := ho
      exact jinvp_nodeOK_of dJ hdJ eps lt env tan g p q hNq (log_nodeOK_of_regime dJ eps heps lt env tan g p hNp hL) hD
    | Mul => trivial
    | Act => trivial
    | Act4 => trivial
    | Adj => trivial
    | AdjT => trivial

/-- exact gradients for every program whose transcendental nodes are evaluated in proved regimes -/
theorem program_gradient_exact_of_regimes (dJ : DJ ℝ) (hdJ : DJShape dJ) (eps : ℝ) (heps : 0 < eps) (lt : List Ty)
    (env : ℝ → List (DVec ℝ)) (tan : List (DVec ℝ)) (hE : EnvOK lt (env 0) tan)
    (hleaf : ∀ i t, lt[i]? = some t → CurveOK t (fun s => (env s).getD i []) (tan.getD i []))
    (p : Prog) (hR : Regimes dJ eps (env 0) p) (n : Nat) (hty : tyOf lt p = some (.V n)) (c : DVec ℝ) (hc : c.length = n) :
    HasDerivAt (fun s => DVec.dot c (eval eps (env s) p)) (pairSum tan (backprop dJ eps (env 0) p c)) 0 :=
  program_gradient_exact_of_transSpec dJ hdJ eps lt env tan hE hleaf p
    (transSpec_of_regimes dJ hdJ eps heps lt env tan hleaf p hR) n hty c hc

end PP.AD
