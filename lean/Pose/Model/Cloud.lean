import Pose.Model.Lie
import Pose.Model.Batch
/-!
# Model of `pypose/function/geometry.py`: point-cloud filters and camera helpers

A point is a `List α` (`D` numbers: the first `pdim`/`vdim` are coordinates, the rest feature channels);
a cloud is a `List (Pt α)`.  Batch dimensions are not re-modelled: every function acts on one cloud
(one camera) and the correspondence check feeds the real code batched tensors and compares item-wise.

External kernels are **parameters** (DESIGN §2.1):

* `topk : Bool → List α → Nat → List Nat`  (`torch.topk(·, k, largest, sorted=True)` — indices only;
  contract `topkOk`, re-checked by the driver on every call of its stand-in `topkStd`);
* `uniq : List (List Int) → List (List Int)` (`torch.unique(dim=-2)`: the distinct rows, sorted);
* `argsort : List Nat → List Nat`, the random draws of `randint` / `randperm` (inputs of the model);
* `tr : α → Int`, the float → int64 conversion `.to(torch.int64)` (truncation toward zero).

Tensors that the code fills by `index_add_` are index functions `Nat → Nat → α` (as in `Model/Scan.lean`).
-/
namespace PP.Cloud
variable {α : Type} [Scalar α]

abbrev Pt (α : Type) := List α

/-! ## sums, norms, distances (`torch.linalg.norm(diff, dim=-1, ord)`) -/

def sumL (xs : List α) : α := xs.foldr (· + ·) (k 0)

inductive Norm | l1 | l2 | linf
deriving DecidableEq, Repr, Inhabited

def vsub (a b : List α) : List α := List.zipWith (· - ·) a b

def normOf : Norm → List α → α
  | .l1, v => sumL (v.map sabs)
  | .l2, v => Scalar.sqrt (sumL (v.map fun x => x * x))
  | .linf, v => v.foldr (fun x m => smax (sabs x) m) (k 0)

/-- `‖a - b‖_ord` over all coordinates of the two lists -/
def dist (o : Norm) (a b : List α) : α := normOf o (vsub a b)

/-- distance over the first `pdim` entries (`points[..., :pdim]`) -/
def pdist (o : Norm) (pdim : Nat) (a b : Pt α) : α := dist o (a.take pdim) (b.take pdim)

/-! ## `topk` contract and its executable stand-in -/

/-- order used by `topk`: ascending (`largest = false`) or descending -/
def leB (largest : Bool) (a b : α) : Bool := if largest then Scalar.le b a else Scalar.le a b

/-- Boolean form of the `topk(k, largest, sorted=True)` contract on the returned indices:
`k` distinct in-range indices, values in order, every non-selected value not before any selected one. -/
def topkOk (largest : Bool) (vals : List α) (kk : Nat) (idx : List Nat) : Bool :=
  idx.length == kk
  && idx.all (fun i => decide (i < vals.length))
  && idx.Nodup
  && (idx.map fun i => vals.getD i (k 0)).Pairwise (fun a b => leB largest a b = true)
  && idx.all (fun i => (List.range vals.length).all fun j =>
        idx.contains j || leB largest (vals.getD i (k 0)) (vals.getD j (k 0)))

/-- linear-time form of the same contract (what the driver evaluates on every call; `topkOkFast_sound` in
`Proofs/Lemmas/Cloud.lean` shows it implies the contract): adjacent values in order, and the LAST selected value
not after any non-selected one. -/
def topkOkFast (largest : Bool) (vals : List α) (kk : Nat) (idx : List Nat) : Bool :=
  let sel := idx.map fun i => vals.getD i (k 0)
  idx.length == kk
  && idx.all (fun i => decide (i < vals.length))
  && idx.Nodup
  && (sel.zip sel.tail).all (fun ab => leB largest ab.1 ab.2)
  && match idx.getLast? with
     | none => true
     | some l => (List.range vals.length).all fun j =>
        idx.contains j || leB largest (vals.getD l (k 0)) (vals.getD j (k 0))

/-- stand-in: stable merge sort of `(value, index)` pairs, first `k` indices -/
def topkStd (largest : Bool) (vals : List α) (kk : Nat) : List Nat :=
  ((vals.zipIdx.mergeSort fun a b => leB largest a.1 b.1).take kk).map (·.2)

/-! ## `knn(ref, nbr, k, ord, dim=-1, largest, sorted=True)` -/

/-- one reference point: `(values, indices)`; the values are the distances at the returned indices -/
def knnRow (topk : Bool → List α → Nat → List Nat) (o : Norm) (largest : Bool) (kk : Nat)
    (nbr : List (Pt α)) (r : Pt α) : List α × List Nat :=
  let d := nbr.map (dist o r)
  let idx := topk largest d kk
  (idx.map fun i => d.getD i (k 0), idx)

/-- `none` models the `RuntimeError` of `topk` for `k > N2` -/
def knn (topk : Bool → List α → Nat → List Nat) (o : Norm) (largest : Bool) (kk : Nat)
    (ref nbr : List (Pt α)) : Option (List (List α × List Nat)) :=
  if nbr.length < kk then none else some (ref.map (knnRow topk o largest kk nbr))

/-! ## `nbr_filter(points, nbr, radius, pdim, ord, return_mask)` -/

/-- `norm(p - q) <= radius` -/
def within (o : Norm) (pdim : Nat) (radius : α) (p q : Pt α) : Bool :=
  Scalar.le (pdist o pdim p q) radius

/-- `torch.sum(dist <= radius, dim=-1) - 1` for the row of `p` -/
def nbrCount (o : Norm) (pdim : Nat) (radius : α) (pts : List (Pt α)) (p : Pt α) : Int :=
  (pts.countP (within o pdim radius p) : Int) - 1

/-- `mask = count >= nbr` -/
def nbrMask (o : Norm) (pdim : Nat) (radius : α) (n : Int) (pts : List (Pt α)) : List Bool :=
  pts.map fun p => decide (n ≤ nbrCount o pdim radius pts p)

/-- boolean-mask indexing `points[mask]` -/
def selectMask {β : Type} (xs : List β) (mask : List Bool) : List β :=
  (xs.zip mask).filterMap fun xb => if xb.2 then some xb.1 else none

def nbrFilter (o : Norm) (pdim : Nat) (radius : α) (n : Int) (pts : List (Pt α)) : List (Pt α) :=
  selectMask pts (nbrMask o pdim radius n pts)

/-! ## column means (`index_add_` / `gather(...).mean(dim=-1)` act per channel) -/

/-- mean of channel `c` over the points `ps` -/
def colMean (ps : List (Pt α)) (c : Nat) : α := sumL (ps.map fun p => p.getD c (k 0)) / k ps.length

/-- per-channel mean of the points `ps` (`D` channels) -/
def meanCols (D : Nat) (ps : List (Pt α)) : Pt α := (List.range D).map (colMean ps)

/-- `points.size(-1)` -/
def width (pts : List (Pt α)) : Nat := (pts.headD []).length

/-! ## `knn_filter(points, k, pdim, radius, ord)` (after the repairs D11/D16: neighbours from the whole cloud) -/

/-- the output row of a retained point `p`: mean of the `k+1` cloud points selected by `topk` on its distance row -/
def knnMean (topk : Bool → List α → Nat → List Nat) (o : Norm) (pdim kk : Nat) (pts : List (Pt α)) (p : Pt α) : Pt α :=
  let d := pts.map (pdist o pdim p)
  let idx := topk false d (kk + 1)
  meanCols (width pts) (idx.map fun i => pts.getD i [])

/-- rows that survive: all points, or (`radius` given) those with `count >= k` -/
def knnRetained (o : Norm) (pdim kk : Nat) (radius : Option α) (pts : List (Pt α)) : List (Pt α) :=
  match radius with
  | none => pts
  | some r => selectMask pts (nbrMask o pdim r (kk : Int) pts)

/-- `none` models the `RuntimeError` of `topk(k+1)` when the cloud has fewer than `k+1` points -/
def knnFilter (topk : Bool → List α → Nat → List Nat) (o : Norm) (pdim kk : Nat) (radius : Option α)
    (pts : List (Pt α)) : Option (List (Pt α)) :=
  if pts.length < kk + 1 then none
  else some ((knnRetained o pdim kk radius pts).map (knnMean topk o pdim kk pts))

/-! ## `random_filter(points, num)`: `points[..., randperm(N)[:num], :]` -/

/-- `perm` is the draw of `torch.randperm(N)`; `none` models the failed `assert num <= N` -/
def randomFilter (perm : List Nat) (num : Nat) (pts : List (Pt α)) : Option (List (Pt α)) :=
  if pts.length < num then none else some ((perm.take num).map fun i => pts.getD i [])

/-! ## `voxel_filter(points, voxel, random)` -/

/-- minimum of a non-empty list (`torch.min(dim=-2).values`); `k 0` for the empty list -/
def minL : List α → α
  | [] => k 0
  | x :: xs => xs.foldl smin x

/-- `minp`: per-coordinate minimum over the cloud, first `vdim` coordinates -/
def minp (vdim : Nat) (pts : List (Pt α)) : List α :=
  (List.range vdim).map fun c => minL (pts.map fun p => p.getD c (k 0))

/-- `((points[:, :vdim] - minp) / voxel).to(int64)` for one point -/
def voxKey (tr : α → Int) (vox mn : List α) (p : Pt α) : List Int :=
  (List.range vox.length).map fun c => tr ((p.getD c (k 0) - mn.getD c (k 0)) / vox.getD c (k 0))

def voxKeys (tr : α → Int) (vox : List α) (pts : List (Pt α)) : List (List Int) :=
  pts.map (voxKey tr vox (minp vox.length pts))

/-- `inverse_indices`: position of each point's key in the unique list -/
def inverseIdx (u keys : List (List Int)) : List Nat := keys.map fun key => u.idxOf key

/-- `voxels.index_add_(0, inverse, points)` on the zero tensor: running accumulator as an index function -/
def indexAdd (inv : List Nat) (pts : List (Pt α)) : Nat → Nat → α :=
  (inv.zip pts).foldl (fun acc ip => fun j c => if j = ip.1 then acc j c + ip.2.getD c (k 0) else acc j c)
    (fun _ _ => k 0)

/-- `counts.index_add_(0, inverse, ones)` -/
def indexCount (inv : List Nat) : Nat → α :=
  inv.foldl (fun acc i => fun j => if j = i then acc j + k 1 else acc j) (fun _ => k 0)

/-- centroid branch (`random=False`): `voxels /= counts` -/
def voxelFilter (tr : α → Int) (uniq : List (List Int) → List (List Int)) (vox : List α)
    (pts : List (Pt α)) : List (Pt α) :=
  let keys := voxKeys tr vox pts
  let u := uniq keys
  let inv := inverseIdx u keys
  let sums := indexAdd inv pts
  let cnt := indexCount (α := α) inv
  (List.range u.length).map fun j => (List.range (width pts)).map fun c => sums j c / cnt j

/-- exclusive prefix sums: `cumsum(counts) - counts` -/
def exclCumsum : List Nat → List Nat
  | [] => []
  | c :: cs => 0 :: (exclCumsum cs).map (· + c)

/-- member branch (`random=True`): `argsort` of the inverse indices, one draw `rnd[j] ∈ [0, counts[j])` per voxel,
`selected = rnd + cumsum(counts) - counts` -/
def voxelRandom (tr : α → Int) (uniq : List (List Int) → List (List Int)) (argsort : List Nat → List Nat)
    (rnd : List Nat) (vox : List α) (pts : List (Pt α)) : List (Pt α) :=
  let keys := voxKeys tr vox pts
  let u := uniq keys
  let inv := inverseIdx u keys
  let sorted := (argsort inv).map fun i => pts.getD i []
  let counts := u.map fun key => keys.count key
  let sel := List.zipWith (· + ·) rnd (exclCumsum counts)
  sel.map fun i => sorted.getD i []

/-! stand-ins for the driver -/

/-- lexicographic `<` on integer rows -/
def lexLt : List Int → List Int → Bool
  | [], [] => false
  | [], _ :: _ => true
  | _ :: _, [] => false
  | a :: as, b :: bs => if a < b then true else if b < a then false else lexLt as bs

def dedupSorted : List (List Int) → List (List Int)
  | [] => []
  | [a] => [a]
  | a :: b :: rest => if a == b then dedupSorted (b :: rest) else a :: dedupSorted (b :: rest)

/-- `torch.unique(dim=-2)` stand-in: sort lexicographically, drop repeats -/
def uniqStd (keys : List (List Int)) : List (List Int) :=
  dedupSorted (keys.mergeSort fun a b => !(lexLt b a))

/-- contract of `uniq` (checked per call by the driver): strictly increasing, same members -/
def uniqOk (keys u : List (List Int)) : Bool :=
  u.Pairwise (fun a b => lexLt a b = true) && keys.all (u.contains ·) && u.all (keys.contains ·)

/-- stable argsort stand-in -/
def argsortStd (xs : List Nat) : List Nat := (xs.zipIdx.mergeSort fun a b => decide (a.1 ≤ b.1)).map (·.2)


/-! ## call histories and batches

The functions of this file are pure: a sequence of calls a caller makes (possibly updating its tensors in place in
between — the model sees the values current at the time of the call) is the list of the single results, and a batched
call is the list of the per-item results.  The correspondence check runs such histories / batches against the real
code (`hist` stream, item-wise oracles); `history_stateless` / `batched_itemwise` are the clauses it compares with. -/

/-- one call of a history, with ALL its per-call arguments -/
inductive Call (α : Type)
  | nbr (o : Norm) (pdim : Nat) (radius : α) (n : Int) (pts : List (Pt α))
  | knnf (o : Norm) (pdim kk : Nat) (radius : Option α) (pts : List (Pt α))
  | voxel (vox : List α) (pts : List (Pt α))
  | randf (perm : List Nat) (num : Nat) (pts : List (Pt α))

def evalCall (topk : Bool → List α → Nat → List Nat) (tr : α → Int) (uniq : List (List Int) → List (List Int)) :
    Call α → Option (List (Pt α))
  | .nbr o pdim radius n pts => some (nbrFilter o pdim radius n pts)
  | .knnf o pdim kk radius pts => knnFilter topk o pdim kk radius pts
  | .voxel vox pts => some (voxelFilter tr uniq vox pts)
  | .randf perm num pts => randomFilter perm num pts

def runHistory (topk : Bool → List α → Nat → List Nat) (tr : α → Int) (uniq : List (List Int) → List (List Int))
    (h : List (Call α)) : List (Option (List (Pt α))) := h.map (evalCall topk tr uniq)

/-- `knn_filter` without radius on a batch `(B, N, D)` -/
def knnFilterBatch (topk : Bool → List α → Nat → List Nat) (o : Norm) (pdim kk : Nat)
    (clouds : List (List (Pt α))) : List (Option (List (Pt α))) := clouds.map (knnFilter topk o pdim kk none)

/-- `knn` on a batch of (reference, neighbour) cloud pairs -/
def knnBatch (topk : Bool → List α → Nat → List Nat) (o : Norm) (largest : Bool) (kk : Nat)
    (pairs : List (List (Pt α) × List (Pt α))) : List (Option (List (List α × List Nat))) :=
  pairs.map fun p => knn topk o largest kk p.1 p.2

/-! ## camera helpers -/

/-- `cart2homo`: append a one -/
def cart2homo (p : List α) : List α := p ++ [k 1]

/-- denominator of `homo2cart`: `pm(w) * |w|.clamp(min=tiny)` -/
def homoDen (tiny w : α) : α := spm w * smax (sabs w) tiny

/-- `homo2cart`: divide by the (clamped) last entry, drop it -/
def homo2cart (tiny : α) (p : List α) : List α :=
  let den := homoDen tiny (p.getLastD (k 0))
  p.dropLast.map (· / den)

/-- `point2pixel(points, intrinsics, extrinsics)` for one point: `homo2cart(K · (X · p))` -/
def point2pixel (tiny : α) (K : Mat3 α) (ext : Option (SE3 α)) (p : Vec3 α) : List α :=
  let pc := match ext with
    | none => p
    | some X => SE3Act X p
  homo2cart tiny (K.mulVec pc).toList

/-- `pixel2point(pixels, depth, intrinsics)` for one pixel; `none` models the failed `assert fx, fy != 0`.
Only `fx, fy, cx, cy` of the intrinsics are read. -/
def pixel2point (K : Mat3 α) (u v depth : α) : Option (Vec3 α) :=
  let fx := K.r0.x
  let fy := K.r1.y
  let cx := K.r0.z
  let cy := K.r1.z
  if Scalar.le fx (k 0) && Scalar.le (k 0) fx then none
  else if Scalar.le fy (k 0) && Scalar.le (k 0) fy then none
  else some ⟨((u - cx) * depth) / fx, ((v - cy) * depth) / fy, depth⟩

inductive Reduction | none | sum | norm
deriving DecidableEq, Repr, Inhabited

/-- `reprojerr(points, pixels, intrinsics, extrinsics, reduction)` for one point/pixel pair
(`'sum'` is the L1 norm after repair D17) -/
def reprojerr (tiny : α) (K : Mat3 α) (ext : Option (SE3 α)) (red : Reduction) (p : Vec3 α) (px : List α) : List α :=
  let e := vsub (point2pixel tiny K ext p) px
  match red with
  | .none => e
  | .sum => [sumL (e.map sabs)]
  | .norm => [Scalar.sqrt (sumL (e.map fun x => x * x))]


/-! ## the public entry points: argument defaulting, documented checks, dtype-dependent constants

`none` models a failed documented check (`assert`) or a kernel that raises; the cores above are what is left once the
arguments have been resolved.  These wrappers are what the driver ops `c18.api.*` run against the real calls. -/

inductive Dtype | f32 | f64 | f16 | bf16
deriving DecidableEq, Repr, Inhabited

/-- `torch.finfo(dtype).tiny`: `2⁻¹²⁶` (float32, bfloat16) / `2⁻¹⁰²²` (float64) / `2⁻¹⁴` (float16) -/
def finfoTiny : Dtype → α
  | .f32 => q 1 (2 ^ 126)
  | .f64 => q 1 (2 ^ 1022)
  | .f16 => q 1 (2 ^ 14)
  | .bf16 => q 1 (2 ^ 126)

/-- `pdim = points.size(-1) if pdim == None else pdim; assert points.size(-1) >= pdim`.  `D = points.size(-1)` is an
argument of its own: a list of rows forgets it for the empty cloud `(0, D)`. -/
def resolvePdim (pdim : Option Nat) (D : Nat) : Option Nat :=
  match pdim with
  | none => some D
  | some p => if D < p then none else some p

/-- `torch.linalg.norm(diff, dim=-1, ord)` raises for `ord = inf` over an EMPTY last dimension (`pdim = 0` or `D = 0`),
whatever the number of points; the 1- and 2-norm of the empty vector are `0` -/
def normRaises (o : Norm) (pd : Nat) : Bool :=
  match o with
  | .linf => pd == 0
  | _ => false

/-- `nbr_filter(points, nbr, radius, pdim=None, ord=2, return_mask=False)`: filtered cloud and, if asked for, the mask -/
def nbrFilterApi (D : Nat) (pts : List (Pt α)) (n : Int) (radius : α) (pdim : Option Nat) (o : Norm) (returnMask : Bool) :
    Option (List (Pt α) × Option (List Bool)) :=
  (resolvePdim pdim D).bind fun pd =>
    if normRaises o pd then none
    else some (nbrFilter o pd radius n pts, if returnMask then some (nbrMask o pd radius n pts) else none)

/-- `knn_filter(points, k, pdim=None, radius=None, ord=2)` -/
def knnFilterApi (topk : Bool → List α → Nat → List Nat) (D : Nat) (pts : List (Pt α)) (kk : Nat) (pdim : Option Nat)
    (radius : Option α) (o : Norm) : Option (List (Pt α)) :=
  (resolvePdim pdim D).bind fun pd => if normRaises o pd then none else knnFilter topk o pd kk radius pts

/-- `knn(ref, nbr, k, ord, dim=-1, largest, sorted=True)` on clouds of width `D` -/
def knnApi (topk : Bool → List α → Nat → List Nat) (D : Nat) (o : Norm) (largest : Bool) (kk : Nat)
    (ref nbr : List (Pt α)) : Option (List (List α × List Nat)) :=
  if normRaises o D then none else knn topk o largest kk ref nbr

/-- `random_filter(points, num)`: `assert points.size(-1) >= 1`, `assert num <= N` -/
def randomFilterApi (D : Nat) (perm : List Nat) (num : Nat) (pts : List (Pt α)) : Option (List (Pt α)) :=
  if D < 1 then none else randomFilter perm num pts

/-- `random_filter` on a batch `(B…, N, D)`: ONE draw of `randperm(N)` indexes every batch item -/
def randomFilterBatch (D : Nat) (perm : List Nat) (num : Nat) (clouds : List (List (Pt α))) : List (Option (List (Pt α))) :=
  clouds.map (randomFilterApi D perm num)

/-- is this scalar zero? (`item != 0`) -/
def isZero (x : α) : Bool := Scalar.le x (k 0) && Scalar.le (k 0) x

/-- `voxel_filter(points, voxel, random=False)`: `assert D >= vdim`, `assert all(item != 0)`; `torch.min` of an empty
cloud raises; `torch.unique(dim=-2)` of an `(N, 0)` index tensor raises (`voxel = []`); then the centroid or the member branch -/
def voxelFilterApi (tr : α → Int) (uniq : List (List Int) → List (List Int)) (argsort : List Nat → List Nat)
    (rnd : List Nat) (D : Nat) (pts : List (Pt α)) (vox : List α) (random : Bool) : Option (List (Pt α)) :=
  if D < vox.length then none
  else if vox.any isZero then none
  else if pts.isEmpty then none
  else if vox.isEmpty then none
  else some (if random then voxelRandom tr uniq argsort rnd vox pts else voxelFilter tr uniq vox pts)

/-- `homo2cart` with the dtype's own `tiny` -/
def homo2cartApi (dt : Dtype) (p : List α) : List α := homo2cart (finfoTiny dt) p

/-- `point2pixel(points, intrinsics, extrinsics=None)` with the dtype's own `tiny` -/
def point2pixelApi (dt : Dtype) (K : Mat3 α) (ext : Option (SE3 α)) (p : Vec3 α) : List α :=
  point2pixel (finfoTiny dt) K ext p

/-- `reprojerr(points, pixels, intrinsics, extrinsics=None, reduction='none')`; `none` = failed `assert reduction in …` -/
def reprojerrApi (dt : Dtype) (K : Mat3 α) (ext : Option (SE3 α)) (reduction : String) (p : Vec3 α) (px : List α) :
    Option (List α) :=
  match reduction with
  | "none" => some (reprojerr (finfoTiny dt) K ext .none p px)
  | "sum" => some (reprojerr (finfoTiny dt) K ext .sum p px)
  | "norm" => some (reprojerr (finfoTiny dt) K ext .norm p px)
  | _ => none



/-! ## `knn(…, sorted=False)`: `topk` returns the `k` smallest (largest) in an unspecified order -/

/-- contract of `topk(k, largest, sorted=False)` on the returned indices: `topkOk` without the order clause -/
def topkOkUnsorted (largest : Bool) (vals : List α) (kk : Nat) (idx : List Nat) : Bool :=
  idx.length == kk
  && idx.all (fun i => decide (i < vals.length))
  && idx.Nodup
  && idx.all (fun i => (List.range vals.length).all fun j =>
        idx.contains j || leB largest (vals.getD i (k 0)) (vals.getD j (k 0)))

/-- the `knn` entry point with its `sorted` flag: `topk` is the sorted kernel, `topkU` the unsorted one -/
def knnApiS (topk topkU : Bool → List α → Nat → List Nat) (D : Nat) (o : Norm) (largest sorted : Bool) (kk : Nat)
    (ref nbr : List (Pt α)) : Option (List (List α × List Nat)) :=
  if sorted then knnApi topk D o largest kk ref nbr else knnApi topkU D o largest kk ref nbr

/-! ## camera helpers on batches: torch broadcasting of `points (bp…, n, 3)`, `intrinsics (bk…, 3, 3)`, `extrinsics (be…, 7)`,
`pixels (bp…, n, 2)`, `depth (bd…, n)` (C06's `Batch.broadcastShapes` / `Batch.proj`); `none` = the shapes do not broadcast -/

def bcast3 (a b c : Batch.Shape) : Option Batch.Shape := (Batch.broadcastShapes a b).bind fun ab => Batch.broadcastShapes ab c

/-- `point2pixel(points, intrinsics, extrinsics)`: item `i` of the broadcast batch projects the `n` points of
`points[proj i]` with `intrinsics[proj i]` and `extrinsics[proj i]` -/
def point2pixelBatch (dt : Dtype) (pts : Batch.T (List (Vec3 α))) (K : Batch.T (Mat3 α)) (ext : Option (Batch.T (SE3 α))) :
    Option (Batch.T (List (List α))) :=
  match ext with
  | none => (Batch.broadcastShapes pts.shape K.shape).map fun out =>
      ⟨out, fun kx => let i := Batch.unravel out kx
        (pts.get (Batch.proj pts.shape i)).map (point2pixelApi dt (K.get (Batch.proj K.shape i)) none)⟩
  | some E => (bcast3 pts.shape K.shape E.shape).map fun out =>
      ⟨out, fun kx => let i := Batch.unravel out kx
        (pts.get (Batch.proj pts.shape i)).map
          (point2pixelApi dt (K.get (Batch.proj K.shape i)) (some (E.get (Batch.proj E.shape i))))⟩

/-- `pixel2point(pixels, depth, intrinsics)`: `assert depth.size(-1) == pixels.size(-2)`; item `i` un-projects pixel `j` of
`pixels[proj i]` with depth `depth[proj i][j]` and `intrinsics[proj i]`; `none` also when a focal length is zero anywhere -/
def pixel2pointBatch (px : Batch.T (List (α × α))) (depth : Batch.T (List α)) (K : Batch.T (Mat3 α)) :
    Option (Batch.T (List (Option (Vec3 α)))) :=
  (bcast3 px.shape depth.shape K.shape).map fun out =>
    ⟨out, fun kx => let i := Batch.unravel out kx
      List.zipWith (fun (uv : α × α) d => pixel2point (K.get (Batch.proj K.shape i)) uv.1 uv.2 d)
        (px.get (Batch.proj px.shape i)) (depth.get (Batch.proj depth.shape i))⟩

end PP.Cloud
